/-
  Representation-level assemblers: erasing the refused calls from a history (the twin of Lemmas/TypedAssemblerErase.lean
  for the machine of Model/ReprAssembler.lean).
-/
import IpldModel.Lemmas.ReprAssembler
namespace Ipld
namespace RAsm
open Ipld.Asm (Op Out ErrClass)
open Ipld.TAsm (Call)

/-- `eraseFrom e s pend h`: the accepted calls of `h` (run from `s`).  Every call that is refused is dropped.  An
    accepted `AssembleKey` is held back in `pend` until the key assembler it returned has either accepted a key (then it
    is emitted, followed by that call) or ended by refusing one (a repeated key; a key that cannot get a value under
    `unknownAtKey`) - then it is dropped too, because the map / struct assembler is back where it was before the
    `AssembleKey`.  Wrong-kind refusals by the key assembler leave it waiting. -/
def eraseFrom (e : Engine) (s : St) (pend : List Op) : List Op → List Op
  | [] => pend
  | op :: ops =>
    match step e s op with
    | (s', .ok) =>
        if op = .assembleKey then pend ++ eraseFrom e s' [op] ops
        else pend ++ op :: eraseFrom e s' [] ops
    | (s', .err _) =>
        if inKey s && !inKey s' then eraseFrom e s' [] ops else eraseFrom e s' pend ops
    | (s', .panic) => eraseFrom e s' pend ops

/-- the history with every refused call (and every `AssembleKey` whose key assembler ended by a refusal) erased -/
def erase (e : Engine) (s : St) (h : List Op) : List Op := eraseFrom e s [] h

theorem eraseFrom_cons_ok_key {e : Engine} {s s' : St} {pend ops} (h : step e s .assembleKey = (s', .ok)) :
    eraseFrom e s pend (.assembleKey :: ops) = pend ++ eraseFrom e s' [.assembleKey] ops := by
  simp only [eraseFrom, h, if_true]

theorem eraseFrom_cons_ok {e : Engine} {s s' : St} {op : Op} {pend ops} (h : step e s op = (s', .ok))
    (hop : op ≠ .assembleKey) :
    eraseFrom e s pend (op :: ops) = pend ++ op :: eraseFrom e s' [] ops := by
  simp only [eraseFrom, h, if_neg hop]

theorem eraseFrom_cons_err_reset {e : Engine} {s s' : St} {op : Op} {c : ErrClass} {pend ops}
    (h : step e s op = (s', .err c)) (h1 : inKey s = true) (h2 : inKey s' = false) :
    eraseFrom e s pend (op :: ops) = eraseFrom e s' [] ops := by
  simp [eraseFrom, h, h1, h2]

theorem eraseFrom_cons_err_same {e : Engine} {s s' : St} {op : Op} {c : ErrClass} {pend ops}
    (h : step e s op = (s', .err c)) (h1 : inKey s' = inKey s) :
    eraseFrom e s pend (op :: ops) = eraseFrom e s' pend ops := by
  simp only [eraseFrom, h, h1]
  cases inKey s <;> simp

/-- `PendOk e s0 pend s`: `pend` is what `eraseFrom` is holding back in state `s`, and `s0` is the state from which
    running `pend` gives `s`. -/
inductive PendOk (e : Engine) : St → List Op → St → Prop
  | none {s : St} : inKey s = false → PendOk e s [] s
  | key {s0 s : St} : KeyReset s s0 → s.tainted = false → PendOk e s0 [.assembleKey] s

theorem PendOk.runs {e : Engine} {s0 s : St} {pend : List Op} (h : PendOk e s0 pend s) : Runs e s0 pend s := by
  cases h with
  | none _ => exact Runs.nil e _
  | key hr ht => exact Runs.single (step_assembleKey_of_keyReset hr ht)

theorem eraseFrom_runs {e : Engine} {s0 s : St} {pend : List Op} (h : List Op) (hp : PendOk e s0 pend s)
    (hn : Out.panic ∉ (run e s h).2) (ht : (run e s h).1.tainted = false) :
    Runs e s0 (eraseFrom e s pend h) (run e s h).1 := by
  induction h generalizing s0 s pend with
  | nil => exact hp.runs
  | cons op ops ih =>
    cases hs : step e s op with
    | mk s' o =>
      cases o with
      | ok =>
        rw [run_cons_ok ops hs] at hn ht ⊢
        have hn' : Out.panic ∉ (run e s' ops).2 := fun hm => hn (List.mem_cons_of_mem _ hm)
        by_cases hop : op = .assembleKey
        · subst hop
          obtain ⟨hr, hk⟩ := step_assembleKey_ok hs
          rw [eraseFrom_cons_ok_key hs]
          have hts' : s'.tainted = false := by
            rw [hr.tainted.symm]
            exact step_ok_not_tainted hs (by intro e; cases e)
          cases hp with
          | none _ => exact ih (PendOk.key hr hts') hn' ht
          | key hr0 _ => rw [hr0.inKey] at hk; cases hk
        · rw [eraseFrom_cons_ok hs hop]
          exact Runs.append hp.runs
            (Runs.cons hs (ih (PendOk.none (step_ok_not_inKey hs hop)) hn' ht))
      | err c =>
        rw [run_cons_err ops hs] at hn ht ⊢
        have hn' : Out.panic ∉ (run e s' ops).2 := fun hm => hn (List.mem_cons_of_mem _ hm)
        rcases step_err hs with h1 | h1 | ⟨_, h1, _⟩
        · subst h1
          rw [eraseFrom_cons_err_same hs rfl]
          exact ih hp hn' ht
        · rw [eraseFrom_cons_err_reset hs h1.inKey h1.not_inKey]
          cases hp with
          | none hk => rw [h1.inKey] at hk; cases hk
          | key hr0 _ =>
            have := KeyReset.unique hr0 h1
            subst this
            exact ih (PendOk.none h1.not_inKey) hn' ht
        · exfalso
          have htt : s'.tainted = true := by rw [h1]
          rw [run_tainted htt] at ht
          rw [htt] at ht
          cases ht
      | panic =>
        rw [run_cons_panic ops hs] at hn
        simp at hn

theorem eraseFrom_sublist (e : Engine) (s : St) (pend h : List Op) :
    (eraseFrom e s pend h).Sublist (pend ++ h) := by
  induction h generalizing s pend with
  | nil => simp [eraseFrom]
  | cons op ops ih =>
    have hdrop : ∀ l : List Op, l.Sublist (pend ++ ops) → l.Sublist (pend ++ op :: ops) := by
      intro l hl
      exact hl.trans (List.Sublist.append_left (List.sublist_cons_self op ops) pend)
    cases hs : step e s op with
    | mk s' o =>
      cases o with
      | ok =>
        by_cases hop : op = .assembleKey
        · subst hop
          rw [eraseFrom_cons_ok_key hs]
          exact List.Sublist.append_left (ih s' [.assembleKey]) pend
        · rw [eraseFrom_cons_ok hs hop]
          exact List.Sublist.append_left ((ih s' []).cons_cons op) pend
      | err c =>
        simp only [eraseFrom, hs]
        split
        · exact hdrop _ ((ih s' []).trans (List.sublist_append_right pend ops))
        · exact hdrop _ (ih s' pend)
      | panic =>
        simp only [eraseFrom, hs]
        exact hdrop _ (ih s' pend)

end RAsm
end Ipld
