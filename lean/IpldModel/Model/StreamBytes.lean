/-
  Model of stream-backed bytes nodes (`node/basicnode/bytes_stream.go`, C11 / C20): one underlying
  `io.ReadSeeker` (content + ONE cursor) shared by any number of read views, each with an offset of its
  own.  Every `Read` of a view first seeks the shared cursor to the view's offset; `Seek(_, End)` moves
  the shared cursor to learn the length.  `AsBytes` reads everything through a fresh view.
  The underlying reader is `bytes.Reader`-like: `Read(p)` delivers `min(len p, remaining)` bytes (the
  harness's streams are of that kind); an underlying reader that delivers fewer bytes per call only
  changes how many calls a caller needs, not what is delivered in total.
-/
import IpldModel.Model.DM
namespace Ipld
namespace StreamBytes

/-- the shared underlying stream: its content and its single cursor -/
structure Shared where
  content : Bytes
  pos : Nat := 0
  deriving Repr, DecidableEq

inductive Whence where
  | start | current | end_
  deriving Repr, DecidableEq

/-- one call on one view -/
inductive Op where
  | read (n : Nat)                      -- Read(p) with len(p) = n
  | seek (offset : Int) (w : Whence)
  | asBytes                             -- the NODE's AsBytes, issued while this view exists (uses a view of its own)
  deriving Repr, DecidableEq

inductive Out where
  | bytes (b : Bytes) (eof : Bool)      -- what Read delivered; eof = (0, io.EOF)
  | pos (p : Nat)                       -- Seek's answer
  | err                                 -- negative position
  deriving Repr, DecidableEq

/-- `streamBytesView.Read`: seek the shared cursor to this view's offset, read, advance the offset -/
def viewRead (sh : Shared) (off n : Nat) : Shared × Nat × Out :=
  let chunk := (sh.content.drop off).take n
  let eof := decide (sh.content.length ≤ off) && decide (0 < n)
  ({ sh with pos := off + chunk.length }, off + chunk.length, .bytes chunk eof)

/-- `streamBytesView.Seek` -/
def viewSeek (sh : Shared) (off : Nat) (offset : Int) : Whence → Shared × Nat × Out
  | .start => if offset < 0 then (sh, off, .err) else (sh, offset.toNat, .pos offset.toNat)
  | .current =>
    let t := offset + off
    if t < 0 then (sh, off, .err) else (sh, t.toNat, .pos t.toNat)
  | .end_ =>
    -- the underlying bytes.Reader refuses a negative resulting position, else moves its cursor there
    let t := offset + sh.content.length
    if t < 0 then (sh, off, .err) else ({ sh with pos := t.toNat }, t.toNat, .pos t.toNat)

/-- `streamBytes.AsBytes`: io.ReadAll through a fresh view (offset 0) -/
def asBytes (sh : Shared) : Shared × Bytes := ({ sh with pos := sh.content.length }, sh.content)

/-- the state: the shared stream and the offsets of the views handed out so far -/
structure St where
  sh : Shared
  views : List Nat
  deriving Repr, DecidableEq

def setAt (l : List Nat) (i : Nat) (v : Nat) : List Nat :=
  match l, i with
  | [], _ => []
  | _ :: t, 0 => v :: t
  | h :: t, i + 1 => h :: setAt t i v

/-- one step: view `i` performs `op` (a view index that does not exist is a no-op answering `err`) -/
def step (s : St) (i : Nat) (op : Op) : St × Out :=
  match s.views[i]? with
  | none => (s, .err)
  | some off =>
    match op with
    | .read n => let (sh', off', o) := viewRead s.sh off n; ({ sh := sh', views := setAt s.views i off' }, o)
    | .seek d w => let (sh', off', o) := viewSeek s.sh off d w; ({ sh := sh', views := setAt s.views i off' }, o)
    | .asBytes => let (sh', b) := asBytes s.sh; ({ s with sh := sh' }, .bytes b false)

def run (s : St) : List (Nat × Op) → List Out
  | [] => []
  | (i, op) :: rest => let (s', o) := step s i op; o :: run s' rest

/-- the calls of view `i` only -/
def projection (sched : List (Nat × Op)) (i : Nat) : List (Nat × Op) := sched.filter (·.1 == i)

/-- the answers given to view `i` in a run -/
def answersOf (s : St) : List (Nat × Op) → Nat → List Out
  | [], _ => []
  | (j, op) :: rest, i =>
    let (s', o) := step s j op
    if j == i then o :: answersOf s' rest i else answersOf s' rest i

end StreamBytes
end Ipld
