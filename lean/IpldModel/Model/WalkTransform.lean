/-
  Model of the selector-driven transform `traversal.WalkTransforming` (`traversal/walk.go`:
  `walkTransforming`, `walk_transform_iterateList`, `walk_transform_iterateMap`, `contains`), DESIGN §5 C16.
  Core Lean only.

  The Go code, statement by statement, and where it is here:

      walkTransforming(n, s, fn):
        checkNodeBudget                                   `Walk.checkNode`          (test, then decrement)
        reify                                             no ADL is configured in the modelled link system: a selector
                                                          that needs one fails, as in `Walk.walkAdv`
        if s.Decide(n) { new_n := fn(prog, n)             `decideNode`, the callback `fn path n`, logged as an event
          err → return err                                `FnRes.fail`
          new_n != n → return new_n }                     `FnRes.replace d`: returned as it is, NO descent into it
        list → walk_transform_iterateList(n, s, fn, s.Interests())          `iterate … (children n)` + `rebuild`
        map  → walk_transform_iterateMap (n, s, fn, s.Interests())
        else → n

      walk_transform_iterate{List,Map}: a builder of the node's own prototype; for every (ps, v) of the SEGMENT ITERATOR
      (int segments for a list, string segments for a map; a map key is assembled from `ps.String()`):
        attn == nil || contains(attn, ps)                 `attended`   (`contains` compares with `PathSegment.Equals`)
          sNext := s.Explore(n, ps)   (error → return)    `Sel.explore`
          sNext != nil:
            v is a link:
              LinkVisitOnlyOnce: seen → assign v itself; else remember it in the SHARED SeenLinks     ⎫
              loadLink: checkLinkBudget, then the loader: SkipMe → assign v itself; error → return   ⎬ `loadStep`
              v = the loaded block   (the block is then INLINED in the rebuilt container)              ⎭
            next := walkTransforming(v, sNext, fn) at path ++ [ps]; assign next
          else assign v
        else assign v

  The two iterate functions differ only in the builder; they share `tChild` (the loop body) and `iterate` (the loop).

  Modelling decisions:
    * the callback is a pure function of (path, node) with three answers (`FnRes`): `same` = it returned the node
      it was given (Go: `new_n == n`, an interface comparison, i.e. pointer identity for basicnode values),
      `replace d` = it returned another node, `fail` = it returned an error.  A callback that returns a nil node
      with a nil error is outside the callback's contract and not modelled.
    * shared state is `Walk.St`, threaded exactly as the walk model threads it: the `*Budget`, the `SeenLinks` map (one
      set for the whole transform: all levels of the recursion see the same one), and the observer's log.  The log gets a
      `.visit path n .matched` event for every call of `fn` and a `.load c` event for every request to the loader, so the
      result can be compared with `Walk.walk` event by event.
    * `StartAtPath` is not read by `walkTransforming`, and is not read here.
    * a map with a repeated key cannot be built, so the `AssembleKey` of a second equal key (an error in Go) does not occur;
      the model rebuilds whatever keys it is given.  Theorems that need duplicate-free maps say so.
    * recursion through links is not structural: `walkT` takes fuel, one unit per level of `walkTransforming`
      (`.error (.walk .fuel)` when it runs out; the theorems are stated for every fuel).
-/
import IpldModel.Model.Walk
namespace Ipld
namespace WalkT
open Sel Walk

/-! ## `Selector.Decide` -/

mutual
/-- `s.Decide(n)`: a matcher always decides `true` (also one with a subset clause, which `Match` may then
    refuse); a union decides if a member does; a recursion asks its current selector -/
def decideNode : S → DM → Bool
  | .matcher _, _ => true
  | .union ms, n => decideList ms n
  | .recursive _ cur _ _, n => decideNode cur n
  | _, _ => false
def decideList : SList → DM → Bool
  | .nil, _ => false
  | .cons s r, n => decideNode s n || decideList r n
end

/-! ## the callback, outcomes -/

/-- what the `TransformFn` answered -/
inductive FnRes where
  | same                 -- the node it was given (`new_n == n`)
  | replace (d : DM)     -- another node
  | fail                 -- an error
  deriving DecidableEq, Repr

abbrev TFn := Path → DM → FnRes

inductive TErr where
  | walk (e : Walk.Err)  -- budget, load, selector, reify, panic, fuel: as in the walk
  | callback             -- the error the callback returned
  deriving DecidableEq, Repr

/-- shared state afterwards, and the node returned (or the error) -/
abbrev TR := St × Except TErr DM

/-- `contains(interest, candidate)` -/
def contains (attn : List Seg) (ps : Seg) : Bool := attn.any fun i => i.equals ps

/-- `attn == nil || contains(attn, ps)` -/
def attended (attn : Option (List Seg)) (ps : Seg) : Bool :=
  match attn with
  | none => true
  | some l => contains l ps

/-- the link part of the loop body: `LinkVisitOnlyOnce` against the shared `SeenLinks`, then `loadLink`
    (`checkLinkBudget`, then the loader, which may answer `SkipMe`).  New state, and an error, or `none` (the link
    stays in place) or the loaded block.  The same steps, in the same order, as in `Walk.exploreChild`. -/
def loadStep (cfg : Cfg) (c : Bytes) (st : St) : St × Except Err (Option DM) :=
  if cfg.linkOnce && st.seen.contains c then (st, .ok none) else
  let st1 := if cfg.linkOnce then { st with seen := c :: st.seen } else st
  match checkLink st1 with
  | .error e => (st1, .error e)
  | .ok st2 =>
    let st3 := { st2 with events := .load c :: st2.events }
    if cfg.skip.contains c then (st3, .ok none) else
    match storeGet cfg.store c with
    | none => (st3, .error .load)
    | some blk => (st3, .ok (some blk))

/-- the body of one loop iteration (after the key, for a map): the node assigned as this entry's value.
    `rec` is `walkTransforming` one level down. -/
def tChild (cfg : Cfg) (rec : Path → DM → S → St → TR) (path : Path) (n : DM) (s : S) (attn : Option (List Seg))
    (ps : Seg) (v : DM) (st : St) : TR :=
  if attended attn ps then
    match explore s n ps with
    | .error .panic => (st, .error (.walk .panic))
    | .error .error => (st, .error (.walk .selector))
    | .ok none => (st, .ok v)
    | .ok (some sNext) =>
      match v with
      | .link c =>
        match loadStep cfg c st with
        | (st', .error e) => (st', .error (.walk e))
        | (st', .ok none) => (st', .ok v)               -- seen before, or SkipMe: the link itself stays in place
        | (st', .ok (some blk)) => rec (path ++ [ps]) blk sNext st'
      | _ => rec (path ++ [ps]) v sNext st
  else (st, .ok v)

/-- the loop over the segment iterator: every entry keeps its segment and gets the value `step` assigns -/
def iterate (step : Seg → DM → St → TR) : List (Seg × DM) → St → St × Except TErr (List (Seg × DM))
  | [], st => (st, .ok [])
  | (ps, v) :: rest, st =>
    match step ps v st with
    | (st', .error e) => (st', .error e)
    | (st', .ok v') =>
      match iterate step rest st' with
      | (st'', .error e) => (st'', .error e)
      | (st'', .ok out) => (st'', .ok ((ps, v') :: out))

/-- what the builder holds after `Finish`: a list of the values; a map of `ps.String()` ↦ value; in order -/
def rebuild (n : DM) (out : List (Seg × DM)) : DM :=
  match n with
  | .map _ => .map (DMKVs.ofList (out.map fun x => (x.1.toString, x.2)))
  | _ => .list (DMs.ofList (out.map (·.2)))

/-- `walk_transform_iterateList` / `walk_transform_iterateMap` -/
def iterateNode (cfg : Cfg) (rec : Path → DM → S → St → TR) (path : Path) (n : DM) (s : S) (st : St) : TR :=
  match iterate (tChild cfg rec path n s (interests s)) (children n) st with
  | (st', .error e) => (st', .error e)
  | (st', .ok out) => (st', .ok (rebuild n out))

/-- the part of `walkTransforming` after the callback -/
def descend (cfg : Cfg) (rec : Path → DM → S → St → TR) (path : Path) (n : DM) (s : S) (st : St) : TR :=
  if isRecursive n then iterateNode cfg rec path n s st else (st, .ok n)

/-- the event logged for a call of the callback -/
def callEvent (path : Path) (n : DM) : Event := .visit path n .matched

/-- everything of `walkTransforming` after the budget check, given the function for the level below -/
def tBody (cfg : Cfg) (fn : TFn) (rec : Path → DM → S → St → TR) (path : Path) (n : DM) (s : S) (st1 : St) : TR :=
  match s with
  | .interpretAs _ _ => (st1, .error (.walk .reify))
  | _ =>
    if decideNode s n then
      let st2 : St := { st1 with events := callEvent path n :: st1.events }
      match fn path n with
      | .fail => (st2, .error .callback)
      | .replace d => (st2, .ok d)
      | .same => descend cfg rec path n s st2
    else descend cfg rec path n s st1

/-- `Progress.walkTransforming` -/
def walkT (cfg : Cfg) (fn : TFn) : Nat → Path → DM → S → St → TR
  | 0, _, _, _, st => (st, .error (.walk .fuel))
  | fuel + 1, path, n, s, st =>
    match checkNode st with
    | .error e => (st, .error (.walk e))
    | .ok st1 => tBody cfg fn (walkT cfg fn fuel) path n s st1

structure Result where
  events : List Event            -- in the order they happened
  outcome : Except TErr DM
  st : St

/-- `Progress.WalkTransforming` from the root -/
def run (cfg : Cfg) (fn : TFn) (fuel : Nat) (nodeBudget linkBudget : Option Int) (root : DM) (s : S) : Result :=
  let (st, r) := walkT cfg fn fuel [] root s { nodeBudget := nodeBudget, linkBudget := linkBudget }
  { events := st.events.reverse, outcome := r, st := st }

/-- the calls of the callback: where, and with which node -/
def callsOf (es : List Event) : List (Path × DM) := matchesOf es

/-- the transform functions of the harness: the identity, and the successor of every small int -/
def fnId : TFn := fun _ _ => .same

def fnSucc : TFn := fun _ d =>
  match d with
  | .int i => if i < 1099511627776 ∧ i > -1099511627776 then .replace (.int (i + 1)) else .same
  | _ => .same

end WalkT
end Ipld
