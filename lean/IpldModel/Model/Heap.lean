/-
  Heap-level model of basicnode's map and list builders (`node/basicnode/map.go`, `list.go`,
  `any.go`), DESIGN §3 and §5 C11/C20.  Core Lean only.

  What the pure assembler model (Model/Assembler.lean) erases is kept here: container nodes are heap
  objects with identities; `plainMap.t` and `plainList.x` are Go slices — a header (array, len, cap)
  over a backing array, so that `append` writes in place while there is capacity; `plainMap.m` is a
  Go map object; `*na.w = *v2` copies headers, so two nodes may share a backing array and a map;
  a builder points at the node it is working on until it is finished.  Immutability is then a real
  statement: no step writes a cell that a finished node can read.
-/
import IpldModel.Model.Assembler
namespace Ipld
namespace Heap
open Asm

/-- a reference to a node: scalars are immutable boxed values; containers live on the heap -/
inductive NRef where
  | scalar (d : DM)
  | obj (id : Nat)
  deriving Repr, DecidableEq, Inhabited

structure Slice where
  arr : Nat
  len : Nat
  cap : Nat
  deriving Repr, DecidableEq, Inhabited

/-- one cell of a backing array: a map entry (key, value once assigned) or a list item -/
inductive Cell where
  | empty
  | entry (k : Bytes) (v : Option NRef)
  | item (v : NRef)
  deriving Repr, DecidableEq, Inhabited

inductive Obj where
  | map (t : Slice) (m : Nat)        -- entry table + lookup map
  | list (x : Slice)
  deriving Repr, DecidableEq, Inhabited

structure H where
  objs : List Obj := []
  arrs : List (List Cell) := []
  gomaps : List (List (Bytes × NRef)) := []
  finished : List Nat := []            -- ids of objects some builder has returned / stored as a value
  deriving Repr, Inhabited

/-- a location that a step writes -/
inductive Loc where
  | arrCell (arr idx : Nat)
  | gomap (m : Nat)
  | objHdr (id : Nat)
  deriving Repr, DecidableEq

/-! ### allocation and primitive writes (each returns the locations it wrote) -/

def allocArr (h : H) (cap : Nat) : H × Nat :=
  ({ h with arrs := h.arrs ++ [List.replicate cap .empty] }, h.arrs.length)

def allocGomap (h : H) : H × Nat := ({ h with gomaps := h.gomaps ++ [[]] }, h.gomaps.length)

def allocObj (h : H) (o : Obj) : H × Nat := ({ h with objs := h.objs ++ [o] }, h.objs.length)

def setAt {α : Type} (l : List α) (i : Nat) (x : α) : List α := l.mapIdx fun j y => if j = i then x else y

def writeCell (h : H) (arr idx : Nat) (c : Cell) : H :=
  { h with arrs := setAt h.arrs arr (setAt (h.arrs.getD arr []) idx c) }

/-- Go `append(s, c)`: in place while there is capacity, otherwise a fresh array (old cells copied) -/
def appendSlice (h : H) (s : Slice) (c : Cell) : H × Slice × List Loc :=
  if s.len < s.cap then
    (writeCell h s.arr s.len c, { s with len := s.len + 1 }, [.arrCell s.arr s.len])
  else
    let newCap := if s.cap = 0 then 1 else 2 * s.cap
    let old := (h.arrs.getD s.arr []).take s.len
    let (h1, a) := allocArr h newCap
    let h2 := { h1 with arrs := setAt h1.arrs a (old ++ [c] ++ List.replicate (newCap - s.len - 1) .empty) }
    (h2, { arr := a, len := s.len + 1, cap := newCap }, [])     -- only freshly allocated cells are written

def setObj (h : H) (id : Nat) (o : Obj) : H := { h with objs := setAt h.objs id o }

def gomapInsert (h : H) (m : Nat) (k : Bytes) (v : NRef) : H :=
  { h with gomaps := setAt h.gomaps m (((h.gomaps.getD m []).filter fun e => e.1 ≠ k) ++ [(k, v)]) }

/-! ### the builder: a stack of frames over heap objects -/

inductive HFrame where
  | map (id : Nat) (phase : MPhase)
  | list (id : Nat) (phase : LPhase)
  deriving Repr, DecidableEq

structure HSt where
  h : H := {}
  frames : List HFrame := []
  root : Option NRef := none
  written : List Loc := []       -- everything written so far (most recent first): the history of writes
  deriving Repr

inductive HOp where
  | beginMap (hint : Int)
  | beginList (hint : Int)
  | assembleKey
  | assembleValue
  | assembleEntry (k : Bytes)
  | keyString (k : Bytes)
  | assignScalar (d : DM)
  | assignNode (r : NRef)              -- a finished node, stored by reference
  | assignNodeShortcut (src : Nat)     -- root Map/List builder given a node of its own implementation: `*na.w = *v2`
  | finish
  | reset                              -- Builder.Reset(): forget everything, start on a fresh node
  deriving Repr

def hintCap (hint : Int) : Nat := if hint < 0 then 0 else hint.toNat

/-- deliver a finished value into the current value position -/
def hdeliver (st : HSt) (v : NRef) : HSt :=
  match st.frames with
  | [] => { st with root := some v }
  | .map id .midValue :: rest =>
    match st.h.objs.getD id default with
    | .map t m =>
      match (st.h.arrs.getD t.arr []).getD (t.len - 1) .empty with
      | .entry k _ =>
        let h1 := writeCell st.h t.arr (t.len - 1) (.entry k (some v))
        let h2 := gomapInsert h1 m k v
        { st with h := h2, frames := .map id .init :: rest, written := [.arrCell t.arr (t.len - 1), .gomap m] ++ st.written }
      | _ => st
    | _ => st
  | .list id .midValue :: rest =>
    match st.h.objs.getD id default with
    | .list x =>
      let (h1, x', w) := appendSlice st.h x (.item v)
      { st with h := setObj h1 id (.list x'), frames := .list id .init :: rest, written := w ++ [.objHdr id] ++ st.written }
    | _ => st
  | _ => st

def gomapHas (h : H) (m : Nat) (k : Bytes) : Bool := (h.gomaps.getD m []).any fun e => e.1 = k

/-- One builder call at heap level (misuse leaves the state unchanged: no claim). -/
def hstep (st : HSt) (op : HOp) : HSt :=
  match op with
  | .reset => { st with frames := [], root := none }
  | _ =>
  match st.frames, op with
  -- value positions: the root builder (nothing built yet) or a container's value assembler
  | [], .beginMap hint | .map _ .midValue :: _, .beginMap hint | .list _ .midValue :: _, .beginMap hint =>
    if st.frames.isEmpty && st.root.isSome then st else
    let (h1, a) := allocArr st.h (hintCap hint)
    let (h2, m) := allocGomap h1
    let (h3, id) := allocObj h2 (.map { arr := a, len := 0, cap := hintCap hint } m)
    { st with h := h3, frames := .map id .init :: st.frames }
  | [], .beginList hint | .map _ .midValue :: _, .beginList hint | .list _ .midValue :: _, .beginList hint =>
    if st.frames.isEmpty && st.root.isSome then st else
    let (h1, a) := allocArr st.h (hintCap hint)
    let (h2, id) := allocObj h1 (.list { arr := a, len := 0, cap := hintCap hint })
    { st with h := h2, frames := .list id .init :: st.frames }
  | [], .assignScalar d | .map _ .midValue :: _, .assignScalar d | .list _ .midValue :: _, .assignScalar d =>
    if st.frames.isEmpty && st.root.isSome then st else hdeliver st (.scalar d)
  | [], .assignNode r | .map _ .midValue :: _, .assignNode r | .list _ .midValue :: _, .assignNode r =>
    if st.frames.isEmpty && st.root.isSome then st else hdeliver st r
  | [], .assignNodeShortcut src =>
    if st.root.isSome then st else
    -- a fresh node whose header is a copy of the source's: it shares the backing array and the map
    let (h1, id) := allocObj st.h (st.h.objs.getD src default)
    { st with h := { h1 with finished := id :: h1.finished }, root := some (.obj id) }
  -- map assembler
  | .map id .init :: rest, .assembleKey => { st with frames := .map id .midKey :: rest }
  | .map id .init :: rest, .assembleEntry k =>
    (match st.h.objs.getD id default with
    | .map t m =>
      if gomapHas st.h m k then st else
      let (h1, t', w) := appendSlice st.h t (.entry k none)
      { st with h := setObj h1 id (.map t' m), frames := .map id .midValue :: rest, written := w ++ [.objHdr id] ++ st.written }
    | _ => st)
  | .map id .midKey :: rest, .keyString k =>
    (match st.h.objs.getD id default with
    | .map t m =>
      if gomapHas st.h m k then { st with frames := .map id .init :: rest } else
      let (h1, t', w) := appendSlice st.h t (.entry k none)
      { st with h := setObj h1 id (.map t' m), frames := .map id .expectValue :: rest, written := w ++ [.objHdr id] ++ st.written }
    | _ => st)
  | .map id .expectValue :: rest, .assembleValue => { st with frames := .map id .midValue :: rest }
  | .map id .init :: rest, .finish =>
    hdeliver { st with h := { st.h with finished := id :: st.h.finished }, frames := rest } (.obj id)
  -- list assembler
  | .list id .init :: rest, .assembleValue => { st with frames := .list id .midValue :: rest }
  | .list id .init :: rest, .finish =>
    hdeliver { st with h := { st.h with finished := id :: st.h.finished }, frames := rest } (.obj id)
  | _, _ => st

def hrun (st : HSt) : List HOp → HSt
  | [] => st
  | op :: ops => hrun (hstep st op) ops

/-! ### reading a node: the abstraction to data-model values -/

def sliceCells (h : H) (s : Slice) : List Cell := (h.arrs.getD s.arr []).take s.len

/-- what a reader of the node sees (fuel bounds the depth; heaps built by builders are acyclic) -/
def absRef (h : H) : Nat → NRef → DM
  | _, .scalar d => d
  | 0, .obj _ => .null
  | fuel + 1, .obj id =>
    match h.objs.getD id default with
    | .map t _ =>
      .map (DMKVs.ofList ((sliceCells h t).filterMap fun c => match c with
        | .entry k (some v) => some (k, absRef h fuel v)
        | _ => none))
    | .list x =>
      .list (DMs.ofList ((sliceCells h x).filterMap fun c => match c with
        | .item v => some (absRef h fuel v)
        | _ => none))

/-- the locations a reader of node `r` touches -/
def readSet (h : H) : Nat → NRef → List Loc
  | _, .scalar _ => []
  | 0, .obj id => [.objHdr id]
  | fuel + 1, .obj id =>
    match h.objs.getD id default with
    | .map t m =>
      [.objHdr id, .gomap m] ++ (List.range t.len).map (fun i => Loc.arrCell t.arr i) ++
        ((sliceCells h t).flatMap fun c => match c with
          | .entry _ (some v) => readSet h fuel v
          | _ => [])
    | .list x =>
      [.objHdr id] ++ (List.range x.len).map (fun i => Loc.arrCell x.arr i) ++
        ((sliceCells h x).flatMap fun c => match c with
          | .item v => readSet h fuel v
          | _ => [])

end Heap
end Ipld

namespace Ipld
namespace Heap

/-! ## Several builders on one heap (C20): each goroutine has its own frames/root; the heap is shared -/

structure Thread where
  frames : List HFrame := []
  root : Option NRef := none
  deriving Repr

structure Conc where
  h : H := {}
  threads : List Thread := []
  written : List (Nat × Loc) := []     -- (thread, location) of every write, most recent first
  deriving Repr

/-- one builder call of thread `tid` -/
def cstep (c : Conc) (tid : Nat) (op : HOp) : Conc :=
  match c.threads[tid]? with
  | none => c
  | some th =>
    let st : HSt := { h := c.h, frames := th.frames, root := th.root, written := [] }
    let st' := hstep st op
    { h := st'.h, threads := setAt c.threads tid { frames := st'.frames, root := st'.root },
      written := st'.written.map (fun l => (tid, l)) ++ c.written }

def crun (c : Conc) : List (Nat × HOp) → Conc
  | [] => c
  | (tid, op) :: rest => crun (cstep c tid op) rest

/-- the calls of thread `tid` in a schedule, in order -/
def projection (sched : List (Nat × HOp)) (tid : Nat) : List HOp :=
  sched.filterMap fun e => if e.1 = tid then some e.2 else none

end Heap
end Ipld
