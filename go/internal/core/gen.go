package core

import (
	"fmt"
	"math"

	"github.com/ipfs/go-cid"
	mh "github.com/multiformats/go-multihash"
)

// GenCfg bounds the value generator.
type GenCfg struct {
	MaxDepth  int
	MaxWidth  int
	BigUint   bool // allow ints above int64 (UintNode)
	Floats    bool
	NonFinite bool // allow NaN/Inf
	Links     bool
	Bytes     bool
	ValidUTF8 bool // strings and keys are valid UTF-8 (else arbitrary bytes)
	LongStr   bool // occasionally strings around the 23/24, 255/256 length boundaries
}

var DefaultGen = GenCfg{MaxDepth: 4, MaxWidth: 5, BigUint: true, Floats: true, Links: true, Bytes: true, LongStr: true}

var boundaryU = []uint64{0, 1, 22, 23, 24, 25, 254, 255, 256, 257, 65534, 65535, 65536, 65537,
	1<<32 - 2, 1<<32 - 1, 1 << 32, 1<<32 + 1, 1<<63 - 2, 1<<63 - 1, 1 << 63, 1<<63 + 1, math.MaxUint64 - 1, math.MaxUint64}

func GenInt(r *Rand, big bool) Val {
	switch r.Intn(4) {
	case 0: // boundary magnitude
		m := boundaryU[r.Intn(len(boundaryU))]
		if r.Bool() { // negative: value = -1 - m  must be ≥ -2^63  ⇒ m ≤ 2^63-1
			if m <= math.MaxInt64 {
				return Int(-1 - int64(m))
			}
		}
		if m > math.MaxInt64 && !big {
			m = m >> 1
		}
		return Uint(m)
	case 1:
		return Int(int64(r.Intn(64)) - 32)
	case 2: // random width
		w := uint(r.Intn(64)) + 1
		m := r.U64() >> (64 - w)
		if r.Bool() && m <= math.MaxInt64 {
			return Int(-1 - int64(m))
		}
		if m > math.MaxInt64 && !big {
			m >>= 1
		}
		return Uint(m)
	default:
		return Int(int64(r.U64()))
	}
}

var interestingFloats = []float64{0, math.Copysign(0, -1), 1, -1, 0.5, 1.5, 1e-6, 1e-7, 1e20, 1e21, 1e22, 123456789012345680,
	math.MaxFloat64, math.SmallestNonzeroFloat64, 2.2250738585072014e-308, 3.141592653589793, 1.0 / 3, 65504, 5.960464477539063e-08, 3.4028234663852886e+38}

func GenFloat(r *Rand, nonFinite bool) Val {
	switch r.Intn(3) {
	case 0:
		return Float(interestingFloats[r.Intn(len(interestingFloats))])
	case 1:
		return Float(float64(int64(r.U64()>>uint(r.Intn(64)))) / float64(int64(1)<<uint(r.Intn(20))))
	default:
		for {
			b := r.U64()
			f := math.Float64frombits(b)
			if !nonFinite && (math.IsNaN(f) || math.IsInf(f, 0)) {
				continue
			}
			if math.IsNaN(f) {
				return FloatBits(canonNaN)
			}
			return FloatBits(b)
		}
	}
}

var utf8Pieces = []string{"a", "b", "z", "A", "0", "9", " ", "/", "\\", "\"", "\n", "\t", "\x00", "\x1f", "\x7f", "é", "ß", "中", "€", " ", " ", "😀", "𝄞", "�", "~", "-", "_", "."}

func GenStrBytes(r *Rand, cfg GenCfg) []byte {
	n := r.Intn(6)
	if cfg.LongStr && r.Chance(1, 12) {
		n = []int{22, 23, 24, 25, 255, 256, 257}[r.Intn(7)]
		if r.Chance(1, 30) {
			n = []int{65535, 65536, 65537}[r.Intn(3)] // the 2-byte / 4-byte length boundary
		}
	}
	if r.Chance(1, 6) {
		n = 0
	}
	if cfg.ValidUTF8 {
		var out []byte
		for len(out) < n {
			out = append(out, utf8Pieces[r.Intn(len(utf8Pieces))]...)
		}
		return out
	}
	switch r.Intn(3) {
	case 0:
		b := make([]byte, n)
		for i := range b {
			b[i] = byte('a' + r.Intn(4))
		}
		return b
	case 1:
		var out []byte
		for len(out) < n {
			out = append(out, utf8Pieces[r.Intn(len(utf8Pieces))]...)
		}
		return out
	default:
		return r.Bytes(n)
	}
}

var mhCodes = []uint64{mh.SHA2_256, mh.SHA2_512, mh.SHA3_256, mh.IDENTITY, mh.BLAKE2B_MIN + 31, mh.SHA1}
var cidCodecs = []uint64{0x55, 0x70, 0x71, 0x0129, 0x51, 0x0200}

// GenCid returns the bytes of a syntactically valid CID (digest bytes are random; no hashing is done).
func GenCid(r *Rand) []byte {
	if r.Chance(1, 5) { // CIDv0
		b := append([]byte{0x12, 0x20}, r.Bytes(32)...)
		return b
	}
	code := mhCodes[r.Intn(len(mhCodes))]
	dl := []int{0, 1, 4, 20, 32, 64}[r.Intn(6)]
	if r.Chance(1, 12) {
		// long CIDs (an identity multihash inlines arbitrary data): around 128 and 256 bytes of binary CID
		code = mh.IDENTITY
		dl = []int{120, 123, 124, 125, 128, 200, 251, 252, 253, 300}[r.Intn(10)]
	}
	m, err := mh.Encode(r.Bytes(dl), code)
	if err != nil {
		m, _ = mh.Encode(r.Bytes(32), mh.SHA2_256)
	}
	c := cid.NewCidV1(cidCodecs[r.Intn(len(cidCodecs))], m)
	return c.Bytes()
}

// GenVal draws a data-model value.
func GenVal(r *Rand, cfg GenCfg, depth int) Val {
	k := r.Intn(12)
	if depth == 0 && r.Chance(3, 4) {
		k = 8 + r.Intn(4) // the root is usually a container
	} else if depth == 1 && k < 8 && r.Chance(1, 3) {
		k = 8 + r.Intn(4)
	}
	if depth >= cfg.MaxDepth && k >= 8 {
		k = r.Intn(8)
	}
	switch k {
	case 0:
		return Null()
	case 1:
		return Bool(r.Bool())
	case 2, 3:
		return GenInt(r, cfg.BigUint)
	case 4:
		if cfg.Floats {
			return GenFloat(r, cfg.NonFinite)
		}
		return GenInt(r, cfg.BigUint)
	case 5:
		return Val{K: 's', S: GenStrBytes(r, cfg)}
	case 6:
		if cfg.Bytes {
			c := cfg
			c.ValidUTF8 = false
			return Val{K: 'b', S: GenStrBytes(r, c)}
		}
		return Val{K: 's', S: GenStrBytes(r, cfg)}
	case 7:
		if cfg.Links {
			return Link(GenCid(r))
		}
		return Null()
	case 8, 9:
		n := r.Intn(cfg.MaxWidth + 1)
		if cfg.LongStr && r.Chance(1, 60) {
			// a wide list of scalars around the 23/24 and 255/256 length boundaries
			n = []int{23, 24, 25, 255, 256, 257}[r.Intn(6)]
			v := Val{K: '['}
			for i := 0; i < n; i++ {
				v.L = append(v.L, Int(int64(i%7)))
			}
			return v
		}
		v := Val{K: '['}
		for i := 0; i < n; i++ {
			v.L = append(v.L, GenVal(r, cfg, depth+1))
		}
		return v
	default:
		n := r.Intn(cfg.MaxWidth + 1)
		if cfg.LongStr && r.Chance(1, 60) {
			// a wide map around the same boundaries (keys of two lengths, so the length-first order has work to do)
			n = []int{23, 24, 25, 255, 256, 257}[r.Intn(6)]
			v := Val{K: '{'}
			for i := 0; i < n; i++ {
				k := []byte(fmt.Sprintf("k%d", (i*7919)%1000))
				if i >= 1000 {
					break
				}
				dup := false
				for _, e := range v.M {
					if string(e.K) == string(k) {
						dup = true
					}
				}
				if !dup {
					v.M = append(v.M, KV{k, Int(int64(i % 5))})
				}
			}
			return v
		}
		v := Val{K: '{'}
		seen := map[string]bool{}
		for i := 0; i < n; i++ {
			var key []byte
			if i > 0 && r.Chance(1, 3) {
				// a key of the same length as an earlier one differing in one byte (exercises the tie-break)
				prev := v.M[r.Intn(len(v.M))].K
				key = append([]byte{}, prev...)
				if len(key) > 0 && !cfg.ValidUTF8 {
					key[r.Intn(len(key))] ^= byte(1 << uint(r.Intn(8)))
				} else {
					// an extension of an earlier key: by a letter, by NUL bytes, by a control character
					switch r.Intn(4) {
					case 0:
						key = append(key, 0)
					case 1:
						key = append(key, 0, 0)
					case 2:
						key = append(key, 1)
					default:
						key = append(key, 'x')
					}
				}
			} else if r.Chance(1, 12) {
				// keys that read as numbers, canonically spelled or not (a map key is text: "7", "07" and "+7" are three keys)
				key = []byte([]string{"0", "1", "7", "01", "007", "+1", "+7", "-0", "00", "-1", "1e0", "18446744073709551616"}[r.Intn(12)])
			} else {
				key = GenStrBytes(r, cfg)
			}
			if seen[string(key)] {
				continue
			}
			seen[string(key)] = true
			v.M = append(v.M, KV{key, GenVal(r, cfg, depth+1)})
		}
		return v
	}
}

// Shuffle returns v with the entries of every map permuted (recursively).
func Shuffle(v Val, r *Rand) Val {
	switch v.K {
	case '[':
		out := Val{K: '['}
		for _, x := range v.L {
			out.L = append(out.L, Shuffle(x, r))
		}
		return out
	case '{':
		out := Val{K: '{'}
		for _, i := range r.Perm(len(v.M)) {
			out.M = append(out.M, KV{v.M[i].K, Shuffle(v.M[i].V, r)})
		}
		return out
	}
	return v
}
