/-
  Reading finished nodes: `absRef` and `readSet` depend only on the objects reachable from the node,
  a builder step leaves every object that is not under construction untouched, and writes only
  locations of objects under construction.  Core Lean only.
-/
import IpldModel.Lemmas.HeapStep
set_option linter.unusedSimpArgs false
set_option linter.unusedVariables false
namespace Ipld
namespace Heap
open Asm

/-! ### `absRef` and `readSet` unfolded over `cellsOf` -/

def entryVal (h : H) (F : Nat) : Cell → Option (Bytes × DM)
  | .entry k (some v) => some (k, absRef h F v)
  | _ => none

def itemVal (h : H) (F : Nat) : Cell → Option DM
  | .item v => some (absRef h F v)
  | _ => none

@[simp] theorem absRef_scalar (h : H) (F : Nat) (d : DM) : absRef h F (.scalar d) = d := by
  cases F <;> rfl

@[simp] theorem absRef_zero_obj (h : H) (id : Nat) : absRef h 0 (.obj id) = .null := rfl

theorem absRef_succ (h : H) (F id : Nat) :
    absRef h (F + 1) (.obj id) =
      if (objAt h id).isMap then .map (DMKVs.ofList ((cellsOf h id).filterMap (entryVal h F)))
      else .list (DMs.ofList ((cellsOf h id).filterMap (itemVal h F))) := by
  simp only [absRef, cellsOf]
  cases ho : objAt h id with
  | map t m =>
    unfold objAt at ho
    simp only [ho, Obj.isMap, Obj.slice, if_true]
    apply congrArg; apply congrArg; apply filterMap_congr'
    intro c _
    cases c with
    | entry k v => cases v <;> rfl
    | _ => rfl
  | list x =>
    unfold objAt at ho
    simp only [ho, Obj.isMap, Obj.slice]
    apply congrArg; apply congrArg; apply filterMap_congr'
    intro c _
    cases c <;> rfl

def entryRead (h : H) (F : Nat) : Cell → List Loc
  | .entry _ (some v) => readSet h F v
  | _ => []

def itemRead (h : H) (F : Nat) : Cell → List Loc
  | .item v => readSet h F v
  | _ => []

@[simp] theorem readSet_scalar (h : H) (F : Nat) (d : DM) : readSet h F (.scalar d) = [] := by
  cases F <;> rfl

@[simp] theorem readSet_zero_obj (h : H) (id : Nat) : readSet h 0 (.obj id) = [.objHdr id] := rfl

/-- the locations of the node object itself -/
def ownLocs (id : Nat) : Obj → List Loc
  | .map t m => [.objHdr id, .gomap m] ++ (List.range t.len).map (fun i => Loc.arrCell t.arr i)
  | .list x => [.objHdr id] ++ (List.range x.len).map (fun i => Loc.arrCell x.arr i)

theorem readSet_succ (h : H) (F id : Nat) :
    readSet h (F + 1) (.obj id) =
      ownLocs id (objAt h id) ++
        if (objAt h id).isMap then (cellsOf h id).flatMap (entryRead h F)
        else (cellsOf h id).flatMap (itemRead h F) := by
  simp only [readSet, cellsOf]
  cases ho : objAt h id with
  | map t m =>
    unfold objAt at ho
    simp only [ho, Obj.slice, ownLocs, Obj.isMap, if_true]
    congr 1
  | list x =>
    unfold objAt at ho
    simp only [ho, Obj.slice, ownLocs, Obj.isMap]
    congr 1

/-! ### reads depend only on the reachable objects -/

/-- `P` is a set of objects closed under the references visible in their cells -/
def Closed (h : H) (P : Nat → Prop) : Prop :=
  ∀ j, P j → ∀ c ∈ cellsOf h j, ∀ id', c.ref = some (.obj id') → P id'

theorem HeapInv.closed_fin {h : H} (hi : HeapInv h) : Closed h (· ∈ h.finished) := hi.closed

/-- what a reader sees of a node is determined by the objects reachable from it -/
theorem absRef_congr {h h' : H} (P : Nat → Prop) (hs : ∀ j, P j → SameObj h h' j) (hcl : Closed h P) :
    ∀ (F j : Nat), P j → absRef h' F (.obj j) = absRef h F (.obj j)
  | 0, _, _ => rfl
  | F + 1, j, hp => by
    rw [absRef_succ, absRef_succ, (hs j hp).obj, (hs j hp).cells]
    have hv : ∀ c ∈ cellsOf h j, ∀ v, c.ref = some v → absRef h' F v = absRef h F v := by
      intro c hc v hr
      cases v with
      | scalar d => simp
      | obj id' => exact absRef_congr P hs hcl F id' (hcl j hp c hc id' hr)
    have e1 : (cellsOf h j).filterMap (entryVal h' F) = (cellsOf h j).filterMap (entryVal h F) := by
      apply filterMap_congr'
      intro c hc
      cases c with
      | entry k v =>
        cases v with
        | none => rfl
        | some v => simp only [entryVal]; rw [hv _ hc v rfl]
      | _ => rfl
    have e2 : (cellsOf h j).filterMap (itemVal h' F) = (cellsOf h j).filterMap (itemVal h F) := by
      apply filterMap_congr'
      intro c hc
      cases c with
      | item v => simp only [itemVal]; rw [hv _ hc v rfl]
      | _ => rfl
    rw [e1, e2]

theorem absRef_congr_ref {h h' : H} (P : Nat → Prop) (hs : ∀ j, P j → SameObj h h' j) (hcl : Closed h P)
    (F : Nat) (v : NRef) (hv : ∀ id, v = .obj id → P id) : absRef h' F v = absRef h F v := by
  cases v with
  | scalar d => simp
  | obj id => exact absRef_congr P hs hcl F id (hv id rfl)

/-- so are the locations the reader touches -/
theorem readSet_congr {h h' : H} (P : Nat → Prop) (hs : ∀ j, P j → SameObj h h' j) (hcl : Closed h P) :
    ∀ (F j : Nat), P j → readSet h' F (.obj j) = readSet h F (.obj j)
  | 0, _, _ => rfl
  | F + 1, j, hp => by
    rw [readSet_succ, readSet_succ, (hs j hp).obj, (hs j hp).cells]
    have hv : ∀ c ∈ cellsOf h j, ∀ v, c.ref = some v → readSet h' F v = readSet h F v := by
      intro c hc v hr
      cases v with
      | scalar d => simp
      | obj id' => exact readSet_congr P hs hcl F id' (hcl j hp c hc id' hr)
    have e1 : (cellsOf h j).flatMap (entryRead h' F) = (cellsOf h j).flatMap (entryRead h F) := by
      apply flatMap_congr'
      intro c hc
      cases c with
      | entry k v =>
        cases v with
        | none => rfl
        | some v => simp only [entryRead]; rw [hv _ hc v rfl]
      | _ => rfl
    have e2 : (cellsOf h j).flatMap (itemRead h' F) = (cellsOf h j).flatMap (itemRead h F) := by
      apply flatMap_congr'
      intro c hc
      cases c with
      | item v => simp only [itemRead]; rw [hv _ hc v rfl]
      | _ => rfl
    rw [e1, e2]

/-- location `l` is part of object `id`: its header, a cell of its backing array, or its lookup map -/
def LocOf (h : H) (id : Nat) : Loc → Prop
  | .objHdr i => i = id
  | .arrCell a _ => a = (objAt h id).slice.arr
  | .gomap m => (objAt h id).gm = some m

theorem ownLocs_locOf (h : H) (id : Nat) : ∀ l ∈ ownLocs id (objAt h id), LocOf h id l := by
  intro l hl
  cases ho : objAt h id with
  | map t m =>
    rw [ho] at hl
    simp only [ownLocs, List.cons_append, List.nil_append, List.mem_cons, List.mem_map, List.mem_range] at hl
    rcases hl with rfl | rfl | ⟨i, _, rfl⟩
    · rfl
    · simp [LocOf, ho, Obj.gm]
    · simp [LocOf, ho, Obj.slice]
  | list x =>
    rw [ho] at hl
    simp only [ownLocs, List.cons_append, List.nil_append, List.mem_cons, List.mem_map, List.mem_range] at hl
    rcases hl with rfl | ⟨i, _, rfl⟩
    · rfl
    · simp [LocOf, ho, Obj.slice]

/-- everything a reader of a node in `P` touches is part of an object in `P` -/
theorem readSet_locs {h : H} (P : Nat → Prop) (hcl : Closed h P) :
    ∀ (F j : Nat), P j → ∀ l ∈ readSet h F (.obj j), ∃ i, P i ∧ LocOf h i l
  | 0, j, hp, l, hl => by
    simp at hl; subst hl; exact ⟨j, hp, rfl⟩
  | F + 1, j, hp, l, hl => by
    rw [readSet_succ, List.mem_append] at hl
    rcases hl with hl | hl
    · exact ⟨j, hp, ownLocs_locOf h j l hl⟩
    · have key : ∀ c ∈ cellsOf h j, ∀ v, c.ref = some v → l ∈ readSet h F v → ∃ i, P i ∧ LocOf h i l := by
        intro c hc v hr hlv
        cases v with
        | scalar d => simp at hlv
        | obj id' => exact readSet_locs P hcl F id' (hcl j hp c hc id' hr) l hlv
      split at hl
      · rw [List.mem_flatMap] at hl
        obtain ⟨c, hc, hlc⟩ := hl
        cases c with
        | entry k v =>
          cases v with
          | none => simp [entryRead] at hlc
          | some v => exact key _ hc v rfl hlc
        | _ => simp [entryRead] at hlc
      · rw [List.mem_flatMap] at hl
        obtain ⟨c, hc, hlc⟩ := hl
        cases c with
        | item v => exact key _ hc v rfl hlc
        | _ => simp [itemRead] at hlc

/-- an object under construction shares no location with any other object -/
theorem HeapInv.loc_disjoint {h : H} (hi : HeapInv h) {i j : Nat} {l : Loc} (hil : i < h.objs.length)
    (hjl : j < h.objs.length) (hif : i ∉ h.finished) (hne : i ≠ j) (h1 : LocOf h i l) (h2 : LocOf h j l) :
    False := by
  cases l with
  | objHdr k => simp only [LocOf] at h1 h2; exact hne (h1.symm.trans h2)
  | arrCell a k => simp only [LocOf] at h1 h2; exact hi.excl_arr i j hil hjl hne hif (h1.symm.trans h2)
  | gomap m => simp only [LocOf] at h1 h2; exact hi.excl_gm i j m hil hjl hne hif h1 h2

/-! ### the frame property of a step -/

theorem hFinish_same (h : H) (id j : Nat) : SameObj h (hFinish h id) j := ⟨rfl, rfl, rfl⟩

/-- delivering a value changes only the object of the innermost frame -/
theorem hdeliver_same {others : List Nat} {st : HSt} {v : NRef} (hi : HInvO others st)
    (hv : RefOk st.h.finished v) {j : Nat} (hj : j < st.h.objs.length)
    (hne : ∀ f rest, st.frames = f :: rest → j ≠ f.id) : SameObj st.h (hdeliver st v).h j := by
  have hr := hdeliver_rel st v
  generalize hdeliver st v = s' at hr ⊢
  cases hr with
  | noop => exact SameObj.refl _ _
  | root hf => exact SameObj.refl _ _
  | map id rest t m k o hf ho hc =>
    have hid : id ∈ frameIds st.frames := by simp [hf, frameIds, HFrame.id]
    have hlt := hi.ids_lt id (List.mem_append_left _ hid)
    have hnf := hi.ids_unfin id (List.mem_append_left _ hid)
    exact (hSetLast_mod hi.heap hlt hnf ho hv).other j hj (hne _ _ hf)
  | list id rest x hf ho =>
    have hid : id ∈ frameIds st.frames := by simp [hf, frameIds, HFrame.id]
    have hlt := hi.ids_lt id (List.mem_append_left _ hid)
    have hnf := hi.ids_unfin id (List.mem_append_left _ hid)
    refine (hAppend_mod hi.heap hlt hnf ?_).other j hj (hne _ _ hf)
    rw [ho]
    refine ⟨trivial, ?_⟩
    intro w hw; simp [Cell.ref] at hw; subst hw; exact hv

theorem addEntry_same {others : List Nat} {st : HSt} {id : Nat} {rest : List HFrame} {t : Slice}
    {m : Nat} {ph0 : MPhase} (k : Bytes) (ph : MPhase) (hi : HInvO others st)
    (hf : st.frames = .map id ph0 :: rest) (ho : objAt st.h id = .map t m) {j : Nat}
    (hj : j < st.h.objs.length) (hne : j ≠ id) : SameObj st.h (addEntry st id k ph rest).h j := by
  have hid : id ∈ frameIds st.frames := by simp [hf, frameIds, HFrame.id]
  have hlt := hi.ids_lt id (List.mem_append_left _ hid)
  have hnf := hi.ids_unfin id (List.mem_append_left _ hid)
  refine (hAppend_mod hi.heap hlt hnf ?_).other j hj hne
  rw [ho]
  exact ⟨trivial, by intro w hw; simp [Cell.ref] at hw⟩

/-- A step leaves every existing object that is not under construction by this builder untouched. -/
theorem hstep_same {others : List Nat} {st : HSt} {op : HOp} (hi : HInvO others st) (hw : OpWf st op)
    {j : Nat} (hj : j < st.h.objs.length) (hnf : j ∉ frameIds st.frames) :
    SameObj st.h (hstep st op).h j := by
  have hne : ∀ f rest, st.frames = f :: rest → j ≠ f.id := by
    intro f rest hf e; apply hnf; simp [hf, frameIds, e]
  have hr := hstep_rel st op
  generalize hstep st op = s' at hr ⊢
  cases hr with
  | noop => exact SameObj.refl _ _
  | reset => exact SameObj.refl _ _
  | beginMap hint hv => exact (hNewMap_ext _ _).same hi.heap hj
  | beginList hint hv => exact (hNewList_ext _ _).same hi.heap hj
  | assignScalar d hv => exact hdeliver_same (v := .scalar d) hi trivial hj hne
  | assignNode r hv =>
    refine hdeliver_same hi ?_ hj hne
    cases r with
    | scalar d => trivial
    | obj id => exact hw
  | shortcut src hf hr => exact (hCopy_ext _ _).same hi.heap hj
  | assembleKey id rest hf => exact SameObj.refl _ _
  | assembleEntry id rest t m k hf ho hg => exact addEntry_same k _ hi hf ho hj (hne _ _ hf)
  | keyDup id rest t m k hf ho hg => exact SameObj.refl _ _
  | keyString id rest t m k hf ho hg => exact addEntry_same k _ hi hf ho hj (hne _ _ hf)
  | mapValue id rest hf => exact SameObj.refl _ _
  | listValue id rest hf => exact SameObj.refl _ _
  | finishMap id rest hf =>
    refine (hFinish_same st.h id j).trans (hdeliver_same (markFin_inv hi hf rfl) (List.mem_cons_self ..) hj ?_)
    intro f rest' hf' e; apply hnf
    simp only [markFin] at hf'
    simp [hf, hf', frameIds, e]
  | finishList id rest hf =>
    refine (hFinish_same st.h id j).trans (hdeliver_same (markFin_inv hi hf rfl) (List.mem_cons_self ..) hj ?_)
    intro f rest' hf' e; apply hnf
    simp only [markFin] at hf'
    simp [hf, hf', frameIds, e]

theorem hdeliver_finished (st : HSt) (v : NRef) : (hdeliver st v).h.finished = st.h.finished := by
  have hr := hdeliver_rel st v
  generalize hdeliver st v = s' at hr ⊢
  cases hr with
  | noop => rfl
  | root hf => rfl
  | map id rest t m k o hf ho hc => rfl
  | list id rest x hf ho => simp [hAppend, appendSlice_finished]

theorem hdeliver_objs_length (st : HSt) (v : NRef) : (hdeliver st v).h.objs.length = st.h.objs.length := by
  have hr := hdeliver_rel st v
  generalize hdeliver st v = s' at hr ⊢
  cases hr with
  | noop => rfl
  | root hf => rfl
  | map id rest t m k o hf ho hc => rfl
  | list id rest x hf ho => simp [hAppend, appendSlice_objs]

/-- A3: once finished, always finished. -/
theorem finished_monotone (st : HSt) (op : HOp) {id : Nat} (h : id ∈ st.h.finished) :
    id ∈ (hstep st op).h.finished := by
  have hr := hstep_rel st op
  generalize hstep st op = s' at hr ⊢
  cases hr with
  | noop => exact h
  | reset => exact h
  | beginMap hint hv => exact h
  | beginList hint hv => exact h
  | assignScalar d hv => rw [hdeliver_finished]; exact h
  | assignNode r hv => rw [hdeliver_finished]; exact h
  | shortcut src hf hr => exact List.mem_cons_of_mem _ h
  | assembleKey id rest hf => exact h
  | assembleEntry id rest t m k hf ho hg => simp only [addEntry, hAppend, setObj_finished, appendSlice_finished]; exact h
  | keyDup id rest t m k hf ho hg => exact h
  | keyString id rest t m k hf ho hg => simp only [addEntry, hAppend, setObj_finished, appendSlice_finished]; exact h
  | mapValue id rest hf => exact h
  | listValue id rest hf => exact h
  | finishMap id rest hf => rw [hdeliver_finished]; exact List.mem_cons_of_mem _ h
  | finishList id rest hf => rw [hdeliver_finished]; exact List.mem_cons_of_mem _ h

theorem objs_length_monotone (st : HSt) (op : HOp) : st.h.objs.length ≤ (hstep st op).h.objs.length := by
  have hr := hstep_rel st op
  generalize hstep st op = s' at hr ⊢
  cases hr with
  | noop => exact Nat.le_refl _
  | reset => exact Nat.le_refl _
  | beginMap hint hv => simp [pushMap, hNewMap]
  | beginList hint hv => simp [pushList, hNewList]
  | assignScalar d hv => rw [hdeliver_objs_length]; exact Nat.le_refl _
  | assignNode r hv => rw [hdeliver_objs_length]; exact Nat.le_refl _
  | shortcut src hf hr => simp [doShortcut, hCopy]
  | assembleKey id rest hf => exact Nat.le_refl _
  | assembleEntry id rest t m k hf ho hg => simp [addEntry, hAppend, appendSlice_objs]
  | keyDup id rest t m k hf ho hg => exact Nat.le_refl _
  | keyString id rest t m k hf ho hg => simp [addEntry, hAppend, appendSlice_objs]
  | mapValue id rest hf => exact Nat.le_refl _
  | listValue id rest hf => exact Nat.le_refl _
  | finishMap id rest hf => rw [hdeliver_objs_length]; exact Nat.le_refl _
  | finishList id rest hf => rw [hdeliver_objs_length]; exact Nat.le_refl _

/-! ### the write footprint of a step -/

theorem hdeliver_written (st : HSt) (v : NRef) :
    ∃ w, (hdeliver st v).written = w ++ st.written ∧
      ∀ l ∈ w, ∃ f rest, st.frames = f :: rest ∧ LocOf st.h f.id l := by
  have hr := hdeliver_rel st v
  generalize hdeliver st v = s' at hr ⊢
  cases hr with
  | noop => exact ⟨[], rfl, by intro l hl; cases hl⟩
  | root hf => exact ⟨[], rfl, by intro l hl; cases hl⟩
  | map id rest t m k o hf ho hc =>
    refine ⟨_, rfl, ?_⟩
    intro l hl
    refine ⟨_, _, hf, ?_⟩
    simp only [List.mem_cons, List.not_mem_nil, or_false] at hl
    rcases hl with rfl | rfl
    · simp [LocOf, HFrame.id, ho, Obj.slice]
    · simp [LocOf, HFrame.id, ho, Obj.gm]
  | list id rest x hf ho =>
    refine ⟨_, rfl, ?_⟩
    intro l hl
    refine ⟨_, _, hf, ?_⟩
    simp only [List.mem_append, List.mem_cons, List.not_mem_nil, or_false] at hl
    rcases hl with hl | rfl
    · rw [appendSlice_written _ _ _ l hl]; simp [LocOf, HFrame.id, ho, Obj.slice]
    · simp [LocOf, HFrame.id]

theorem addEntry_written (st : HSt) (id : Nat) (k : Bytes) (ph : MPhase) (rest : List HFrame) :
    ∃ w, (addEntry st id k ph rest).written = w ++ st.written ∧ ∀ l ∈ w, LocOf st.h id l := by
  refine ⟨_, rfl, ?_⟩
  intro l hl
  simp only [List.mem_append, List.mem_cons, List.not_mem_nil, or_false] at hl
  rcases hl with hl | rfl
  · rw [appendSlice_written _ _ _ l hl]; simp [LocOf]
  · simp [LocOf]

/-- every location a step writes is part of an object this builder has under construction -/
theorem hstep_written (st : HSt) (op : HOp) :
    ∃ w, (hstep st op).written = w ++ st.written ∧
      ∀ l ∈ w, ∃ id ∈ frameIds st.frames, LocOf st.h id l := by
  have hr := hstep_rel st op
  generalize hstep st op = s' at hr ⊢
  have nil : ∃ w, st.written = w ++ st.written ∧ ∀ l ∈ w, ∃ id ∈ frameIds st.frames, LocOf st.h id l :=
    ⟨[], rfl, by intro l hl; cases hl⟩
  have del : ∀ v, ∃ w, (hdeliver st v).written = w ++ st.written ∧
      ∀ l ∈ w, ∃ id ∈ frameIds st.frames, LocOf st.h id l := by
    intro v
    obtain ⟨w, h1, h2⟩ := hdeliver_written st v
    refine ⟨w, h1, ?_⟩
    intro l hl
    obtain ⟨f, rest, hf, hloc⟩ := h2 l hl
    exact ⟨f.id, by simp [hf, frameIds], hloc⟩
  have add : ∀ id k ph rest ph0, st.frames = .map id ph0 :: rest →
      ∃ w, (addEntry st id k ph rest).written = w ++ st.written ∧
      ∀ l ∈ w, ∃ id ∈ frameIds st.frames, LocOf st.h id l := by
    intro id k ph rest ph0 hf
    obtain ⟨w, h1, h2⟩ := addEntry_written st id k ph rest
    exact ⟨w, h1, fun l hl => ⟨id, by simp [hf, frameIds, HFrame.id], h2 l hl⟩⟩
  have fin : ∀ id rest f, st.frames = f :: rest → f.id = id →
      ∃ w, (hdeliver (markFin st id rest) (.obj id)).written = w ++ st.written ∧
      ∀ l ∈ w, ∃ id ∈ frameIds st.frames, LocOf st.h id l := by
    intro id rest f hf hfi
    obtain ⟨w, h1, h2⟩ := hdeliver_written (markFin st id rest) (.obj id)
    refine ⟨w, h1, ?_⟩
    intro l hl
    obtain ⟨g, rest', hg, hloc⟩ := h2 l hl
    simp only [markFin] at hg
    refine ⟨g.id, by simp [hf, hg, frameIds], ?_⟩
    cases l <;> exact hloc
  cases hr with
  | noop => exact nil
  | reset => exact nil
  | beginMap hint hv => exact nil
  | beginList hint hv => exact nil
  | assignScalar d hv => exact del _
  | assignNode r hv => exact del _
  | shortcut src hf hr => exact nil
  | assembleKey id rest hf => exact nil
  | assembleEntry id rest t m k hf ho hg => exact add _ _ _ _ _ hf
  | keyDup id rest t m k hf ho hg => exact nil
  | keyString id rest t m k hf ho hg => exact add _ _ _ _ _ hf
  | mapValue id rest hf => exact nil
  | listValue id rest hf => exact nil
  | finishMap id rest hf => exact fin _ _ _ hf rfl
  | finishList id rest hf => exact fin _ _ _ hf rfl

/-! ### many steps -/

theorem hrun_finished_mono {st : HSt} {ops : List HOp} {id : Nat} (h : id ∈ st.h.finished) :
    id ∈ (hrun st ops).h.finished := by
  induction ops generalizing st with
  | nil => exact h
  | cons op ops ih => exact ih (finished_monotone st op h)

/-- finished objects look the same after any well-formed continuation -/
theorem hrun_same {others : List Nat} {st : HSt} {ops : List HOp} (hi : HInvO others st)
    (hw : HistWf st ops) {j : Nat} (hj : j ∈ st.h.finished) : SameObj st.h (hrun st ops).h j := by
  induction ops generalizing st with
  | nil => exact SameObj.refl _ _
  | cons op ops ih =>
    have hnf : j ∉ frameIds st.frames := fun hm => hi.ids_unfin j (List.mem_append_left _ hm) hj
    have h1 := hstep_same hi hw.1 (hi.heap.fin_lt j hj) hnf
    exact h1.trans (ih (hstep_inv hi hw.1) hw.2 (finished_monotone st op hj))

/-- no step of a well-formed continuation writes a location that a reader of a finished node touches -/
theorem hrun_written {others : List Nat} {st : HSt} {ops : List HOp} (hi : HInvO others st)
    (hw : HistWf st ops) :
    ∃ w, (hrun st ops).written = w ++ st.written ∧
      ∀ l ∈ w, ∀ id ∈ st.h.finished, ∀ F, l ∉ readSet st.h F (.obj id) := by
  induction ops generalizing st with
  | nil => exact ⟨[], rfl, by intro l hl; cases hl⟩
  | cons op ops ih =>
    obtain ⟨w1, e1, f1⟩ := hstep_written st op
    obtain ⟨w2, e2, f2⟩ := ih (hstep_inv hi hw.1) hw.2
    refine ⟨w2 ++ w1, by simp only [hrun, e2, e1, List.append_assoc], ?_⟩
    intro l hl id hid F hmem
    rcases List.mem_append.1 hl with hl | hl
    · apply f2 l hl id (finished_monotone st op hid) F
      rw [readSet_congr (· ∈ st.h.finished) ?_ hi.heap.closed_fin F id hid]
      · exact hmem
      · intro j hj
        have hnf : j ∉ frameIds st.frames := fun hm => hi.ids_unfin j (List.mem_append_left _ hm) hj
        exact hstep_same hi hw.1 (hi.heap.fin_lt j hj) hnf
    · obtain ⟨fid, hfid, hloc⟩ := f1 l hl
      obtain ⟨i, hif, hloc'⟩ := readSet_locs (· ∈ st.h.finished) hi.heap.closed_fin F id hid l hmem
      have hfl := hi.ids_lt fid (List.mem_append_left _ hfid)
      have hfu := hi.ids_unfin fid (List.mem_append_left _ hfid)
      exact hi.heap.loc_disjoint hfl (hi.heap.fin_lt i hif) hfu (fun e => hfu (e ▸ hif)) hloc hloc'

end Heap
end Ipld
