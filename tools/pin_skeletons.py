#!/usr/bin/env python3
"""pin_skeletons.py <GeneratedModule> <PropsCompanionFile> <namespace> "<header doc>"
Writes a Props companion file holding, for every `def …_skel_src : List String` of the generated module, the theorem
`<def>_is_transcribed : Generated.<def> = [ … ] := rfl` with the list as it is generated NOW.  Run by hand when a
transcription is (re)recorded — never by the checks: the point of the theorems is that they stop checking when the
source changes."""
import re, sys, os
V = os.path.dirname(os.path.dirname(os.path.abspath(__file__)))
gen, out, ns, doc = sys.argv[1:5]
g = open(os.path.join(V, "lean", "IpldModel", "Generated", gen + ".lean")).read()
items = re.findall(r"/-- (generated: .*?) -/\ndef (\w+) : List String := (\[.*?\n\])", g, flags=re.S)
body = [f"/-\n  {doc}\n  Recorded by tools/pin_skeletons.py from the source the models were transcribed from; property-tie theorems only.\n-/",
        f"import IpldModel.Generated.{gen}", f"namespace {ns}", ""]
for d, name, lst in items:
    d = d.replace("generated: ", "")
    body.append(f"/-- (T) {d}: the statements on this run are the recorded ones. -/")
    body.append(f"theorem {name.replace('_skel_src', '')}_is_transcribed : Ipld.Generated.{name} = {lst} := rfl\n")
body.append(f"end {ns}")
open(os.path.join(V, "lean", "IpldModel", "Props", out), "w").write("\n".join(body) + "\n")
print(out, len(items), "theorems")
