/-
  C06 / C10 (companion) — links as UNTRUSTED data carry them.  A link read from a block is whatever its bytes say: its
  multihash may declare more digest than its hash function yields, fewer, or be an identity multihash whose inline
  bytes are not what the storage answers with.  `hashesTo` - the comparison every load entry point takes its verdict
  from (`Fill`, `Load`, `LoadRaw`, `LoadPlusRaw`: Props/C06.lean, Props/C06load.lean) - rebuilds the link with
  `BuildLink` from the link's own prototype, so these are statements about `buildLink l.proto`:

  * it is TOTAL on every version-1 link, whatever length the link claims (`none` is the model's rendering of the Go
    panic; before library fix e7e1a89 `hashsum[:MhLength]` panicked - or, one byte over with spare capacity, extended
    the sum with the zero bytes behind it);
  * a link that claims more digest than the function yields matches NO content;
  * a match pins the digest to a prefix of the sum of exactly the declared length, and for an identity link to the
    WHOLE content (a seeded change compared after truncating to the inline length and accepted any block that merely
    started with the inline bytes).
  Property theorems only; helper lemmas are in Lemmas/LinkMore.lean.
-/
import IpldModel.Model.Link
import IpldModel.Lemmas.LinkMore
namespace Ipld.Props.C06
open Ipld Ipld.Link

variable (H : Nat → Bytes → Bytes)

/-- `BuildLink` with the prototype of a version-1 link never panics, whatever the hash is and whatever digest length
    the link declares. -/
theorem buildLink_total_v1 (p : Proto) (h : Bytes) (hv : p.version = 1) : buildLink p h ≠ none := by
  unfold buildLink
  have hok : v0ok p = true := by simp [v0ok, hv]
  simp only [hok, if_true]
  cases ht : truncate p h with
  | none => exact absurd ht (truncate_ne_none p h)
  | some d => simp [Option.bind, mkLink, hv]

/-- the hash check itself is total on a version-1 link: it answers, it does not panic -/
theorem hashCheck_total_v1 (l : Lnk) (b : Bytes) (hv : l.version = 1) :
    ∃ l', buildLink l.proto (H l.mhType b) = some l' := by
  have := buildLink_total_v1 l.proto (H l.mhType b) (by simpa [Lnk.proto] using hv)
  cases hb : buildLink l.proto (H l.mhType b) with
  | none => exact absurd hb this
  | some l' => exact ⟨l', rfl⟩

/-- a CIDv0 link is sha2-256 with 32 bytes by construction; with a hash function that yields 32 bytes the check is
    total there too -/
theorem hashCheck_total_v0 (l : Lnk) (b : Bytes) (hv : l.version = 0) (ht : l.mhType = sha256Code)
    (hd : l.digest.length = 32) (hH : (H sha256Code b).length = 32) :
    ∃ l', buildLink l.proto (H l.mhType b) = some l' := by
  have hok : v0ok l.proto = true := by simp [v0ok, Lnk.proto, hv, ht, hd]
  have hfit : truncate l.proto (H l.mhType b) = some (H l.mhType b) := by
    have hl : l.proto.mhLength = 32 := by simp [Lnk.proto, hd]
    have hty : l.proto.mhType = sha256Code := by simp [Lnk.proto, ht]
    have htk : (H sha256Code b).take 32 = H sha256Code b := List.take_of_length_le (by omega)
    unfold truncate
    rw [hl, hty, ht]
    simp [sha256Code, identityCode]
    intro _
    simpa [sha256Code] using htk
  refine ⟨⟨0, 0x70, l.mhType, H l.mhType b⟩, ?_⟩
  rw [buildLink_of hok hfit]
  simp [mkLink, Lnk.proto, hv, ht, hH]

/-- A match pins the link's digest: it is a prefix of the hash of the content. -/
theorem hashesTo_digest_prefix (l : Lnk) (b : Bytes) (h : hashesTo H l b = true) :
    l.digest <+: H l.mhType b := by
  unfold hashesTo at h
  have hb : buildLink l.proto (H l.mhType b) = some l := by simpa using h
  exact truncate_prefix (buildLink_some hb).2.1

/-- A link that declares MORE digest than its hash function yields for the content matches no such content: nothing
    hashes to it, so no untrusted load returns anything under it. -/
theorem overlong_digest_matches_nothing (l : Lnk) (b : Bytes)
    (hlong : (H l.mhType b).length < l.digest.length) : hashesTo H l b = false := by
  cases hh : hashesTo H l b with
  | false => rfl
  | true =>
    have := (hashesTo_digest_prefix H l b hh).length_le
    omega

/-- An identity link matches only the content whose (identity) hash is the inline bytes, all of them: no content that
    merely starts with them, none that is a proper prefix of them. -/
theorem identity_matches_whole_only (l : Lnk) (b : Bytes) (hi : l.mhType = identityCode)
    (h : hashesTo H l b = true) : H l.mhType b = l.digest := by
  unfold hashesTo at h
  have hb : buildLink l.proto (H l.mhType b) = some l := by simpa using h
  have ht := (buildLink_some hb).2.1
  rw [truncate_identity l.proto _ (by simpa [Lnk.proto] using hi)] at ht
  exact Option.some.inj ht

/-- the consequences for the entry points: under a link with an overlong digest `Fill` never succeeds untrusted … -/
theorem fill_overlong_never_ok (l : Lnk) (s : Stream) (d : DecRun)
    (hlong : ∀ b, (H l.mhType b).length < l.digest.length) : fill H false l s d ≠ .ok := by
  intro hf
  have h3 := ((Link.fill_ok_iff H l s d).mp hf).2.2
  rw [overlong_digest_matches_nothing H l _ (hlong _)] at h3
  cases h3

/-- … `Load` neither … -/
theorem load_overlong_never_ok (l : Lnk) (s : Stream) (d : DecRun) (reifyOk : Bool)
    (hlong : ∀ b, (H l.mhType b).length < l.digest.length) : load H false l s d reifyOk ≠ .res .ok := by
  intro h
  unfold load at h
  split at h
  · rename_i hf; exact fill_overlong_never_ok H l s d hlong hf
  · rename_i r hne; exact absurd h (by simpa using hne)

/-- … and `LoadRaw` hands out no bytes. -/
theorem loadRaw_overlong_no_bytes (l : Lnk) (s : Stream)
    (hlong : ∀ b, (H l.mhType b).length < l.digest.length) : (loadRaw H l s).2 = none := by
  unfold loadRaw
  cases hfa : s.failAt with
  | some f => rfl
  | none =>
    simp only [overlong_digest_matches_nothing H l _ (hlong _)]
    simp

/-- an identity link whose inline bytes differ from the answer's identity hash: refused by every untrusted `Fill`,
    whatever the decoder read -/
theorem fill_identity_other_content (l : Lnk) (b : Bytes) (d : DecRun) (hi : l.mhType = identityCode)
    (hne : H l.mhType b ≠ l.digest) : fill H false l ⟨b, none⟩ d ≠ .ok := by
  intro hf
  have h3 := ((Link.fill_ok_iff H l ⟨b, none⟩ d).mp hf).2.2
  exact hne (identity_matches_whole_only H l b hi h3)

/-! Non-vacuity: a concrete hash function (identity for code 0, a 2-byte "hash" otherwise), a link that claims 3 bytes
    of it, an identity link carrying a proper prefix of the answer. -/
def exH : Nat → Bytes → Bytes := fun c b => if c = 0 then b else [b.length.toUInt8, 7]

example : buildLink (Lnk.proto ⟨1, 0x55, 0x12, [1, 7, 0]⟩) (exH 0x12 [9]) = some ⟨1, 0x55, 0x12, [1, 7]⟩ := by decide
example : hashesTo exH ⟨1, 0x55, 0x12, [1, 7, 0]⟩ [9] = false := by decide
example : hashesTo exH ⟨1, 0x55, 0x12, [1, 7]⟩ [9] = true := by decide
example : hashesTo exH ⟨1, 0x55, 0x00, [9]⟩ [9, 9] = false := by decide
example : hashesTo exH ⟨1, 0x55, 0x00, [9, 9]⟩ [9, 9] = true := by decide
example : ∀ b, (exH 0x12 b).length < (⟨1, 0x55, 0x12, [1, 7, 0]⟩ : Lnk).digest.length := by intro b; simp [exH]

end Ipld.Props.C06
