/-
  Typed assemblers refine the generic ones.  On the calls the typed machine accepts, the generic machine of
  Model/Assembler.lean (basicnode's Any builder) accepts too, and what it holds is a SOURCE of what the typed machine
  holds: a data-model tree that conforms to the position's type and whose canonical typed value (`Schema.normalize`)
  is the typed machine's value.  A simulation, call by call.
-/
import IpldModel.Lemmas.TypedAssemblerNode
import IpldModel.Lemmas.Assembler
namespace Ipld
namespace TAsm
open Ipld.Asm (Op Out ErrClass)
open Ipld.Schema (Ty Fields Field TL TLs TLKVs canonFields conforms conformsList conformsMap conformsStruct
  normalize normalizeList normalizeMap normalizeStruct)

/-- the tree `d` is acceptable at a position of type `t` (conforms; integers within int64) -/
def okV (t : Ty) (nul : Bool) (d : DM) : Prop := (conforms t nul (TL.ofDM d) && int64s d) = true

/-- `d` is a source of the typed value `w` at a position of type `t` -/
def SrcV (t : Ty) (nul : Bool) (d : DM) (w : TL) : Prop := okV t nul d ∧ w = normalize t (TL.ofDM d)

/-- a struct entry as the typed machine holds it -/
def nfield (fs : List Field) (p : Bytes × DM) : Bytes × TL :=
  (p.1, match fs.find? (fun f => f.name == p.1) with
        | some f => normalize f.ty (TL.ofDM p.2)
        | none => TL.ofDM p.2)

/-! ### conversions -/

theorem ofDMs_ofList : (l : List DM) → TLs.ofDMs (DMs.ofList l) = TLs.ofList (l.map TL.ofDM)
  | [] => rfl
  | d :: l => by simp [DMs.ofList, TLs.ofDMs, ofDMs_ofList l]

theorem ofDMKVs_ofList : (l : List (Bytes × DM)) →
    TLKVs.ofDMKVs (DMKVs.ofList l) = TLKVs.ofList (l.map fun p => (p.1, TL.ofDM p.2))
  | [] => rfl
  | (k, d) :: l => by simp [DMKVs.ofList, TLKVs.ofDMKVs, ofDMKVs_ofList l]

theorem int64sL_ofList : (l : List DM) → (∀ d ∈ l, int64s d = true) → int64sL (DMs.ofList l) = true
  | [], _ => rfl
  | d :: l, h => by
    simp only [DMs.ofList, int64sL, Bool.and_eq_true]
    exact ⟨h d (by simp), int64sL_ofList l (fun x hx => h x (by simp [hx]))⟩

theorem int64sM_ofList : (l : List (Bytes × DM)) → (∀ p ∈ l, int64s p.2 = true) → int64sM (DMKVs.ofList l) = true
  | [], _ => rfl
  | (k, d) :: l, h => by
    simp only [DMKVs.ofList, int64sM, Bool.and_eq_true]
    exact ⟨h (k, d) (by simp), int64sM_ofList l (fun x hx => h x (by simp [hx]))⟩

theorem normalizeList_map (ety : Ty) : (l : List TL) →
    normalizeList ety (TLs.ofList l) = TLs.ofList (l.map (normalize ety))
  | [] => rfl
  | x :: l => by simp [normalizeList, normalizeList_map ety l]

theorem normalizeMap_map (vty : Ty) : (l : List (Bytes × TL)) →
    normalizeMap vty (TLKVs.ofList l) = TLKVs.ofList (l.map fun p => (p.1, normalize vty p.2))
  | [] => rfl
  | (k, x) :: l => by simp [normalizeMap, normalizeMap_map vty l]

theorem normalizeStruct_map (fs : List Field) : (l : List (Bytes × DM)) →
    normalizeStruct fs (TLKVs.ofList (l.map fun p => (p.1, TL.ofDM p.2))) = TLKVs.ofList (l.map (nfield fs))
  | [] => rfl
  | (k, x) :: l => by
    simp only [List.map_cons, Schema.TLKVs.ofList_cons, normalizeStruct, normalizeStruct_map fs l, nfield]
    rfl

/-! ### a finished container is a source of the typed container -/

theorem okV.conf {t : Ty} {nul : Bool} {d : DM} (h : okV t nul d) : conforms t nul (TL.ofDM d) = true := by
  unfold okV at h; simp only [Bool.and_eq_true] at h; exact h.1

theorem okV.ints {t : Ty} {nul : Bool} {d : DM} (h : okV t nul d) : int64s d = true := by
  unfold okV at h; simp only [Bool.and_eq_true] at h; exact h.2

theorem srcV_list {ety : Ty} {enul : Bool} (nul : Bool) {x : List DM} (h : ∀ d ∈ x, okV ety enul d) :
    SrcV (.list ety enul) nul (.list (DMs.ofList x))
      (.list (TLs.ofList (x.map fun d => normalize ety (TL.ofDM d)))) := by
  refine ⟨?_, ?_⟩
  · unfold okV
    simp only [TL.ofDM, int64s, Bool.and_eq_true, ofDMs_ofList]
    refine ⟨?_, int64sL_ofList x (fun d hd => (h d hd).ints)⟩
    unfold conforms
    apply Schema.conformsList_ofList
    intro y hy
    obtain ⟨d, hd, rfl⟩ := List.mem_map.1 hy
    exact (h d hd).conf
  · simp only [TL.ofDM, normalize, ofDMs_ofList, normalizeList_map, List.map_map]
    rfl

theorem srcV_map {vty : Ty} {vnul : Bool} (nul : Bool) {des : List (Bytes × DM)} (hnd : (des.map (·.1)).Nodup)
    (h : ∀ p ∈ des, okV vty vnul p.2) :
    SrcV (.map vty vnul) nul (.map (DMKVs.ofList des))
      (.map (TLKVs.ofList (des.map fun p => (p.1, normalize vty (TL.ofDM p.2))))) := by
  refine ⟨?_, ?_⟩
  · unfold okV
    simp only [TL.ofDM, int64s, Bool.and_eq_true, ofDMKVs_ofList]
    refine ⟨?_, int64sM_ofList des (fun p hp => (h p hp).ints)⟩
    unfold conforms
    apply Schema.conformsMap_ofList
    · rw [List.map_map]; exact hnd
    · simp
    · intro e he
      obtain ⟨p, hp, rfl⟩ := List.mem_map.1 he
      exact (h p hp).conf
  · simp only [TL.ofDM, normalize, ofDMKVs_ofList, normalizeMap_map, List.map_map]
    rfl

/-- entries in any order, each admissible for its field, no key twice, the required fields covered: conforms -/
theorem conformsStruct_any_order (fs : List Field) : (L : List (Bytes × TL)) → (seen : List Bytes) →
    (∀ e ∈ L, ∃ f, fs.find? (fun f => f.name == e.1) = some f ∧ Schema.fieldValOK f e.2 = true) →
    (L.map (·.1)).Nodup → (∀ e ∈ L, seen.contains e.1 = false) →
    (∀ f ∈ fs, f.opt = true ∨ seen.contains f.name = true ∨ f.name ∈ L.map (·.1)) →
    conformsStruct fs seen (TLKVs.ofList L) = true
  | [], seen, _, _, _, hreq => by
    simp only [Schema.TLKVs.ofList_nil, conformsStruct, List.all_eq_true, Bool.or_eq_true]
    intro f hf
    rcases hreq f hf with h | h | h
    · exact Or.inl h
    · exact Or.inr h
    · simp at h
  | (k, v) :: L, seen, hL, hnd, hs, hreq => by
    obtain ⟨f, hf, hv⟩ := hL (k, v) (by simp)
    simp only [List.map_cons, List.nodup_cons] at hnd
    simp only [Schema.TLKVs.ofList_cons, Schema.conformsStruct_cons, hf, hs (k, v) (by simp), hv, Bool.not_false,
      Bool.true_and]
    apply conformsStruct_any_order fs L (k :: seen) (fun e he => hL e (by simp [he])) hnd.2
    · intro e he
      have h1 := hs e (by simp [he])
      have hne : e.1 ≠ k := by
        intro heq; exact hnd.1 (heq ▸ List.mem_map_of_mem he)
      simp only [List.contains_cons, Bool.or_eq_false_iff, h1, and_true]
      simpa using hne
    · intro f' hf'
      rcases hreq f' hf' with h | h | h
      · exact Or.inl h
      · exact Or.inr (Or.inl (by simp only [List.contains_cons, h, Bool.or_true]))
      · simp only [List.map_cons, List.mem_cons] at h
        rcases h with h | h
        · exact Or.inr (Or.inl (by simp [h]))
        · exact Or.inr (Or.inr h)

theorem nfield_keys (fs : List Field) (des : List (Bytes × DM)) : (des.map (nfield fs)).map (·.1) = des.map (·.1) := by
  rw [List.map_map]; rfl

theorem srcV_struct {F : Fields} (r : Schema.StructRepr) (nul : Bool) {des : List (Bytes × DM)}
    (hnd : (des.map (·.1)).Nodup)
    (h : ∀ p ∈ des, ∃ f, fieldOf F.toList p.1 = some f ∧ okV f.ty f.nullable p.2)
    (hreq : F.toList.all (fun f => f.opt || hasKey (des.map (nfield F.toList)) f.name) = true) :
    SrcV (.struct F r) nul (.map (DMKVs.ofList des))
      (.map (TLKVs.ofList (canonFields F.toList (des.map (nfield F.toList))))) := by
  refine ⟨?_, ?_⟩
  · unfold okV
    simp only [TL.ofDM, int64s, Bool.and_eq_true, ofDMKVs_ofList]
    refine ⟨?_, int64sM_ofList des (fun p hp => by obtain ⟨f, _, hf⟩ := h p hp; exact hf.ints)⟩
    unfold conforms
    apply conformsStruct_any_order
    · intro e he
      obtain ⟨p, hp, rfl⟩ := List.mem_map.1 he
      obtain ⟨f, hf, hok⟩ := h p hp
      refine ⟨f, hf, ?_⟩
      simp only [fieldValOK_ofDM]
      exact hok.conf
    · rw [List.map_map]; exact hnd
    · intro e _; rfl
    · intro f hf
      have := (List.all_eq_true.1 hreq) f hf
      simp only [Bool.or_eq_true] at this
      rcases this with h1 | h1
      · exact Or.inl h1
      · refine Or.inr (Or.inr ?_)
        have := (hasKey_iff _ _).1 h1
        rw [nfield_keys] at this
        simpa [List.map_map] using this
  · simp only [TL.ofDM, normalize, ofDMKVs_ofList, normalizeStruct_map, Schema.TLKVs.toList_ofList]

theorem srcV_scalar {t : Ty} {nul : Bool} {d : DM} (h : scalarOut t nul d = .ok) : SrcV t nul d (TL.ofDM d) := by
  have hg := good_scalar h
  refine ⟨?_, hg.canon.symm⟩
  unfold okV
  rw [hg.conf, Bool.true_and]
  cases d <;> first | rfl | skip
  · cases t <;> simp_all [scalarOut, int64s]
  · simp [scalarOut] at h
  · simp [scalarOut] at h

/-! ### the simulation relation -/

/-- the generic map assembler's entry table for accepted entries `des` in the typed frame's phase -/
def tableOf (des : List (Bytes × DM)) : Phase → List (Bytes × Option DM)
  | .expectValue k => Asm.doneEntries des ++ [(k, none)]
  | .midValue k => Asm.doneEntries des ++ [(k, none)]
  | _ => Asm.doneEntries des

def gphase : Phase → Asm.MPhase
  | .init => .init
  | .midKey => .midKey
  | .expectValue _ => .expectValue
  | .midValue _ => .midValue

/-- a typed frame and the generic frame that holds its sources -/
def FrameR : Frame → Asm.Frame → Prop
  | .list ety enul xs mid, .list x ph =>
      ph = (if mid then Asm.LPhase.midValue else Asm.LPhase.init) ∧
      xs = x.map (fun d => normalize ety (TL.ofDM d)) ∧ ∀ d ∈ x, okV ety enul d
  | .map vty vnul es ph, .map t m gph =>
      ∃ des, t = tableOf des ph ∧ gph = gphase ph ∧
        es = des.map (fun p => (p.1, normalize vty (TL.ofDM p.2))) ∧
        (∀ p ∈ des, okV vty vnul p.2) ∧ ∀ k, Asm.mapHas m k = hasKey es k
  | .struct fs es ph, .map t m gph =>
      ∃ des, t = tableOf des ph ∧ gph = gphase ph ∧ es = des.map (nfield fs) ∧
        (∀ p ∈ des, ∃ f, fieldOf fs p.1 = some f ∧ okV f.ty f.nullable p.2) ∧ ∀ k, Asm.mapHas m k = hasKey es k
  | _, _ => False

theorem FrameR.list_intro {ety : Ty} {enul : Bool} {x : List DM} (mid : Bool) (h : ∀ d ∈ x, okV ety enul d) :
    FrameR (.list ety enul (x.map fun d => normalize ety (TL.ofDM d)) mid)
      (.list x (if mid then Asm.LPhase.midValue else Asm.LPhase.init)) := by
  unfold FrameR; exact ⟨rfl, rfl, h⟩

theorem FrameR.map_intro {vty : Ty} {vnul : Bool} {des : List (Bytes × DM)} {m : List (Bytes × DM)} (ph : Phase)
    (hok : ∀ p ∈ des, okV vty vnul p.2)
    (hm : ∀ k, Asm.mapHas m k = hasKey (des.map fun p => (p.1, normalize vty (TL.ofDM p.2))) k) :
    FrameR (.map vty vnul (des.map fun p => (p.1, normalize vty (TL.ofDM p.2))) ph)
      (.map (tableOf des ph) m (gphase ph)) := by
  unfold FrameR; exact ⟨des, rfl, rfl, rfl, hok, hm⟩

theorem FrameR.struct_intro {fs : List Field} {des : List (Bytes × DM)} {m : List (Bytes × DM)} (ph : Phase)
    (hok : ∀ p ∈ des, ∃ f, fieldOf fs p.1 = some f ∧ okV f.ty f.nullable p.2)
    (hm : ∀ k, Asm.mapHas m k = hasKey (des.map (nfield fs)) k) :
    FrameR (.struct fs (des.map (nfield fs)) ph) (.map (tableOf des ph) m (gphase ph)) := by
  unfold FrameR; exact ⟨des, rfl, rfl, rfl, hok, hm⟩

theorem FrameR.list_elim {ety : Ty} {enul : Bool} {xs : List TL} {mid : Bool} {gf : Asm.Frame}
    (h : FrameR (.list ety enul xs mid) gf) :
    ∃ x, gf = .list x (if mid then Asm.LPhase.midValue else Asm.LPhase.init) ∧
      xs = x.map (fun d => normalize ety (TL.ofDM d)) ∧ ∀ d ∈ x, okV ety enul d := by
  cases gf with
  | map _ _ _ => unfold FrameR at h; exact h.elim
  | list x ph =>
    unfold FrameR at h
    obtain ⟨rfl, h2, h3⟩ := h
    exact ⟨x, rfl, h2, h3⟩

theorem FrameR.map_elim {vty : Ty} {vnul : Bool} {es : List (Bytes × TL)} {ph : Phase} {gf : Asm.Frame}
    (h : FrameR (.map vty vnul es ph) gf) :
    ∃ des m, gf = .map (tableOf des ph) m (gphase ph) ∧
      es = des.map (fun p => (p.1, normalize vty (TL.ofDM p.2))) ∧
      (∀ p ∈ des, okV vty vnul p.2) ∧ ∀ k, Asm.mapHas m k = hasKey es k := by
  cases gf with
  | list _ _ => unfold FrameR at h; exact h.elim
  | map t m gph =>
    unfold FrameR at h
    obtain ⟨des, rfl, rfl, h3, h4, h5⟩ := h
    exact ⟨des, m, rfl, h3, h4, h5⟩

theorem FrameR.struct_elim {fs : List Field} {es : List (Bytes × TL)} {ph : Phase} {gf : Asm.Frame}
    (h : FrameR (.struct fs es ph) gf) :
    ∃ des m, gf = .map (tableOf des ph) m (gphase ph) ∧ es = des.map (nfield fs) ∧
      (∀ p ∈ des, ∃ f, fieldOf fs p.1 = some f ∧ okV f.ty f.nullable p.2) ∧ ∀ k, Asm.mapHas m k = hasKey es k := by
  cases gf with
  | list _ _ => unfold FrameR at h; exact h.elim
  | map t m gph =>
    unfold FrameR at h
    obtain ⟨des, rfl, rfl, h3, h4, h5⟩ := h
    exact ⟨des, m, rfl, h3, h4, h5⟩

inductive FramesR : List Frame → List Asm.Frame → Prop
  | nil : FramesR [] []
  | cons {f : Frame} {gf : Asm.Frame} {rest : List Frame} {grest : List Asm.Frame} :
      FrameR f gf → FramesR rest grest → FramesR (f :: rest) (gf :: grest)

structure Sim (ts : St) (gs : Asm.St) : Prop where
  proto : gs.proto = .any
  frames : FramesR ts.frames gs.frames
  root : (ts.root = none ∧ gs.root = none) ∨ ∃ d w, gs.root = some d ∧ ts.root = some w ∧ SrcV ts.ty false d w

theorem sim_init (ty : Ty) : Sim (init ty) (Asm.init .any) :=
  ⟨rfl, FramesR.nil, Or.inl ⟨rfl, rfl⟩⟩

theorem doneEntries_append (a b : List (Bytes × DM)) :
    Asm.doneEntries (a ++ b) = Asm.doneEntries a ++ Asm.doneEntries b := by
  simp [Asm.doneEntries]

theorem hasKey_append (es : List (Bytes × TL)) (k : Bytes) (v : TL) (k' : Bytes) :
    hasKey (es ++ [(k, v)]) k' = (decide (k = k') || hasKey es k') := by
  simp only [hasKey, List.any_append, List.any_cons, List.any_nil, Bool.or_false]
  rw [Bool.or_comm]
  congr 1
  by_cases h : k = k' <;> simp [h]

theorem map_snoc_norm (vty : Ty) (des : List (Bytes × DM)) (k : Bytes) (d : DM) :
    (des.map fun p => (p.1, normalize vty (TL.ofDM p.2))) ++ [(k, normalize vty (TL.ofDM d))] =
      (des ++ [(k, d)]).map fun p => (p.1, normalize vty (TL.ofDM p.2)) := by simp

theorem map_snoc_nfield {fs : List Field} {f0 : Field} {k : Bytes} (hf : fieldOf fs k = some f0)
    (des : List (Bytes × DM)) (d : DM) :
    des.map (nfield fs) ++ [(k, normalize f0.ty (TL.ofDM d))] = (des ++ [(k, d)]).map (nfield fs) := by
  have hf' : fs.find? (fun f => f.name == k) = some f0 := hf
  simp [nfield, hf']

theorem gdeliver_map (p : Asm.Proto) (des : List (Bytes × DM)) (k : Bytes) (m : List (Bytes × DM))
    (grest : List Asm.Frame) (gr : Option DM) (d : DM) :
    Asm.deliver ⟨p, .map (Asm.doneEntries des ++ [(k, none)]) m .midValue :: grest, gr⟩ d =
      (⟨p, .map (Asm.doneEntries (des ++ [(k, d)])) (Asm.mapInsert m k d) .init :: grest, gr⟩, .ok) := by
  simp [Asm.deliver, Asm.lastKey_append_single, Asm.setLast_append_single, Asm.doneEntries]

/-- A value delivered on both sides: a source to the generic value assembler, its typed value to the typed one. -/
theorem sim_deliver {ts : St} {gs : Asm.St} (h : Sim ts gs) {t : Ty} {nul : Bool} (hp : pos ts = .value t nul)
    {d : DM} {w : TL} (hs : SrcV t nul d w) :
    ∃ gs', Asm.deliver gs d = (gs', .ok) ∧ Sim (deliver ts w).1 gs' := by
  obtain ⟨T, fr, r, tt⟩ := ts
  obtain ⟨p, gfr, gr⟩ := gs
  have hproto := h.proto
  have hfr := h.frames
  have hroot := h.root
  simp only at hproto hfr hroot
  cases fr with
  | nil =>
    cases hfr
    cases r with
    | some v => simp [pos, posOf] at hp
    | none =>
      simp only [pos, posOf, Pos.value.injEq] at hp
      obtain ⟨rfl, rfl⟩ := hp
      refine ⟨⟨p, [], some d⟩, rfl, ⟨hproto, FramesR.nil, Or.inr ⟨d, w, rfl, rfl, hs⟩⟩⟩
  | cons f rest =>
    cases hfr with
    | cons hf hrest =>
      rename_i gf grest
      cases f with
      | list ety enul xs mid =>
        cases mid with
        | false => simp [pos, posOf] at hp
        | true =>
          simp only [pos, posOf, Pos.value.injEq] at hp
          obtain ⟨rfl, rfl⟩ := hp
          obtain ⟨x, rfl, rfl, hok⟩ := hf.list_elim
          refine ⟨⟨p, .list (x ++ [d]) .init :: grest, gr⟩, rfl, ⟨hproto, ?_, hroot⟩⟩
          refine FramesR.cons ?_ hrest
          have hx : (x.map fun d => normalize ety (TL.ofDM d)) ++ [w] =
              (x ++ [d]).map fun d => normalize ety (TL.ofDM d) := by simp [hs.2]
          rw [hx]
          apply FrameR.list_intro false
          intro d' hd'
          simp only [List.mem_append, List.mem_singleton] at hd'
          rcases hd' with hd' | rfl
          · exact hok d' hd'
          · exact hs.1
      | map vty vnul es ph =>
        cases ph with
        | midValue k =>
          simp only [pos, posOf, Pos.value.injEq] at hp
          obtain ⟨rfl, rfl⟩ := hp
          obtain ⟨des, m, rfl, rfl, hok, hm⟩ := hf.map_elim
          refine ⟨_, gdeliver_map p des k m grest gr d, ⟨hproto, ?_, hroot⟩⟩
          refine FramesR.cons ?_ hrest
          rw [hs.2, map_snoc_norm]
          apply FrameR.map_intro .init
          · intro q hq
            simp only [List.mem_append, List.mem_singleton] at hq
            rcases hq with hq | rfl
            · exact hok q hq
            · exact hs.1
          · intro k'
            rw [Asm.mapHas_mapInsert, ← map_snoc_norm, hasKey_append, hm]
        | init => simp [pos, posOf] at hp
        | midKey => simp [pos, posOf] at hp
        | expectValue k => simp [pos, posOf] at hp
      | struct fs es ph =>
        cases ph with
        | midValue k =>
          simp only [pos, posOf] at hp
          split at hp
          · rename_i f0 hf0
            simp only [Pos.value.injEq] at hp
            obtain ⟨rfl, rfl⟩ := hp
            obtain ⟨des, m, rfl, rfl, hok, hm⟩ := hf.struct_elim
            have hd : deliver ⟨T, .struct fs (des.map (nfield fs)) (.midValue k) :: rest, r, tt⟩ w =
                (⟨T, .struct fs (des.map (nfield fs) ++ [(k, w)]) .init :: rest, r, tt⟩, .ok) := by
              simp [deliver, hf0]
            rw [hd]
            refine ⟨_, gdeliver_map p des k m grest gr d, ⟨hproto, ?_, hroot⟩⟩
            refine FramesR.cons ?_ hrest
            rw [hs.2, map_snoc_nfield hf0]
            apply FrameR.struct_intro .init
            · intro q hq
              simp only [List.mem_append, List.mem_singleton] at hq
              rcases hq with hq | rfl
              · exact hok q hq
              · exact ⟨f0, hf0, hs.1⟩
            · intro k'
              rw [Asm.mapHas_mapInsert, ← map_snoc_nfield hf0, hasKey_append, hm]
          · cases hp
        | init => simp [pos, posOf] at hp
        | midKey => simp [pos, posOf] at hp
        | expectValue k => simp [pos, posOf] at hp

/-! ### the generic machine where the typed one has a value assembler -/

theorem gstep_at_value {ts : St} {gs : Asm.St} (h : Sim ts gs) {t : Ty} {nul : Bool} (hp : pos ts = .value t nul) :
    (∀ v, Asm.isScalar v = true → Asm.step gs (.assign v) = Asm.deliver gs v) ∧
    (∀ v, Asm.step gs (.assignNode v) = Asm.deliver gs v) ∧
    (∀ n, Asm.step gs (.beginMap n) = ({ gs with frames := .map [] [] .init :: gs.frames }, .ok)) ∧
    (∀ n, Asm.step gs (.beginList n) = ({ gs with frames := .list [] .init :: gs.frames }, .ok)) := by
  obtain ⟨T, fr, r, tt⟩ := ts
  obtain ⟨p, gfr, gr⟩ := gs
  have hproto := h.proto
  have hfr := h.frames
  have hroot := h.root
  simp only at hproto hfr hroot
  subst hproto
  cases fr with
  | nil =>
    cases hfr
    cases r with
    | some v => simp [pos, posOf] at hp
    | none =>
      have hgr : gr = none := by
        rcases hroot with ⟨_, h2⟩ | ⟨_, _, _, h2, _⟩
        · exact h2
        · cases h2
      subst hgr
      refine ⟨?_, ?_, ?_, ?_⟩
      · intro v hv; simp [Asm.step, Asm.valueCall, hv, Asm.Proto.accepts]
      · intro v; simp [Asm.step, Asm.valueCall, Asm.Proto.accepts]
      · intro n; simp [Asm.step, Asm.valueCall, Asm.Proto.accepts]
      · intro n; simp [Asm.step, Asm.valueCall, Asm.Proto.accepts]
  | cons f rest =>
    cases hfr with
    | cons hf hrest =>
      rename_i gf grest
      cases f with
      | list ety enul xs mid =>
        cases mid with
        | false => simp [pos, posOf] at hp
        | true =>
          obtain ⟨x, rfl, _, _⟩ := hf.list_elim
          refine ⟨?_, ?_, ?_, ?_⟩
          · intro v hv; simp [Asm.step, Asm.valueCall, hv]
          · intro v; simp [Asm.step, Asm.valueCall]
          · intro n; simp [Asm.step, Asm.valueCall]
          · intro n; simp [Asm.step, Asm.valueCall]
      | map vty vnul es ph =>
        cases ph with
        | midValue k =>
          obtain ⟨des, m, rfl, _, _, _⟩ := hf.map_elim
          refine ⟨?_, ?_, ?_, ?_⟩
          · intro v hv; simp [Asm.step, Asm.valueCall, hv, gphase]
          · intro v; simp [Asm.step, Asm.valueCall, gphase]
          · intro n; simp [Asm.step, Asm.valueCall, gphase]
          · intro n; simp [Asm.step, Asm.valueCall, gphase]
        | init => simp [pos, posOf] at hp
        | midKey => simp [pos, posOf] at hp
        | expectValue k => simp [pos, posOf] at hp
      | struct fs es ph =>
        cases ph with
        | midValue k =>
          obtain ⟨des, m, rfl, _, _, _⟩ := hf.struct_elim
          refine ⟨?_, ?_, ?_, ?_⟩
          · intro v hv; simp [Asm.step, Asm.valueCall, hv, gphase]
          · intro v; simp [Asm.step, Asm.valueCall, gphase]
          · intro n; simp [Asm.step, Asm.valueCall, gphase]
          · intro n; simp [Asm.step, Asm.valueCall, gphase]
        | init => simp [pos, posOf] at hp
        | midKey => simp [pos, posOf] at hp
        | expectValue k => simp [pos, posOf] at hp

theorem Sim.push {ts : St} {gs : Asm.St} (h : Sim ts gs) {f : Frame} {gf : Asm.Frame} (hf : FrameR f gf) :
    Sim { ts with frames := f :: ts.frames } { gs with frames := gf :: gs.frames } :=
  ⟨h.proto, FramesR.cons hf h.frames, h.root⟩

theorem scalarOut_ok_isScalar {t : Ty} {nul : Bool} {v : DM} (h : scalarOut t nul v = .ok) :
    Asm.isScalar v = true := by
  cases v <;> first | rfl | (simp [scalarOut] at h)

/-- a call accepted by a typed value assembler (`AssignNode` apart) -/
theorem sim_valuePrim {ts : St} {gs : Asm.St} (h : Sim ts gs) {t : Ty} {nul : Bool} (hp : pos ts = .value t nul)
    {op : Op} {ts' : St} (hs : valuePrim ts t nul op = (ts', .ok)) :
    ∃ gs', Asm.step gs op = (gs', .ok) ∧ Sim ts' gs' := by
  obtain ⟨g1, _, g3, g4⟩ := gstep_at_value h hp
  cases op with
  | assign v =>
    simp only [valuePrim] at hs
    split at hs
    · rename_i hok
      obtain ⟨gs', hg, hsim⟩ := sim_deliver h hp (srcV_scalar hok)
      rw [hs] at hsim
      exact ⟨gs', by rw [g1 v (scalarOut_ok_isScalar hok)]; exact hg, hsim⟩
    · rename_i hne
      exact absurd (Prod.mk.inj hs).2 hne
  | beginMap n =>
    simp only [valuePrim] at hs
    split at hs
    · rename_i vty vnul
      obtain rfl := (Prod.mk.inj hs).1
      refine ⟨_, g3 n, h.push ?_⟩
      exact FrameR.map_intro (des := []) (m := []) .init (by simp) (by intro k; rfl)
    · rename_i fs rp
      obtain rfl := (Prod.mk.inj hs).1
      refine ⟨_, g3 n, h.push ?_⟩
      exact FrameR.struct_intro (des := []) (m := []) .init (by simp) (by intro k; rfl)
    · cases hs
  | beginList n =>
    simp only [valuePrim] at hs
    split at hs
    · rename_i ety enul
      obtain rfl := (Prod.mk.inj hs).1
      refine ⟨_, g4 n, h.push ?_⟩
      exact FrameR.list_intro (x := []) false (by simp)
    · cases hs
  | assembleKey => cases hs
  | assembleValue => cases hs
  | assembleEntry k => cases hs
  | assignNode v => cases hs
  | finish => cases hs

/-! ### keys -/

theorem Sim.replaceTop {T : Ty} {f g : Frame} {rest : List Frame} {r : Option TL} {tt : Bool} {p : Asm.Proto}
    {gf gg : Asm.Frame} {grest : List Asm.Frame} {gr : Option DM}
    (h : Sim ⟨T, f :: rest, r, tt⟩ ⟨p, gf :: grest, gr⟩) (hg : FrameR g gg) :
    Sim ⟨T, g :: rest, r, tt⟩ ⟨p, gg :: grest, gr⟩ := by
  refine ⟨h.proto, ?_, h.root⟩
  have := h.frames
  cases this with
  | cons _ hrest => exact FramesR.cons hg hrest

/-- a key accepted by a typed key assembler: the generic key assembler accepts it too (as a string or as a string node) -/
theorem sim_supplyKey {e : Engine} (he : e.keyAsmDupMapKey = false) {ts : St} {gs : Asm.St} (h : Sim ts gs)
    (hi : Inv ts) {k : Bytes} {ts' : St} (hs : supplyKey e ts k = (ts', .ok)) :
    ∃ gs', Asm.step gs (.assign (.str k)) = (gs', .ok) ∧ Asm.step gs (.assignNode (.str k)) = (gs', .ok) ∧
      Sim ts' gs' := by
  obtain ⟨T, fr, r, tt⟩ := ts
  obtain ⟨p, gfr, gr⟩ := gs
  have hfr := h.frames
  simp only at hfr
  unfold supplyKey at hs
  simp only at hs
  split at hs
  · rename_i vty vnul es rest
    cases hfr with
    | cons hf hrest =>
      rename_i gf grest
      obtain ⟨des, m, rfl, rfl, hok, hm⟩ := hf.map_elim
      split at hs
      · cases hs
      · rename_i hc
        simp only [he, Bool.not_false, Bool.and_true, Bool.not_eq_true] at hc
        obtain rfl := (Prod.mk.inj hs).1
        have hmk : Asm.mapHas m k = false := by rw [hm, hc]
        refine ⟨⟨p, .map (tableOf des (.expectValue k)) m (gphase (.expectValue k)) :: grest, gr⟩, ?_, ?_, ?_⟩
        · simp [Asm.step, Asm.supplyKey, hmk, tableOf, gphase]
        · simp [Asm.step, Asm.supplyKey, hmk, tableOf, gphase]
        · exact h.replaceTop (FrameR.map_intro (.expectValue k) hok hm)
  · rename_i fs es rest
    have hokf := hi.frames (.struct fs es .midKey) (by simp)
    cases hfr with
    | cons hf hrest =>
      rename_i gf grest
      obtain ⟨des, m, rfl, rfl, hok, hm⟩ := hf.struct_elim
      have hgoal : ∀ (hk : hasKey (des.map (nfield fs)) k = false),
          ∃ gs', Asm.step ⟨p, .map (tableOf des .midKey) m (gphase .midKey) :: grest, gr⟩ (.assign (.str k)) = (gs', .ok) ∧
            Asm.step ⟨p, .map (tableOf des .midKey) m (gphase .midKey) :: grest, gr⟩ (.assignNode (.str k)) = (gs', .ok) ∧
            Sim ⟨T, .struct fs (des.map (nfield fs)) (.expectValue k) :: rest, r, tt⟩ gs' := by
        intro hk
        have hmk : Asm.mapHas m k = false := by rw [hm, hk]
        refine ⟨⟨p, .map (tableOf des (.expectValue k)) m (gphase (.expectValue k)) :: grest, gr⟩, ?_, ?_, ?_⟩
        · simp [Asm.step, Asm.supplyKey, hmk, tableOf, gphase]
        · simp [Asm.step, Asm.supplyKey, hmk, tableOf, gphase]
        · exact h.replaceTop (FrameR.struct_intro (.expectValue k) hok hm)
      split at hs
      · rename_i hnone
        split at hs
        · cases hs
        · obtain rfl := (Prod.mk.inj hs).1
          apply hgoal
          cases hk : hasKey (des.map (nfield fs)) k with
          | false => rfl
          | true =>
            obtain ⟨f, hf⟩ := fieldOf_of_hasKey hokf.2.2.2.1 hk
            rw [hnone] at hf; cases hf
      · split at hs
        · cases hs
        · rename_i hc
          simp only [Bool.not_eq_true] at hc
          obtain rfl := (Prod.mk.inj hs).1
          exact hgoal hc
  · cases hs

/-! ### the calls on a map / list assembler itself -/

theorem gfinish_list (p : Asm.Proto) (x : List DM) (grest : List Asm.Frame) (gr : Option DM) :
    Asm.step ⟨p, .list x .init :: grest, gr⟩ .finish = Asm.deliver ⟨p, grest, gr⟩ (.list (DMs.ofList x)) := rfl

theorem gfinish_map (p : Asm.Proto) (des m : List (Bytes × DM)) (grest : List Asm.Frame) (gr : Option DM) :
    Asm.step ⟨p, .map (Asm.doneEntries des) m .init :: grest, gr⟩ .finish =
      Asm.deliver ⟨p, grest, gr⟩ (.map (DMKVs.ofList des)) := by
  simp [Asm.step, Asm.tableEntries_doneEntries]

theorem Sim.pop {T : Ty} {f : Frame} {rest : List Frame} {r : Option TL} {tt : Bool} {p : Asm.Proto}
    {gf : Asm.Frame} {grest : List Asm.Frame} {gr : Option DM}
    (h : Sim ⟨T, f :: rest, r, tt⟩ ⟨p, gf :: grest, gr⟩) : Sim ⟨T, rest, r, tt⟩ ⟨p, grest, gr⟩ := by
  refine ⟨h.proto, ?_, h.root⟩
  have := h.frames
  cases this with
  | cons _ hrest => exact hrest

theorem keys_nfield (fs : List Field) (des : List (Bytes × DM)) :
    (des.map (nfield fs)).map (·.1) = des.map (·.1) := nfield_keys fs des

/-- Every call except `AssignNode` that the typed machine accepts: accepted by the generic machine, relation kept. -/
theorem sim_stepPrim {e : Engine} (he : e.keyAsmDupMapKey = false) {ts : St} {gs : Asm.St} (h : Sim ts gs)
    (hi : Inv ts) {op : Op} {ts' : St} (hs : stepPrim e ts op = (ts', .ok)) (hop : ∀ v, op ≠ .assignNode v) :
    ∃ gs', Asm.step gs op = (gs', .ok) ∧ Sim ts' gs' := by
  cases hpos : pos ts with
  | value t nul =>
    rw [stepPrim_at_value hpos] at hs
    exact sim_valuePrim h hpos hs
  | errAsm =>
    rw [stepPrim_at_errAsm hpos] at hs
    exact absurd hs errPrim_ne_ok
  | key =>
    rw [stepPrim_at_key hpos] at hs
    unfold keyPrim at hs
    split at hs
    · obtain ⟨gs', h1, _, h3⟩ := sim_supplyKey he h hi hs
      exact ⟨gs', h1, h3⟩
    all_goals cases hs
  | other =>
    obtain ⟨T, fr, r, tt⟩ := ts
    obtain ⟨p, gfr, gr⟩ := gs
    have hfr := h.frames
    simp only at hfr
    cases fr with
    | nil =>
      cases r with
      | none => simp [pos, posOf] at hpos
      | some v => simp [stepPrim] at hs
    | cons f rest =>
      cases hfr with
      | cons hf hrest =>
        rename_i gf grest
        obtain ⟨pty, pnul, hppos, hfor⟩ := hi.parent
        cases f with
        | list ety enul xs mid =>
          cases mid with
          | true => simp [pos, posOf] at hpos
          | false =>
            obtain ⟨x, rfl, rfl, hok⟩ := hf.list_elim
            cases op with
            | assembleValue =>
              simp only [stepPrim] at hs
              obtain rfl := (Prod.mk.inj hs).1
              exact ⟨⟨p, .list x .midValue :: grest, gr⟩, rfl, h.replaceTop (FrameR.list_intro true hok)⟩
            | finish =>
              simp only [stepPrim] at hs
              simp only [FrameFor] at hfor
              subst hfor
              obtain ⟨gs', hg, hsim⟩ := sim_deliver h.pop hppos (srcV_list pnul hok)
              rw [hs] at hsim
              exact ⟨gs', by rw [show (if false = true then Asm.LPhase.midValue else Asm.LPhase.init) = .init from rfl,
                gfinish_list]; exact hg, hsim⟩
            | assign v => simp [stepPrim] at hs
            | assignNode v => exact absurd rfl (hop v)
            | beginMap n => simp [stepPrim] at hs
            | beginList n => simp [stepPrim] at hs
            | assembleKey => simp [stepPrim] at hs
            | assembleEntry k => simp [stepPrim] at hs
        | map vty vnul es ph =>
          have hokf := hi.frames (.map vty vnul es ph) (by simp)
          obtain ⟨des, m, rfl, rfl, hok, hm⟩ := hf.map_elim
          cases ph with
          | midKey => simp [pos, posOf] at hpos
          | midValue k => simp [pos, posOf] at hpos
          | expectValue k =>
            cases op with
            | assembleValue =>
              simp only [stepPrim] at hs
              obtain rfl := (Prod.mk.inj hs).1
              exact ⟨⟨p, .map (tableOf des (.midValue k)) m (gphase (.midValue k)) :: grest, gr⟩,
                by simp [Asm.step, tableOf, gphase], h.replaceTop (FrameR.map_intro (.midValue k) hok hm)⟩
            | assign v => simp [stepPrim] at hs
            | assignNode v => exact absurd rfl (hop v)
            | beginMap n => simp [stepPrim] at hs
            | beginList n => simp [stepPrim] at hs
            | assembleKey => simp [stepPrim] at hs
            | assembleEntry k => simp [stepPrim] at hs
            | finish => simp [stepPrim] at hs
          | init =>
            cases op with
            | assembleKey =>
              simp only [stepPrim] at hs
              obtain rfl := (Prod.mk.inj hs).1
              exact ⟨⟨p, .map (tableOf des .midKey) m (gphase .midKey) :: grest, gr⟩,
                by simp [Asm.step, tableOf, gphase], h.replaceTop (FrameR.map_intro .midKey hok hm)⟩
            | assembleEntry k =>
              simp only [stepPrim] at hs
              split at hs
              · cases hs
              · rename_i hc
                simp only [Bool.not_eq_true] at hc
                obtain rfl := (Prod.mk.inj hs).1
                have hmk : Asm.mapHas m k = false := by rw [hm, hc]
                exact ⟨⟨p, .map (tableOf des (.midValue k)) m (gphase (.midValue k)) :: grest, gr⟩,
                  by simp [Asm.step, tableOf, gphase, hmk], h.replaceTop (FrameR.map_intro (.midValue k) hok hm)⟩
            | finish =>
              simp only [stepPrim] at hs
              simp only [FrameFor] at hfor
              subst hfor
              have hnd : (des.map (·.1)).Nodup := by
                have := hokf.2.1
                rwa [List.map_map] at this
              obtain ⟨gs', hg, hsim⟩ := sim_deliver h.pop hppos (srcV_map pnul hnd hok)
              rw [hs] at hsim
              exact ⟨gs', by
                rw [show tableOf des .init = Asm.doneEntries des from rfl, show gphase .init = .init from rfl,
                  gfinish_map]; exact hg, hsim⟩
            | assign v => simp [stepPrim] at hs
            | assignNode v => exact absurd rfl (hop v)
            | beginMap n => simp [stepPrim] at hs
            | beginList n => simp [stepPrim] at hs
            | assembleValue => simp [stepPrim] at hs
        | struct fs es ph =>
          have hokf := hi.frames (.struct fs es ph) (by simp)
          obtain ⟨des, m, rfl, rfl, hok, hm⟩ := hf.struct_elim
          cases ph with
          | midKey => simp [pos, posOf] at hpos
          | midValue k =>
            simp only [pos, posOf] at hpos
            split at hpos <;> cases hpos
          | expectValue k =>
            cases op with
            | assembleValue =>
              simp only [stepPrim] at hs
              obtain rfl := (Prod.mk.inj hs).1
              exact ⟨⟨p, .map (tableOf des (.midValue k)) m (gphase (.midValue k)) :: grest, gr⟩,
                by simp [Asm.step, tableOf, gphase], h.replaceTop (FrameR.struct_intro (.midValue k) hok hm)⟩
            | assign v => simp [stepPrim] at hs
            | assignNode v => exact absurd rfl (hop v)
            | beginMap n => simp [stepPrim] at hs
            | beginList n => simp [stepPrim] at hs
            | assembleKey => simp [stepPrim] at hs
            | assembleEntry k => simp [stepPrim] at hs
            | finish => simp [stepPrim] at hs
          | init =>
            cases op with
            | assembleKey =>
              simp only [stepPrim] at hs
              obtain rfl := (Prod.mk.inj hs).1
              exact ⟨⟨p, .map (tableOf des .midKey) m (gphase .midKey) :: grest, gr⟩,
                by simp [Asm.step, tableOf, gphase], h.replaceTop (FrameR.struct_intro .midKey hok hm)⟩
            | assembleEntry k =>
              have hgoal : hasKey (des.map (nfield fs)) k = false →
                  ∃ gs', Asm.step ⟨p, .map (tableOf des .init) m (gphase .init) :: grest, gr⟩ (.assembleEntry k) = (gs', .ok) ∧
                    Sim ⟨T, .struct fs (des.map (nfield fs)) (.midValue k) :: rest, r, tt⟩ gs' := by
                intro hc
                have hmk : Asm.mapHas m k = false := by rw [hm, hc]
                exact ⟨⟨p, .map (tableOf des (.midValue k)) m (gphase (.midValue k)) :: grest, gr⟩,
                  by simp [Asm.step, tableOf, gphase, hmk], h.replaceTop (FrameR.struct_intro (.midValue k) hok hm)⟩
              simp only [stepPrim] at hs
              split at hs
              · rename_i hnone
                split at hs
                · cases hs
                · obtain rfl := (Prod.mk.inj hs).1
                  apply hgoal
                  cases hk : hasKey (des.map (nfield fs)) k with
                  | false => rfl
                  | true =>
                    obtain ⟨f, hf⟩ := fieldOf_of_hasKey hokf.2.2.2.1 hk
                    rw [hnone] at hf; cases hf
              · split at hs
                · cases hs
                · rename_i hc
                  simp only [Bool.not_eq_true] at hc
                  obtain rfl := (Prod.mk.inj hs).1
                  exact hgoal hc
            | finish =>
              simp only [stepPrim] at hs
              split at hs
              · rename_i hreq
                obtain ⟨F, rp, rfl, rfl⟩ := hfor
                have hnd : (des.map (·.1)).Nodup := by
                  have := hokf.2.2.1
                  rwa [keys_nfield] at this
                obtain ⟨gs', hg, hsim⟩ := sim_deliver h.pop hppos (srcV_struct rp pnul hnd hok hreq)
                rw [hs] at hsim
                exact ⟨gs', by
                  rw [show tableOf des .init = Asm.doneEntries des from rfl, show gphase .init = .init from rfl,
                    gfinish_map]; exact hg, hsim⟩
              · cases hs
            | assign v => simp [stepPrim] at hs
            | assignNode v => exact absurd rfl (hop v)
            | beginMap n => simp [stepPrim] at hs
            | beginList n => simp [stepPrim] at hs
            | assembleValue => simp [stepPrim] at hs

/-! ### every accepted call, `AssignNode` included -/

/-- where the current object is neither a value nor a key assembler, no value call is accepted -/
theorem stepPrim_other_value_call {e : Engine} {ts : St} (hp : pos ts = .other) {op : Op}
    (hc : TAsm.valueCall op = true) : (stepPrim e ts op).2 = .panic := by
  obtain ⟨T, fr, r, tt⟩ := ts
  cases fr with
  | nil =>
    cases r with
    | none => simp [pos, posOf] at hp
    | some v => rfl
  | cons f rest =>
    cases f with
    | list ety enul xs mid =>
      cases mid with
      | true => simp [pos, posOf] at hp
      | false => cases op <;> first | (cases hc; done) | rfl
    | map vty vnul es ph =>
      cases ph with
      | midKey => simp [pos, posOf] at hp
      | midValue k => simp [pos, posOf] at hp
      | init => cases op <;> first | (cases hc; done) | rfl
      | expectValue k => cases op <;> first | (cases hc; done) | rfl
    | struct fs es ph =>
      cases ph with
      | midKey => simp [pos, posOf] at hp
      | midValue k =>
        simp only [pos, posOf] at hp
        split at hp <;> cases hp
      | init => cases op <;> first | (cases hc; done) | rfl
      | expectValue k => cases op <;> first | (cases hc; done) | rfl

theorem putNode_of_begin_not_ok {e : Engine} {ts : St} {v : DM} (hr : isRec v = true) {ts' : St}
    (h : putNode e ts v = (ts', .ok)) : (stepPrim e ts (beginOp v)).2 = .ok := by
  cases v with
  | list xs =>
    simp only [putNode] at h
    obtain ⟨s1, h1, _⟩ := andThen_eq_ok h
    simp [beginOp, h1]
  | map es =>
    simp only [putNode] at h
    obtain ⟨s1, h1, _⟩ := andThen_eq_ok h
    simp [beginOp, h1]
  | null => cases hr
  | bool _ => cases hr
  | int _ => cases hr
  | float _ => cases hr
  | str _ => cases hr
  | bytes _ => cases hr
  | link _ => cases hr

theorem valueCall_beginOp (v : DM) : TAsm.valueCall (beginOp v) = true := by
  cases v <;> rfl

theorem typed_key_rec (e : Engine) (ts : St) (hp : pos ts = .key) (v : DM) (_hr : isRec v = true) :
    (stepPrim e ts (beginOp v)).2 = .err .wrongKind := by
  rw [stepPrim_at_key hp]
  cases v <;> rfl

/-- **One accepted call.**  A call the typed machine accepts is accepted by the generic machine, and the relation is kept. -/
theorem sim_step {e : Engine} (he : e.keyAsmDupMapKey = false) {ts : St} {gs : Asm.St} (h : Sim ts gs)
    (hi : Inv ts) {op : Op} {ts' : St} (hs : step e ts op = (ts', .ok)) :
    ∃ gs', Asm.step gs op = (gs', .ok) ∧ Sim ts' gs' := by
  have ht := step_ok_not_tainted hs (by intro e; cases e)
  by_cases hop : ∃ v, op = .assignNode v
  · obtain ⟨v, rfl⟩ := hop
    cases hpos : pos ts with
    | value t nul =>
      obtain ⟨h1, h2⟩ := step_assignNode_spec he ht hpos (hi.pos_wf hpos).2 v
      cases hc : (conforms t nul (TL.ofDM v) && int64s v) with
      | true =>
        rw [h1 hc] at hs
        obtain rfl := (Prod.mk.inj hs).1
        obtain ⟨gs', hg, hsim⟩ := sim_deliver h hpos (d := v) ⟨hc, rfl⟩
        exact ⟨gs', by rw [(gstep_at_value h hpos).2.1 v]; exact hg, hsim⟩
      | false =>
        obtain ⟨c, h3 | ⟨_, h3⟩⟩ := h2 hc
        · rw [h3] at hs; cases hs
        · rw [h3] at hs; cases hs
    | key =>
      rw [step_of_not_tainted ht] at hs
      by_cases hr : isRec v = true
      · exfalso
        have := (typed_key_rec e ts hpos v hr)
        simp only [stepU, hr, if_true] at hs
        split at hs
        · rename_i st' hp
          have hb := putNode_of_begin_not_ok hr hp
          rw [this] at hb; cases hb
        · split at hs <;> cases hs
        · cases hs
      · have hr' : isRec v = false := by simpa using hr
        simp only [stepU, hr', Bool.false_eq_true, if_false] at hs
        rw [stepPrim_at_key hpos] at hs
        cases v with
        | str k =>
          obtain ⟨gs', _, h2, h3⟩ := sim_supplyKey he h hi (show supplyKey e ts k = (ts', .ok) from hs)
          exact ⟨gs', h2, h3⟩
        | null => cases hs
        | bool _ => cases hs
        | int _ => cases hs
        | float _ => cases hs
        | bytes _ => cases hs
        | link _ => cases hs
        | list _ => cases hr'
        | map _ => cases hr'
    | errAsm =>
      exfalso
      rw [step_of_not_tainted ht] at hs
      obtain ⟨s', c, hpn⟩ := putNode_errAsm (e := e) hpos v
      by_cases hr : isRec v = true
      · simp only [stepU, hr, if_true, hpn] at hs
        split at hs <;> cases hs
      · have hr' : isRec v = false := by simpa using hr
        have : putNode e ts v = stepPrim e ts (.assign v) := by cases v <;> first | (cases hr'; done) | rfl
        simp only [stepU, hr', Bool.false_eq_true, if_false, ← this, hpn] at hs
        cases hs
    | other =>
      exfalso
      rw [step_of_not_tainted ht] at hs
      by_cases hr : isRec v = true
      · simp only [stepU, hr, if_true] at hs
        split at hs
        · rename_i st' hp
          have hb := putNode_of_begin_not_ok hr hp
          rw [stepPrim_other_value_call hpos (valueCall_beginOp v)] at hb
          cases hb
        · split at hs <;> cases hs
        · cases hs
      · have hr' : isRec v = false := by simpa using hr
        have hsc : TAsm.valueCall (.assign v) = true := by cases v <;> first | (cases hr'; done) | rfl
        simp only [stepU, hr', Bool.false_eq_true, if_false] at hs
        have := stepPrim_other_value_call (e := e) hpos hsc
        rw [hs] at this; cases this
  · have hop' : ∀ v, op ≠ .assignNode v := fun v hv => hop ⟨v, hv⟩
    rw [step_of_not_tainted ht] at hs
    have : stepU e ts op = stepPrim e ts op := by
      cases op <;> first | rfl | exact absurd rfl (hop' _)
    rw [this] at hs
    exact sim_stepPrim he h hi hs hop'

/-- **A history of accepted calls.**  If every call of a history is accepted by the typed machine, every call is accepted by
    the generic machine, and the final states are related. -/
theorem sim_run {e : Engine} (he : e.keyAsmDupMapKey = false) : (ops : List Op) → {ts : St} → {gs : Asm.St} →
    Sim ts gs → Inv ts → (∀ o ∈ (run e ts ops).2, o = .ok) →
    ∃ gs', Asm.run gs ops = (gs', List.replicate ops.length .ok) ∧ Sim (run e ts ops).1 gs'
  | [], ts, gs, h, _, _ => ⟨gs, rfl, h⟩
  | op :: ops, ts, gs, h, hi, hall => by
    cases hst : step e ts op with
    | mk ts1 o =>
      cases o with
      | ok =>
        rw [run_cons_ok ops hst] at hall ⊢
        obtain ⟨gs1, hg1, hsim1⟩ := sim_step he h hi hst
        have hi1 : Inv ts1 := by have := step_inv op he hi; rw [hst] at this; exact this
        obtain ⟨gs', hg', hsim'⟩ := sim_run he ops hsim1 hi1 (fun o ho => hall o (List.mem_cons_of_mem _ ho))
        refine ⟨gs', ?_, hsim'⟩
        rw [Asm.run_cons_ok ops hg1, hg']
        rfl
      | err c =>
        rw [run_cons_err ops hst] at hall
        have := hall (.err c) (by simp)
        cases this
      | panic =>
        rw [run_cons_panic ops hst] at hall
        have := hall .panic (by simp)
        cases this

end TAsm
end Ipld
