/-
  C09-3: the ideal representation-level builder accepts exactly the trees that conform at
  representation level.
-/
import IpldModel.Lemmas.SchemaConf
namespace Ipld
namespace Schema

/-! ## Strings -/

theorem conformsJoin_length : (fs : Fields) → (ps : List Bytes) → conformsJoin fs ps = true →
    ps.length = fs.toList.length
  | .nil, [], _ => rfl
  | .nil, _ :: _, h => by simp [conformsJoin] at h
  | .cons _ _ _ _ _ _, [], h => by simp [conformsJoin] at h
  | .cons _ _ _ _ t rest, p :: ps, h => by
    simp only [conformsJoin, Bool.and_eq_true] at h
    simp [Fields.toList, conformsJoin_length rest ps h.2]

mutual
theorem buildScalar_str_isOk (nul : Bool) (s : Bytes) : (ty : Ty) →
    (buildScalar Engine.ideal .repr nul (.str s) ty).isOk = conformsStr s ty
  | .bool => by simp [buildScalar, conformsStr]
  | .int => by simp [buildScalar, conformsStr]
  | .float => by simp [buildScalar, conformsStr]
  | .str => by simp [buildScalar, conformsStr]
  | .bytes => by simp [buildScalar, conformsStr]
  | .link => by simp [buildScalar, conformsStr]
  | .any => by simp [buildScalar, conformsStr, isScalar]
  | .list _ _ => by simp [buildScalar, conformsStr]
  | .map _ _ => by simp [buildScalar, conformsStr]
  | .struct fs .map => by simp [buildScalar, conformsStr]
  | .struct fs .tuple => by simp [buildScalar, conformsStr]
  | .struct fs .listpairs => by simp [buildScalar, conformsStr]
  | .struct fs (.stringjoin delim) => by
    simp only [buildScalar, conformsStr]
    have ih := buildJoin_isOk fs (splitAll delim s)
    split
    · next hl =>
      cases hc : conformsJoin fs (splitAll delim s) with
      | false => rfl
      | true =>
        have := conformsJoin_length fs _ hc
        simp [this] at hl
    · rw [← ih]
      cases buildJoin Engine.ideal fs (splitAll delim s) <;> rfl
  | .union ms .keyed => by simp [buildScalar, conformsStr]
  | .union ms .kinded => by
    simp only [buildScalar, conformsStr]
    exact buildKinded_str_isOk nul s ms
  | .union ms (.stringprefix delim) => by
    simp only [buildScalar, conformsStr]
    split
    · exact buildPrefixNoDelim_isOk nul s ms
    · split
      · next hq => simp [hq]
      · next p rest hq => simp only [hq]; exact buildPrefix_isOk nul p rest ms
  | .enum ms .str => by
    simp only [buildScalar, conformsStr, ideal_enumNameAtRepr, Bool.false_eq_true, if_false]
    rw [any_key_iff_find? (·.rstr) ms s]
    cases ms.find? (fun m => m.rstr == s) <;> rfl
  | .enum ms .int => by simp [buildScalar, conformsStr]
theorem buildJoin_isOk : (fs : Fields) → (ps : List Bytes) →
    (buildJoin Engine.ideal fs ps).isOk = conformsJoin fs ps
  | .nil, [] => by simp [buildJoin, conformsJoin]
  | .nil, _ :: _ => by simp [buildJoin, conformsJoin]
  | .cons _ _ _ _ _ _, [] => by simp [buildJoin, conformsJoin]
  | .cons n _ _ _ t rest, p :: ps => by
    simp only [buildJoin, conformsJoin]
    rw [← buildScalar_str_isOk false p t, ← buildJoin_isOk rest ps]
    cases buildScalar Engine.ideal .repr false (.str p) t <;>
      cases buildJoin Engine.ideal rest ps <;> rfl
theorem buildKinded_str_isOk (nul : Bool) (s : Bytes) : (ms : Members) →
    (buildKinded Engine.ideal nul (.str s) ms).isOk = conformsKindedStr s ms
  | .nil => by simp [buildKinded, conformsKindedStr]
  | .cons n _ k t rest => by
    simp only [buildKinded, conformsKindedStr, DM.kind, ideal_nullableUnionPanic, Bool.and_false,
      Bool.false_eq_true, if_false]
    split
    · rw [Outcome.isOk_map]; exact buildScalar_str_isOk false s t
    · exact buildKinded_str_isOk nul s rest
theorem buildPrefix_isOk (nul : Bool) (p r : Bytes) : (ms : Members) →
    (buildPrefix Engine.ideal nul p r ms).isOk = conformsPrefix p r ms
  | .nil => by simp [buildPrefix, conformsPrefix]
  | .cons n disc _ t rest => by
    simp only [buildPrefix, conformsPrefix, ideal_nullableUnionPanic, Bool.and_false,
      Bool.false_eq_true, if_false]
    split
    · rw [Outcome.isOk_map]; exact buildScalar_str_isOk false r t
    · exact buildPrefix_isOk nul p r rest
theorem buildPrefixNoDelim_isOk (nul : Bool) (s : Bytes) : (ms : Members) →
    (buildPrefixNoDelim Engine.ideal nul s ms).isOk = conformsPrefixNoDelim s ms
  | .nil => by simp [buildPrefixNoDelim, conformsPrefixNoDelim]
  | .cons n disc _ t rest => by
    simp only [buildPrefixNoDelim, conformsPrefixNoDelim, ideal_nullableUnionPanic, Bool.and_false,
      Bool.false_eq_true, if_false]
    split
    · rw [Outcome.isOk_map]; exact buildScalar_str_isOk false _ t
    · exact buildPrefixNoDelim_isOk nul s rest
end

/-! ## Other scalars -/

/-- bool, int, float, bytes or link -/
def isAtom : DM → Bool
  | .bool _ => true
  | .int _ => true
  | .float _ => true
  | .bytes _ => true
  | .link _ => true
  | _ => false

mutual
theorem buildScalar_atom_isOk (nul : Bool) (d : DM) (hd : isAtom d = true) : (ty : Ty) →
    (buildScalar Engine.ideal .repr nul d ty).isOk = conformsAtom d ty
  | .bool => by cases d <;> simp_all [buildScalar, conformsAtom, isAtom, DM.kind]
  | .int => by cases d <;> simp_all [buildScalar, conformsAtom, isAtom, DM.kind]
  | .float => by cases d <;> simp_all [buildScalar, conformsAtom, isAtom, DM.kind]
  | .str => by cases d <;> simp_all [buildScalar, conformsAtom, isAtom]
  | .bytes => by cases d <;> simp_all [buildScalar, conformsAtom, isAtom, DM.kind]
  | .link => by cases d <;> simp_all [buildScalar, conformsAtom, isAtom, DM.kind]
  | .any => by cases d <;> simp_all [buildScalar, conformsAtom, isAtom, isScalar]
  | .list _ _ => by simp [buildScalar, conformsAtom]
  | .map _ _ => by simp [buildScalar, conformsAtom]
  | .struct fs r => by
    unfold buildScalar
    split
    · simp [isAtom] at hd
    · simp [conformsAtom]
  | .union ms .keyed => by simp [buildScalar, conformsAtom]
  | .union ms .kinded => by
    simp only [buildScalar, conformsAtom]
    exact buildKinded_atom_isOk nul d hd ms
  | .union ms (.stringprefix delim) => by
    cases d <;> simp_all [buildScalar, conformsAtom, isAtom]
  | .enum ms .str => by cases d <;> simp_all [buildScalar, conformsAtom, isAtom]
  | .enum ms .int => by
    cases d <;> simp_all [buildScalar, conformsAtom, isAtom]
    next i =>
      rw [any_key_iff_find? (·.rint) ms i]
      cases ms.find? (fun m => m.rint == i) <;> rfl
theorem buildKinded_atom_isOk (nul : Bool) (d : DM) (hd : isAtom d = true) : (ms : Members) →
    (buildKinded Engine.ideal nul d ms).isOk = conformsKindedAtom d ms
  | .nil => by simp [buildKinded, conformsKindedAtom]
  | .cons n _ k t rest => by
    simp only [buildKinded, conformsKindedAtom, ideal_nullableUnionPanic, Bool.and_false,
      Bool.false_eq_true, if_false]
    split
    · rw [Outcome.isOk_map]; exact buildScalar_atom_isOk false d hd t
    · exact buildKinded_atom_isOk nul d hd rest
end

/-! ## Kinded dispatch does not look at the slot (ideal engine) -/

theorem resolveMembers_ideal_nul (nul : Bool) (k : Kind) : (ms : Members) →
    resolveMembers Engine.ideal nul k ms = resolveMembers Engine.ideal false k ms
  | .nil => by simp [resolveMembers]
  | .cons n _ k' t rest => by
    unfold resolveMembers
    simp only [ideal_nullableUnionPanic, Bool.and_false, Bool.false_eq_true, if_false]
    rw [resolveMembers_ideal_nul nul k rest]

theorem resolveKinded_ideal_nul (nul : Bool) (k : Kind) (ty : Ty) :
    resolveKinded Engine.ideal nul k ty = resolveKinded Engine.ideal false k ty := by
  unfold resolveKinded
  split
  · exact resolveMembers_ideal_nul nul k _
  · rfl

theorem eq_of_key_eq {α β : Type} [BEq β] [LawfulBEq β] (key : α → β) (l : List α)
    (hnd : (l.map key).Nodup) (a b : α) (ha : a ∈ l) (hb : b ∈ l) (h : key a = key b) : a = b := by
  have h1 := find?_key_of_mem key l hnd a ha
  have h2 := find?_key_of_mem key l hnd b hb
  simp only [h] at h1
  rw [h1] at h2
  exact Option.some.inj h2

theorem all_congr_mem {α : Type} (p q : α → Bool) : (l : List α) → (∀ a ∈ l, p a = q a) → l.all p = l.all q
  | [], _ => rfl
  | a :: l, h => by
    simp only [List.all_cons, h a (by simp), all_congr_mem p q l (fun b hb => h b (by simp [hb]))]

theorem finish_isOk (fs : List Field) (g : Bytes → Option TL) :
    ((SSt.ofFn fs g).finish fs).isOk = fs.all (fun f => f.opt || (g f.name).isSome) := by
  rw [SSt.ofFn_finish]
  split <;> simp_all

/-! ## The representation-level builder -/

mutual
theorem build_repr_isOk : (d : DM) → (ty : Ty) → (nul : Bool) → ty.wf = true →
    (build Engine.ideal .repr ty nul none d).isOk = conformsRepr ty nul d
  | .null, ty, nul, _ => by unfold build conformsRepr; cases nul <;> simp
  | .bool b, ty, nul, _ => by unfold build conformsRepr; exact buildScalar_atom_isOk nul _ rfl ty
  | .int b, ty, nul, _ => by unfold build conformsRepr; exact buildScalar_atom_isOk nul _ rfl ty
  | .float b, ty, nul, _ => by unfold build conformsRepr; exact buildScalar_atom_isOk nul _ rfl ty
  | .bytes b, ty, nul, _ => by unfold build conformsRepr; exact buildScalar_atom_isOk nul _ rfl ty
  | .link b, ty, nul, _ => by unfold build conformsRepr; exact buildScalar_atom_isOk nul _ rfl ty
  | .str s, ty, nul, _ => by unfold build conformsRepr; exact buildScalar_str_isOk nul s ty
  | .list xs, ty, nul, hwf => by
    unfold build conformsRepr
    simp only [kindedTarget, resolveKinded_ideal_nul nul]
    cases hres : resolveKinded Engine.ideal false .list ty with
    | reject => simp
    | panic => simp
    | ok r =>
      obtain ⟨ty', path⟩ := r
      have hwf' := (resolveKinded_conforms false .list ty hwf ty' path hres).1
      simp only [ite_self, Outcome.isOk_map]
      cases ty' with
      | list ety enul =>
        simp only [curList, Outcome.isOk_map]
        exact buildList_isOk xs ety enul (by simpa [Ty.wf] using hwf') []
      | struct fs sr =>
        have hw := wf_struct hwf'
        cases sr with
        | tuple =>
          simp only [SSt.init_none]
          exact buildTuple_isOk xs fs.toList (Fields.wf_mem fs hw.1) hw.2.1 [] fs.toList rfl _
            (by simp) (by simp)
        | listpairs =>
          simp only [SSt.init_none]
          exact buildPairs_isOk xs fs.toList (Fields.wf_mem fs hw.1) hw.2.1 _ [] (by simp)
        | map => simp
        | stringjoin _ => simp
      | any => simp only []; split <;> simp_all
      | _ => simp
  | .map es, ty, nul, hwf => by
    rw [build_map_ideal]
    unfold conformsRepr
    simp only [kindedTarget, resolveKinded_ideal_nul nul]
    cases hres : resolveKinded Engine.ideal false .map ty with
    | reject => simp
    | panic => simp
    | ok r =>
      obtain ⟨ty', path⟩ := r
      have hwf' := (resolveKinded_conforms false .map ty hwf ty' path hres).1
      simp only [ite_self, Outcome.isOk_map]
      cases ty' with
      | map vty vnul =>
        simp only [curMap, Outcome.isOk_map]
        exact buildMap_isOk es vty vnul (by simpa [Ty.wf] using hwf') [] [] (by simp)
      | struct fs sr =>
        have hw := wf_struct hwf'
        cases sr with
        | map =>
          simp only [SSt.init_none]
          exact buildStruct_isOk es fs.toList (Fields.wf_mem fs hw.1) hw.2.1 hw.2.2 _ [] (by simp)
        | tuple => simp
        | listpairs => simp
        | stringjoin _ => simp
      | union ms ur =>
        have hw := wf_union hwf'
        cases ur with
        | keyed =>
          simp only []
          match es with
          | .nil => simp [buildUnion]
          | .cons k x .nil =>
            simp only [buildUnion, memberByKey_ideal]
            cases hm : ms.toList.find? (fun m => m.disc == k) with
            | none => simp
            | some m =>
              have hmm := List.mem_of_find?_eq_some hm
              simp only []
              rw [← build_repr_isOk x m.ty false (Members.wf_mem ms hw.1 m hmm)]
              cases build Engine.ideal .repr m.ty false none x <;> simp
          | .cons k x (.cons k2 x2 es2) =>
            simp only [buildUnion, memberByKey_ideal]
            cases hm : ms.toList.find? (fun m => m.disc == k) with
            | none => simp
            | some m =>
              simp only []
              cases build Engine.ideal .repr m.ty false none x <;> simp
        | kinded => simp
        | stringprefix _ => simp
      | any => simp only []; split <;> simp_all
      | _ => simp
theorem buildList_isOk : (xs : DMs) → (ety : Ty) → (enul : Bool) → ety.wf = true → (acc : List TL) →
    (buildList Engine.ideal .repr ety enul acc xs).isOk = conformsReprList ety enul xs
  | .nil, _, _, _, _ => by simp [buildList, conformsReprList]
  | .cons x xs, ety, enul, hwf, acc => by
    rw [buildList_cons_ideal]
    unfold conformsReprList
    rw [← build_repr_isOk x ety enul hwf]
    cases build Engine.ideal .repr ety enul none x with
    | ok v => simp only [Outcome.isOk_ok, Bool.true_and]; exact buildList_isOk xs ety enul hwf _
    | reject => simp
    | panic => simp
theorem buildMap_isOk : (es : DMKVs) → (vty : Ty) → (vnul : Bool) → vty.wf = true →
    (acc : List (Bytes × TL)) → (seen : List Bytes) →
    (∀ k, seen.contains k = acc.any (fun p => p.1 == k)) →
    (buildMap Engine.ideal .repr vty vnul acc es).isOk = conformsReprMap vty vnul seen es
  | .nil, _, _, _, _, _, _ => by simp [buildMap, conformsReprMap]
  | .cons k v es, vty, vnul, hwf, acc, seen, hseen => by
    rw [buildMap_cons_ideal]
    unfold conformsReprMap
    simp only [ideal_dupMapKey, Bool.not_false, Bool.and_true, hseen k]
    by_cases hk : acc.any (fun p => p.1 == k) = true
    · simp [hk]
    · simp only [hk, Bool.false_eq_true, if_false, Bool.not_false, Bool.true_and]
      rw [← build_repr_isOk v vty vnul hwf]
      cases build Engine.ideal .repr vty vnul none v with
      | ok tv =>
        simp only [Outcome.isOk_ok, Bool.true_and]
        rw [mapAppend_fresh acc k _ (Bool.eq_false_iff.2 hk)]
        apply buildMap_isOk es vty vnul hwf _ (k :: seen)
        intro k'
        simp only [List.contains_cons, hseen k', List.any_append, List.any_cons, List.any_nil,
          Bool.or_false]
        rw [Bool.or_comm]
        congr 1
        exact Bool.beq_comm
      | reject => simp
      | panic => simp
theorem buildStruct_isOk : (es : DMKVs) → (fs : List Field) → (∀ f ∈ fs, f.ty.wf = true) →
    (fs.map (·.name)).Nodup → (fs.map (·.rename)).Nodup → (g : Bytes → Option TL) →
    (seen : List Bytes) → (∀ f ∈ fs, seen.contains f.rename = (g f.name).isSome) →
    (buildStruct Engine.ideal .repr fs (SSt.ofFn fs g) es).isOk = conformsReprStruct fs seen es
  | .nil, fs, _, _, _, g, seen, hseen => by
    unfold buildStruct conformsReprStruct
    rw [finish_isOk]
    exact all_congr_mem _ _ fs (fun f hf => by rw [hseen f hf])
  | .cons k x es, fs, hwf, hnd, hndr, g, seen, hseen => by
    rw [buildStruct_cons_ideal]
    unfold conformsReprStruct
    cases hf : fieldByKey Engine.ideal .repr fs k with
    | none =>
      have := fieldByKey_ideal_none .repr fs k hf
      simp only [] at this
      simp [this]
    | some r =>
      obtain ⟨i, f⟩ := r
      have hk := fieldByKey_ideal_some .repr fs k i f hf
      simp only [] at hk
      obtain ⟨hi, hmem, hname, hfind⟩ := hk
      simp only [hfind, SSt.ofFn_isDone fs g i f hi, ← hseen f hmem, hname, ideal_dupStructField,
        Bool.not_false, Bool.and_true, SSt.curOf_ideal]
      by_cases hs : seen.contains k = true
      · simp only [hs, if_true, Bool.not_true, Bool.false_and, Outcome.isOk_reject]
      · simp only [hs, Bool.false_eq_true, if_false, Bool.not_false, Bool.true_and]
        rw [← build_repr_isOk x f.ty f.nullable (hwf f hmem)]
        cases build Engine.ideal .repr f.ty f.nullable none x with
        | ok tv =>
          simp only [Outcome.isOk_ok, Bool.true_and]
          rw [SSt.ofFn_assign fs g i f _ hi hnd]
          apply buildStruct_isOk es fs hwf hnd hndr _ (k :: seen)
          intro f' hf'
          simp only [List.contains_cons, hseen f' hf', setFn]
          by_cases hff : f' = f
          · subst hff; simp [hname]
          · have h1 : f'.rename ≠ k := fun h =>
              hff (eq_of_key_eq (·.rename) fs hndr f' f hf' hmem (h.trans hname.symm))
            have h2 : f'.name ≠ f.name := fun h => hff (eq_of_key_eq (·.name) fs hnd f' f hf' hmem h)
            have h1' : (f'.rename == k) = false := by simpa using h1
            have h2' : (f'.name == f.name) = false := by simpa using h2
            simp [h1', h2']
        | reject => simp
        | panic => simp
theorem buildTuple_isOk : (xs : DMs) → (fs : List Field) → (∀ f ∈ fs, f.ty.wf = true) →
    (fs.map (·.name)).Nodup → (pre suf : List Field) → fs = pre ++ suf → (g : Bytes → Option TL) →
    (∀ f ∈ pre, (g f.name).isSome = true) → (∀ f ∈ suf, g f.name = none) →
    (buildTuple Engine.ideal fs (SSt.ofFn fs g) pre.length xs).isOk = conformsReprTuple suf xs
  | .nil, fs, _, _, pre, suf, hfs, g, hpre, hsuf => by
    rw [buildTuple_nil_ideal]
    unfold conformsReprTuple
    rw [finish_isOk, hfs, List.all_append]
    have h1 : pre.all (fun f => f.opt || (g f.name).isSome) = true := by
      simp only [List.all_eq_true, Bool.or_eq_true]
      exact fun f hf => Or.inr (hpre f hf)
    have h2 : suf.all (fun f => f.opt || (g f.name).isSome) = suf.all (fun f => f.opt) :=
      all_congr_mem _ _ suf (fun f hf => by simp [hsuf f hf])
    rw [h1, h2, Bool.true_and]
  | .cons x xs, fs, hwf, hnd, pre, [], hfs, g, hpre, hsuf => by
    rw [buildTuple_cons_ideal]
    unfold conformsReprTuple
    have : fs[pre.length]? = none := by simp [hfs]
    simp [this]
  | .cons x xs, fs, hwf, hnd, pre, f :: suf, hfs, g, hpre, hsuf => by
    rw [buildTuple_cons_ideal]
    unfold conformsReprTuple
    have hi : fs[pre.length]? = some f := by simp [hfs]
    have hmem : f ∈ fs := List.mem_of_getElem? hi
    simp only [hi, SSt.curOf_ideal]
    rw [← build_repr_isOk x f.ty f.nullable (hwf f hmem)]
    cases build Engine.ideal .repr f.ty f.nullable none x with
    | ok tv =>
      simp only [Outcome.isOk_ok, Bool.true_and]
      rw [SSt.ofFn_assign fs g _ f _ hi hnd]
      have := buildTuple_isOk xs fs hwf hnd (pre ++ [f]) suf (by simp [hfs]) (setFn g f.name tv)
        (by
          intro f' hf'
          simp only [List.mem_append, List.mem_singleton] at hf'
          simp only [setFn]
          split
          · rfl
          · rcases hf' with hf' | rfl
            · exact hpre f' hf'
            · simp_all)
        (by
          intro f' hf'
          have hne : f'.name ≠ f.name := by
            intro heq
            rw [hfs, List.map_append, List.map_cons] at hnd
            have := (List.nodup_cons.1 (List.nodup_append.1 hnd).2.1).1
            exact this (heq ▸ List.mem_map_of_mem hf')
          rw [setFn_other _ _ _ _ hne]
          exact hsuf f' (by simp [hf']))
      simpa using this
    | reject => simp
    | panic => simp
theorem buildPairs_isOk : (ps : DMs) → (fs : List Field) → (∀ f ∈ fs, f.ty.wf = true) →
    (fs.map (·.name)).Nodup → (g : Bytes → Option TL) → (seen : List Bytes) →
    (∀ k, seen.contains k = (g k).isSome) →
    (buildPairs Engine.ideal fs (SSt.ofFn fs g) ps).isOk = conformsReprPairs fs seen ps
  | .nil, fs, _, _, g, seen, hseen => by
    unfold buildPairs conformsReprPairs
    rw [finish_isOk]
    exact all_congr_mem _ _ fs (fun f _ => by rw [hseen f.name])
  | .cons (.list (.cons (.str k) (.cons x .nil))) ps, fs, hwf, hnd, g, seen, hseen => by
    unfold buildPairs conformsReprPairs
    simp only []
    cases hf : findIdx (fun f => f.name == k) fs with
    | none =>
      have := (findIdx_none _ fs).1 hf
      simp [this]
    | some r =>
      obtain ⟨i, f⟩ := r
      obtain ⟨hi, hpk, hfind⟩ := findIdx_some _ fs i f hf
      have hname : f.name = k := by simpa using hpk
      have hmem : f ∈ fs := List.mem_of_getElem? hi
      simp only [hfind, SSt.ofFn_isDone fs g i f hi, hname, ← hseen k, ideal_dupStructField,
        Bool.not_false, Bool.and_true, SSt.curOf_ideal]
      by_cases hs : seen.contains k = true
      · simp only [hs, if_true, Bool.not_true, Bool.false_and, Outcome.isOk_reject]
      · simp only [hs, Bool.false_eq_true, if_false, Bool.not_false, Bool.true_and]
        rw [← build_repr_isOk x f.ty f.nullable (hwf f hmem)]
        cases build Engine.ideal .repr f.ty f.nullable none x with
        | ok tv =>
          simp only [Outcome.isOk_ok, Bool.true_and]
          rw [SSt.ofFn_assign fs g i f _ hi hnd, hname]
          apply buildPairs_isOk ps fs hwf hnd _ (k :: seen)
          intro k'
          simp only [List.contains_cons, hseen k', setFn]
          by_cases hkk : k' = k
          · subst hkk; simp
          · have : (k' == k) = false := by simpa using hkk
            simp [this]
        | reject => simp
        | panic => simp
  | .cons (.list (.cons (.str k) (.cons x (.cons y rest)))) ps, fs, hwf, hnd, g, seen, hseen => by
    unfold buildPairs conformsReprPairs
    simp only []
    split
    · simp
    · split
      · simp
      · split <;> simp
  | .cons (.list .nil) ps, _, _, _, _, _, _ => by simp [buildPairs, conformsReprPairs]
  | .cons (.list (.cons (.str _) .nil)) ps, _, _, _, _, _, _ => by simp [buildPairs, conformsReprPairs]
  | .cons .null ps, _, _, _, _, _, _ => by simp [buildPairs, conformsReprPairs]
  | .cons (.bool _) ps, _, _, _, _, _, _ => by simp [buildPairs, conformsReprPairs]
  | .cons (.int _) ps, _, _, _, _, _, _ => by simp [buildPairs, conformsReprPairs]
  | .cons (.float _) ps, _, _, _, _, _, _ => by simp [buildPairs, conformsReprPairs]
  | .cons (.str _) ps, _, _, _, _, _, _ => by simp [buildPairs, conformsReprPairs]
  | .cons (.bytes _) ps, _, _, _, _, _, _ => by simp [buildPairs, conformsReprPairs]
  | .cons (.link _) ps, _, _, _, _, _, _ => by simp [buildPairs, conformsReprPairs]
  | .cons (.map _) ps, _, _, _, _, _, _ => by simp [buildPairs, conformsReprPairs]
  | .cons (.list (.cons .null _)) ps, _, _, _, _, _, _ => by simp [buildPairs, conformsReprPairs]
  | .cons (.list (.cons (.bool _) _)) ps, _, _, _, _, _, _ => by simp [buildPairs, conformsReprPairs]
  | .cons (.list (.cons (.int _) _)) ps, _, _, _, _, _, _ => by simp [buildPairs, conformsReprPairs]
  | .cons (.list (.cons (.float _) _)) ps, _, _, _, _, _, _ => by simp [buildPairs, conformsReprPairs]
  | .cons (.list (.cons (.bytes _) _)) ps, _, _, _, _, _, _ => by simp [buildPairs, conformsReprPairs]
  | .cons (.list (.cons (.link _) _)) ps, _, _, _, _, _, _ => by simp [buildPairs, conformsReprPairs]
  | .cons (.list (.cons (.list _) _)) ps, _, _, _, _, _, _ => by simp [buildPairs, conformsReprPairs]
  | .cons (.list (.cons (.map _) _)) ps, _, _, _, _, _, _ => by simp [buildPairs, conformsReprPairs]
end

end Schema
end Ipld
