/-
  Helper definitions and lemmas about the assembler model (`Ipld.Asm`): the lookup map, the entry
  table, the frame invariant `Inv`, the all-ok run predicate `Runs`, history erasure `erase`, and
  the plan relation `Plan` (canonical plan plus its variants).  The property theorems built from
  these live in `IpldModel/Props/C12.lean` and `IpldModel/Props/C01.lean`.  Core Lean only.
-/
import IpldModel.Model.Assembler
namespace Ipld
namespace Asm

/-! ### the lookup map (`plainMap.m`) -/

theorem mapLookup_cons (a : Bytes) (b : DM) (r : List (Bytes × DM)) (k : Bytes) :
    mapLookup ((a, b) :: r) k = if a = k then some b else mapLookup r k := by
  simp [mapLookup]

theorem mapInsert_cons (a : Bytes) (b : DM) (r : List (Bytes × DM)) (k : Bytes) (v : DM) :
    mapInsert ((a, b) :: r) k v = if a = k then (k, v) :: r else (a, b) :: mapInsert r k v := by
  simp [mapInsert]

theorem mapLookup_mapInsert (m : List (Bytes × DM)) (k k' : Bytes) (v : DM) :
    mapLookup (mapInsert m k v) k' = if k = k' then some v else mapLookup m k' := by
  induction m with
  | nil => simp [mapInsert, mapLookup]
  | cons e r ih =>
    obtain ⟨a, b⟩ := e
    rw [mapInsert_cons]
    by_cases h : a = k
    · subst h
      rw [if_pos rfl, mapLookup_cons, mapLookup_cons]
      by_cases h2 : a = k' <;> simp [h2]
    · rw [if_neg h, mapLookup_cons, mapLookup_cons, ih]
      by_cases h2 : a = k'
      · subst h2
        have : ¬ k = a := fun e => h e.symm
        simp [this]
      · simp [h2]

theorem mapHas_mapInsert (m : List (Bytes × DM)) (k k' : Bytes) (v : DM) :
    mapHas (mapInsert m k v) k' = (decide (k = k') || mapHas m k') := by
  simp only [mapHas, mapLookup_mapInsert]
  by_cases h : k = k' <;> simp [h]

theorem mapHas_eq_false_iff (m : List (Bytes × DM)) (k : Bytes) :
    mapHas m k = false ↔ mapLookup m k = none := by
  simp [mapHas]

/-! ### the entry table (`plainMap.t`) -/

/-- every entry of the table has its value -/
def AllDone (t : List (Bytes × Option DM)) : Prop := ∀ e ∈ t, e.2.isSome = true

theorem allDone_nil : AllDone [] := by intro e h; cases h

theorem allDone_append {t u : List (Bytes × Option DM)} :
    AllDone (t ++ u) ↔ AllDone t ∧ AllDone u := by
  simp only [AllDone, List.mem_append]
  constructor
  · intro h; exact ⟨fun e he => h e (Or.inl he), fun e he => h e (Or.inr he)⟩
  · intro h e he; rcases he with he | he
    · exact h.1 e he
    · exact h.2 e he

theorem allDone_single (k : Bytes) (v : DM) : AllDone [(k, some v)] := by
  intro e he; simp at he; subst he; rfl

theorem tableEntries_append (t u : List (Bytes × Option DM)) :
    tableEntries (t ++ u) = tableEntries t ++ tableEntries u := by
  simp [tableEntries, List.filterMap_append]

@[simp] theorem tableEntries_nil : tableEntries [] = [] := rfl
@[simp] theorem tableEntries_single_none (k : Bytes) : tableEntries [(k, none)] = [] := rfl
@[simp] theorem tableEntries_single_some (k : Bytes) (v : DM) :
    tableEntries [(k, some v)] = [(k, v)] := rfl

theorem setLast_append_single (t : List (Bytes × Option DM)) (k : Bytes) (o : Option DM) (v : DM) :
    setLast (t ++ [(k, o)]) v = t ++ [(k, some v)] := by
  induction t with
  | nil => rfl
  | cons e r ih =>
    cases r with
    | nil => obtain ⟨a, b⟩ := e; simp [setLast]
    | cons e' r' =>
      simp only [List.cons_append] at ih ⊢
      rw [setLast, ih]
      intro k' x _ h; cases h

theorem lastKey_append_single (t : List (Bytes × Option DM)) (k : Bytes) (o : Option DM) :
    lastKey (t ++ [(k, o)]) = some k := by
  simp [lastKey]

theorem lastKey_ne_nil {t : List (Bytes × Option DM)} (h : t ≠ []) : ∃ k, lastKey t = some k := by
  cases hl : t.getLast? with
  | none => simp at hl; exact absurd hl h
  | some e => exact ⟨e.1, by simp [lastKey, hl]⟩

/-- the keys of the completed entries are a sublist of the keys of the table -/
theorem tableEntries_keys_sublist (t : List (Bytes × Option DM)) :
    ((tableEntries t).map (·.1)).Sublist (t.map (·.1)) := by
  induction t with
  | nil => simp
  | cons e r ih =>
    obtain ⟨a, b⟩ := e
    cases b with
    | none => simpa [tableEntries] using ih.cons a
    | some v => simpa [tableEntries] using ih.cons_cons a

theorem tableEntries_keys_of_allDone {t : List (Bytes × Option DM)} (h : AllDone t) :
    (tableEntries t).map (·.1) = t.map (·.1) := by
  induction t with
  | nil => rfl
  | cons e r ih =>
    obtain ⟨a, b⟩ := e
    have hr : AllDone r := fun e he => h e (List.mem_cons_of_mem _ he)
    cases b with
    | none => have := h (a, none) (List.mem_cons_self ..); simp at this
    | some v => simpa [tableEntries] using ih hr

theorem mem_tableEntries {t : List (Bytes × Option DM)} {k : Bytes} {v : DM} :
    (k, v) ∈ tableEntries t ↔ (k, some v) ∈ t := by
  simp only [tableEntries, List.mem_filterMap]
  constructor
  · rintro ⟨⟨a, b⟩, hm, he⟩
    cases b with
    | none => simp at he
    | some w => simp at he; obtain ⟨rfl, rfl⟩ := he; exact hm
  · intro h; exact ⟨(k, some v), h, rfl⟩

theorem find_none_of_not_mem_keys {l : List (Bytes × DM)} {k : Bytes}
    (h : k ∉ l.map (·.1)) : l.find? (fun e => e.1 == k) = none := by
  simp only [List.find?_eq_none, beq_iff_eq]
  intro e he hk
  exact h (List.mem_map.2 ⟨e, he, hk⟩)

theorem not_mem_keys_of_find_none {l : List (Bytes × DM)} {k : Bytes}
    (h : l.find? (fun e => e.1 == k) = none) : k ∉ l.map (·.1) := by
  simp only [List.find?_eq_none, beq_iff_eq] at h
  intro hm
  obtain ⟨e, he, hk⟩ := List.mem_map.1 hm
  exact h e he hk

/-! ### values built from tables and lists -/

theorem ofList_keys (l : List (Bytes × DM)) : (DMKVs.ofList l).keys = l.map (·.1) := by
  simp [DMKVs.keys]

theorem noDupVals_ofList (l : List (Bytes × DM)) :
    (DMKVs.ofList l).NoDupVals ↔ ∀ k v, (k, v) ∈ l → v.NoDup := by
  induction l with
  | nil => simp [DMKVs.ofList, DMKVs.NoDupVals]
  | cons e r ih =>
    obtain ⟨a, b⟩ := e
    simp only [DMKVs.ofList, DMKVs.NoDupVals, ih, List.mem_cons, Prod.mk.injEq]
    constructor
    · rintro ⟨hb, hr⟩ k v (⟨rfl, rfl⟩ | h)
      · exact hb
      · exact hr k v h
    · intro h
      exact ⟨h a b (Or.inl ⟨rfl, rfl⟩), fun k v hm => h k v (Or.inr hm)⟩

theorem noDup_ofList (l : List DM) : (DMs.ofList l).NoDup ↔ ∀ v ∈ l, v.NoDup := by
  induction l with
  | nil => simp [DMs.ofList, DMs.NoDup]
  | cons e r ih => simp [DMs.ofList, DMs.NoDup, ih]

theorem noDup_of_isScalar {v : DM} (h : isScalar v = true) : v.NoDup := by
  cases v <;> simp [isScalar] at h <;> simp [DM.NoDup]

/-! ### the invariant (C12) -/

/-- the last entry is waiting for its value, every earlier entry has one, and the waiting key is
    not yet in the lookup map -/
def Pending (t : List (Bytes × Option DM)) (m : List (Bytes × DM)) : Prop :=
  ∃ t0 k, t = t0 ++ [(k, none)] ∧ AllDone t0 ∧ mapHas m k = false

/-- which entries have values, by phase -/
def Shape (t : List (Bytes × Option DM)) (m : List (Bytes × DM)) : MPhase → Prop
  | .init => AllDone t
  | .midKey => AllDone t
  | .expectValue => Pending t m
  | .midValue => Pending t m

/-- The invariant of one map frame. -/
structure MapInv (t : List (Bytes × Option DM)) (m : List (Bytes × DM)) (ph : MPhase) : Prop where
  /-- the keys of the entry table are pairwise distinct -/
  keys : (t.map (·.1)).Nodup
  /-- all entries have values (init/midKey), or exactly the last one is waiting and its key is new -/
  shape : Shape t m ph
  /-- the lookup map holds exactly the completed entries -/
  agree : ∀ k, mapLookup m k = ((tableEntries t).find? (fun e => e.1 == k)).map (·.2)
  /-- every stored value is free of duplicate keys, deeply -/
  vals : ∀ k v, (k, some v) ∈ t → v.NoDup

def FrameInv : Frame → Prop
  | .map t m ph => MapInv t m ph
  | .list x _ => ∀ v ∈ x, v.NoDup

/-- The invariant of an assembler state: every frame is well formed and every stored value
    (in tables, in list frames, at the root) is free of duplicate keys. -/
structure Inv (s : St) : Prop where
  frames : ∀ f ∈ s.frames, FrameInv f
  root : ∀ d, s.root = some d → d.NoDup

/-- What a history may contain: nodes handed to `AssignNode` come from builders, so they are free of
    duplicate keys.  (Nothing needs to be assumed about `assign`: a non-scalar argument is either a
    panic or a wrong-kind error, and neither changes the state.) -/
def OpOk : Op → Prop
  | .assignNode v => v.NoDup
  | _ => True

theorem MapInv.empty : MapInv [] [] .init where
  keys := by simp
  shape := allDone_nil
  agree := by intro k; simp [mapLookup]
  vals := by intro k v h; cases h

theorem MapInv.allDone_or_pending {t m ph} (h : MapInv t m ph) : AllDone t ∨ Pending t m := by
  cases ph
  · exact Or.inl h.shape
  · exact Or.inl h.shape
  · exact Or.inr h.shape
  · exact Or.inr h.shape

/-- every entry except possibly the last has a value -/
theorem MapInv.init_allDone {t m ph} (h : MapInv t m ph) : AllDone t.dropLast := by
  rcases h.allDone_or_pending with hd | ⟨t0, k, rfl, hd, _⟩
  · intro e he; exact hd e (List.dropLast_subset _ he)
  · simpa using hd

theorem MapInv.key_fresh {t m ph} (h : MapInv t m ph) (hd : AllDone t) {k : Bytes}
    (hk : mapHas m k = false) : k ∉ t.map (·.1) := by
  rw [mapHas_eq_false_iff, h.agree] at hk
  rw [← tableEntries_keys_of_allDone hd]
  apply not_mem_keys_of_find_none
  simpa using hk

theorem MapInv.addKey {t m ph} (h : MapInv t m ph) (hd : AllDone t) {k : Bytes}
    (hk : mapHas m k = false) {ph' : MPhase} (hp : ph' = .expectValue ∨ ph' = .midValue) :
    MapInv (t ++ [(k, none)]) m ph' where
  keys := by
    rw [List.map_append, List.nodup_append]
    refine ⟨h.keys, by simp, ?_⟩
    intro a ha b hb
    simp at hb; subst hb
    intro e; subst e
    exact h.key_fresh hd hk ha
  shape := by
    rcases hp with rfl | rfl <;> exact ⟨t, k, rfl, hd, hk⟩
  agree := by
    intro k'
    rw [tableEntries_append, tableEntries_single_none, List.append_nil]
    exact h.agree k'
  vals := by
    intro k' v hm
    rw [List.mem_append] at hm
    rcases hm with hm | hm
    · exact h.vals k' v hm
    · simp at hm

theorem MapInv.setValue {t0 : List (Bytes × Option DM)} {m k ph} {v : DM}
    (h : MapInv (t0 ++ [(k, none)]) m ph) (hd : AllDone t0) (hk : mapHas m k = false)
    (hv : v.NoDup) : MapInv (t0 ++ [(k, some v)]) (mapInsert m k v) .init where
  keys := by simpa using h.keys
  shape := allDone_append.2 ⟨hd, allDone_single k v⟩
  agree := by
    intro k'
    have ha := h.agree
    simp only [tableEntries_append, tableEntries_single_none, List.append_nil] at ha
    rw [mapLookup_mapInsert, tableEntries_append, tableEntries_single_some, List.find?_append]
    by_cases e : k = k'
    · subst e
      rw [mapHas_eq_false_iff, ha] at hk
      have : (tableEntries t0).find? (fun e => e.1 == k) = none := by simpa using hk
      simp [this]
    · simp [e, ha]
  vals := by
    intro k' w hm
    rw [List.mem_append] at hm
    rcases hm with hm | hm
    · exact h.vals k' w (List.mem_append_left _ hm)
    · simp at hm; obtain ⟨_, rfl⟩ := hm; exact hv

theorem MapInv.phase_init_midKey {t m} : MapInv t m .init ↔ MapInv t m .midKey :=
  ⟨fun h => ⟨h.keys, h.shape, h.agree, h.vals⟩, fun h => ⟨h.keys, h.shape, h.agree, h.vals⟩⟩

theorem MapInv.phase_expect_midValue {t m} : MapInv t m .expectValue ↔ MapInv t m .midValue :=
  ⟨fun h => ⟨h.keys, h.shape, h.agree, h.vals⟩, fun h => ⟨h.keys, h.shape, h.agree, h.vals⟩⟩

/-- the value a finished map frame hands to its parent is free of duplicate keys -/
theorem MapInv.finished_noDup {t m ph} (h : MapInv t m ph) :
    (DM.map (DMKVs.ofList (tableEntries t))).NoDup := by
  refine ⟨?_, ?_⟩
  · rw [ofList_keys]
    exact (tableEntries_keys_sublist t).nodup h.keys
  · rw [noDupVals_ofList]
    intro k v hm
    exact h.vals k v (mem_tableEntries.1 hm)

theorem list_finished_noDup {x : List DM} (h : ∀ v ∈ x, v.NoDup) : (DM.list (DMs.ofList x)).NoDup :=
  (noDup_ofList x).2 h

theorem Inv.tail {p : Proto} {f : Frame} {fr : List Frame} {rt : Option DM}
    (h : Inv { proto := p, frames := f :: fr, root := rt }) :
    Inv { proto := p, frames := fr, root := rt } :=
  ⟨fun g hg => h.frames g (List.mem_cons_of_mem _ hg), h.root⟩

theorem Inv.replaceTop {p : Proto} {f g : Frame} {fr : List Frame} {rt : Option DM}
    (h : Inv { proto := p, frames := f :: fr, root := rt }) (hg : FrameInv g) :
    Inv { proto := p, frames := g :: fr, root := rt } :=
  ⟨fun g' hg' => by
      rcases List.mem_cons.1 hg' with rfl | hm
      · exact hg
      · exact h.frames g' (List.mem_cons_of_mem _ hm), h.root⟩

theorem Inv.push {s : St} (h : Inv s) {g : Frame} (hg : FrameInv g) :
    Inv { s with frames := g :: s.frames } :=
  ⟨fun g' hg' => by
      rcases List.mem_cons.1 hg' with rfl | hm
      · exact hg
      · exact h.frames g' hm, h.root⟩

theorem Inv.top {p : Proto} {f : Frame} {fr : List Frame} {rt : Option DM}
    (h : Inv { proto := p, frames := f :: fr, root := rt }) : FrameInv f :=
  h.frames f (List.mem_cons_self ..)

theorem deliver_inv {s : St} {v : DM} (h : Inv s) (hv : v.NoDup) : Inv (deliver s v).1 := by
  obtain ⟨p, fr, rt⟩ := s
  cases fr with
  | nil => exact ⟨h.frames, by intro d hd; cases hd; exact hv⟩
  | cons f rest =>
    cases f with
    | map t m ph =>
      cases ph with
      | midValue =>
        have hm : MapInv t m .midValue := h.top
        obtain ⟨t0, k, rfl, hd, hk⟩ := hm.shape
        simp only [deliver, lastKey_append_single, setLast_append_single]
        exact h.replaceTop (hm.setValue hd hk hv)
      | _ => exact h
    | list x ph =>
      cases ph with
      | init => exact h
      | midValue =>
        simp only [deliver]
        apply h.replaceTop
        have hx : ∀ v ∈ x, v.NoDup := h.top
        intro w hw
        rcases List.mem_append.1 hw with hw | hw
        · exact hx w hw
        · simp at hw; subst hw; exact hv

theorem valueCall_inv {s : St} {b : Bool} {op : Op} (h : Inv s) (ho : OpOk op) :
    Inv (valueCall s b op).1 := by
  cases op with
  | assign v =>
    simp only [valueCall]
    split
    · exact h
    · rename_i hs
      split
      · exact h
      · exact deliver_inv h (noDup_of_isScalar (by simpa using hs))
  | assignNode v =>
    simp only [valueCall]
    split
    · exact h
    · exact deliver_inv h ho
  | beginMap n =>
    simp only [valueCall]
    split
    · exact h
    · exact h.push (g := .map [] [] .init) MapInv.empty
  | beginList n =>
    simp only [valueCall]
    split
    · exact h
    · exact h.push (g := .list [] .init) (by intro v hv; cases hv)
  | _ => exact h

theorem supplyKey_inv {p : Proto} {t m rest rt ph} {k : Bytes}
    (h : Inv { proto := p, frames := .map t m ph :: rest, root := rt }) (hm : MapInv t m .midKey) :
    Inv (supplyKey { proto := p, frames := .map t m ph :: rest, root := rt } t m rest k).1 := by
  unfold supplyKey
  split
  · exact h.replaceTop (g := .map t m .init) (MapInv.phase_init_midKey.2 hm)
  · rename_i hk
    exact h.replaceTop (g := .map (t ++ [(k, none)]) m .expectValue)
      (hm.addKey hm.shape (by simpa using hk) (Or.inl rfl))

theorem step_inv {s : St} {op : Op} (h : Inv s) (ho : OpOk op) : Inv (step s op).1 := by
  obtain ⟨p, fr, rt⟩ := s
  cases fr with
  | nil =>
    cases rt with
    | some d => exact h
    | none => exact valueCall_inv h ho
  | cons f rest =>
    cases f with
    | map t m ph =>
      have hm : MapInv t m ph := h.top
      cases ph with
      | init =>
        cases op with
        | assembleKey => exact h.replaceTop (g := .map t m .midKey) (MapInv.phase_init_midKey.1 hm)
        | assembleEntry k =>
          simp only [step]
          split
          · exact h
          · rename_i hk
            exact h.replaceTop (g := .map (t ++ [(k, none)]) m .midValue)
              (hm.addKey hm.shape (by simpa using hk) (Or.inr rfl))
        | finish => exact deliver_inv h.tail hm.finished_noDup
        | _ => exact h
      | midKey =>
        cases op with
        | assign v =>
          cases v with
          | str k => exact supplyKey_inv h hm
          | _ => exact h
        | assignNode v =>
          cases v with
          | str k => exact supplyKey_inv h hm
          | _ => exact h
        | _ => exact h
      | expectValue =>
        cases op with
        | assembleValue =>
          exact h.replaceTop (g := .map t m .midValue) (MapInv.phase_expect_midValue.1 hm)
        | _ => exact h
      | midValue => exact valueCall_inv h ho
    | list x ph =>
      cases ph with
      | init =>
        cases op with
        | assembleValue => exact h.replaceTop (g := .list x .midValue) h.top
        | finish => exact deliver_inv h.tail (list_finished_noDup h.top)
        | _ => exact h
      | midValue => exact valueCall_inv h ho

theorem init_inv (p : Proto) : Inv (init p) :=
  ⟨(by intro f hf; cases hf), (by intro d hd; cases hd)⟩

theorem run_inv {s : St} {h : List Op} (hi : Inv s) (ho : ∀ op ∈ h, OpOk op) : Inv (run s h).1 := by
  induction h generalizing s with
  | nil => exact hi
  | cons op ops ih =>
    have h1 : Inv (step s op).1 := step_inv hi (ho op (List.mem_cons_self ..))
    have h2 := ih h1 (fun o hm => ho o (List.mem_cons_of_mem _ hm))
    simp only [run]
    split
    · rename_i st' heq; rw [heq] at h1; exact h1
    · rename_i st' o _ heq; rw [heq] at h2; exact h2

/-! ### rejected calls -/

theorem deliver_not_err (s : St) (v : DM) (c : ErrClass) : (deliver s v).2 ≠ .err c := by
  obtain ⟨p, fr, rt⟩ := s
  cases fr with
  | nil => simp [deliver]
  | cons f rest =>
    cases f with
    | map t m ph =>
      cases ph <;> simp only [deliver] <;> try (intro h; cases h)
      split <;> (intro h; cases h)
    | list x ph => cases ph <;> simp only [deliver] <;> (intro h; cases h)

theorem deliver_ne_err {s s' : St} {v : DM} {c : ErrClass} : deliver s v ≠ (s', .err c) := by
  intro h
  exact deliver_not_err s v c (by rw [h])

theorem valueCall_err {s s' : St} {b : Bool} {op : Op} {c : ErrClass}
    (h : valueCall s b op = (s', .err c)) : s' = s ∧ c = .wrongKind := by
  cases op with
  | assign v =>
    simp only [valueCall] at h
    split at h
    · cases h
    · split at h
      · cases h; exact ⟨rfl, rfl⟩
      · exact absurd h deliver_ne_err
  | assignNode v =>
    simp only [valueCall] at h
    split at h
    · cases h; exact ⟨rfl, rfl⟩
    · exact absurd h deliver_ne_err
  | beginMap n =>
    simp only [valueCall] at h
    split at h
    · cases h; exact ⟨rfl, rfl⟩
    · cases h
  | beginList n =>
    simp only [valueCall] at h
    split at h
    · cases h; exact ⟨rfl, rfl⟩
    · cases h
  | assembleKey => cases h
  | assembleValue => cases h
  | assembleEntry k => cases h
  | finish => cases h

theorem supplyKey_err {s s' : St} {t m rest} {k : Bytes} {c : ErrClass}
    (h : supplyKey s t m rest k = (s', .err c)) :
    s' = { s with frames := .map t m .init :: rest } ∧ c = .repeatedKey := by
  unfold supplyKey at h
  split at h
  · cases h; exact ⟨rfl, rfl⟩
  · cases h

/-- Classification of rejected calls: the state is unchanged, except that a key assembler that
    rejects a repeated key leaves the map assembler as it was before `AssembleKey`. -/
theorem step_err {s s' : St} {op : Op} {c : ErrClass} (h : step s op = (s', .err c)) :
    s' = s ∨ (c = .repeatedKey ∧ ∃ t m rest, s.frames = .map t m .midKey :: rest ∧
      s' = { s with frames := .map t m .init :: rest }) := by
  obtain ⟨p, fr, rt⟩ := s
  cases fr with
  | nil =>
    cases rt with
    | some d => cases h
    | none => exact Or.inl (valueCall_err h).1
  | cons f rest =>
    cases f with
    | map t m ph =>
      cases ph with
      | init =>
        cases op with
        | assembleEntry k =>
          simp only [step] at h
          split at h
          · cases h; exact Or.inl rfl
          · cases h
        | finish => exact absurd h deliver_ne_err
        | _ => cases h
      | midKey =>
        cases op with
        | assign v =>
          cases v with
          | str k =>
            obtain ⟨h1, h2⟩ := supplyKey_err h
            exact Or.inr ⟨h2, t, m, rest, rfl, h1⟩
          | _ => cases h; exact Or.inl rfl
        | assignNode v =>
          cases v with
          | str k =>
            obtain ⟨h1, h2⟩ := supplyKey_err h
            exact Or.inr ⟨h2, t, m, rest, rfl, h1⟩
          | _ => cases h; exact Or.inl rfl
        | beginMap n => cases h; exact Or.inl rfl
        | beginList n => cases h; exact Or.inl rfl
        | _ => cases h
      | expectValue => cases op <;> cases h
      | midValue => exact Or.inl (valueCall_err h).1
    | list x ph =>
      cases ph with
      | init =>
        cases op with
        | finish => exact absurd h deliver_ne_err
        | _ => cases h
      | midValue => exact Or.inl (valueCall_err h).1

/-- `wrongKind` and `other` rejections never change the state -/
theorem step_err_not_repeated {s s' : St} {op : Op} {c : ErrClass} (h : step s op = (s', .err c))
    (hc : c ≠ .repeatedKey) : s' = s := by
  rcases step_err h with h1 | ⟨h1, _⟩
  · exact h1
  · exact absurd h1 hc

/-! ### runs in which every call is accepted -/

/-- `Runs s ops s'`: running `ops` from `s` ends in `s'` and every call returns `ok`. -/
def Runs (s : St) (ops : List Op) (s' : St) : Prop :=
  run s ops = (s', List.replicate ops.length .ok)

theorem Runs.nil (s : St) : Runs s [] s := rfl

theorem run_cons_ok {s s1 : St} {op : Op} (ops : List Op) (h : step s op = (s1, .ok)) :
    run s (op :: ops) = ((run s1 ops).1, .ok :: (run s1 ops).2) := by
  simp only [run, h]

theorem run_cons_err {s s1 : St} {op : Op} {c : ErrClass} (ops : List Op)
    (h : step s op = (s1, .err c)) :
    run s (op :: ops) = ((run s1 ops).1, .err c :: (run s1 ops).2) := by
  simp only [run, h]

theorem run_cons_panic {s s1 : St} {op : Op} (ops : List Op) (h : step s op = (s1, .panic)) :
    run s (op :: ops) = (s1, [.panic]) := by
  simp only [run, h]

theorem Runs.cons {s s1 s' : St} {op : Op} {ops : List Op} (h1 : step s op = (s1, .ok))
    (h2 : Runs s1 ops s') : Runs s (op :: ops) s' := by
  unfold Runs at h2 ⊢
  rw [run_cons_ok ops h1, h2]
  rfl

theorem Runs.single {s s1 : St} {op : Op} (h1 : step s op = (s1, .ok)) : Runs s [op] s1 :=
  Runs.cons h1 (Runs.nil s1)

theorem Runs.cons_inv {s s' : St} {op : Op} {ops : List Op} (h : Runs s (op :: ops) s') :
    ∃ s1, step s op = (s1, .ok) ∧ Runs s1 ops s' := by
  unfold Runs at h
  cases hs : step s op with
  | mk s1 o =>
    cases o with
    | ok =>
      rw [run_cons_ok ops hs] at h
      refine ⟨s1, rfl, ?_⟩
      unfold Runs
      simp only [List.length_cons, List.replicate_succ, Prod.mk.injEq, List.cons.injEq, true_and] at h
      exact Prod.ext h.1 h.2
    | err c =>
      rw [run_cons_err ops hs] at h
      simp [List.replicate_succ] at h
    | panic =>
      rw [run_cons_panic ops hs] at h
      simp [List.replicate_succ] at h

theorem Runs.append {s s1 s' : St} {a b : List Op} (h1 : Runs s a s1) (h2 : Runs s1 b s') :
    Runs s (a ++ b) s' := by
  induction a generalizing s with
  | nil => cases h1; exact h2
  | cons op ops ih =>
    obtain ⟨s0, hs, hr⟩ := h1.cons_inv
    exact Runs.cons hs (ih hr)

theorem Runs.state {s s' : St} {ops : List Op} (h : Runs s ops s') : (run s ops).1 = s' := by
  rw [h]

theorem Runs.outs {s s' : St} {ops : List Op} (h : Runs s ops s') : ∀ o ∈ (run s ops).2, o = .ok := by
  rw [h]; intro o ho; exact (List.mem_replicate.1 ho).2

/-! ### value position -/

/-- The current object is a value assembler that can take a value of kind `k`: the empty root
    builder (whose prototype accepts `k`), a map value assembler, or a list value assembler. -/
inductive ValuePos : St → Kind → Prop
  | root {s : St} {k : Kind} : s.frames = [] → s.root = none → s.proto.accepts k = true → ValuePos s k
  | mapValue {s : St} {k : Kind} {t m rest} :
      s.frames = .map t m .midValue :: rest → t ≠ [] → ValuePos s k
  | listValue {s : St} {k : Kind} {x rest} : s.frames = .list x .midValue :: rest → ValuePos s k

/-- under the invariant, a map frame in phase `midValue` is in value position -/
theorem ValuePos.of_inv_map {s : St} (hi : Inv s) {t m rest} (k : Kind)
    (hf : s.frames = .map t m .midValue :: rest) : ValuePos s k := by
  refine ValuePos.mapValue hf ?_
  have hm : MapInv t m .midValue :=
    hi.frames (.map t m .midValue) (by rw [hf]; exact List.mem_cons_self ..)
  obtain ⟨t0, k0, rfl, _, _⟩ := hm.shape
  simp

theorem deliver_ok_of_valuePos {s : St} {k : Kind} (h : ValuePos s k) (v : DM) :
    (deliver s v).2 = .ok := by
  obtain ⟨p, fr, rt⟩ := s
  cases h with
  | root h1 h2 h3 => simp only at h1; subst h1; rfl
  | mapValue h1 h2 =>
    simp only at h1; subst h1
    obtain ⟨k, hk⟩ := lastKey_ne_nil h2
    simp only [deliver, hk]
  | listValue h1 => simp only at h1; subst h1; rfl

theorem step_assign_valuePos {s : St} {v : DM} (h : ValuePos s v.kind) (hs : isScalar v = true) :
    step s (.assign v) = deliver s v := by
  obtain ⟨p, fr, rt⟩ := s
  cases h with
  | root h1 h2 h3 =>
    simp only at h1 h2 h3; subst h1; subst h2
    simp [step, valueCall, hs, h3]
  | mapValue h1 h2 => simp only at h1; subst h1; simp [step, valueCall, hs]
  | listValue h1 => simp only at h1; subst h1; simp [step, valueCall, hs]

theorem step_assignNode_valuePos {s : St} {v : DM} (h : ValuePos s v.kind) :
    step s (.assignNode v) = deliver s v := by
  obtain ⟨p, fr, rt⟩ := s
  cases h with
  | root h1 h2 h3 =>
    simp only at h1 h2 h3; subst h1; subst h2
    simp [step, valueCall, h3]
  | mapValue h1 h2 => simp only at h1; subst h1; simp [step, valueCall]
  | listValue h1 => simp only at h1; subst h1; simp [step, valueCall]

theorem step_beginMap_valuePos {s : St} (h : ValuePos s .map) (n : Int) :
    step s (.beginMap n) = ({ s with frames := .map [] [] .init :: s.frames }, .ok) := by
  obtain ⟨p, fr, rt⟩ := s
  cases h with
  | root h1 h2 h3 =>
    simp only at h1 h2 h3; subst h1; subst h2
    simp [step, valueCall, h3]
  | mapValue h1 h2 => simp only at h1; subst h1; simp [step, valueCall]
  | listValue h1 => simp only at h1; subst h1; simp [step, valueCall]

theorem step_beginList_valuePos {s : St} (h : ValuePos s .list) (n : Int) :
    step s (.beginList n) = ({ s with frames := .list [] .init :: s.frames }, .ok) := by
  obtain ⟨p, fr, rt⟩ := s
  cases h with
  | root h1 h2 h3 =>
    simp only at h1 h2 h3; subst h1; subst h2
    simp [step, valueCall, h3]
  | mapValue h1 h2 => simp only at h1; subst h1; simp [step, valueCall]
  | listValue h1 => simp only at h1; subst h1; simp [step, valueCall]

/-- the size hint of `BeginMap` is ignored -/
theorem step_beginMap_hint (s : St) (n n' : Int) : step s (.beginMap n) = step s (.beginMap n') := by
  obtain ⟨p, fr, rt⟩ := s
  cases fr with
  | nil => cases rt <;> rfl
  | cons f rest => cases f with
    | map t m ph => cases ph <;> rfl
    | list x ph => cases ph <;> rfl

/-- the size hint of `BeginList` is ignored -/
theorem step_beginList_hint (s : St) (n n' : Int) : step s (.beginList n) = step s (.beginList n') := by
  obtain ⟨p, fr, rt⟩ := s
  cases fr with
  | nil => cases rt <;> rfl
  | cons f rest => cases f with
    | map t m ph => cases ph <;> rfl
    | list x ph => cases ph <;> rfl

/-! ### plans: the canonical call sequence and its variants (C01) -/

mutual
/-- `Plan d ops`: `ops` is a call sequence that, by the contract, builds `d`.  Size hints are
    arbitrary, any subtree may instead be handed over whole with `AssignNode`, and every map entry
    may be opened either with `AssembleEntry k` or with `AssembleKey`, a string assignment to the key
    assembler (`AssignString` or `AssignNode` of a string node), `AssembleValue`. -/
inductive Plan : DM → List Op → Prop
  | scalar (d : DM) : isScalar d = true → Plan d [.assign d]
  | node (d : DM) : Plan d [.assignNode d]
  | list (n : Int) (xs : DMs) (ops : List Op) :
      PlanList xs ops → Plan (.list xs) (.beginList n :: (ops ++ [.finish]))
  | map (n : Int) (es : DMKVs) (ops : List Op) :
      PlanKVs es ops → Plan (.map es) (.beginMap n :: (ops ++ [.finish]))
inductive PlanList : DMs → List Op → Prop
  | nil : PlanList .nil []
  | cons (x : DM) (xs : DMs) (o1 o2 : List Op) :
      Plan x o1 → PlanList xs o2 → PlanList (.cons x xs) (.assembleValue :: (o1 ++ o2))
inductive PlanKVs : DMKVs → List Op → Prop
  | nil : PlanKVs .nil []
  | entry (k : Bytes) (v : DM) (es : DMKVs) (o1 o2 : List Op) :
      Plan v o1 → PlanKVs es o2 → PlanKVs (.cons k v es) (.assembleEntry k :: (o1 ++ o2))
  | keyAssign (k : Bytes) (v : DM) (es : DMKVs) (o1 o2 : List Op) :
      Plan v o1 → PlanKVs es o2 →
      PlanKVs (.cons k v es) (.assembleKey :: .assign (.str k) :: .assembleValue :: (o1 ++ o2))
  | keyNode (k : Bytes) (v : DM) (es : DMKVs) (o1 o2 : List Op) :
      Plan v o1 → PlanKVs es o2 →
      PlanKVs (.cons k v es) (.assembleKey :: .assignNode (.str k) :: .assembleValue :: (o1 ++ o2))
end

mutual
/-- the canonical plan is a plan -/
theorem plan_planOf : (d : DM) → Plan d (planOf d)
  | .null => Plan.scalar _ rfl
  | .bool _ => Plan.scalar _ rfl
  | .int _ => Plan.scalar _ rfl
  | .float _ => Plan.scalar _ rfl
  | .str _ => Plan.scalar _ rfl
  | .bytes _ => Plan.scalar _ rfl
  | .link _ => Plan.scalar _ rfl
  | .list xs => Plan.list _ xs _ (planList_planList xs)
  | .map es => Plan.map _ es _ (planKVs_planKVs es)
theorem planList_planList : (xs : DMs) → PlanList xs (planList xs)
  | .nil => PlanList.nil
  | .cons x xs => PlanList.cons x xs _ _ (plan_planOf x) (planList_planList xs)
theorem planKVs_planKVs : (es : DMKVs) → PlanKVs es (planKVs es)
  | .nil => PlanKVs.nil
  | .cons k v es => PlanKVs.entry k v es _ _ (plan_planOf v) (planKVs_planKVs es)
end

/-- a list of finished entries as it sits in the entry table -/
def doneEntries (l : List (Bytes × DM)) : List (Bytes × Option DM) := l.map fun e => (e.1, some e.2)

/-- Go map inserts of all entries, in order -/
def insertAll (m : List (Bytes × DM)) (l : List (Bytes × DM)) : List (Bytes × DM) :=
  l.foldl (fun m e => mapInsert m e.1 e.2) m

theorem tableEntries_doneEntries (l : List (Bytes × DM)) : tableEntries (doneEntries l) = l := by
  induction l with
  | nil => rfl
  | cons e r ih =>
    simp only [doneEntries, tableEntries, List.map_cons, List.filterMap_cons, Option.map_some] at ih ⊢
    rw [ih]

theorem deliver_valuePos_eq {s s0 : St} {k : Kind} (h : ValuePos s k) {v : DM} {s1 : St}
    (hd : (deliver s v).1 = s1) (hs : s0 = s) : deliver s0 v = (s1, .ok) := by
  subst hs; subst hd
  exact Prod.ext rfl (deliver_ok_of_valuePos h v)

/-! ### single calls in known positions -/

theorem step_finish_map {s : St} {t m rest} (h : s.frames = .map t m .init :: rest) :
    step s .finish = deliver { s with frames := rest } (.map (DMKVs.ofList (tableEntries t))) := by
  obtain ⟨p, fr, rt⟩ := s
  simp only at h; subst h; rfl

theorem step_finish_list {s : St} {x rest} (h : s.frames = .list x .init :: rest) :
    step s .finish = deliver { s with frames := rest } (.list (DMs.ofList x)) := by
  obtain ⟨p, fr, rt⟩ := s
  simp only at h; subst h; rfl

theorem step_assembleValue_list {s : St} {x rest} (h : s.frames = .list x .init :: rest) :
    step s .assembleValue = ({ s with frames := .list x .midValue :: rest }, .ok) := by
  obtain ⟨p, fr, rt⟩ := s
  simp only at h; subst h; rfl

theorem step_assembleValue_map {s : St} {t m rest} (h : s.frames = .map t m .expectValue :: rest) :
    step s .assembleValue = ({ s with frames := .map t m .midValue :: rest }, .ok) := by
  obtain ⟨p, fr, rt⟩ := s
  simp only at h; subst h; rfl

theorem step_assembleKey {s : St} {t m rest} (h : s.frames = .map t m .init :: rest) :
    step s .assembleKey = ({ s with frames := .map t m .midKey :: rest }, .ok) := by
  obtain ⟨p, fr, rt⟩ := s
  simp only at h; subst h; rfl

theorem step_assembleEntry {s : St} {t m rest} {k : Bytes} (h : s.frames = .map t m .init :: rest)
    (hk : mapHas m k = false) :
    step s (.assembleEntry k) = ({ s with frames := .map (t ++ [(k, none)]) m .midValue :: rest }, .ok) := by
  obtain ⟨p, fr, rt⟩ := s
  simp only at h; subst h; simp [step, hk]

theorem step_key_assign {s : St} {t m rest} {k : Bytes} (h : s.frames = .map t m .midKey :: rest)
    (hk : mapHas m k = false) :
    step s (.assign (.str k)) = ({ s with frames := .map (t ++ [(k, none)]) m .expectValue :: rest }, .ok) := by
  obtain ⟨p, fr, rt⟩ := s
  simp only at h; subst h; simp [step, supplyKey, hk]

theorem step_key_assignNode {s : St} {t m rest} {k : Bytes} (h : s.frames = .map t m .midKey :: rest)
    (hk : mapHas m k = false) :
    step s (.assignNode (.str k)) = ({ s with frames := .map (t ++ [(k, none)]) m .expectValue :: rest }, .ok) := by
  obtain ⟨p, fr, rt⟩ := s
  simp only at h; subst h; simp [step, supplyKey, hk]

theorem deliver_mapValue {s : St} {t m rest} {k : Bytes} {o : Option DM} (v : DM)
    (h : s.frames = .map (t ++ [(k, o)]) m .midValue :: rest) :
    deliver s v = ({ s with frames := .map (t ++ [(k, some v)]) (mapInsert m k v) .init :: rest }, .ok) := by
  obtain ⟨p, fr, rt⟩ := s
  simp only at h; subst h
  simp only [deliver, lastKey_append_single, setLast_append_single]

theorem deliver_listValue {s : St} {x rest} (v : DM) (h : s.frames = .list x .midValue :: rest) :
    deliver s v = ({ s with frames := .list (x ++ [v]) .init :: rest }, .ok) := by
  obtain ⟨p, fr, rt⟩ := s
  simp only at h; subst h; rfl

/-- Running the three-call form of opening an entry is the same as `AssembleEntry`. -/
theorem runs_open_entry {s : St} {t m rest} {k : Bytes} (h : s.frames = .map t m .init :: rest)
    (hk : mapHas m k = false) (keyOp : Op) (hko : keyOp = .assign (.str k) ∨ keyOp = .assignNode (.str k)) :
    Runs s [.assembleKey, keyOp, .assembleValue]
      { s with frames := .map (t ++ [(k, none)]) m .midValue :: rest } := by
  refine Runs.cons (step_assembleKey h) (Runs.cons (s1 := { s with frames := .map (t ++ [(k, none)]) m .expectValue :: rest }) ?_ (Runs.single ?_))
  · rcases hko with rfl | rfl
    · exact step_key_assign rfl hk
    · exact step_key_assignNode rfl hk
  · exact step_assembleValue_map rfl

theorem deliver_pair {s : St} {k : Kind} (h : ValuePos s k) (v : DM) :
    deliver s v = ((deliver s v).1, .ok) :=
  Prod.ext rfl (deliver_ok_of_valuePos h v)

theorem insertAll_cons (m : List (Bytes × DM)) (k : Bytes) (v : DM) (l : List (Bytes × DM)) :
    insertAll m ((k, v) :: l) = insertAll (mapInsert m k v) l := rfl

theorem plan_scalar_runs {d : DM} (hs : isScalar d = true) {ops : List Op} (hp : Plan d ops)
    {s : St} (hv : ValuePos s d.kind) : Runs s ops (deliver s d).1 := by
  cases hp with
  | scalar _ _ => exact Runs.single (by rw [step_assign_valuePos hv hs]; exact deliver_pair hv _)
  | node _ => exact Runs.single (by rw [step_assignNode_valuePos hv]; exact deliver_pair hv _)
  | list n xs ops' hl => simp [isScalar] at hs
  | map n es ops' hl => simp [isScalar] at hs

theorem plan_node_runs {d : DM} {s : St} (hv : ValuePos s d.kind) :
    Runs s [.assignNode d] (deliver s d).1 :=
  Runs.single (by rw [step_assignNode_valuePos hv]; exact deliver_pair hv _)

mutual
theorem Plan.runs : (d : DM) → (ops : List Op) → Plan d ops → d.NoDup → (s : St) →
    ValuePos s d.kind → Runs s ops (deliver s d).1
  | .null, _, hp, _, _, hv => plan_scalar_runs rfl hp hv
  | .bool _, _, hp, _, _, hv => plan_scalar_runs rfl hp hv
  | .int _, _, hp, _, _, hv => plan_scalar_runs rfl hp hv
  | .float _, _, hp, _, _, hv => plan_scalar_runs rfl hp hv
  | .str _, _, hp, _, _, hv => plan_scalar_runs rfl hp hv
  | .bytes _, _, hp, _, _, hv => plan_scalar_runs rfl hp hv
  | .link _, _, hp, _, _, hv => plan_scalar_runs rfl hp hv
  | .list xs, ops, hp, hn, s, hv => by
    cases hp with
    | scalar _ hs => simp [isScalar] at hs
    | node _ => exact plan_node_runs hv
    | list n _ ops' hl =>
      have h1 := step_beginList_valuePos hv n
      have h2 := PlanList.runs xs ops' hl hn { s with frames := .list [] .init :: s.frames } [] s.frames rfl
      refine Runs.cons h1 (Runs.append h2 (Runs.single ?_))
      rw [step_finish_list rfl]
      simp only [List.nil_append, DMs.ofList_toList]
      exact deliver_pair hv _
  | .map es, ops, hp, hn, s, hv => by
    cases hp with
    | scalar _ hs => simp [isScalar] at hs
    | node _ => exact plan_node_runs hv
    | map n _ ops' hl =>
      have h1 := step_beginMap_valuePos hv n
      have h2 := PlanKVs.runs es ops' hl hn.1 hn.2 { s with frames := .map [] [] .init :: s.frames } [] [] s.frames rfl
        (by intro k _; rfl)
      refine Runs.cons h1 (Runs.append h2 (Runs.single ?_))
      rw [step_finish_map rfl]
      simp only [List.nil_append, tableEntries_doneEntries, DMKVs.ofList_toList]
      exact deliver_pair hv _
theorem PlanList.runs : (xs : DMs) → (ops : List Op) → PlanList xs ops → xs.NoDup → (s : St) →
    (acc : List DM) → (rest : List Frame) → s.frames = .list acc .init :: rest →
    Runs s ops { s with frames := .list (acc ++ xs.toList) .init :: rest }
  | .nil, ops, hp, _, s, acc, rest, hf => by
    cases hp
    obtain ⟨p, fr, rt⟩ := s
    simp only at hf; subst hf
    simp only [DMs.toList, List.append_nil]
    exact Runs.nil _
  | .cons x xs, ops, hp, hn, s, acc, rest, hf => by
    cases hp with
    | cons _ _ o1 o2 h1 h2 =>
      have e1 := step_assembleValue_list hf
      have hv : ValuePos { s with frames := .list acc .midValue :: rest } x.kind :=
        ValuePos.listValue rfl
      have r1 := Plan.runs x o1 h1 hn.1 _ hv
      rw [deliver_listValue x rfl] at r1
      have r2 := PlanList.runs xs o2 h2 hn.2 { s with frames := .list (acc ++ [x]) .init :: rest } (acc ++ [x]) rest rfl
      have := Runs.cons e1 (Runs.append r1 r2)
      simpa [DMs.toList, List.append_assoc] using this
theorem PlanKVs.runs : (es : DMKVs) → (ops : List Op) → PlanKVs es ops → es.keys.Nodup →
    es.NoDupVals → (s : St) → (t : List (Bytes × Option DM)) → (m : List (Bytes × DM)) →
    (rest : List Frame) → s.frames = .map t m .init :: rest →
    (∀ k ∈ es.keys, mapHas m k = false) →
    Runs s ops
      { s with frames := .map (t ++ doneEntries es.toList) (insertAll m es.toList) .init :: rest }
  | .nil, ops, hp, _, _, s, t, m, rest, hf, _ => by
    cases hp
    obtain ⟨p, fr, rt⟩ := s
    simp only at hf; subst hf
    simp only [DMKVs.toList, doneEntries, insertAll, List.map_nil, List.append_nil, List.foldl_nil]
    exact Runs.nil _
  | .cons k v es, ops, hp, hk, hn, s, t, m, rest, hf, hm => by
    have hkm : mapHas m k = false := hm k (by simp [DMKVs.keys, DMKVs.toList])
    have hk' : k ∉ es.keys ∧ es.keys.Nodup := by
      simpa [DMKVs.keys, DMKVs.toList] using hk
    have hm' : ∀ k' ∈ es.keys, mapHas (mapInsert m k v) k' = false := by
      intro k' hk''
      rw [mapHas_mapInsert, hm k' (by simp [DMKVs.keys, DMKVs.toList] at hk'' ⊢; exact Or.inr hk'')]
      have : k ≠ k' := fun e => hk'.1 (e ▸ hk'')
      simp [this]
    -- what happens once the entry has been opened, however that was done
    have body : ∀ o1 o2, Plan v o1 → PlanKVs es o2 →
        Runs { s with frames := .map (t ++ [(k, none)]) m .midValue :: rest } (o1 ++ o2)
          { s with frames := .map (t ++ doneEntries (DMKVs.cons k v es).toList)
                                  (insertAll m (DMKVs.cons k v es).toList) .init :: rest } := by
      intro o1 o2 h1 h2
      have hv : ValuePos { s with frames := .map (t ++ [(k, none)]) m .midValue :: rest } v.kind :=
        ValuePos.mapValue rfl (by simp)
      have r1 := Plan.runs v o1 h1 hn.1 _ hv
      rw [deliver_mapValue v rfl] at r1
      have r2 := PlanKVs.runs es o2 h2 hk'.2 hn.2
        { s with frames := .map (t ++ [(k, some v)]) (mapInsert m k v) .init :: rest }
        (t ++ [(k, some v)]) (mapInsert m k v) rest rfl hm'
      have := Runs.append r1 r2
      simpa [DMKVs.toList, doneEntries, insertAll_cons, List.append_assoc] using this
    cases hp with
    | entry _ _ _ o1 o2 h1 h2 => exact Runs.cons (step_assembleEntry hf hkm) (body o1 o2 h1 h2)
    | keyAssign _ _ _ o1 o2 h1 h2 =>
      exact Runs.append (runs_open_entry hf hkm _ (Or.inl rfl)) (body o1 o2 h1 h2)
    | keyNode _ _ _ o1 o2 h1 h2 =>
      exact Runs.append (runs_open_entry hf hkm _ (Or.inr rfl)) (body o1 o2 h1 h2)
end

/-! ### erasing rejected calls from a history (C12) -/

/-- the current object is a key assembler -/
def inKey (s : St) : Bool :=
  match s.frames with
  | .map _ _ .midKey :: _ => true
  | _ => false

/-- `eraseFrom s pend h`: the accepted calls of `h` (run from `s`).  Every call that returns an
    error is dropped.  An accepted `AssembleKey` is held back in `pend` until the key assembler it
    returned has either accepted a key (then it is emitted, followed by that call) or rejected one
    as repeated (then it is dropped too, because the map assembler is back where it was before the
    `AssembleKey`).  Wrong-kind rejections by the key assembler leave it waiting. -/
def eraseFrom (s : St) (pend : List Op) : List Op → List Op
  | [] => pend
  | op :: ops =>
    match step s op with
    | (s', .ok) =>
        if op = .assembleKey then pend ++ eraseFrom s' [op] ops
        else pend ++ op :: eraseFrom s' [] ops
    | (s', .err .repeatedKey) => eraseFrom s' [] ops
    | (s', _) => eraseFrom s' pend ops

/-- the history with every rejected call (and every `AssembleKey` whose key was rejected) erased -/
def erase (s : St) (h : List Op) : List Op := eraseFrom s [] h

theorem eraseFrom_cons_ok_key {s s' : St} {pend ops} (h : step s .assembleKey = (s', .ok)) :
    eraseFrom s pend (.assembleKey :: ops) = pend ++ eraseFrom s' [.assembleKey] ops := by
  simp only [eraseFrom, h, if_true]

theorem eraseFrom_cons_ok {s s' : St} {op : Op} {pend ops} (h : step s op = (s', .ok))
    (hop : op ≠ .assembleKey) :
    eraseFrom s pend (op :: ops) = pend ++ op :: eraseFrom s' [] ops := by
  simp only [eraseFrom, h, if_neg hop]

theorem eraseFrom_cons_repeated {s s' : St} {op : Op} {pend ops}
    (h : step s op = (s', .err .repeatedKey)) :
    eraseFrom s pend (op :: ops) = eraseFrom s' [] ops := by
  simp only [eraseFrom, h]

theorem eraseFrom_cons_other {s s' : St} {op : Op} {o : Out} {pend ops} (h : step s op = (s', o))
    (h1 : o ≠ .ok) (h2 : o ≠ .err .repeatedKey) :
    eraseFrom s pend (op :: ops) = eraseFrom s' pend ops := by
  cases o with
  | ok => exact absurd rfl h1
  | err c => cases c with
    | repeatedKey => exact absurd rfl h2
    | wrongKind => simp only [eraseFrom, h]
    | other => simp only [eraseFrom, h]
  | panic => simp only [eraseFrom, h]

theorem deliver_ok_not_inKey {s s' : St} {v : DM} (h : deliver s v = (s', .ok)) : inKey s' = false := by
  obtain ⟨p, fr, rt⟩ := s
  cases fr with
  | nil => cases h; rfl
  | cons f rest =>
    cases f with
    | map t m ph =>
      cases ph with
      | midValue =>
        simp only [deliver] at h
        split at h
        · cases h; rfl
        · cases h
      | _ => cases h
    | list x ph =>
      cases ph with
      | init => cases h
      | midValue => cases h; rfl

theorem valueCall_ok_not_inKey {s s' : St} {b : Bool} {op : Op} (h : valueCall s b op = (s', .ok)) :
    inKey s' = false := by
  cases op with
  | assign v =>
    simp only [valueCall] at h
    split at h
    · cases h
    · split at h
      · cases h
      · exact deliver_ok_not_inKey h
  | assignNode v =>
    simp only [valueCall] at h
    split at h
    · cases h
    · exact deliver_ok_not_inKey h
  | beginMap n =>
    simp only [valueCall] at h
    split at h
    · cases h
    · cases h; rfl
  | beginList n =>
    simp only [valueCall] at h
    split at h
    · cases h
    · cases h; rfl
  | assembleKey => cases h
  | assembleValue => cases h
  | assembleEntry k => cases h
  | finish => cases h

theorem supplyKey_ok_not_inKey {s s' : St} {t m rest} {k : Bytes}
    (h : supplyKey s t m rest k = (s', .ok)) : inKey s' = false := by
  unfold supplyKey at h
  split at h
  · cases h
  · cases h; rfl

/-- the only accepted call that returns a key assembler is `AssembleKey` -/
theorem step_ok_not_inKey {s s' : St} {op : Op} (h : step s op = (s', .ok))
    (hop : op ≠ .assembleKey) : inKey s' = false := by
  obtain ⟨p, fr, rt⟩ := s
  cases fr with
  | nil =>
    cases rt with
    | some d => cases h
    | none => exact valueCall_ok_not_inKey h
  | cons f rest =>
    cases f with
    | map t m ph =>
      cases ph with
      | init =>
        cases op with
        | assembleKey => exact absurd rfl hop
        | assembleEntry k =>
          simp only [step] at h
          split at h
          · cases h
          · cases h; rfl
        | finish => exact deliver_ok_not_inKey h
        | _ => cases h
      | midKey =>
        cases op with
        | assign v =>
          cases v with
          | str k => exact supplyKey_ok_not_inKey h
          | _ => cases h
        | assignNode v =>
          cases v with
          | str k => exact supplyKey_ok_not_inKey h
          | _ => cases h
        | _ => cases h
      | expectValue =>
        cases op with
        | assembleValue => cases h; rfl
        | _ => cases h
      | midValue => exact valueCall_ok_not_inKey h
    | list x ph =>
      cases ph with
      | init =>
        cases op with
        | assembleValue => cases h; rfl
        | finish => exact deliver_ok_not_inKey h
        | _ => cases h
      | midValue => exact valueCall_ok_not_inKey h

theorem valueCall_assembleKey (s : St) (b : Bool) : valueCall s b .assembleKey = (s, .panic) := rfl

/-- `AssembleKey` is accepted exactly by a map assembler between entries -/
theorem step_assembleKey_ok {s s' : St} (h : step s .assembleKey = (s', .ok)) :
    ∃ t m rest, s.frames = .map t m .init :: rest ∧
      s' = { s with frames := .map t m .midKey :: rest } := by
  obtain ⟨p, fr, rt⟩ := s
  cases fr with
  | nil => cases rt <;> cases h
  | cons f rest =>
    cases f with
    | map t m ph =>
      cases ph with
      | init => cases h; exact ⟨t, m, rest, rfl, rfl⟩
      | _ => cases h
    | list x ph => cases ph <;> cases h

theorem step_inKey_repeated {s s' : St} {op : Op} {t m rest}
    (hf : s.frames = .map t m .midKey :: rest) (h : step s op = (s', .err .repeatedKey)) :
    s' = { s with frames := .map t m .init :: rest } := by
  rcases step_err h with h1 | ⟨_, t', m', rest', hf', h1⟩
  · obtain ⟨p, fr, rt⟩ := s
    simp only at hf; subst hf
    cases op with
    | assign v =>
      cases v with
      | str k => exact (supplyKey_err h).1
      | _ => cases h
    | assignNode v =>
      cases v with
      | str k => exact (supplyKey_err h).1
      | _ => cases h
    | _ => cases h
  · rw [hf] at hf'; cases hf'; exact h1

theorem step_not_inKey_err {s s' : St} {op : Op} {c : ErrClass} (hk : inKey s = false)
    (h : step s op = (s', .err c)) : s' = s := by
  rcases step_err h with h1 | ⟨_, t, m, rest, hf, _⟩
  · exact h1
  · simp [inKey, hf] at hk

/-- `PendOk s0 pend s`: `pend` is what `eraseFrom` is holding back in state `s`, and `s0` is the
    state from which running `pend` gives `s`. -/
inductive PendOk : St → List Op → St → Prop
  | none {s : St} : inKey s = false → PendOk s [] s
  | key {s0 : St} {t m rest} : s0.frames = .map t m .init :: rest →
      PendOk s0 [.assembleKey] { s0 with frames := .map t m .midKey :: rest }

theorem PendOk.runs {s0 s : St} {pend : List Op} (h : PendOk s0 pend s) : Runs s0 pend s := by
  cases h with
  | none _ => exact Runs.nil _
  | key hf => exact Runs.single (step_assembleKey hf)

theorem eraseFrom_runs {s0 s : St} {pend : List Op} (h : List Op) (hp : PendOk s0 pend s)
    (hn : Out.panic ∉ (run s h).2) : Runs s0 (eraseFrom s pend h) (run s h).1 := by
  induction h generalizing s0 s pend with
  | nil => exact hp.runs
  | cons op ops ih =>
    cases hs : step s op with
    | mk s' o =>
      cases o with
      | ok =>
        rw [run_cons_ok ops hs] at hn ⊢
        have hn' : Out.panic ∉ (run s' ops).2 := fun hm => hn (List.mem_cons_of_mem _ hm)
        by_cases hop : op = .assembleKey
        · subst hop
          obtain ⟨t, m, rest, hf, rfl⟩ := step_assembleKey_ok hs
          rw [eraseFrom_cons_ok_key hs]
          cases hp with
          | none hk => exact ih (PendOk.key hf) hn'
          | key hf0 => cases hf
        · rw [eraseFrom_cons_ok hs hop]
          exact Runs.append hp.runs
            (Runs.cons hs (ih (PendOk.none (step_ok_not_inKey hs hop)) hn'))
      | err c =>
        rw [run_cons_err ops hs] at hn ⊢
        have hn' : Out.panic ∉ (run s' ops).2 := fun hm => hn (List.mem_cons_of_mem _ hm)
        by_cases hc : c = .repeatedKey
        · subst hc
          rw [eraseFrom_cons_repeated hs]
          cases hp with
          | none hk =>
            have := step_not_inKey_err hk hs
            subst this
            exact ih (PendOk.none hk) hn'
          | key hf0 =>
            have := step_inKey_repeated rfl hs
            subst this
            obtain ⟨p, fr, rt⟩ := s0
            simp only at hf0; subst hf0
            exact ih (PendOk.none rfl) hn'
        · rw [eraseFrom_cons_other hs (by intro e; cases e) (by intro e; cases e; exact hc rfl)]
          have := step_err_not_repeated hs hc
          subst this
          exact ih hp hn'
      | panic =>
        rw [run_cons_panic ops hs] at hn
        simp at hn

theorem eraseFrom_sublist (s : St) (pend h : List Op) : (eraseFrom s pend h).Sublist (pend ++ h) := by
  induction h generalizing s pend with
  | nil => simp [eraseFrom]
  | cons op ops ih =>
    cases hs : step s op with
    | mk s' o =>
      have hdrop : ∀ l : List Op, l.Sublist (pend ++ ops) → l.Sublist (pend ++ op :: ops) := by
        intro l hl
        exact hl.trans (List.Sublist.append_left (List.sublist_cons_self op ops) pend)
      cases o with
      | ok =>
        by_cases hop : op = .assembleKey
        · subst hop
          rw [eraseFrom_cons_ok_key hs]
          exact List.Sublist.append_left (ih s' [.assembleKey]) pend
        · rw [eraseFrom_cons_ok hs hop]
          exact List.Sublist.append_left ((ih s' []).cons_cons op) pend
      | err c =>
        by_cases hc : c = .repeatedKey
        · subst hc
          rw [eraseFrom_cons_repeated hs]
          exact hdrop _ ((ih s' []).trans (List.sublist_append_right pend ops))
        · rw [eraseFrom_cons_other hs (by intro e; cases e) (by intro e; cases e; exact hc rfl)]
          exact hdrop _ (ih s' pend)
      | panic =>
        rw [eraseFrom_cons_other hs (by intro e; cases e) (by intro e; cases e)]
        exact hdrop _ (ih s' pend)

/-! ### read side -/

theorem find_of_mem_nodup_keys {l : List (Bytes × DM)} {k : Bytes} {v : DM}
    (hn : (l.map (·.1)).Nodup) (hm : (k, v) ∈ l) : l.find? (fun e => e.1 == k) = some (k, v) := by
  induction l with
  | nil => cases hm
  | cons e r ih =>
    obtain ⟨a, b⟩ := e
    simp only [List.map_cons, List.nodup_cons] at hn
    rcases List.mem_cons.1 hm with h | h
    · cases h; simp
    · have hne : a ≠ k := by
        intro e; subst e
        exact hn.1 (List.mem_map.2 ⟨(a, v), h, rfl⟩)
      rw [List.find?_cons_of_neg (by simpa using hne)]
      exact ih hn.2 h

/-! ### data for the non-vacuity examples -/

/-- `{"a": 1, "b": 2}` -/
def exMap : DM := .map (.cons [97] (.int 1) (.cons [98] (.int 2) .nil))

/-- A history with three rejected calls: `AssembleEntry "a"` a second time, a key assembler given
    `"a"` again, and a key assembler given an integer before it is given `"b"`. -/
def exHistory : List Op :=
  [.beginMap 2, .assembleEntry [97], .assign (.int 1),
   .assembleEntry [97],                       -- rejected: repeated key
   .assembleKey, .assign (.str [97]),         -- rejected: repeated key; the map assembler is back
   .assembleKey, .assign (.int 5),            -- rejected: wrong kind; the key assembler still waits
   .assignNode (.str [98]), .assembleValue, .assign (.int 2), .finish]

/-- a nested value: `{"a": [1, {"x": null}], "b": "s"}` -/
def exNested : DM :=
  .map (.cons [97] (.list (.cons (.int 1) (.cons (.map (.cons [120] .null .nil)) .nil)))
       (.cons [98] (.str [115]) .nil))

/-- a variant plan for `exNested`: odd hints, the first entry opened through the key assembler,
    the inner map handed over with `AssignNode` -/
def exVariantPlan : List Op :=
  [.beginMap (-7), .assembleKey, .assign (.str [97]), .assembleValue,
     .beginList 1000, .assembleValue, .assign (.int 1),
       .assembleValue, .assignNode (.map (.cons [120] .null .nil)), .finish,
   .assembleEntry [98], .assign (.str [115]), .finish]

end Asm
end Ipld
