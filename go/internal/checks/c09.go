package checks

import (
	"bytes"
	"fmt"
	"strings"

	ipld "github.com/ipld/go-ipld-prime"
	"github.com/ipld/go-ipld-prime/codec/dagcbor"
	"github.com/ipld/go-ipld-prime/codec/dagjson"
	"github.com/ipld/go-ipld-prime/datamodel"
	"github.com/ipld/go-ipld-prime/node/bindnode"
	"github.com/ipld/go-ipld-prime/schema"

	"verif/internal/core"
)

// C09 — typed builders accept exactly the data that conforms to the schema.
//
//   impl observation : conforming values and every local mutation of them (dropped / duplicated / renamed / retyped /
//                      reordered / nulled fields and entries, wrong discriminants, extra tuple elements, bad enum
//                      members, …) are fed WHOLE into the typed builder - at type level and at representation
//                      level - over four routes: assembler calls with the canonical plan, assembler calls with a
//                      random plan (entry shortcut / key+value / AssignNode of prebuilt nodes / any size hint),
//                      dag-cbor bytes and dag-json text written by the harness (order and repeated keys kept, so
//                      duplicates reach the assembler).  Observed: `accepted <type-level view>` | `rejected` | `panic`.
//   (D) correspondence: == the Lean model with the engine instance that mirrors the real engine
//                      (`schema.oftype bindnode` / `schema.ofrepr bindnode`)
//   (O) oracle        : == the model's `ideal` engine, i.e. accepted iff conforming (`schema.conforms` /
//                      `schema.conformsrepr`, stated independently of the builders) and the node built is the input;
//                      for unmutated inputs the expected node is the generated inhabitant itself (no model involved).
//   Every deviation of the real engine from `ideal` is attributed to the engine flags whose removal changes the
//   model's answer (`schema.quirks`) and reported under one signature per flag; a panic is always a failure.

func init() {
	core.Register(&core.Check{ID: "C09", Run: runC09, Replay: replayC09})
}

var quirkSignature = map[string]string{
	"dupStructField":     "C09/bindnode-repeated-struct-field-accepted",
	"reuseSlot":          "C09/bindnode-repeated-field-assembled-into-old-value",
	"dupMapKey":          "C09/bindnode-repeated-map-key-accepted",
	"unionMulti":         "C09/bindnode-union-several-members-accepted",
	"renameFallback":     "C09/bindnode-renamed-field-accepted-under-original-name",
	"discFallback":       "C09/bindnode-keyed-union-member-accepted-under-type-name",
	"enumTypeAnyString":  "C09/bindnode-enum-type-level-accepts-any-string",
	"enumNameAtRepr":     "C09/bindnode-enum-renamed-member-accepted-under-its-name",
	"nullableUnionPanic": "C09/panic-nullable-kinded-or-stringprefix-union",
	"lpShortPair":        "C09/bindnode-listpairs-short-entry-ignored",
	"lpUnknownKeyPanic":  "C09/panic-listpairs-unknown-field",
}

type c09Case struct {
	sc      *schemaCase
	lvl     string   // type | repr
	input   core.Val // data-model tree
	mut     string   // mutation kind, "none" for a conforming generated value
	expect  string   // for mut == none: the canonical typed value (term)
	trigger []string // C08 triggers of the generated value (for mut == none)
}

func (cs c09Case) line() string {
	return "schema.of" + cs.lvl + " " + cs.sc.Eng.ModelName() + " " + cs.sc.Ty + " VAL " + cs.input.Term()
}

func c09Batch(c *core.Ctx, cases []c09Case, r *core.Rand, report func(string, core.Replay), stats bool) error {
	lines := make([]string, 0, 5*len(cases))
	for _, cs := range cases {
		lines = append(lines, cs.line())
		lines = append(lines, "schema.of"+cs.lvl+" ideal "+cs.sc.Ty+" VAL "+cs.input.Term())
		if cs.lvl == "type" {
			lines = append(lines, "schema.conforms "+cs.sc.Ty+" VAL "+cs.input.Term())
		} else {
			lines = append(lines, "schema.conformsrepr "+cs.sc.Ty+" VAL "+cs.input.Term())
		}
		lines = append(lines, "schema.quirks "+cs.lvl+" "+cs.sc.Ty+" VAL "+cs.input.Term())
		if cs.lvl == "type" {
			lines = append(lines, "schema.normalize "+cs.sc.Ty+" VAL "+cs.input.Term())
		} else {
			lines = append(lines, "schema.wf "+cs.sc.Ty)
		}
	}
	outs, err := core.RunDriver(lines)
	if err != nil {
		return err
	}
	for i, cs := range cases {
		mEng, mIdeal, mConf, mQuirks, mNorm := modelObs(outs[5*i]), modelObs(outs[5*i+1]), outs[5*i+2], outs[5*i+3], outs[5*i+4]
		if strings.HasPrefix(outs[5*i], "bad-") || strings.HasPrefix(outs[5*i+2], "bad-") {
			return fmt.Errorf("driver refused case %q: %s", cs.line(), outs[5*i])
		}
		// impl: all routes
		obs := map[string]string{}
		detail := map[string]string{}
		var routeList []string
		dups := hasRepeatedKey(cs.input)
		for _, route := range schemaRoutes {
			o := feed(cs.sc, cs.lvl, route, cs.input, r.Fork())
			if o.Outcome == "unfed" {
				continue
			}
			if route == "cbor" && dups {
				// the dag-cbor decoder itself refuses a repeated map key (strictness of C03): such an input never
				// reaches the assembler over this route, whatever the engine
				if stats {
					c.Dist("cbor-route:repeated-key-refused-by-codec")
				}
				if o.Outcome == "accepted" { // (it may also stop earlier, for the engine's own reasons)
					report("C09/cbor-route-passed-repeated-key", core.Replay{Kind: "oracle", Case: cs.line(), Impl: o.typeObs(), Expected: "rejected by the decoder"})
				}
				continue
			}
			obs[route] = o.typeObs()
			detail[route] = o.Detail
			routeList = append(routeList, route)
		}
		impl := obs["direct"]
		if stats {
			c.Count(cs.line(), cs.mut != "none" || cs.input.Size() >= 3)
			c.Trace(len(routeList))
			c.Dist("level:" + cs.lvl)
			c.Dist("mutation:" + cs.mut)
			c.Dist("impl:" + strings.Fields(impl)[0])
			c.Dist("ideal:" + strings.Fields(mIdeal)[0])
			distStrategies(c, cs.sc.T)
		}
		if i < 3 && stats {
			c.Sample(map[string]string{"case": cs.line(), "mutation": cs.mut, "impl": impl, "model": mEng, "ideal": mIdeal})
		}
		allObs := func() string {
			var sb strings.Builder
			for _, rt := range routeList {
				fmt.Fprintf(&sb, "%s=%s ", rt, obs[rt])
			}
			return sb.String()
		}
		rp := func(kind, expected, det string) core.Replay {
			return core.Replay{Kind: kind, Case: cs.line(), Impl: allObs(), Model: "engine=" + mEng + " ideal=" + mIdeal + " conforms=" + mConf + " quirks=" + mQuirks,
				Expected: expected, Detail: "mutation=" + cs.mut + " " + det}
		}

		// the two statements of the ideal inside the model agree (else the model is wrong)
		if (strings.HasPrefix(mIdeal, "accepted ")) != (mConf == "true") {
			report("C09/model-ideal-vs-conforms", rp("correspondence", "ideal builder accepts iff conforms", "the model's ideal builder and its conformance predicate disagree"))
			continue
		}
		// "the node built equals the input", stated without the builder: the canonical value of the input tree
		if cs.lvl == "type" && mConf == "true" && mIdeal != "accepted "+mNorm {
			report("C09/model-ideal-vs-normalize", rp("correspondence", "accepted "+mNorm, "the model's ideal builder does not build the canonical value of a conforming input"))
			continue
		}
		// unmutated: the generator, too, says it conforms, and which node it is
		if cs.mut == "none" && mIdeal != "accepted "+cs.expect {
			report("C09/model-rejects-generated-inhabitant", rp("correspondence", "accepted "+cs.expect, "the ideal builder does not build the generated inhabitant from its own input"))
			continue
		}

		// routes agree with each other
		routesAgree := true
		for _, rt := range routeList {
			if obs[rt] != impl {
				routesAgree = false
			}
		}
		if !routesAgree {
			report("C09/routes-disagree", rp("oracle", "one observation over all routes", "the routes (assembler plans, codecs) disagree on the same input"))
		}

		// (D)
		corrOK := true
		for _, rt := range routeList {
			if obs[rt] != mEng {
				corrOK = false
				report("C09/corr-"+cs.lvl+"-builder", rp("correspondence", mEng, "route "+rt+": "+detail[rt]))
				break
			}
		}

		// (O)
		if cs.mut == "none" {
			// independent of the model: a generated inhabitant is accepted and is what is built
			if impl != "accepted "+cs.expect {
				sig := "C09/conforming-input-not-built"
				if strings.HasPrefix(impl, "panic") {
					sig = "C09/panic"
				}
				if corrOK && mQuirks != "-" {
					for _, q := range strings.Split(mQuirks, ",") {
						if s, ok := quirkSignature[q]; ok {
							report(s, rp("oracle", "accepted "+cs.expect, "conforming input; "+detail["direct"]))
						}
					}
					continue
				}
				report(sig, rp("oracle", "accepted "+cs.expect, "conforming input; "+detail["direct"]))
			}
			continue
		}
		for _, rt := range routeList {
			if obs[rt] == mIdeal || obs[rt] != mEng {
				continue // agrees with the ideal, or already reported as a broken correspondence
			}
			// a deviation from the ideal builder
			attributed := false
			if mQuirks != "-" {
				for _, q := range strings.Split(mQuirks, ",") {
					if s, ok := quirkSignature[q]; ok {
						attributed = true
						report(s, rp("oracle", mIdeal, "route "+rt+": "+detail[rt]))
					}
				}
			}
			if !attributed {
				sig := "C09/deviation-unattributed"
				if strings.HasPrefix(obs[rt], "panic") {
					sig = "C09/panic"
				}
				report(sig, rp("oracle", mIdeal, "route "+rt+": "+detail[rt]))
			}
			break
		}
	}
	return nil
}

func runC09(c *core.Ctx) error {
	c.Rule = "case = (random type system as in C08) x (level: type | representation) x (a generated inhabitant's input, or one local mutation of it: see distribution `mutation:*`) x (4 routes); non-trivial = mutated, or an input of >= 3 nodes; distinct by (type, level, input)"
	c.Explanation = "model: lean/IpldModel/Model/Schema.lean (build with Engine.ideal / Engine.bindnode, conforms, conformsRepr); theorems Props/C09.lean: ofType_eq, ofRepr_isOk_eq, ideal_never_panics, built_conforms, accepted_by_every_engine; typed maps keyed by an enum are checked against the generator's statement of conformance (oracle only: the model's maps have string keys)"
	c.Assumptions = []string{
		"engine: reflection binding with inferred and with caller-supplied Go types (generated code: C13)",
		"ints within int64 (width handling is C19), finite non-integral floats, UTF-8 strings, no map key \"/\"",
		"`any` does not contain null at its top unless the slot is nullable (the builder refuses it; taken as the type's meaning)",
	}
	if err := replayWitnesses(c, func(w string, report func(string, core.Replay)) error {
		f := strings.Fields(w)
		if len(f) < 3 || (f[0] != "schema.oftype" && f[0] != "schema.ofrepr") {
			return fmt.Errorf("bad witness")
		}
		sc, v, err := parseSchemaCase(w, 2)
		if err != nil {
			return err
		}
		return c09Batch(c, []c09Case{{sc: sc, lvl: strings.TrimPrefix(f[0], "schema.of"), input: v, mut: "witness"}}, c.Rand, report, false)
	}); err != nil {
		return err
	}
	if err := c09EnumKeys(c, c.Rand.Fork(), c.Pick(150, 20000), "C09"); err != nil {
		return err
	}
	c09DslAnon(c)
	c09UnionKeyWitness(c)
	nSchemas := c.Pick(5000, 250000)
	cfg := core.DefaultSchemaCfg
	var batch []c09Case
	flush := func() error {
		if len(batch) == 0 {
			return nil
		}
		err := c09Batch(c, batch, c.Rand, c.Fail, true)
		batch = batch[:0]
		return err
	}
	for s := 0; s < nSchemas; s++ {
		sc, err := genSchemaCase(c.Rand, cfg)
		if err != nil {
			c.Fail("C09/schema-not-bindable", core.Replay{Kind: "oracle", Case: "", Detail: err.Error()})
			continue
		}
		for k := 0; k < 3; k++ {
			tv := core.GenInhabitant(sc.T, c.Rand, cfg, false)
			trig := triggerList(sc.T, tv)
			for _, lvl := range []string{"type", "repr"} {
				var input core.Val
				if lvl == "type" {
					input = core.TypeInput(tv)
				} else {
					rv, ok := core.ReprOf(sc.T, tv)
					if !ok {
						continue
					}
					input = rv
				}
				if k == 0 {
					batch = append(batch, c09Case{sc: sc, lvl: lvl, input: input, mut: "none", expect: tv.Term(), trigger: trig})
				}
				for m := 0; m < 3; m++ {
					var mu core.Mutant
					var ok bool
					if c.Rand.Chance(1, 6) {
						mu, ok = core.MutateTwice(sc.T, lvl, input, c.Rand, cfg)
					} else {
						mu, ok = core.MutateInput(sc.T, lvl, input, c.Rand, cfg)
					}
					if !ok {
						continue
					}
					batch = append(batch, c09Case{sc: sc, lvl: lvl, input: mu.V, mut: mu.Kind})
				}
			}
		}
		if len(batch) >= 4000 {
			if err := flush(); err != nil {
				return err
			}
		}
	}
	if err := flush(); err != nil {
		return err
	}
	return nil
}

func replayC09(c *core.Ctx, rp core.Replay) error {
	if strings.HasPrefix(rp.Case, "enumkey.") {
		return replayEnumKey(c, rp, "C09")
	}
	f := strings.Fields(rp.Case)
	if len(f) < 3 || (f[0] != "schema.oftype" && f[0] != "schema.ofrepr") {
		return fmt.Errorf("bad case")
	}
	sc, v, err := parseSchemaCase(rp.Case, 2)
	if err != nil {
		return err
	}
	lvl := strings.TrimPrefix(f[0], "schema.of")
	mut := "replay"
	if i := strings.Index(rp.Detail, "mutation="); i >= 0 {
		mut = strings.Fields(rp.Detail[i+9:])[0]
	}
	cs := c09Case{sc: sc, lvl: lvl, input: v, mut: mut}
	if mut == "none" {
		cs.expect = strings.TrimPrefix(rp.Expected, "accepted ")
	}
	return c09Batch(c, []c09Case{cs}, c.Rand, c.Fail, false)
}

func hasRepeatedKey(v core.Val) bool {
	seen := map[string]bool{}
	for _, e := range v.M {
		if seen[string(e.K)] || hasRepeatedKey(e.V) {
			return true
		}
		seen[string(e.K)] = true
	}
	for _, x := range v.L {
		if hasRepeatedKey(x) {
			return true
		}
	}
	return false
}

// c09EnumKeys: typed maps whose KEY type is a string-represented enum (keys are not plain strings: at type level a key
// is a member name, at representation level the member's representation string).  Every way of supplying the key
// (AssembleEntry, key assembler, AssignNode of a whole map, dag-json, dag-cbor) must accept exactly the valid keys of
// the level; accepted maps read back with the keys of the level asked for.
//
//	(O) oracles        : acceptance, content at both levels, lookups vs iteration, foreign spellings (stated here in Go)
//	(D) correspondence : == lean/IpldModel/Model/EnumKeyMap.lean (`enumkey.run`, `enumkey.lookup`), whose theorems are
//	                     Props/C09enumkeys.lean (acceptance, validity, views build back) and Props/C08enumkeys.lean
//	                     (lookups agree with iteration, foreign spellings, the views correspond)
func c09EnumKeys(c *core.Ctx, r *core.Rand, n int, pfx string) error {
	names := []string{"Yes", "No", "Maybe", "a", "b", "Red"}
	reprs := []string{"y", "n", "m", "A", "B", "r", "Yes", "a"}
	pend := &ekPending{}
	for i := 0; i < n; i++ {
		k := 2 + r.Intn(3)
		perm := r.Perm(len(names))
		var members []string
		ren := schema.EnumRepresentation_String{}
		rp := r.Perm(len(reprs))
		for j := 0; j < k; j++ {
			m := names[perm[j]]
			members = append(members, m)
			if r.Bool() {
				ren[m] = reprs[rp[j]]
			}
		}
		ek, ok := newEkType(members, ren)
		if !ok {
			continue
		}
		for _, lvl := range []string{"type", "repr"} {
			valid := ek.validKeys(lvl)
			cands := append(append([]string{}, names...), reprs...)
			cands = append(cands, "zz", "")
			key := cands[r.Intn(len(cands))]
			second := ""
			for v := range valid {
				if v != key {
					second = v
				}
			}
			input := core.Map(core.KV{K: []byte(key), V: core.Int(1)})
			if second != "" && r.Bool() {
				input.M = append(input.M, core.KV{K: []byte(second), V: core.Int(2)})
			}
			if r.Chance(1, 6) {
				// a key supplied twice (the same text: under distinct representations no two texts name one member)
				input.M = append(input.M, core.KV{K: input.M[r.Intn(len(input.M))].K, V: core.Int(3)})
			}
			ekCheck(c, pfx, ek, lvl, input, pend, true)
		}
		if len(pend.lines) >= 20000 {
			if err := pend.flush(c, pfx); err != nil {
				return err
			}
		}
	}
	return pend.flush(c, pfx)
}

// ekType: an enum with a string representation and the typed map keyed by it, bound by reflection.
type ekType struct {
	members []string
	ren     schema.EnumRepresentation_String
	reprOf  map[string]string
	tp      schema.TypedPrototype
}

func newEkType(members []string, ren schema.EnumRepresentation_String) (*ekType, bool) {
	// a representation string must not be ambiguous: no two members with the same representation
	seen := map[string]bool{}
	reprOf := map[string]string{}
	for _, m := range members {
		rs := m
		if x, has := ren[m]; has {
			rs = x
		}
		if seen[rs] {
			return nil, false
		}
		seen[rs] = true
		reprOf[m] = rs
	}
	ts, errs := schema.SpawnTypeSystem(schema.SpawnString("String"), schema.SpawnInt("Int"),
		schema.SpawnEnum("E", members, ren), schema.SpawnMap("M", "E", "Int", false))
	if errs != nil {
		return nil, false
	}
	return &ekType{members: members, ren: ren, reprOf: reprOf, tp: bindnode.Prototype(nil, ts.TypeByName("M"))}, true
}

// validKeys: key text at this level → member
func (ek *ekType) validKeys(lvl string) map[string]string {
	valid := map[string]string{}
	for _, m := range ek.members {
		if lvl == "type" {
			valid[m] = m
		} else {
			valid[ek.reprOf[m]] = m
		}
	}
	return valid
}

// membersTok: the enum in the driver's line protocol (lean/Driver/EnumKey.lean)
func (ek *ekType) membersTok() string {
	var sb strings.Builder
	sb.WriteString("MEMBERS")
	for _, m := range ek.members {
		fmt.Fprintf(&sb, " m:%x:%x", m, ek.reprOf[m])
	}
	return sb.String()
}

var ekRoutes = []string{"entry", "keyasm", "node", "json", "cbor"}

// ekFeed supplies the entries of input, in order, to the builder of the level over one route.
func ekFeed(ek *ekType, lvl, route string, input core.Val) (built datamodel.Node, err error, panicked bool, pv interface{}) {
	var np datamodel.NodePrototype = ek.tp
	if lvl == "repr" {
		np = ek.tp.Representation()
	}
	err, panicked, pv = core.Catch(func() error {
		nb := np.NewBuilder()
		switch route {
		case "entry":
			if err := core.Assemble(nb, input, nil); err != nil {
				return err
			}
		case "keyasm":
			ma, err := nb.BeginMap(int64(len(input.M)))
			if err != nil {
				return err
			}
			for _, e := range input.M {
				if err := ma.AssembleKey().AssignString(string(e.K)); err != nil {
					return err
				}
				if err := core.Assemble(ma.AssembleValue(), e.V, nil); err != nil {
					return err
				}
			}
			if err := ma.Finish(); err != nil {
				return err
			}
		case "node":
			bn, err := core.BuildBasic(input, nil)
			if err != nil {
				return err
			}
			if err := nb.AssignNode(bn); err != nil {
				return err
			}
		case "json":
			var sb strings.Builder
			if !core.RawJSON(&sb, input) {
				return nil
			}
			if err := dagjson.Decode(nb, strings.NewReader(sb.String())); err != nil {
				return err
			}
		case "cbor":
			if err := dagcbor.Decode(nb, bytes.NewReader(core.RawCBOR(nil, input))); err != nil {
				return err
			}
		}
		built = nb.Build()
		return nil
	})
	return
}

// ekPending: driver lines waiting for the model's answer, with the implementation's observation of each.
type ekPending struct {
	lines []string
	index map[string]int // line → position in lines
	obs   []ekObs
}

type ekObs struct {
	line, impl, detail string
}

func (p *ekPending) add(line, impl, detail string) {
	if p.index == nil {
		p.index = map[string]int{}
	}
	if _, ok := p.index[line]; !ok {
		p.index[line] = len(p.lines)
		p.lines = append(p.lines, line)
	}
	p.obs = append(p.obs, ekObs{line, impl, detail})
}

func (p *ekPending) flush(c *core.Ctx, pfx string) error {
	outs, err := core.RunDriver(p.lines)
	if err != nil {
		return err
	}
	for _, o := range p.obs {
		model := outs[p.index[o.line]]
		if strings.HasPrefix(model, "bad-") {
			return fmt.Errorf("driver refused case %q: %s", o.line, model)
		}
		if model != o.impl {
			c.Fail(pfx+"/corr-enum-keyed-map", core.Replay{Kind: "correspondence", Case: o.line, Impl: o.impl, Model: model, Detail: o.detail})
		}
	}
	c.Trace(len(p.obs))
	*p = ekPending{}
	return nil
}

// ekLookupObs: what LookupByString(key) on a view says, in the model's vocabulary.
func ekLookupObs(view datamodel.Node, key string) string {
	var out string
	_, panicked, pv := core.Catch(func() error {
		x, err := view.LookupByString(key)
		if err != nil || x == nil {
			out = "notfound"
		} else {
			out = "found " + termOfOrErrSafe(x, nil)
		}
		return nil
	})
	if panicked {
		return fmt.Sprintf("panic %v", pv)
	}
	return out
}

// ekCheck: one (enum, level, input) over every route: the oracles (when stats is set: counted as generated cases) and the
// implementation's observations queued for the model correspondence.
func ekCheck(c *core.Ctx, pfx string, ek *ekType, lvl string, input core.Val, pend *ekPending, stats bool) {
	valid := ek.validKeys(lvl)
	want := true
	seenKey := map[string]bool{}
	for _, e := range input.M {
		if _, ok := valid[string(e.K)]; !ok || seenKey[string(e.K)] {
			want = false
		}
		seenKey[string(e.K)] = true
	}
	runLine := "enumkey.run " + lvl + " " + ek.membersTok() + " INPUT " + input.Term()
	// the texts looked up in both views of an accepted map: every spelling of every member at either level (so: each key
	// of each view, members that are not in the map, the other level's spellings) and two texts that spell nothing
	var lookups []string
	seenL := map[string]bool{}
	for _, m := range ek.members {
		for _, t := range []string{m, ek.reprOf[m]} {
			if !seenL[t] {
				seenL[t] = true
				lookups = append(lookups, t)
			}
		}
	}
	for _, t := range []string{"zz", ""} {
		if !seenL[t] {
			lookups = append(lookups, t)
		}
	}
	for _, route := range ekRoutes {
		caseID := fmt.Sprintf("c09.enumkeys %s %s members=%v renames=%v INPUT %s", lvl, route, ek.members, ek.ren, input.Term())
		built, err, panicked, pv := ekFeed(ek, lvl, route, input)
		if stats {
			c.Count(caseID, true)
			c.Dist("enum-keyed-map:" + lvl + ":" + route)
		}
		if panicked {
			c.Fail(pfx+"/panic", core.Replay{Kind: "oracle", Case: caseID, Impl: fmt.Sprint(pv)})
			continue
		}
		got := err == nil
		if !got {
			pend.add(runLine, "rejected", fmt.Sprintf("route=%s error %T", route, err))
		}
		if got != want {
			c.Fail(pfx+"/enum-keyed-map-acceptance", core.Replay{Kind: "oracle", Case: caseID, Impl: fmt.Sprintf("accepted=%v (%v)", got, err), Expected: fmt.Sprintf("accepted=%v", want),
				Detail: "a typed map keyed by an enum accepts exactly the members' names (type level) / representation strings (representation level), each at most once"})
			if got && built != nil {
				// the model still has to agree with what was built
				if tn, ok := built.(schema.TypedNode); ok {
					pend.add(runLine, "accepted "+termOfOrErrSafe(tn, nil)+" | "+termOfOrErrSafe(tn.Representation(), nil), "route="+route)
				}
			}
			continue
		}
		if got && built != nil {
			// read back at both levels
			tn := built.(schema.TypedNode)
			wantT, wantR := core.Map(), core.Map()
			for _, e := range input.M {
				m := valid[string(e.K)]
				wantT.M = append(wantT.M, core.KV{K: []byte(m), V: e.V})
				wantR.M = append(wantR.M, core.KV{K: []byte(ek.reprOf[m]), V: e.V})
			}
			gt, gr := termOfOrErrSafe(tn, nil), termOfOrErrSafe(tn.Representation(), nil)
			pend.add(runLine, "accepted "+gt+" | "+gr, "route="+route)
			if gt != wantT.Term() || gr != wantR.Term() {
				c.Fail(pfx+"/enum-keyed-map-content", core.Replay{Kind: "oracle", Case: caseID, Impl: gt + " | " + gr, Expected: wantT.Term() + " | " + wantR.Term()})
			}
			// reading by key: every lookup form agrees with iteration at each level, and a text that is not a key OF
			// THAT LEVEL (the name of a renamed member at representation level, its representation at type level) is not found
			for vi, view := range []datamodel.Node{tn, tn.Representation()} {
				if p := consistency(view, ""); p != "" {
					c.Fail(pfx+"/enum-keyed-map-lookup", core.Replay{Kind: "oracle", Case: caseID, Impl: p, Expected: "lookups by key agree with iteration", Detail: []string{"type-level view", "representation view"}[vi]})
				}
				for _, m := range ek.members {
					foreign := ek.reprOf[m]
					if vi == 1 {
						foreign = m
					}
					isKey := false
					for _, m2 := range ek.members {
						if vi == 0 && m2 == foreign || vi == 1 && ek.reprOf[m2] == foreign {
							isKey = true
						}
					}
					if isKey {
						continue
					}
					var found bool
					_, panicked, pv := core.Catch(func() error {
						x, err := view.LookupByString(foreign)
						found = err == nil && x != nil
						return nil
					})
					if panicked || found {
						c.Fail(pfx+"/enum-keyed-map-lookup", core.Replay{Kind: "oracle", Case: caseID, Impl: fmt.Sprintf("LookupByString(%q) found=%v panic=%v", foreign, found, pv), Expected: "not found",
							Detail: []string{"type-level view", "representation view"}[vi] + ": the text is the other level's spelling of a member"})
					}
				}
				// the model's lookups (the value is named by its type-level view, which the content oracle has just compared)
				if gt == wantT.Term() {
					for _, t := range lookups {
						line := fmt.Sprintf("enumkey.lookup %s %s VAL %s KEY s%x", []string{"type", "repr"}[vi], ek.membersTok(), gt, t)
						pend.add(line, ekLookupObs(view, t), "built at "+lvl+" level over route="+route+" from "+input.Term())
					}
				}
			}
		}
	}
}

// replayEnumKey re-executes one `enumkey.run` / `enumkey.lookup` correspondence case on the implementation and the model.
func replayEnumKey(c *core.Ctx, rp core.Replay, pfx string) error {
	f := strings.Fields(rp.Case)
	if len(f) < 4 || (f[0] != "enumkey.run" && f[0] != "enumkey.lookup") || f[2] != "MEMBERS" || (f[1] != "type" && f[1] != "repr") {
		return fmt.Errorf("bad case")
	}
	var members []string
	ren := schema.EnumRepresentation_String{}
	i := 3
	for ; i < len(f) && strings.HasPrefix(f[i], "m:"); i++ {
		parts := strings.Split(f[i], ":")
		if len(parts) != 3 {
			return fmt.Errorf("bad member %q", f[i])
		}
		var nm, rs []byte
		if _, err := fmt.Sscanf(parts[1]+" ", "%x", &nm); err != nil && parts[1] != "" {
			return err
		}
		if _, err := fmt.Sscanf(parts[2]+" ", "%x", &rs); err != nil && parts[2] != "" {
			return err
		}
		members = append(members, string(nm))
		if string(rs) != string(nm) {
			ren[string(nm)] = string(rs)
		}
	}
	ek, ok := newEkType(members, ren)
	if !ok {
		return fmt.Errorf("not a type system: members=%v renames=%v", members, ren)
	}
	pend := &ekPending{}
	if f[0] == "enumkey.run" {
		if i >= len(f) || f[i] != "INPUT" {
			return fmt.Errorf("bad case")
		}
		input, err := core.ParseTermString(strings.Join(f[i+1:], " "))
		if err != nil {
			return err
		}
		ekCheck(c, pfx, ek, f[1], input, pend, false)
		return pend.flush(c, pfx)
	}
	if i >= len(f) || f[i] != "VAL" || len(f) < i+4 || f[len(f)-2] != "KEY" || !strings.HasPrefix(f[len(f)-1], "s") {
		return fmt.Errorf("bad case")
	}
	val, err := core.ParseTermString(strings.Join(f[i+1:len(f)-2], " "))
	if err != nil {
		return err
	}
	var key []byte
	if h := f[len(f)-1][1:]; h != "" {
		if _, err := fmt.Sscanf(h, "%x", &key); err != nil {
			return err
		}
	}
	for _, route := range ekRoutes {
		built, err, panicked, pv := ekFeed(ek, "type", route, val)
		if panicked || err != nil || built == nil {
			return fmt.Errorf("the value of the case cannot be built at type level over route %s: %v %v", route, err, pv)
		}
		view := datamodel.Node(built)
		if f[1] == "repr" {
			view = built.(schema.TypedNode).Representation()
		}
		pend.add(rp.Case, ekLookupObs(view, string(key)), "route="+route)
	}
	return pend.flush(c, pfx)
}

// c09DslAnon: the schema as its AUTHOR writes it - DSL text compiled with ipld.LoadSchemaBytes - with inline (anonymous)
// map and list types that differ ONLY in the nullability of their values, in every order: each field accepts a null
// element exactly when its own declaration says `nullable`, at the type level and at the representation level.
// (The compiler names anonymous types after their shape; the pinned tree left the nullability out of the name, so the
// first of two such types defined both: repaired in the library.)
func c09DslAnon(c *core.Ctx) {
	r := c.Rand.Fork()
	for iter := 0; iter < c.Pick(40, 2000); iter++ {
		nf := 2 + r.Intn(4)
		elem := []string{"Int", "String"}[r.Intn(2)]
		type fld struct {
			name     string
			isMap    bool
			nullable bool
		}
		var fields []fld
		var dsl strings.Builder
		dsl.WriteString("type S struct {\n")
		for i := 0; i < nf; i++ {
			f := fld{name: fmt.Sprintf("f%d", i), isMap: r.Bool(), nullable: r.Bool()}
			fields = append(fields, f)
			nul := ""
			if f.nullable {
				nul = "nullable "
			}
			if f.isMap {
				fmt.Fprintf(&dsl, "  %s {String:%s%s}\n", f.name, nul, elem)
			} else {
				fmt.Fprintf(&dsl, "  %s [%s%s]\n", f.name, nul, elem)
			}
		}
		dsl.WriteString("}\n")
		ts, err := ipld.LoadSchemaBytes([]byte(dsl.String()))
		if err != nil {
			c.Fail("C09/dsl-schema-refused", core.Replay{Kind: "oracle", Case: "c09.dsl-anon " + dsl.String(), Impl: err.Error()})
			return
		}
		okVal := "1"
		if elem == "String" {
			okVal = `"s"`
		}
		for probe := 0; probe < nf; probe++ {
			for _, withNull := range []bool{true, false} {
				var doc strings.Builder
				doc.WriteString("{")
				for i, f := range fields {
					if i > 0 {
						doc.WriteString(",")
					}
					v := okVal
					if i == probe && withNull {
						v = "null"
					}
					if f.isMap {
						fmt.Fprintf(&doc, `"%s":{"k":%s}`, f.name, v)
					} else {
						fmt.Fprintf(&doc, `"%s":[%s]`, f.name, v)
					}
				}
				doc.WriteString("}")
				for _, level := range []string{"type", "repr"} {
					var derr error
					_, panicked, pv := core.Catch(func() error {
						proto := bindnode.Prototype(nil, ts.TypeByName("S"))
						nb := proto.NewBuilder()
						if level == "repr" {
							nb = proto.Representation().NewBuilder()
						}
						derr = dagjson.Decode(nb, strings.NewReader(doc.String()))
						if derr == nil {
							_ = nb.Build()
						}
						return nil
					})
					want := !withNull || fields[probe].nullable
					caseID := fmt.Sprintf("c09.dsl-anon %s level=%s INPUT %s SCHEMA %s", fields[probe].name, level, doc.String(), strings.ReplaceAll(dsl.String(), "\n", " "))
					c.Count(caseID, withNull)
					c.Dist(fmt.Sprintf("dsl-anon:null=%v:nullable=%v", withNull, fields[probe].nullable))
					switch {
					case panicked:
						c.Fail("C09/dsl-anon-panics", core.Replay{Kind: "oracle", Case: caseID, Impl: fmt.Sprint(pv)})
					case want && derr != nil:
						c.Fail("C09/conforming-input-not-built", core.Replay{Kind: "oracle", Case: caseID, Impl: derr.Error(), Expected: "built", Detail: "inline anonymous types that differ only in the nullability of their values"})
					case !want && derr == nil:
						c.Fail("C09/non-conforming-input-built", core.Replay{Kind: "oracle", Case: caseID, Impl: "built", Expected: "refused: null where the schema does not allow it", Detail: "inline anonymous types that differ only in the nullability of their values"})
					}
				}
			}
		}
	}
}

// c09UnionKeyWitness replays the witness of the known finding "a typed map keyed by a (stringprefix) union, bound to the
// Go type bindnode infers for it, compares its keys by pointer identity": a repeated key is accepted, and a lookup by
// the key that was just stored answers "not found".
func c09UnionKeyWitness(c *core.Ctx) {
	ts, err := ipld.LoadSchemaBytes([]byte("type Strung string\ntype K union {\n | String \"a:\"\n | Strung \"b:\"\n} representation stringprefix\ntype M {K:Int}\n"))
	if err != nil {
		return
	}
	still := false
	obs := ""
	_, _, _ = core.Catch(func() error {
		nb := bindnode.Prototype(nil, ts.TypeByName("M")).Representation().NewBuilder()
		derr := dagjson.Decode(nb, strings.NewReader(`{"a:x":1,"a:x":2}`))
		if derr != nil {
			obs = "refused: " + derr.Error()
			return nil
		}
		n := nb.Build()
		_, lerr := n.LookupByString("a:x")
		obs = fmt.Sprintf("accepted, Length()=%d, LookupByString(\"a:x\") error: %v", n.Length(), lerr)
		still = n.Length() == 2
		return nil
	})
	c.KnownWitness("C09/bindnode-union-keyed-map-keys-by-identity", still, `bindnode.Prototype(nil, M).Representation() fed {"a:x":1,"a:x":2} for M {K:Int}, K a stringprefix union: `+obs)
}
