/-
  C02 — DAG-CBOR encoding is canonical, order-independent, and round-trips.
  Property theorems only (helper lemmas live in `Lemmas/`).  See DESIGN §5 C02.
-/
import IpldModel.Lemmas.CborEnc
import IpldModel.Lemmas.CborCanon
import IpldModel.Spec.CborLimits
namespace Ipld.Props.C02
open Ipld Ipld.Cbor Ipld.Generated

/-- (T) The `uintLength` regenerated from `codec/dagcbor/marshal.go` equals, on all of uint64, the
    number of bytes of the head the encoder actually emits (refmt `emitMajorPlusLen`). -/
theorem uintLength_src_is_head_length (m : Nat) (ii : Int) (h0 : 0 ≤ ii) (h1 : ii < 18446744073709551616) :
    uintLength_src ii = ((head m ii.toNat).length : Int) := by
  rw [uintLength_src_eq ii h0 h1, head_length]

/-- (T) The comparator regenerated from `marshalMap` (RFC 7049 mode, the registered codec's mode) is the
    strict part of the DAG-CBOR key order of the Spec: length first, then bytewise. -/
theorem comparator_src_is_canonical_order (a b : Bytes) :
    cborLess_src_MapSortMode_RFC7049 a b = !Spec.keyLE b a := by
  rw [cborLess_src_rfc7049_eq, spec_keyLE_eq]

/-- (T) and the lexical comparator is the strict bytewise order. -/
theorem comparator_src_lexical (a b : Bytes) :
    cborLess_src_MapSortMode_Lexical a b = !Spec.bytewiseLE b a := by
  rw [cborLess_src_lexical_eq, spec_bytewiseLE_eq]

/-- The encoder writes exactly the canonical DAG-CBOR of the Spec (shortest heads, f64 only, definite
    lengths, keys by length then bytes, tag 42 over 0x00‖CID), for every value without repeated keys. -/
theorem encode_eq_canon (d : DM) (h : d.NoDup) (he : encodable dagcborEnc d = true) :
    encode dagcborEnc d = some (Spec.canonEncode d) := by
  simp [encode, he, enc_eq_canon d h]

/-- Order independence, top level: any permutation of the entries of a map (distinct keys) encodes to
    the same bytes, under either sorting mode. -/
theorem encode_perm_top (cfg : EncCfg) (hs : cfg.sort ≠ .none) (es es' : DMKVs)
    (nd : es.keys.Nodup) (p : es.toList.Perm es'.toList) :
    enc cfg (.map es) = enc cfg (.map es') := by
  simp only [enc]
  have hl : es.length = es'.length := p.length_eq
  rw [hl]
  congr 2
  apply sortPairs_perm_invariant cfg.sort hs
  · rw [keysOf_encKVs]; exact nd
  · rw [encKVs_eq_map, encKVs_eq_map]; exact p.map _

/-- Order independence at any depth: two values with the same canonical form encode identically. -/
theorem encode_perm (d d' : DM) (h : d.NoDup) (h' : d'.NoDup) (e : Spec.canon d = Spec.canon d') :
    enc dagcborEnc d = enc dagcborEnc d' := by
  rw [enc_eq_canon d h, enc_eq_canon d' h', Spec.canonEncode, Spec.canonEncode, e]

/-- …and permuting the entries of a map does not change its canonical form (so `encode_perm` applies to
    every permutation at every depth, `Spec.canon` being compositional). -/
theorem canon_perm_top (es es' : DMKVs) (nd : es.keys.Nodup) (p : es.toList.Perm es'.toList) :
    Spec.canon (.map es) = Spec.canon (.map es') := by
  simp only [Spec.canon]
  congr 1
  have h1 := canonKVs_toList es
  have h2 := canonKVs_toList es'
  have : (Spec.canonKVs es).toList = (Spec.canonKVs es').toList := by
    rw [h1, h2]
    have pm := p.map (fun e : Bytes × DM => (e.1, Spec.canon e.2))
    have ndm : (keysOf (es.toList.map (fun e : Bytes × DM => (e.1, Spec.canon e.2)))).Nodup := by
      simpa [keysOf, List.map_map, Function.comp_def, DMKVs.keys] using nd
    rw [isortL_eq_sortPairs ndm, isortL_eq_sortPairs (((keysOf_perm pm).nodup_iff).mp ndm)]
    exact sortPairs_perm_invariant .rfc7049 (by decide) ndm pm
  rw [← DMKVs.ofList_toList (Spec.canonKVs es), ← DMKVs.ofList_toList (Spec.canonKVs es'), this]

/-- `EncodedLength` predicts exactly the number of bytes produced (any sorting mode). -/
theorem encodedLength_eq (cfg : EncCfg) (d : DM) : (enc cfg d).length = encodedLength d :=
  enc_length cfg d

/-- Round trip (third clause of the property): decoding what the encoder wrote yields the same value with map
    entries in canonical order, for every value without repeated keys, with finite floats and defined links,
    that fits the decoder's configured limits (depth, budget, 32 MiB strings) — the limits are the guard the code
    itself applies, see Props/C03 `decode_complete` for the witness that shows they are needed. -/
theorem decode_encode (cfg : DecCfg) (v : DM) (hB : cfg.budget < 2 ^ 63)
    (hn : v.NoDup) (he : encodable dagcborEnc v = true) (hf : Spec.finiteFloats v) (hl : Spec.WithinLimits cfg v) :
    decode cfg (enc dagcborEnc v) = .ok (Spec.canon v) :=
  Cbor.decode_encode_aux cfg v hn he hf ((Cbor.withinLimits_canon cfg v).mpr hl) hB

/-- Heads are injective in (major type, argument): two values never share an encoding because a head was ambiguous.
    (Stated through the decoder: what `readArg` reads back from `head m n` is `n`, for every width.) -/
theorem encode_inj (cfg : DecCfg) (v w : DM) (hB : cfg.budget < 2 ^ 63)
    (hv : v.NoDup ∧ encodable dagcborEnc v = true ∧ Spec.finiteFloats v ∧ Spec.WithinLimits cfg v)
    (hw : w.NoDup ∧ encodable dagcborEnc w = true ∧ Spec.finiteFloats w ∧ Spec.WithinLimits cfg w)
    (e : enc dagcborEnc v = enc dagcborEnc w) : Spec.canon v = Spec.canon w := by
  have h1 := decode_encode cfg v hB hv.1 hv.2.1 hv.2.2.1 hv.2.2.2
  have h2 := decode_encode cfg w hB hw.1 hw.2.1 hw.2.2.1 hw.2.2.2
  rw [e] at h1
  rw [h1] at h2
  exact Except.ok.inj h2

/-! Non-vacuity: a concrete value with a two-entry map in non-canonical insertion order. -/
def ex1 : DM := .map (.cons [0x62, 0x62] (.int 1) (.cons [0x61] (.list (.cons (.bool true) .nil)) .nil))
def ex1' : DM := .map (.cons [0x61] (.list (.cons (.bool true) .nil)) (.cons [0x62, 0x62] (.int 1) .nil))
theorem ex1_nodup : ex1.NoDup := by
  simp [ex1, DM.NoDup, DMKVs.NoDupVals, DMKVs.keys, DMKVs.toList, DMs.NoDup]
theorem ex1'_nodup : ex1'.NoDup := by
  simp [ex1', DM.NoDup, DMKVs.NoDupVals, DMKVs.keys, DMKVs.toList, DMs.NoDup]
example : ex1.NoDup ∧ encodable dagcborEnc ex1 = true := ⟨ex1_nodup, by decide⟩
example : Spec.canon ex1 = ex1' := by decide
example : enc dagcborEnc ex1 = [0xa2, 0x61, 0x61, 0x81, 0xf5, 0x62, 0x62, 0x62, 0x01] := by
  rw [enc_eq_canon ex1 ex1_nodup]; decide
example : enc dagcborEnc ex1 = enc dagcborEnc ex1' :=
  encode_perm ex1 ex1' ex1_nodup ex1'_nodup (by decide)

end Ipld.Props.C02
