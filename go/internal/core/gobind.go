package core

import (
	"encoding/hex"
	"fmt"
	"math"
	"reflect"
	"sort"
	"strconv"
	"strings"

	"github.com/ipfs/go-cid"
	"github.com/ipld/go-ipld-prime/datamodel"
	cidlink "github.com/ipld/go-ipld-prime/linking/cid"
)

// Go types and Go values of the reflection binding (C19), as the Lean model Model/GoBind.lean sees them:
// GTy mirrors GoBind.GoTy, the token forms are the ones Driver/GoBind.lean parses and prints.
//
//	go type : bool | i8 … i64 | int | u8 … u64 | uint | f64 | string | bytes | link:iface | link:cid | link:cidlink | node
//	          | slice T | ptr T | omap V | struct n:<hexname> T … )
//	go value: t | f | i<dec> | d<16 hex> | s<hex> | b<hex> | l<hex> | N <dm-term> | nils | [ v* ] | nilp | & v | ( v* )
//	          | m (nk | k[ s<hex>* ]) (nv | v{ s<hex> v … })
//
// Everything here reads and writes Go values with package reflect only - never through bindnode - so that it can
// serve as the oracle for what Wrap must expose and what Unwrap must return.

type GTy struct {
	K      string // bool i8 i16 i32 i64 int u8 u16 u32 u64 uint f64 string bytes link:iface link:cid link:cidlink node slice ptr omap struct
	Elem   *GTy
	Fields []GField
	// BareSlot: this (bare nilable) type sits, without a pointer, in a slot where nil stands for absent / null: an optional
	// struct field, or a nullable field / list element / map value.  Set by GTyOf / AnnotateGTy; not part of the token form.
	// The printers need it: nil there is `nilb` (the model's GoVal.nilBare), elsewhere a nil slice is `nils` (an empty list)
	// and a nil []byte is `b` (empty bytes).
	BareSlot bool
}

type GField struct {
	Name string // the schema-level name (field name / member type name); the Go field is strings.Title(Name)
	T    *GTy
	Slot string // FieldSlot of a struct field ("" for union members and before AnnotateGTy): not part of the token form
}

// AnnotateGTy records on a parsed Go type bound to t where nil stands for absent / null (GTy.BareSlot) and how every struct
// field carries optional (GField.Slot).  nul: the slot of g is nullable.
func AnnotateGTy(g *GTy, t *SType, nul bool) {
	if g.K != "ptr" && nul && g.IsBareNilable() {
		g.BareSlot = true
	}
	for g.K == "ptr" {
		g = g.Elem
	}
	switch t.K {
	case "list", "map":
		if g.Elem != nil {
			AnnotateGTy(g.Elem, t.Elem, t.Nullable)
		}
	case "struct":
		for i := range g.Fields {
			if i >= len(t.Fields) {
				break
			}
			f, fg := t.Fields[i], g.Fields[i].T
			g.Fields[i].Slot = FieldSlot(fg, f.Opt, f.Nullable)
			switch g.Fields[i].Slot {
			case "optptr":
				AnnotateGTy(fg.Elem, f.T, f.Nullable)
			case "optbare":
				fg.BareSlot = true
				AnnotateGTy(fg, f.T, false)
			default:
				AnnotateGTy(fg, f.T, f.Nullable)
			}
		}
	case "union":
		for i := range g.Fields {
			if i < len(t.Members) && g.Fields[i].T.K == "ptr" {
				AnnotateGTy(g.Fields[i].T.Elem, t.Members[i].T, false)
			}
		}
	}
}

var goIntKinds = map[string]reflect.Type{
	"i8": reflect.TypeOf(int8(0)), "i16": reflect.TypeOf(int16(0)), "i32": reflect.TypeOf(int32(0)), "i64": reflect.TypeOf(int64(0)), "int": reflect.TypeOf(int(0)),
	"u8": reflect.TypeOf(uint8(0)), "u16": reflect.TypeOf(uint16(0)), "u32": reflect.TypeOf(uint32(0)), "u64": reflect.TypeOf(uint64(0)), "uint": reflect.TypeOf(uint(0)),
}

var goKindNames = map[reflect.Kind]string{
	reflect.Int8: "i8", reflect.Int16: "i16", reflect.Int32: "i32", reflect.Int64: "i64", reflect.Int: "int",
	reflect.Uint8: "u8", reflect.Uint16: "u16", reflect.Uint32: "u32", reflect.Uint64: "u64", reflect.Uint: "uint",
}

var (
	rtLinkIface = reflect.TypeOf((*datamodel.Link)(nil)).Elem()
	rtCid       = reflect.TypeOf(cid.Cid{})
	rtCidLink   = reflect.TypeOf(cidlink.Link{})
	rtNode      = reflect.TypeOf((*datamodel.Node)(nil)).Elem()
	rtBytes     = reflect.TypeOf([]byte(nil))
	rtString    = reflect.TypeOf("")
)

// IntBits returns the width and signedness of an integer kind token.
func IntBits(k string) (bits int, signed bool, ok bool) {
	switch k {
	case "i8":
		return 8, true, true
	case "i16":
		return 16, true, true
	case "i32":
		return 32, true, true
	case "i64", "int":
		return 64, true, true
	case "u8":
		return 8, false, true
	case "u16":
		return 16, false, true
	case "u32":
		return 32, false, true
	case "u64", "uint":
		return 64, false, true
	}
	return 0, false, false
}

func (g *GTy) writeTokens(sb *strings.Builder) {
	switch g.K {
	case "slice", "ptr", "omap":
		sb.WriteString(g.K + " ")
		g.Elem.writeTokens(sb)
	case "struct":
		sb.WriteString("struct")
		for _, f := range g.Fields {
			sb.WriteString(" n:" + hx(f.Name) + " ")
			f.T.writeTokens(sb)
		}
		sb.WriteString(" )")
	default:
		sb.WriteString(g.K)
	}
}

func (g *GTy) Tokens() string {
	var sb strings.Builder
	g.writeTokens(&sb)
	return sb.String()
}

func ParseGTy(toks []string) (*GTy, []string, error) {
	if len(toks) == 0 {
		return nil, nil, fmt.Errorf("empty go type")
	}
	t, rest := toks[0], toks[1:]
	switch t {
	case "bool", "f64", "string", "bytes", "link:iface", "link:cid", "link:cidlink", "node":
		return &GTy{K: t}, rest, nil
	case "slice", "ptr", "omap":
		e, r, err := ParseGTy(rest)
		if err != nil {
			return nil, nil, err
		}
		return &GTy{K: t, Elem: e}, r, nil
	case "struct":
		g := &GTy{K: "struct"}
		for {
			if len(rest) == 0 {
				return nil, nil, fmt.Errorf("go struct: unterminated")
			}
			if rest[0] == ")" {
				return g, rest[1:], nil
			}
			if !strings.HasPrefix(rest[0], "n:") {
				return nil, nil, fmt.Errorf("bad go field token %q", rest[0])
			}
			nb, err := hex.DecodeString(rest[0][2:])
			if err != nil {
				return nil, nil, err
			}
			ft, r, err := ParseGTy(rest[1:])
			if err != nil {
				return nil, nil, err
			}
			g.Fields = append(g.Fields, GField{Name: string(nb), T: ft})
			rest = r
		}
	}
	if _, _, ok := IntBits(t); ok {
		return &GTy{K: t}, rest, nil
	}
	return nil, nil, fmt.Errorf("bad go type token %q", t)
}

// Reflect builds the Go type.
func (g *GTy) Reflect() reflect.Type {
	switch g.K {
	case "bool":
		return reflect.TypeOf(false)
	case "f64":
		return reflect.TypeOf(float64(0))
	case "string":
		return rtString
	case "bytes":
		return rtBytes
	case "link:iface":
		return rtLinkIface
	case "link:cid":
		return rtCid
	case "link:cidlink":
		return rtCidLink
	case "node":
		return rtNode
	case "slice":
		return reflect.SliceOf(g.Elem.Reflect())
	case "ptr":
		return reflect.PointerTo(g.Elem.Reflect())
	case "omap":
		return reflect.StructOf([]reflect.StructField{{Name: "Keys", Type: reflect.SliceOf(rtString)}, {Name: "Values", Type: reflect.MapOf(rtString, g.Elem.Reflect())}})
	case "struct":
		var fs []reflect.StructField
		for _, f := range g.Fields {
			fs = append(fs, reflect.StructField{Name: userFieldName(f.Name), Type: f.T.Reflect()})
		}
		return reflect.StructOf(fs)
	}
	if rt, ok := goIntKinds[g.K]; ok {
		return rt
	}
	panic("GTy.Reflect: " + g.K)
}

// IsBareNilable: a Go type that is nilable without a pointer (bindnode's ptrOrNilable: slice, interface) - an optional or
// nullable struct field may be bound to it directly, nil standing for absent / null.
func (g *GTy) IsBareNilable() bool {
	switch g.K {
	case "slice", "bytes", "link:iface", "node":
		return true
	}
	return false
}

// FieldSlot classifies how a struct field of Go type g carries optional (the model's GoBind.fslot): "value" (not optional:
// a value slot, nullable iff the field is), "optptr" (optional behind a pointer; what it points to is the value slot),
// "optbare" (optional, not nullable, bound to a bare nilable type), "bad".
func FieldSlot(g *GTy, opt, nullable bool) string {
	switch {
	case opt && g.K == "ptr":
		return "optptr"
	case opt && !nullable && g.IsBareNilable():
		return "optbare"
	case opt:
		return "bad"
	}
	return "value"
}

// gtyOfBase reads a non-pointer Go type bound to t.
func gtyOfBase(rt reflect.Type, t *SType) (*GTy, error) {
	if rt.Kind() == reflect.Ptr {
		return nil, fmt.Errorf("one pointer too many for schema kind %s: %s", t.K, rt)
	}
	switch t.K {
	case "bool":
		if rt.Kind() == reflect.Bool {
			return &GTy{K: "bool"}, nil
		}
	case "int":
		if k, ok := goKindNames[rt.Kind()]; ok {
			return &GTy{K: k}, nil
		}
	case "float":
		if rt.Kind() == reflect.Float64 {
			return &GTy{K: "f64"}, nil
		}
	case "str":
		if rt.Kind() == reflect.String {
			return &GTy{K: "string"}, nil
		}
	case "bytes":
		if rt == rtBytes {
			return &GTy{K: "bytes"}, nil
		}
	case "link":
		switch rt {
		case rtLinkIface:
			return &GTy{K: "link:iface"}, nil
		case rtCid:
			return &GTy{K: "link:cid"}, nil
		case rtCidLink:
			return &GTy{K: "link:cidlink"}, nil
		}
	case "any":
		if rt == rtNode {
			return &GTy{K: "node"}, nil
		}
	case "enum":
		if rt.Kind() == reflect.String {
			return &GTy{K: "string"}, nil
		}
		if k, ok := goKindNames[rt.Kind()]; ok && t.ERepr == "int" {
			return &GTy{K: k}, nil
		}
	case "list":
		if rt.Kind() == reflect.Slice {
			e, err := GTyOf(rt.Elem(), t.Elem, t.Nullable)
			if err != nil {
				return nil, err
			}
			return &GTy{K: "slice", Elem: e}, nil
		}
	case "map":
		if rt.Kind() == reflect.Struct && rt.NumField() == 2 && rt.Field(1).Type.Kind() == reflect.Map && rt.Field(0).Type == reflect.SliceOf(rtString) {
			e, err := GTyOf(rt.Field(1).Type.Elem(), t.Elem, t.Nullable)
			if err != nil {
				return nil, err
			}
			return &GTy{K: "omap", Elem: e}, nil
		}
	case "struct":
		if rt.Kind() == reflect.Struct && rt.NumField() == len(t.Fields) {
			g := &GTy{K: "struct"}
			for i, f := range t.Fields {
				ft := rt.Field(i).Type
				var e *GTy
				var err error
				switch {
				case f.Opt && ft.Kind() == reflect.Ptr:
					if f.Nullable && ft.Elem().Kind() != reflect.Ptr {
						return nil, fmt.Errorf("optional nullable field %s is not a double pointer: %s", f.Name, ft)
					}
					e, err = GTyOf(ft.Elem(), f.T, f.Nullable)
					e = &GTy{K: "ptr", Elem: e}
				case f.Opt:
					if f.Nullable {
						return nil, fmt.Errorf("optional nullable field %s is not a double pointer: %s", f.Name, ft)
					}
					e, err = gtyOfBase(ft, f.T)
					if err == nil && !e.IsBareNilable() {
						return nil, fmt.Errorf("optional field %s is neither a pointer nor nilable: %s", f.Name, ft)
					}
					if err == nil {
						e.BareSlot = true
					}
				default:
					e, err = GTyOf(ft, f.T, f.Nullable)
				}
				if err != nil {
					return nil, err
				}
				g.Fields = append(g.Fields, GField{Name: f.Name, T: e, Slot: FieldSlot(e, f.Opt, f.Nullable)})
			}
			return g, nil
		}
	case "union":
		if rt.Kind() == reflect.Struct && rt.NumField() == len(t.Members) {
			g := &GTy{K: "struct"}
			for i, m := range t.Members {
				ft := rt.Field(i).Type
				if ft.Kind() != reflect.Ptr {
					return nil, fmt.Errorf("union member %s is not a pointer: %s", m.T.Name, ft)
				}
				e, err := GTyOf(ft.Elem(), m.T, false)
				if err != nil {
					return nil, err
				}
				g.Fields = append(g.Fields, GField{Name: m.T.Name, T: &GTy{K: "ptr", Elem: e}})
			}
			return g, nil
		}
	}
	return nil, fmt.Errorf("Go type %s is not in the vocabulary for schema kind %s", rt, t.K)
}

// GTyOf reads the Go type rt bound to schema type t in a value slot (a list element, a map value, a union member behind
// its pointer, a struct field once FieldSlot is dealt with) that is nullable iff nul, back into the model's form: a
// nullable slot is a pointer or a bare nilable type; and every slot may have ONE pointer more than it needs.
func GTyOf(rt reflect.Type, t *SType, nul bool) (*GTy, error) {
	n := 0
	for rt.Kind() == reflect.Ptr {
		rt = rt.Elem()
		n++
	}
	e, err := gtyOfBase(rt, t)
	if err != nil {
		return nil, err
	}
	switch {
	case nul && n == 0:
		if !e.IsBareNilable() {
			return nil, fmt.Errorf("nullable slot of %s is neither a pointer nor nilable: %s", t.K, rt)
		}
		e.BareSlot = true
	case nul && n > 2, !nul && n > 1:
		return nil, fmt.Errorf("too many pointers for a slot of schema kind %s", t.K)
	}
	for ; n > 0; n-- {
		e = &GTy{K: "ptr", Elem: e}
	}
	return e, nil
}

// GoKinds lists the Go kinds occurring in the type (distribution).
func (g *GTy) GoKinds(out map[string]bool) {
	out[g.K] = true
	if g.Elem != nil {
		g.Elem.GoKinds(out)
	}
	for _, f := range g.Fields {
		f.T.GoKinds(out)
	}
}

// ---------------------------------------------------------------------------------------------
// random Go values, by reflection

// GoValStats counts what a generated value contains (distribution buckets).
type GoValStats map[string]int

func boundaryInt(r *Rand, k string) (int64, uint64) {
	bits, signed, _ := IntBits(k)
	if signed {
		min := int64(-1) << (bits - 1)
		max := -(min + 1)
		switch r.Intn(9) {
		case 0:
			return min, 0
		case 1:
			return max, 0
		case 2:
			return 0, 0
		case 3:
			return 1, 0
		case 4:
			return -1, 0
		case 5:
			return min + 1, 0
		case 6:
			return max - 1, 0
		case 7:
			return int64(r.Intn(200)) - 100, 0
		}
		x := int64(r.U64())
		if bits < 64 {
			x >>= uint(64 - bits)
		}
		return x, 0
	}
	max := ^uint64(0)
	if bits < 64 {
		max = uint64(1)<<bits - 1
	}
	switch r.Intn(7) {
	case 0:
		return 0, 0
	case 1:
		return 0, 1
	case 2:
		return 0, max
	case 3:
		return 0, max - 1
	case 4:
		return 0, max/2 + 1
	case 5:
		return 0, uint64(r.Intn(200))
	}
	return 0, r.U64() & max
}

// FillGo sets rv (settable, of type g.Reflect()) to a random inhabitant of schema type t.  safe: strings free of the
// delimiters of enclosing string strategies.  bigUint: a Go `uint` / `uint64` bound to a schema Int may exceed MaxInt64.
func FillGo(r *Rand, rv reflect.Value, g *GTy, t *SType, nul, safe, bigUint bool, st GoValStats) {
	if g.K == "ptr" {
		// a value slot that is a pointer: the nullable form, or one extra pointer on a slot that is not nullable
		if nul && r.Chance(1, 4) {
			rv.Set(reflect.Zero(rv.Type()))
			st["nullable:nil-pointer"]++
			return
		}
		p := reflect.New(rv.Type().Elem())
		FillGo(r, p.Elem(), g.Elem, t, false, safe, bigUint, st)
		rv.Set(p)
		switch {
		case nul && g.Elem.K == "ptr":
			st["nullable:double-pointer:"+t.K]++
		case nul:
			st["nullable:non-nil-pointer"]++
		default:
			st["plain-slot:pointer:"+t.K]++
		}
		return
	}
	if nul {
		// a nullable slot bound to a bare nilable type: nil is null
		if r.Chance(1, 4) {
			rv.Set(reflect.Zero(rv.Type()))
			st["nullable:bare-nil:"+g.K]++
			return
		}
		FillGo(r, rv, g, t, false, safe, bigUint, st)
		if rv.IsNil() { // present: an empty, non-nil slice / []byte
			rv.Set(reflect.MakeSlice(rv.Type(), 0, 0))
		}
		if rv.Kind() == reflect.Slice && rv.Len() == 0 {
			st["nullable:bare-present-empty:"+g.K]++
		} else {
			st["nullable:bare-present:"+g.K]++
		}
		return
	}
	switch t.K {
	case "bool":
		rv.SetBool(r.Bool())
	case "int":
		i, u := boundaryInt(r, g.K)
		_, signed, _ := IntBits(g.K)
		if signed {
			rv.SetInt(i)
		} else {
			if u > math.MaxInt64 && !(bigUint && r.Chance(1, 3)) {
				u >>= 1
			}
			rv.SetUint(u)
			if u > math.MaxInt64 {
				st["int:unsigned-above-int64"]++
			}
		}
		st["width:"+g.K]++
	case "float":
		rv.SetFloat(tameFloats[r.Intn(len(tameFloats))])
	case "str":
		rv.SetString(genText(r, safe))
	case "bytes":
		switch r.Intn(4) {
		case 0:
			rv.SetBytes(nil)
		case 1:
			rv.SetBytes([]byte{})
		default:
			rv.SetBytes(r.Bytes(1 + r.Intn(5)))
		}
	case "link":
		c, _ := cid.Cast(GenCid(r))
		switch g.K {
		case "link:cid":
			rv.Set(reflect.ValueOf(c))
		default:
			rv.Set(reflect.ValueOf(cidlink.Link{Cid: c}))
		}
		st["link:"+g.K]++
	case "any":
		n, err := BuildBasic(genAnyVal(r, 0), nil)
		if err != nil {
			panic(err)
		}
		rv.Set(reflect.ValueOf(n))
	case "enum":
		if g.K == "string" {
			rv.SetString(t.Enum[r.Intn(len(t.Enum))].Name)
			st["enum:go-string"]++
			break
		}
		bits, signed, _ := IntBits(g.K)
		var ok []SEnum
		for _, e := range t.Enum {
			if signed && (bits == 64 || (e.RInt >= -(1<<(bits-1)) && e.RInt < 1<<(bits-1))) {
				ok = append(ok, e)
			}
			if !signed && e.RInt >= 0 && (bits == 64 || e.RInt < 1<<bits) {
				ok = append(ok, e)
			}
		}
		if len(ok) == 0 {
			panic("FillGo: enum without a member the Go kind can hold (the type generator must not choose this kind)")
		}
		e := ok[r.Intn(len(ok))]
		if signed {
			rv.SetInt(e.RInt)
		} else {
			rv.SetUint(uint64(e.RInt))
		}
		st["enum:go-"+g.K]++
	case "list":
		n := r.Intn(4)
		switch {
		case n == 0 && r.Bool():
			rv.Set(reflect.Zero(rv.Type()))
			st["slice:nil"]++
		case n == 0:
			rv.Set(reflect.MakeSlice(rv.Type(), 0, r.Intn(3)))
			st["slice:empty-non-nil"]++
		default:
			s := reflect.MakeSlice(rv.Type(), n, n+r.Intn(2))
			for i := 0; i < n; i++ {
				FillGo(r, s.Index(i), g.Elem, t.Elem, t.Nullable, safe, bigUint, st)
			}
			rv.Set(s)
			st["slice:non-empty"]++
		}
	case "map":
		keys := pickDistinct(r, keyPool, r.Intn(4)) // pickDistinct permutes: a random key order
		kv, vv := rv.Field(0), rv.Field(1)
		if len(keys) == 0 {
			switch r.Intn(3) {
			case 0:
				kv.Set(reflect.Zero(kv.Type()))
				vv.Set(reflect.Zero(vv.Type()))
				st["omap:nil-keys-nil-values"]++
			case 1:
				kv.Set(reflect.MakeSlice(kv.Type(), 0, 0))
				vv.Set(reflect.MakeMap(vv.Type()))
				st["omap:empty-keys-empty-values"]++
			default:
				kv.Set(reflect.Zero(kv.Type()))
				vv.Set(reflect.MakeMap(vv.Type()))
				st["omap:nil-keys-empty-values"]++
			}
			break
		}
		ks := reflect.MakeSlice(kv.Type(), 0, len(keys))
		m := reflect.MakeMap(vv.Type())
		for _, k := range keys {
			ks = reflect.Append(ks, reflect.ValueOf(k))
			e := reflect.New(vv.Type().Elem()).Elem()
			FillGo(r, e, g.Elem, t.Elem, t.Nullable, safe, bigUint, st)
			m.SetMapIndex(reflect.ValueOf(k), e)
		}
		kv.Set(ks)
		vv.Set(m)
		sorted := sort.StringsAreSorted(keys)
		if len(keys) >= 2 && !sorted {
			st["omap:keys-not-sorted"]++
		} else {
			st["omap:keys-sorted"]++
		}
	case "struct":
		inner := safe || t.SRepr == "join"
		fill := func(i int) {
			f := t.Fields[i]
			fv, fg := rv.Field(i), g.Fields[i].T
			switch slot := FieldSlot(fg, f.Opt, f.Nullable); slot {
			case "optptr":
				p := reflect.New(fv.Type().Elem())
				FillGo(r, p.Elem(), fg.Elem, f.T, f.Nullable, inner, bigUint, st)
				fv.Set(p)
				st["optional:non-nil-pointer"]++
			case "optbare":
				FillGo(r, fv, fg, f.T, false, inner, bigUint, st)
				if fv.IsNil() { // present: an empty, non-nil slice / []byte
					fv.Set(reflect.MakeSlice(fv.Type(), 0, 0))
				}
				if fv.Kind() == reflect.Slice && fv.Len() == 0 {
					st[slot+":present-empty:"+fg.K]++
				} else {
					st[slot+":present:"+fg.K]++
				}
			default:
				FillGo(r, fv, fg, f.T, f.Nullable, inner, bigUint, st)
			}
		}
		last := -1
		for i, f := range t.Fields {
			if f.Opt && r.Chance(1, 3) {
				rv.Field(i).Set(reflect.Zero(rv.Field(i).Type()))
				continue
			}
			fill(i)
			last = i
		}
		for i, f := range t.Fields {
			if f.Opt && rv.Field(i).IsNil() {
				if t.SRepr == "tuple" && i < last {
					fill(i) // a tuple has no representation for an absent field before a present one (C08's known finding)
				} else if g.Fields[i].T.K == "ptr" {
					st["optional:nil-pointer"]++
				} else {
					st["optional:bare-nil:"+g.Fields[i].T.K]++
				}
			}
		}
	case "union":
		rv.Set(reflect.Zero(rv.Type()))
		i := r.Intn(len(t.Members))
		p := reflect.New(rv.Field(i).Type().Elem())
		FillGo(r, p.Elem(), g.Fields[i].T.Elem, t.Members[i].T, false, safe || t.URepr == "prefix", bigUint, st)
		rv.Field(i).Set(p)
	default:
		panic("FillGo: " + t.K)
	}
}

// ---------------------------------------------------------------------------------------------
// the oracle: what a Go value holds as the schema describes it, read by reflection

func WalkGo(rv reflect.Value, g *GTy, t *SType, nul bool) (Val, error) {
	if g.K == "ptr" {
		if rv.Kind() != reflect.Ptr {
			return Val{}, fmt.Errorf("pointer slot holds a %s", rv.Kind())
		}
		if rv.IsNil() {
			if nul {
				return Null(), nil
			}
			return Val{}, fmt.Errorf("nil pointer in a slot that is not nullable")
		}
		return WalkGo(rv.Elem(), g.Elem, t, false)
	}
	if nul {
		if !g.IsBareNilable() {
			return Val{}, fmt.Errorf("nullable slot holds a %s", rv.Kind())
		}
		if rv.IsNil() {
			return Null(), nil
		}
	}
	switch t.K {
	case "bool":
		return Bool(rv.Bool()), nil
	case "int":
		if _, signed, _ := IntBits(g.K); signed {
			return Int(rv.Int()), nil
		}
		return Uint(rv.Uint()), nil
	case "float":
		return Float(rv.Float()), nil
	case "str":
		return Str(rv.String()), nil
	case "bytes":
		return Bytes(append([]byte{}, rv.Bytes()...)), nil
	case "link":
		switch x := rv.Interface().(type) {
		case cid.Cid:
			return Link(x.Bytes()), nil
		case cidlink.Link:
			return Link(x.Cid.Bytes()), nil
		}
		return Val{}, fmt.Errorf("link field holds %T", rv.Interface())
	case "any":
		n, ok := rv.Interface().(datamodel.Node)
		if !ok || n == nil {
			return Val{}, fmt.Errorf("Node field holds nil")
		}
		return ReadNode(n)
	case "enum":
		if g.K == "string" {
			return Str(rv.String()), nil
		}
		for _, e := range t.Enum {
			if _, signed, _ := IntBits(g.K); signed && rv.Int() == e.RInt || !signed && e.RInt >= 0 && rv.Uint() == uint64(e.RInt) {
				return Str(e.Name), nil
			}
		}
		return Val{}, fmt.Errorf("enum integer without member")
	case "list":
		out := Val{K: '['}
		for i := 0; i < rv.Len(); i++ {
			x, err := WalkGo(rv.Index(i), g.Elem, t.Elem, t.Nullable)
			if err != nil {
				return Val{}, err
			}
			out.L = append(out.L, x)
		}
		return out, nil
	case "map":
		out := Val{K: '{'}
		keys, vals := rv.Field(0), rv.Field(1)
		for i := 0; i < keys.Len(); i++ {
			k := keys.Index(i)
			e := vals.MapIndex(k)
			if !e.IsValid() {
				return Val{}, fmt.Errorf("key %q without value", k.String())
			}
			x, err := WalkGo(e, g.Elem, t.Elem, t.Nullable)
			if err != nil {
				return Val{}, err
			}
			out.M = append(out.M, KV{[]byte(k.String()), x})
		}
		return out, nil
	case "struct":
		out := Val{K: '{'}
		for i, f := range t.Fields {
			fv, fg := rv.Field(i), g.Fields[i].T
			nullable := f.Nullable
			switch FieldSlot(fg, f.Opt, f.Nullable) {
			case "optptr":
				if fv.IsNil() {
					out.M = append(out.M, KV{[]byte(f.Name), Val{K: 'a'}})
					continue
				}
				fv, fg = fv.Elem(), fg.Elem
			case "optbare":
				if fv.IsNil() {
					out.M = append(out.M, KV{[]byte(f.Name), Val{K: 'a'}})
					continue
				}
				nullable = false
			case "bad":
				return Val{}, fmt.Errorf("optional field %s is neither a pointer nor nilable", f.Name)
			}
			x, err := WalkGo(fv, fg, f.T, nullable)
			if err != nil {
				return Val{}, err
			}
			out.M = append(out.M, KV{[]byte(f.Name), x})
		}
		return out, nil
	case "union":
		for i, m := range t.Members {
			if fv := rv.Field(i); !fv.IsNil() {
				x, err := WalkGo(fv.Elem(), g.Fields[i].T.Elem, m.T, false)
				if err != nil {
					return Val{}, err
				}
				return Map(KV{[]byte(m.T.Name), x}), nil
			}
		}
		return Val{}, fmt.Errorf("union without member")
	}
	return Val{}, fmt.Errorf("WalkGo: %s", t.K)
}

// ---------------------------------------------------------------------------------------------
// Go values as tokens (by the Go type alone)

// GoValTokens prints rv (of type g.Reflect()).  Values is printed in Keys order, then the keys Keys does not list
// (sorted).  sortKeys: Keys (and the maps inside Node values) in sorted order - the form compared after a key-sorting codec.
func GoValTokens(rv reflect.Value, g *GTy, sortKeys bool) string {
	var sb strings.Builder
	writeGoVal(&sb, rv, g, sortKeys)
	return strings.TrimSpace(sb.String())
}

func writeGoVal(sb *strings.Builder, rv reflect.Value, g *GTy, sortKeys bool) {
	if g.BareSlot && g.IsBareNilable() && rv.IsNil() {
		sb.WriteString("nilb ") // nil where nil stands for absent / null
		return
	}
	switch g.K {
	case "bool":
		if rv.Bool() {
			sb.WriteString("t ")
		} else {
			sb.WriteString("f ")
		}
	case "f64":
		sb.WriteString(Float(rv.Float()).Term() + " ")
	case "string":
		sb.WriteString("s" + hex.EncodeToString([]byte(rv.String())) + " ")
	case "bytes":
		sb.WriteString("b" + hex.EncodeToString(rv.Bytes()) + " ")
	case "link:iface", "link:cid", "link:cidlink":
		switch x := rv.Interface().(type) {
		case cid.Cid:
			sb.WriteString("l" + hex.EncodeToString(x.Bytes()) + " ")
		case cidlink.Link:
			sb.WriteString("l" + hex.EncodeToString(x.Cid.Bytes()) + " ")
		default:
			sb.WriteString("nilb ")
		}
	case "node":
		n, _ := rv.Interface().(datamodel.Node)
		if n == nil {
			sb.WriteString("nilb ")
			break
		}
		v, err := ReadNode(n)
		if err != nil {
			sb.WriteString("N ?" + err.Error() + " ")
			break
		}
		if sortKeys {
			v = v.Sorted(LessLex)
		}
		sb.WriteString("N " + v.Term() + " ")
	case "slice":
		if rv.IsNil() {
			sb.WriteString("nils ")
			break
		}
		sb.WriteString("[ ")
		for i := 0; i < rv.Len(); i++ {
			writeGoVal(sb, rv.Index(i), g.Elem, sortKeys)
		}
		sb.WriteString("] ")
	case "ptr":
		if rv.IsNil() {
			sb.WriteString("nilp ")
			break
		}
		sb.WriteString("& ")
		writeGoVal(sb, rv.Elem(), g.Elem, sortKeys)
	case "struct":
		sb.WriteString("( ")
		for i := range g.Fields {
			writeGoVal(sb, rv.Field(i), g.Fields[i].T, sortKeys)
		}
		sb.WriteString(") ")
	case "omap":
		keys, vals := rv.Field(0), rv.Field(1)
		var order []string
		for i := 0; i < keys.Len(); i++ {
			order = append(order, keys.Index(i).String())
		}
		if sortKeys {
			sort.Strings(order)
		}
		sb.WriteString("m ")
		if keys.IsNil() {
			sb.WriteString("nk ")
		} else {
			sb.WriteString("k[ ")
			for _, k := range order {
				sb.WriteString("s" + hex.EncodeToString([]byte(k)) + " ")
			}
			sb.WriteString("] ")
		}
		if vals.IsNil() {
			sb.WriteString("nv ")
			break
		}
		seen := map[string]bool{}
		var rest []string
		for _, k := range order {
			seen[k] = true
		}
		for _, k := range vals.MapKeys() {
			if !seen[k.String()] {
				rest = append(rest, k.String())
			}
		}
		sort.Strings(rest)
		sb.WriteString("v{ ")
		done := map[string]bool{}
		for _, k := range append(order, rest...) {
			e := vals.MapIndex(reflect.ValueOf(k))
			if !e.IsValid() || done[k] {
				continue
			}
			done[k] = true
			sb.WriteString("s" + hex.EncodeToString([]byte(k)) + " ")
			writeGoVal(sb, e, g.Elem, sortKeys)
		}
		sb.WriteString("} ")
	default:
		if _, signed, ok := IntBits(g.K); ok {
			if signed {
				sb.WriteString("i" + strconv.FormatInt(rv.Int(), 10) + " ")
			} else {
				sb.WriteString("i" + strconv.FormatUint(rv.Uint(), 10) + " ")
			}
			break
		}
		sb.WriteString("?" + g.K + " ")
	}
}

// ParseGoVal sets rv (settable, of type g.Reflect()) from tokens.
func ParseGoVal(toks []string, rv reflect.Value, g *GTy) ([]string, error) {
	if len(toks) == 0 {
		return nil, fmt.Errorf("empty go value")
	}
	t, rest := toks[0], toks[1:]
	if t == "nilb" && g.IsBareNilable() {
		rv.Set(reflect.Zero(rv.Type()))
		return rest, nil
	}
	bad := func() ([]string, error) { return nil, fmt.Errorf("go value token %q does not fit go type %s", t, g.K) }
	switch g.K {
	case "bool":
		if t != "t" && t != "f" {
			return bad()
		}
		rv.SetBool(t == "t")
		return rest, nil
	case "f64":
		if t[0] != 'd' {
			return bad()
		}
		u, err := strconv.ParseUint(t[1:], 16, 64)
		if err != nil {
			return nil, err
		}
		rv.SetFloat(math.Float64frombits(u))
		return rest, nil
	case "string", "bytes", "link:iface", "link:cid", "link:cidlink":
		want := map[string]byte{"string": 's', "bytes": 'b'}[g.K]
		if want == 0 {
			want = 'l'
		}
		if t[0] != want {
			return bad()
		}
		b, err := hex.DecodeString(t[1:])
		if err != nil {
			return nil, err
		}
		switch g.K {
		case "string":
			rv.SetString(string(b))
		case "bytes":
			rv.SetBytes(b)
		default:
			c, err := cid.Cast(b)
			if err != nil {
				return nil, err
			}
			if g.K == "link:cid" {
				rv.Set(reflect.ValueOf(c))
			} else {
				rv.Set(reflect.ValueOf(cidlink.Link{Cid: c}))
			}
		}
		return rest, nil
	case "node":
		if t != "N" {
			return bad()
		}
		v, r, err := ParseTerm(rest)
		if err != nil {
			return nil, err
		}
		n, err := BuildBasic(v, nil)
		if err != nil {
			return nil, err
		}
		rv.Set(reflect.ValueOf(n))
		return r, nil
	case "slice":
		if t == "nils" {
			rv.Set(reflect.Zero(rv.Type()))
			return rest, nil
		}
		if t != "[" {
			return bad()
		}
		s := reflect.MakeSlice(rv.Type(), 0, 0)
		for {
			if len(rest) == 0 {
				return nil, fmt.Errorf("unterminated slice")
			}
			if rest[0] == "]" {
				rv.Set(s)
				return rest[1:], nil
			}
			e := reflect.New(rv.Type().Elem()).Elem()
			r, err := ParseGoVal(rest, e, g.Elem)
			if err != nil {
				return nil, err
			}
			s = reflect.Append(s, e)
			rest = r
		}
	case "ptr":
		if t == "nilp" {
			rv.Set(reflect.Zero(rv.Type()))
			return rest, nil
		}
		if t != "&" {
			return bad()
		}
		p := reflect.New(rv.Type().Elem())
		r, err := ParseGoVal(rest, p.Elem(), g.Elem)
		if err != nil {
			return nil, err
		}
		rv.Set(p)
		return r, nil
	case "struct":
		if t != "(" {
			return bad()
		}
		for i := range g.Fields {
			r, err := ParseGoVal(rest, rv.Field(i), g.Fields[i].T)
			if err != nil {
				return nil, err
			}
			rest = r
		}
		if len(rest) == 0 || rest[0] != ")" {
			return nil, fmt.Errorf("unterminated struct")
		}
		return rest[1:], nil
	case "omap":
		if t != "m" || len(rest) == 0 {
			return bad()
		}
		kv, vv := rv.Field(0), rv.Field(1)
		switch rest[0] {
		case "nk":
			kv.Set(reflect.Zero(kv.Type()))
			rest = rest[1:]
		case "k[":
			rest = rest[1:]
			ks := reflect.MakeSlice(kv.Type(), 0, 0)
			for {
				if len(rest) == 0 {
					return nil, fmt.Errorf("unterminated Keys")
				}
				if rest[0] == "]" {
					rest = rest[1:]
					break
				}
				b, err := hex.DecodeString(strings.TrimPrefix(rest[0], "s"))
				if err != nil {
					return nil, err
				}
				ks = reflect.Append(ks, reflect.ValueOf(string(b)))
				rest = rest[1:]
			}
			kv.Set(ks)
		default:
			return bad()
		}
		if len(rest) == 0 {
			return nil, fmt.Errorf("ordered map without Values")
		}
		switch rest[0] {
		case "nv":
			vv.Set(reflect.Zero(vv.Type()))
			return rest[1:], nil
		case "v{":
			rest = rest[1:]
			m := reflect.MakeMap(vv.Type())
			for {
				if len(rest) == 0 {
					return nil, fmt.Errorf("unterminated Values")
				}
				if rest[0] == "}" {
					vv.Set(m)
					return rest[1:], nil
				}
				b, err := hex.DecodeString(strings.TrimPrefix(rest[0], "s"))
				if err != nil {
					return nil, err
				}
				e := reflect.New(vv.Type().Elem()).Elem()
				r, err := ParseGoVal(rest[1:], e, g.Elem)
				if err != nil {
					return nil, err
				}
				m.SetMapIndex(reflect.ValueOf(string(b)), e)
				rest = r
			}
		}
		return bad()
	}
	if _, signed, ok := IntBits(g.K); ok {
		if t[0] != 'i' {
			return bad()
		}
		if signed {
			i, err := strconv.ParseInt(t[1:], 10, 64)
			if err != nil || rv.OverflowInt(i) {
				return nil, fmt.Errorf("integer %s does not fit %s", t, g.K)
			}
			rv.SetInt(i)
		} else {
			u, err := strconv.ParseUint(t[1:], 10, 64)
			if err != nil || rv.OverflowUint(u) {
				return nil, fmt.Errorf("integer %s does not fit %s", t, g.K)
			}
			rv.SetUint(u)
		}
		return rest, nil
	}
	return bad()
}

// NormGo returns a fresh copy of rv with what Unwrap∘build normalises: a slice is non-nil (also when empty), empty Keys is
// nil, Values is non-nil and holds exactly the listed keys, []byte is non-nil; nil where nil stands for absent / null stays
// nil.  (Written against reflect only; the model's `GoVal.norm`.)
func NormGo(rv reflect.Value, g *GTy) reflect.Value {
	out := reflect.New(rv.Type()).Elem()
	if g.BareSlot && g.IsBareNilable() && rv.IsNil() {
		return out // nil where nil stands for absent / null: it stays nil
	}
	switch g.K {
	case "slice":
		// a list that has been begun is a non-nil slice, also when it is empty
		s := reflect.MakeSlice(rv.Type(), rv.Len(), rv.Len())
		for i := 0; i < rv.Len(); i++ {
			s.Index(i).Set(NormGo(rv.Index(i), g.Elem))
		}
		out.Set(s)
	case "ptr":
		if rv.IsNil() {
			return out
		}
		p := reflect.New(rv.Type().Elem())
		p.Elem().Set(NormGo(rv.Elem(), g.Elem))
		out.Set(p)
	case "struct":
		for i := range g.Fields {
			out.Field(i).Set(NormGo(rv.Field(i), g.Fields[i].T))
		}
	case "omap":
		keys, vals := rv.Field(0), rv.Field(1)
		m := reflect.MakeMap(vals.Type())
		if keys.Len() > 0 {
			ks := reflect.MakeSlice(keys.Type(), 0, keys.Len())
			for i := 0; i < keys.Len(); i++ {
				k := keys.Index(i)
				ks = reflect.Append(ks, k)
				if e := vals.MapIndex(k); e.IsValid() {
					m.SetMapIndex(k, NormGo(e, g.Elem))
				}
			}
			out.Field(0).Set(ks)
		}
		out.Field(1).Set(m)
	case "bytes":
		out.SetBytes(append([]byte{}, rv.Bytes()...))
	default:
		out.Set(rv)
	}
	return out
}

// DeepEqualUsable: reflect.DeepEqual is meaningful for values of this type (no interface-held nodes, whose
// implementation types may differ while holding the same data, and no []byte, whose nil-ness is the caller's).
func (g *GTy) DeepEqualUsable() bool {
	switch g.K {
	case "node", "bytes":
		return false
	}
	if g.Elem != nil && !g.Elem.DeepEqualUsable() {
		return false
	}
	for _, f := range g.Fields {
		if !f.T.DeepEqualUsable() {
			return false
		}
	}
	return true
}

// BreakGo turns the inhabitant rv into a Go value that is NOT an inhabitant of t, in one randomly chosen place: a union
// struct with no member set, an ordered map listing a key that Values does not hold, an enum integer that no member has.
// Returns what was done ("" if the value offers no such place).
func BreakGo(r *Rand, rv reflect.Value, g *GTy, t *SType, nul bool) string {
	type site struct {
		what string
		do   func()
	}
	var sites []site
	var walk func(rv reflect.Value, g *GTy, t *SType, nul bool)
	walk = func(rv reflect.Value, g *GTy, t *SType, nul bool) {
		if g.K == "ptr" {
			if rv.IsNil() {
				return
			}
			if !nul {
				p := rv
				sites = append(sites, site{"nil-pointer-in-plain-slot", func() { p.Set(reflect.Zero(p.Type())) }})
			}
			walk(rv.Elem(), g.Elem, t, false)
			return
		}
		if nul && rv.IsNil() {
			return // null in a bare nilable slot
		}
		switch t.K {
		case "enum":
			if g.K != "string" {
				sites = append(sites, site{"enum-integer-without-member", func() {
					if _, signed, _ := IntBits(g.K); signed {
						rv.SetInt(99)
					} else {
						rv.SetUint(99)
					}
				}})
			}
		case "list":
			for i := 0; i < rv.Len(); i++ {
				walk(rv.Index(i), g.Elem, t.Elem, t.Nullable)
			}
		case "map":
			sites = append(sites, site{"key-without-value", func() {
				rv.Field(0).Set(reflect.Append(rv.Field(0), reflect.ValueOf("no such key")))
			}})
		case "struct":
			for i, f := range t.Fields {
				fv, fg := rv.Field(i), g.Fields[i].T
				nullable := f.Nullable
				switch FieldSlot(fg, f.Opt, f.Nullable) {
				case "optptr":
					if fv.IsNil() {
						continue
					}
					fv, fg = fv.Elem(), fg.Elem
				case "optbare":
					if fv.IsNil() {
						continue
					}
					nullable = false
				}
				walk(fv, fg, f.T, nullable)
			}
		case "union":
			sites = append(sites, site{"union-without-member", func() { rv.Set(reflect.Zero(rv.Type())) }})
			for i, m := range t.Members {
				if fv := rv.Field(i); !fv.IsNil() {
					walk(fv.Elem(), g.Fields[i].T.Elem, m.T, false)
				}
			}
		}
	}
	walk(rv, g, t, nul)
	if len(sites) == 0 {
		return ""
	}
	s := sites[r.Intn(len(sites))]
	s.do()
	return s.what
}
