package core

import (
	"bytes"
	"encoding/base64"
	"encoding/hex"
	"encoding/json"
	"fmt"
	"math"
	"strconv"
	"strings"
	"sync/atomic"
	"unicode/utf8"

	"github.com/ipfs/go-cid"
	"github.com/ipld/go-ipld-prime/datamodel"
	"github.com/ipld/go-ipld-prime/schema"
)

// Random IPLD type systems (built with the schema.Spawn* API), inhabitants, the generator's own
// idea of the representation of an inhabitant, and local mutations of conforming values at both
// levels (C08, C09, later C13).  The token form of a type is the one Driver/Schema.lean parses.

// SType is a finite tree of schema types; every node becomes one named type of a type system.
type SType struct {
	K        string // bool int float str bytes link any list map struct union enum
	Name     string // type name in the type system (unique within the process)
	Elem     *SType // list / map value type
	Nullable bool   // list / map: values nullable
	Fields   []SField
	SRepr    string // struct: map tuple join listpairs
	Delim    string // join / prefix delimiter
	Ambig    bool   // a stringprefix union with a discriminant that holds the delimiter (SchemaCfg.PrefixDiscHoldsDelim)
	Members  []SMember
	URepr    string // union: keyed kinded prefix
	Enum     []SEnum
	ERepr    string // enum: str int
}

type SField struct {
	Name, Rename  string
	Opt, Nullable bool
	T             *SType
}

type SMember struct {
	T    *SType
	Disc string
	Kind string // the kind the kinded table lists the member under (the member's representation kind)
}

type SEnum struct {
	Name, RStr string
	RInt       int64
}

var schemaNameCounter uint64

// freshTypeName: process-wide unique, so that no two generated type systems ever share a type name
// (bindnode/infer.go keeps a package-level type system on its *inferSchema* path; Prototype(nil, t)
// does not touch it, unique names keep us clear of it anyway).
func freshTypeName(prefix string) string {
	return fmt.Sprintf("%s%d", prefix, atomic.AddUint64(&schemaNameCounter, 1))
}

func hx(s string) string { return hex.EncodeToString([]byte(s)) }

// WeakenEnums is a copy of the type tree under fresh names in which every enum has become a plain String: a
// different schema whose inferred Go types are the same ones and whose type-level values include every value of t.
func WeakenEnums(t *SType) *SType {
	if t == nil {
		return nil
	}
	c := *t
	c.Name = freshTypeName("W")
	if t.K == "enum" {
		return &SType{K: "str", Name: c.Name}
	}
	c.Elem = WeakenEnums(t.Elem)
	c.Fields = nil
	for _, f := range t.Fields {
		f.T = WeakenEnums(f.T)
		c.Fields = append(c.Fields, f)
	}
	c.Members = nil
	for _, m := range t.Members {
		m.T = WeakenEnums(m.T)
		if t.URepr == "kinded" {
			m.Disc = m.T.Name
		}
		c.Members = append(c.Members, m)
	}
	return &c
}

func (t *SType) writeTokens(sb *strings.Builder) {
	switch t.K {
	case "list", "map":
		sb.WriteString(t.K)
		if t.Nullable {
			sb.WriteByte('?')
		}
		sb.WriteByte(' ')
		t.Elem.writeTokens(sb)
	case "struct":
		sb.WriteString("struct ")
		if t.SRepr == "join" {
			sb.WriteString("join:" + hx(t.Delim))
		} else {
			sb.WriteString(t.SRepr)
		}
		for _, f := range t.Fields {
			sb.WriteString(" f")
			if f.Opt {
				sb.WriteByte('o')
			}
			if f.Nullable {
				sb.WriteByte('n')
			}
			sb.WriteString(":" + hx(f.Name) + ":" + hx(f.Rename) + " ")
			f.T.writeTokens(sb)
		}
		sb.WriteString(" )")
	case "union":
		sb.WriteString("union ")
		if t.URepr == "prefix" {
			sb.WriteString("prefix:" + hx(t.Delim))
		} else {
			sb.WriteString(t.URepr)
		}
		for _, m := range t.Members {
			k := m.Kind
			if k == "invalid" || k == "" {
				k = "-" // no single representation kind (only the kinded strategy reads it, and never lists such a member)
			}
			sb.WriteString(" m:" + hx(m.T.Name) + ":" + hx(m.Disc) + ":" + k + " ")
			m.T.writeTokens(sb)
		}
		sb.WriteString(" )")
	case "enum":
		sb.WriteString("enum " + t.ERepr)
		for _, e := range t.Enum {
			sb.WriteString(" e:" + hx(e.Name) + ":" + hx(e.RStr) + ":" + strconv.FormatInt(e.RInt, 10))
		}
		sb.WriteString(" )")
	default:
		sb.WriteString(t.K)
	}
}

// Tokens is the line-protocol form of the type.
func (t *SType) Tokens() string {
	var sb strings.Builder
	t.writeTokens(&sb)
	return sb.String()
}

// ParseSType parses the token form back (replays).  Types whose name is not part of the token form
// get fresh names.
func ParseSType(toks []string) (*SType, []string, error) {
	if len(toks) == 0 {
		return nil, nil, fmt.Errorf("empty type")
	}
	unhex := func(s string) (string, error) { b, err := hex.DecodeString(s); return string(b), err }
	t, rest := toks[0], toks[1:]
	switch t {
	case "bool", "int", "float", "str", "bytes", "link", "any":
		return &SType{K: t, Name: freshTypeName("R")}, rest, nil
	case "list", "list?", "map", "map?":
		el, r, err := ParseSType(rest)
		if err != nil {
			return nil, nil, err
		}
		return &SType{K: strings.TrimSuffix(t, "?"), Name: freshTypeName("R"), Elem: el, Nullable: strings.HasSuffix(t, "?")}, r, nil
	case "struct":
		if len(rest) == 0 {
			return nil, nil, fmt.Errorf("struct: no representation")
		}
		st := &SType{K: "struct", Name: freshTypeName("R"), SRepr: rest[0]}
		if strings.HasPrefix(rest[0], "join:") {
			d, err := unhex(rest[0][5:])
			if err != nil {
				return nil, nil, err
			}
			st.SRepr, st.Delim = "join", d
		}
		rest = rest[1:]
		for {
			if len(rest) == 0 {
				return nil, nil, fmt.Errorf("struct: unterminated")
			}
			if rest[0] == ")" {
				return st, rest[1:], nil
			}
			p := strings.Split(rest[0], ":")
			if len(p) != 3 || !strings.HasPrefix(p[0], "f") {
				return nil, nil, fmt.Errorf("bad field token %q", rest[0])
			}
			n, err1 := unhex(p[1])
			rn, err2 := unhex(p[2])
			if err1 != nil || err2 != nil {
				return nil, nil, fmt.Errorf("bad field token %q", rest[0])
			}
			ft, r, err := ParseSType(rest[1:])
			if err != nil {
				return nil, nil, err
			}
			st.Fields = append(st.Fields, SField{Name: n, Rename: rn, Opt: strings.Contains(p[0][1:], "o"), Nullable: strings.Contains(p[0][1:], "n"), T: ft})
			rest = r
		}
	case "union":
		if len(rest) == 0 {
			return nil, nil, fmt.Errorf("union: no representation")
		}
		ut := &SType{K: "union", Name: freshTypeName("R"), URepr: rest[0]}
		if strings.HasPrefix(rest[0], "prefix:") {
			d, err := unhex(rest[0][7:])
			if err != nil {
				return nil, nil, err
			}
			ut.URepr, ut.Delim = "prefix", d
		}
		rest = rest[1:]
		for {
			if len(rest) == 0 {
				return nil, nil, fmt.Errorf("union: unterminated")
			}
			if rest[0] == ")" {
				return ut, rest[1:], nil
			}
			p := strings.Split(rest[0], ":")
			if len(p) != 4 || p[0] != "m" {
				return nil, nil, fmt.Errorf("bad member token %q", rest[0])
			}
			n, err1 := unhex(p[1])
			d, err2 := unhex(p[2])
			if err1 != nil || err2 != nil {
				return nil, nil, fmt.Errorf("bad member token %q", rest[0])
			}
			mt, r, err := ParseSType(rest[1:])
			if err != nil {
				return nil, nil, err
			}
			mt.Name = n
			ut.Members = append(ut.Members, SMember{T: mt, Disc: d, Kind: p[3]})
			rest = r
		}
	case "enum":
		if len(rest) == 0 {
			return nil, nil, fmt.Errorf("enum: no representation")
		}
		et := &SType{K: "enum", Name: freshTypeName("R"), ERepr: rest[0]}
		rest = rest[1:]
		for {
			if len(rest) == 0 {
				return nil, nil, fmt.Errorf("enum: unterminated")
			}
			if rest[0] == ")" {
				return et, rest[1:], nil
			}
			p := strings.Split(rest[0], ":")
			if len(p) != 4 || p[0] != "e" {
				return nil, nil, fmt.Errorf("bad enum token %q", rest[0])
			}
			n, err1 := unhex(p[1])
			s, err2 := unhex(p[2])
			i, err3 := strconv.ParseInt(p[3], 10, 64)
			if err1 != nil || err2 != nil || err3 != nil {
				return nil, nil, fmt.Errorf("bad enum token %q", rest[0])
			}
			et.Enum = append(et.Enum, SEnum{Name: n, RStr: s, RInt: i})
			rest = rest[1:]
		}
	}
	return nil, nil, fmt.Errorf("bad type token %q", t)
}

// ReprKind is the kind of the representation ("invalid" where it depends on the value).
func (t *SType) ReprKind() string {
	switch t.K {
	case "struct":
		switch t.SRepr {
		case "map":
			return "map"
		case "join":
			return "str"
		}
		return "list"
	case "union":
		switch t.URepr {
		case "keyed":
			return "map"
		case "prefix":
			return "str"
		}
		return "invalid"
	case "enum":
		if t.ERepr == "int" {
			return "int"
		}
		return "str"
	case "any":
		return "invalid"
	}
	return t.K
}

func dmKind(k string) datamodel.Kind {
	switch k {
	case "null":
		return datamodel.Kind_Null
	case "bool":
		return datamodel.Kind_Bool
	case "int":
		return datamodel.Kind_Int
	case "float":
		return datamodel.Kind_Float
	case "str":
		return datamodel.Kind_String
	case "bytes":
		return datamodel.Kind_Bytes
	case "link":
		return datamodel.Kind_Link
	case "list":
		return datamodel.Kind_List
	case "map":
		return datamodel.Kind_Map
	}
	return datamodel.Kind_Invalid
}

// ValKind is the kind name of a data-model value.
func ValKind(v Val) string {
	switch v.K {
	case 'n':
		return "null"
	case 't', 'f':
		return "bool"
	case 'i':
		return "int"
	case 'd':
		return "float"
	case 's':
		return "str"
	case 'b':
		return "bytes"
	case 'l':
		return "link"
	case '[':
		return "list"
	case '{':
		return "map"
	}
	return "absent"
}

// Spawn declares t and everything below it.
func (t *SType) spawn(out *[]schema.Type, seen map[string]bool) {
	if seen[t.Name] {
		return
	}
	seen[t.Name] = true
	n := t.Name
	switch t.K {
	case "bool":
		*out = append(*out, schema.SpawnBool(n))
	case "int":
		*out = append(*out, schema.SpawnInt(n))
	case "float":
		*out = append(*out, schema.SpawnFloat(n))
	case "str":
		*out = append(*out, schema.SpawnString(n))
	case "bytes":
		*out = append(*out, schema.SpawnBytes(n))
	case "link":
		*out = append(*out, schema.SpawnLink(n))
	case "any":
		*out = append(*out, schema.SpawnAny(n))
	case "list":
		t.Elem.spawn(out, seen)
		*out = append(*out, schema.SpawnList(n, t.Elem.Name, t.Nullable))
	case "map":
		t.Elem.spawn(out, seen)
		*out = append(*out, schema.SpawnMap(n, "String", t.Elem.Name, t.Nullable))
	case "struct":
		var fs []schema.StructField
		renames := map[string]string{}
		for _, f := range t.Fields {
			f.T.spawn(out, seen)
			fs = append(fs, schema.SpawnStructField(f.Name, f.T.Name, f.Opt, f.Nullable))
			if f.Rename != f.Name {
				renames[f.Name] = f.Rename
			}
		}
		var rp schema.StructRepresentation
		switch t.SRepr {
		case "map":
			rp = schema.SpawnStructRepresentationMap(renames)
		case "tuple":
			rp = schema.SpawnStructRepresentationTuple()
		case "listpairs":
			rp = schema.SpawnStructRepresentationListPairs()
		case "join":
			rp = schema.SpawnStructRepresentationStringjoin(t.Delim)
		}
		*out = append(*out, schema.SpawnStruct(n, fs, rp))
	case "union":
		var names []schema.TypeName
		for _, m := range t.Members {
			m.T.spawn(out, seen)
			names = append(names, m.T.Name)
		}
		var rp schema.UnionRepresentation
		switch t.URepr {
		case "keyed":
			tab := map[string]schema.TypeName{}
			for _, m := range t.Members {
				tab[m.Disc] = m.T.Name
			}
			rp = schema.SpawnUnionRepresentationKeyed(tab)
		case "prefix":
			tab := map[string]schema.TypeName{}
			for _, m := range t.Members {
				tab[m.Disc] = m.T.Name
			}
			rp = schema.SpawnUnionRepresentationStringprefix(t.Delim, tab)
		case "kinded":
			tab := map[datamodel.Kind]schema.TypeName{}
			for _, m := range t.Members {
				tab[dmKind(m.Kind)] = m.T.Name
			}
			rp = schema.SpawnUnionRepresentationKinded(tab)
		}
		*out = append(*out, schema.SpawnUnion(n, names, rp))
	case "enum":
		var ms []string
		for _, e := range t.Enum {
			ms = append(ms, e.Name)
		}
		if t.ERepr == "int" {
			tab := schema.EnumRepresentation_Int{}
			for _, e := range t.Enum {
				tab[e.Name] = int(e.RInt)
			}
			*out = append(*out, schema.SpawnEnum(n, ms, tab))
		} else {
			tab := schema.EnumRepresentation_String{}
			for _, e := range t.Enum {
				if e.RStr != e.Name {
					tab[e.Name] = e.RStr
				}
			}
			*out = append(*out, schema.SpawnEnum(n, ms, tab))
		}
	}
}

// BuildTypeSystem declares the tree rooted at t (plus the `String` key type of typed maps).
func BuildTypeSystem(t *SType) (ts *schema.TypeSystem, err error) {
	defer func() {
		if r := recover(); r != nil {
			err = fmt.Errorf("type system construction panicked: %v", r)
		}
	}()
	types := []schema.Type{schema.SpawnString("String")}
	t.spawn(&types, map[string]bool{"String": true})
	ts, errs := schema.SpawnTypeSystem(types...)
	if errs != nil {
		return nil, fmt.Errorf("type system: %v", errs)
	}
	return ts, nil
}

// ---------------------------------------------------------------------------------------------
// generation of types

// SchemaCfg tunes the type generator.
type SchemaCfg struct {
	MaxDepth int
	// IntAboveInt64: let the mutator replace an integer in an Int slot by an unsigned value above MaxInt64 (callers that set
	// it judge such inputs by the oracle alone: the model's integers are unbounded)
	IntAboveInt64 bool
	// rates (out of 100) of the three constructions known to misbehave in bindnode
	NullableDispatchUnion int // a kinded / stringprefix union in a nullable slot
	KindedIntEnum         int // an int-represented enum as member of a kinded union
	TupleLooseOptional    int // tuple structs with optional fields anywhere / absent before present
	UnionAnyMember        int // `any` as a union member (bindnode cannot read such a member back)
	EnumEmptyRename       int // a string enum member renamed to the empty string (bindnode reads the name back)
	// a stringprefix union one of whose discriminants holds the union's own delimiter (or ends in the first character of
	// a two-character delimiter): text is cut at the FIRST delimiter, so that member's own representation reads back
	// as another member or not at all.  Off by default: the round-trip oracles of C08/C09 assume unambiguous strategies;
	// types made this way are marked Ambig.
	PrefixDiscHoldsDelim int
}

var DefaultSchemaCfg = SchemaCfg{MaxDepth: 3, NullableDispatchUnion: 12, KindedIntEnum: 10, TupleLooseOptional: 12, UnionAnyMember: 0, EnumEmptyRename: 3}

type genCtx struct {
	stringy bool // must have a string representation free of the enclosing delimiters
	noAny   bool
	noKind  bool // no kinded union (member of a kinded union)
	sdepth  int  // nesting depth of string strategies (selects the delimiter)
	safe    bool // names/discriminants from the delimiter-free alphabet
}

// (two names are Go keywords: generated code needs a symbol override for them; two names begin with a non-ASCII lower-case letter: the Go field a caller declares for them is spelled with the upper-case
// letter, strings.Title("écart") = "Écart")
var fieldNames = []string{"a", "b", "c", "x", "y", "foo", "bar", "id", "val", "k1", "next", "écart", "ñu", "type", "range"}
var renamePool = []string{"A", "B", "alpha", "β", "", " ", "x.y", "0", "renamed", "a", "b", "foo", "id", "val"}
var discPool = []string{"s", "i", "str", "int", "one", "two", "X", "y2", "lnk", "m", "q"}
var oddDiscPool = []string{"", " ", "ключ", "a b", "π"}
var enumNames = []string{"Yes", "No", "Maybe", "a", "b", "Red", "green", "x1"}
var enumReprs = []string{"y", "n", "m", "A", "B", "r", "G", "0", "1", "Yes", "No", "a", "b"}
var delimChars = []string{":", ",", "|", ";", "#"}

func pickDistinct(r *Rand, pool []string, n int) []string {
	p := r.Perm(len(pool))
	if n > len(pool) {
		n = len(pool)
	}
	out := make([]string, n)
	for i := 0; i < n; i++ {
		out[i] = pool[p[i]]
	}
	return out
}

func genScalarType(r *Rand, ctx genCtx) *SType {
	ks := []string{"bool", "int", "int", "float", "str", "str", "bytes", "link"}
	if !ctx.noAny {
		ks = append(ks, "any")
	}
	return &SType{K: ks[r.Intn(len(ks))], Name: freshTypeName("T")}
}

func (cfg SchemaCfg) genEnum(r *Rand, ctx genCtx, erepr string) *SType {
	t := &SType{K: "enum", Name: freshTypeName("T"), ERepr: erepr}
	n := 1 + r.Intn(4)
	names := pickDistinct(r, enumNames, n)
	used := map[string]bool{}
	ints := r.Perm(9)
	for i, nm := range names {
		e := SEnum{Name: nm, RStr: nm, RInt: int64(ints[i]) - 3}
		t.Enum = append(t.Enum, e)
	}
	if erepr == "str" {
		// representation strings: distinct over all members, never empty; sometimes another member's name
		// (then that member is renamed as well, so the table stays injective)
		for i := range t.Enum {
			if r.Chance(1, 2) {
				t.Enum[i].RStr = ""
			}
		}
		for i := range t.Enum {
			if t.Enum[i].RStr != "" {
				used[t.Enum[i].RStr] = true
			}
		}
		for i := range t.Enum {
			if t.Enum[i].RStr == "" {
				for _, k := range r.Perm(len(enumReprs)) {
					c := enumReprs[k]
					if !used[c] {
						t.Enum[i].RStr = c
						used[c] = true
						break
					}
				}
				if t.Enum[i].RStr == "" {
					t.Enum[i].RStr = t.Enum[i].Name + "_r"
				}
			}
		}
		if r.Chance(cfg.EnumEmptyRename, 100) {
			t.Enum[r.Intn(len(t.Enum))].RStr = ""
		}
	}
	return t
}

func (cfg SchemaCfg) genStringy(r *Rand, depth int, ctx genCtx) *SType {
	c := r.Intn(10)
	if depth >= cfg.MaxDepth || ctx.sdepth >= len(delimChars)-1 {
		c = r.Intn(6)
	}
	switch {
	case c < 4:
		return &SType{K: "str", Name: freshTypeName("T")}
	case c < 6:
		return cfg.genEnum(r, ctx, "str")
	case c < 8:
		return cfg.genStruct(r, depth, ctx, "join")
	default:
		return cfg.genUnion(r, depth, ctx, "prefix")
	}
}

func (cfg SchemaCfg) genDelim(r *Rand, ctx genCtx) string {
	d := delimChars[ctx.sdepth%len(delimChars)]
	if r.Chance(1, 4) {
		return d + d
	}
	return d
}

func (cfg SchemaCfg) genStruct(r *Rand, depth int, ctx genCtx, srepr string) *SType {
	t := &SType{K: "struct", Name: freshTypeName("T"), SRepr: srepr}
	n := r.Intn(5)
	if srepr == "join" {
		n = 1 + r.Intn(3)
		t.Delim = cfg.genDelim(r, ctx)
	}
	if srepr != "join" && depth >= 1 && r.Chance(1, 50) {
		// a wide struct: around the 64-field mark (one machine word of field flags), scalar fields only
		n = []int{63, 64, 65, 66, 70}[r.Intn(5)]
		for i := 0; i < n; i++ {
			nm := fmt.Sprintf("w%d", i)
			f := SField{Name: nm, Rename: nm, T: &SType{K: []string{"int", "str", "bool"}[r.Intn(3)], Name: freshTypeName("T")}}
			if srepr == "map" {
				f.Opt = r.Chance(1, 4)
			}
			t.Fields = append(t.Fields, f)
		}
		return t
	}
	medium := false
	if srepr == "map" && r.Chance(1, 14) {
		// a struct of 9-14 fields (beyond any small-struct fast path) whose renames form a chain or a swap: a field renamed
		// onto the NAME of a sibling that is itself renamed away
		n, medium = 9+r.Intn(6), true
	}
	names := pickDistinct(r, fieldNames, n)
	used := map[string]bool{}
	loose := r.Chance(cfg.TupleLooseOptional, 100)
	for i, nm := range names {
		f := SField{Name: nm, Rename: nm}
		switch srepr {
		case "join":
			f.T = cfg.genStringy(r, depth+1, genCtx{stringy: true, sdepth: ctx.sdepth + 1, safe: true})
		default:
			f.T = cfg.gen(r, depth+1, genCtx{noAny: false, sdepth: ctx.sdepth})
			f.Opt = r.Chance(1, 3)
			f.Nullable = r.Chance(1, 4)
			if srepr == "tuple" && !loose {
				// optional fields only as a suffix
				f.Opt = f.Opt && i >= n-2
				if i == n-1 && n >= 2 && t.Fields[n-2].Opt {
					f.Opt = true
				}
			}
			if f.Nullable && f.T.K == "union" && f.T.URepr != "keyed" && !r.Chance(cfg.NullableDispatchUnion, 100) {
				f.Nullable = false
			}
		}
		t.Fields = append(t.Fields, f)
	}
	if medium {
		k := r.Intn(n - 2)
		if r.Bool() {
			t.Fields[k].Rename, t.Fields[k+1].Rename, t.Fields[k+2].Rename = t.Fields[k+1].Name, t.Fields[k+2].Name, t.Fields[k+2].Name+"_r"
		} else {
			t.Fields[k].Rename, t.Fields[k+1].Rename = t.Fields[k+1].Name, t.Fields[k].Name
		}
		return t
	}
	if srepr == "map" && n > 0 && r.Chance(1, 2) {
		// renames: distinct representation keys; a rename may be another field's NAME when that field is renamed too
		for i := range t.Fields {
			if r.Chance(1, 2) {
				t.Fields[i].Rename = "\x00pending"
			}
		}
		for _, f := range t.Fields {
			if f.Rename != "\x00pending" {
				used[f.Rename] = true
			}
		}
		for i := range t.Fields {
			if t.Fields[i].Rename == "\x00pending" {
				t.Fields[i].Rename = ""
				done := false
				for _, k := range r.Perm(len(renamePool)) {
					c := renamePool[k]
					if !used[c] && c != t.Fields[i].Name {
						t.Fields[i].Rename = c
						used[c] = true
						done = true
						break
					}
				}
				if !done {
					t.Fields[i].Rename = t.Fields[i].Name + "_r"
				}
			}
		}
	}
	return t
}

func (cfg SchemaCfg) genUnion(r *Rand, depth int, ctx genCtx, urepr string) *SType {
	t := &SType{K: "union", Name: freshTypeName("T"), URepr: urepr}
	n := 1 + r.Intn(4)
	switch urepr {
	case "prefix":
		t.Delim = cfg.genDelim(r, ctx)
		pool := discPool
		if r.Chance(15, 100) {
			// no delimiter: the member is the first whose discriminant is a prefix of the text (prefix-free codes)
			t.Delim = ""
			pool = []string{"aa", "ab", "ba", "s0", "i0", "Zz"}
		}
		for _, d := range pickDistinct(r, pool, n) {
			m := cfg.genStringy(r, depth+1, genCtx{stringy: true, sdepth: ctx.sdepth + 1, safe: true})
			t.Members = append(t.Members, SMember{T: m, Disc: d, Kind: m.ReprKind()})
		}
		if t.Delim != "" && cfg.PrefixDiscHoldsDelim > 0 && r.Chance(cfg.PrefixDiscHoldsDelim, 100) {
			t.Ambig = true
			switch k := r.Intn(3); {
			case k == 0 && len(t.Members) >= 2:
				// "urn" and "urn:isbn" under ":" - the longer one can be written but never read
				t.Members[1].Disc = t.Members[0].Disc + t.Delim + "x"
			case k == 1 && len(t.Delim) == 2:
				// discriminant ending in the delimiter's first character: "a:" under "::" writes "a:::x", cut after "a"
				t.Members[0].Disc += t.Delim[:1]
			default:
				t.Members[len(t.Members)-1].Disc += t.Delim + "z"
			}
		}
	case "keyed":
		pool := discPool
		if !ctx.safe && r.Chance(1, 3) {
			pool = append(append([]string{}, discPool...), oddDiscPool...)
		}
		for _, d := range pickDistinct(r, pool, n) {
			m := cfg.gen(r, depth+1, genCtx{sdepth: ctx.sdepth, noAny: !r.Chance(cfg.UnionAnyMember, 100)})
			t.Members = append(t.Members, SMember{T: m, Disc: d, Kind: m.ReprKind()})
		}
		// occasionally one member's discriminant is another member's type name
		if n >= 2 && r.Chance(1, 6) {
			t.Members[0].Disc = t.Members[1].T.Name
		}
	case "kinded":
		usedKinds := map[string]bool{}
		for tries := 0; tries < 12 && len(t.Members) < n; tries++ {
			m := cfg.gen(r, depth+1, genCtx{noAny: true, noKind: true, sdepth: ctx.sdepth})
			k := m.ReprKind()
			if k == "invalid" || usedKinds[k] {
				continue
			}
			if m.K == "enum" && m.ERepr == "int" && !r.Chance(cfg.KindedIntEnum, 100) {
				continue
			}
			usedKinds[k] = true
			t.Members = append(t.Members, SMember{T: m, Disc: m.Name, Kind: k})
		}
		if len(t.Members) == 0 {
			m := &SType{K: "int", Name: freshTypeName("T")}
			t.Members = append(t.Members, SMember{T: m, Disc: m.Name, Kind: "int"})
		}
	}
	return t
}

func (cfg SchemaCfg) gen(r *Rand, depth int, ctx genCtx) *SType {
	if ctx.stringy {
		return cfg.genStringy(r, depth, ctx)
	}
	if depth >= cfg.MaxDepth {
		if r.Chance(1, 5) {
			return cfg.genEnum(r, ctx, []string{"str", "int"}[r.Intn(2)])
		}
		return genScalarType(r, ctx)
	}
	c := r.Intn(20)
	if depth == 0 {
		c = 8 + r.Intn(12) // the root is a composite
		if r.Chance(1, 25) {
			c = 6
		}
	}
	switch {
	case c < 6:
		return genScalarType(r, ctx)
	case c < 8:
		return cfg.genEnum(r, ctx, []string{"str", "int"}[r.Intn(2)])
	case c < 10:
		t := &SType{K: "list", Name: freshTypeName("T"), Nullable: r.Chance(1, 3)}
		t.Elem = cfg.gen(r, depth+1, genCtx{sdepth: ctx.sdepth})
		if t.Nullable && t.Elem.K == "union" && t.Elem.URepr != "keyed" && !r.Chance(cfg.NullableDispatchUnion, 100) {
			t.Nullable = false
		}
		return t
	case c < 12:
		t := &SType{K: "map", Name: freshTypeName("T"), Nullable: r.Chance(1, 3)}
		t.Elem = cfg.gen(r, depth+1, genCtx{sdepth: ctx.sdepth})
		if t.Nullable && t.Elem.K == "union" && t.Elem.URepr != "keyed" && !r.Chance(cfg.NullableDispatchUnion, 100) {
			t.Nullable = false
		}
		return t
	case c < 16:
		return cfg.genStruct(r, depth, ctx, []string{"map", "map", "tuple", "join", "listpairs"}[r.Intn(5)])
	default:
		us := []string{"keyed", "kinded", "prefix"}
		if ctx.noKind {
			us = []string{"keyed", "prefix"}
		}
		return cfg.genUnion(r, depth, ctx, us[r.Intn(len(us))])
	}
}

// GenSchema draws the root of a random type tree.
func GenSchema(r *Rand, cfg SchemaCfg) *SType { return cfg.gen(r, 0, genCtx{}) }

// Strategies lists the representation strategies occurring in the tree (for the distribution).
func (t *SType) Strategies(out map[string]bool) {
	switch t.K {
	case "list", "map":
		s := t.K
		if t.Nullable {
			s += "?"
		}
		out[s] = true
		t.Elem.Strategies(out)
	case "struct":
		out["struct-"+t.SRepr] = true
		for _, f := range t.Fields {
			if f.Rename != f.Name {
				out["field-renamed"] = true
			}
			switch {
			case f.Opt && f.Nullable:
				out["field-optional-nullable"] = true
			case f.Opt:
				out["field-optional"] = true
			case f.Nullable:
				out["field-nullable"] = true
			}
			f.T.Strategies(out)
		}
	case "union":
		out["union-"+t.URepr] = true
		for _, m := range t.Members {
			m.T.Strategies(out)
		}
	case "enum":
		out["enum-"+t.ERepr] = true
	default:
		out[t.K] = true
	}
}

// ---------------------------------------------------------------------------------------------
// inhabitants

var tameFloats = []float64{0.5, -1.5, 3.25, 1e-7, 123456.789, -0.001, 2.5e10 + 0.5, 1.0 / 3}
var tameInts = []int64{0, 1, -1, 7, 23, 24, 255, 256, -257, 65536, 1 << 31, -(1 << 31) - 1, math.MaxInt64, math.MinInt64, 42}
var textPieces = []string{"a", "b", "z", "Q", "0", "9", " ", "é", "中", "😀", "_", "-", ".", "x", "hello"}
var safePieces = []string{"a", "b", "z", "Q", "0", "9", "x", "hello", "W"}
var keyPool = []string{"k", "j", "key", "", "a", "zz", "é", "0", "long key", "K"}

func genText(r *Rand, safe bool) string {
	n := r.Intn(4)
	var sb strings.Builder
	p := textPieces
	if safe {
		p = safePieces
	}
	for i := 0; i < n; i++ {
		sb.WriteString(p[r.Intn(len(p))])
	}
	return sb.String()
}

func genAnyVal(r *Rand, depth int) Val {
	c := r.Intn(9)
	if depth >= 2 && c >= 7 {
		c = r.Intn(7)
	}
	switch c {
	case 0:
		return Bool(r.Bool())
	case 1, 2:
		return Int(tameInts[r.Intn(len(tameInts))])
	case 3:
		return Float(tameFloats[r.Intn(len(tameFloats))])
	case 4:
		return Str(genText(r, false))
	case 5:
		return Bytes(r.Bytes(r.Intn(4)))
	case 6:
		return Link(GenCid(r))
	case 7:
		v := Val{K: '['}
		for i := r.Intn(3); i > 0; i-- {
			if r.Chance(1, 5) {
				v.L = append(v.L, Null())
			} else {
				v.L = append(v.L, genAnyVal(r, depth+1))
			}
		}
		return v
	default:
		v := Val{K: '{'}
		for _, k := range pickDistinct(r, keyPool, r.Intn(3)) {
			if r.Chance(1, 5) {
				v.M = append(v.M, KV{[]byte(k), Null()})
			} else {
				v.M = append(v.M, KV{[]byte(k), genAnyVal(r, depth+1)})
			}
		}
		return v
	}
}

// GenInhabitant draws a canonical typed value of t (structs list every field in order, an unset optional
// field as Absent).  safe: strings free of every delimiter (inside string strategies).
func GenInhabitant(t *SType, r *Rand, cfg SchemaCfg, safe bool) Val {
	switch t.K {
	case "bool":
		return Bool(r.Bool())
	case "int":
		return Int(tameInts[r.Intn(len(tameInts))])
	case "float":
		return Float(tameFloats[r.Intn(len(tameFloats))])
	case "str":
		return Str(genText(r, safe))
	case "bytes":
		return Bytes(r.Bytes(r.Intn(5)))
	case "link":
		return Link(GenCid(r))
	case "any":
		return genAnyVal(r, 0)
	case "list":
		v := Val{K: '['}
		for i := r.Intn(4); i > 0; i-- {
			if t.Nullable && r.Chance(1, 4) {
				v.L = append(v.L, Null())
			} else {
				v.L = append(v.L, GenInhabitant(t.Elem, r, cfg, safe))
			}
		}
		return v
	case "map":
		v := Val{K: '{'}
		for _, k := range pickDistinct(r, keyPool, r.Intn(4)) {
			if t.Nullable && r.Chance(1, 4) {
				v.M = append(v.M, KV{[]byte(k), Null()})
			} else {
				v.M = append(v.M, KV{[]byte(k), GenInhabitant(t.Elem, r, cfg, safe)})
			}
		}
		return v
	case "struct":
		v := Val{K: '{'}
		inner := safe || t.SRepr == "join"
		for _, f := range t.Fields {
			switch {
			case f.Opt && r.Chance(1, 3):
				v.M = append(v.M, KV{[]byte(f.Name), Val{K: 'a'}})
			case f.Nullable && r.Chance(1, 4):
				v.M = append(v.M, KV{[]byte(f.Name), Null()})
			default:
				v.M = append(v.M, KV{[]byte(f.Name), GenInhabitant(f.T, r, cfg, inner)})
			}
		}
		if t.SRepr == "tuple" && !r.Chance(cfg.TupleLooseOptional, 100) {
			// absent fields only as a suffix: fill every absent field that precedes a present one
			last := -1
			for i := range v.M {
				if v.M[i].V.K != 'a' {
					last = i
				}
			}
			for i := 0; i < last; i++ {
				if v.M[i].V.K == 'a' {
					v.M[i].V = GenInhabitant(t.Fields[i].T, r, cfg, inner)
				}
			}
		}
		return v
	case "union":
		m := t.Members[r.Intn(len(t.Members))]
		return Map(KV{[]byte(m.T.Name), GenInhabitant(m.T, r, cfg, safe || t.URepr == "prefix")})
	case "enum":
		return Str(t.Enum[r.Intn(len(t.Enum))].Name)
	}
	return Null()
}

// TypeInput is the data-model tree fed to the type-level builder for the typed value v: Absent
// entries are simply not assembled.
func TypeInput(v Val) Val {
	switch v.K {
	case '[':
		out := Val{K: '['}
		for _, x := range v.L {
			out.L = append(out.L, TypeInput(x))
		}
		return out
	case '{':
		out := Val{K: '{'}
		for _, e := range v.M {
			if e.V.K == 'a' {
				continue
			}
			out.M = append(out.M, KV{e.K, TypeInput(e.V)})
		}
		return out
	}
	return v
}

// ReprOf is the generator's own statement of the representation of the canonical typed value v of t
// (per strategy); ok=false when v has no representation in the data model (a tuple with an absent
// field before a present one).
func ReprOf(t *SType, v Val) (Val, bool) {
	if v.K == 'n' {
		return v, true
	}
	switch t.K {
	case "list":
		out := Val{K: '['}
		for _, x := range v.L {
			y, ok := ReprOf(t.Elem, x)
			if !ok {
				return Val{}, false
			}
			out.L = append(out.L, y)
		}
		return out, true
	case "map":
		out := Val{K: '{'}
		for _, e := range v.M {
			y, ok := ReprOf(t.Elem, e.V)
			if !ok {
				return Val{}, false
			}
			out.M = append(out.M, KV{e.K, y})
		}
		return out, true
	case "struct":
		if len(v.M) != len(t.Fields) {
			return Val{}, false
		}
		reps := make([]*Val, len(t.Fields))
		for i, f := range t.Fields {
			if v.M[i].V.K == 'a' {
				continue
			}
			y, ok := ReprOf(f.T, v.M[i].V)
			if !ok {
				return Val{}, false
			}
			reps[i] = &y
		}
		switch t.SRepr {
		case "map":
			out := Val{K: '{'}
			for i, f := range t.Fields {
				if reps[i] != nil { // optional-absent: omitted
					out.M = append(out.M, KV{[]byte(f.Rename), *reps[i]})
				}
			}
			return out, true
		case "listpairs":
			out := Val{K: '['}
			for i, f := range t.Fields {
				if reps[i] != nil {
					out.L = append(out.L, List(Str(f.Name), *reps[i]))
				}
			}
			return out, true
		case "tuple":
			out := Val{K: '['}
			n := len(reps)
			for n > 0 && reps[n-1] == nil { // trailing absents dropped
				n--
			}
			for i := 0; i < n; i++ {
				if reps[i] == nil {
					return Val{}, false
				}
				out.L = append(out.L, *reps[i])
			}
			return out, true
		case "join":
			var parts []string
			for i := range t.Fields {
				if reps[i] == nil || reps[i].K != 's' {
					return Val{}, false
				}
				parts = append(parts, string(reps[i].S))
			}
			return Str(strings.Join(parts, t.Delim)), true
		}
	case "union":
		if len(v.M) != 1 {
			return Val{}, false
		}
		for _, m := range t.Members {
			if m.T.Name != string(v.M[0].K) {
				continue
			}
			y, ok := ReprOf(m.T, v.M[0].V)
			if !ok {
				return Val{}, false
			}
			switch t.URepr {
			case "keyed":
				return Map(KV{[]byte(m.Disc), y}), true
			case "kinded":
				return y, true
			case "prefix":
				if y.K != 's' {
					return Val{}, false
				}
				return Str(m.Disc + t.Delim + string(y.S)), true
			}
		}
		return Val{}, false
	case "enum":
		for _, e := range t.Enum {
			if e.Name == string(v.S) {
				if t.ERepr == "int" {
					return Int(e.RInt), true
				}
				return Str(e.RStr), true
			}
		}
		return Val{}, false
	}
	return v, true
}

// Triggers names the constructions in (t, v) on which bindnode is known to violate C08.
func Triggers(t *SType, v Val, nullable bool, out map[string]bool) {
	if v.K == 'n' || v.K == 'a' {
		return
	}
	switch t.K {
	case "list":
		for _, x := range v.L {
			Triggers(t.Elem, x, t.Nullable, out)
		}
	case "map":
		for _, e := range v.M {
			Triggers(t.Elem, e.V, t.Nullable, out)
		}
	case "struct":
		if len(v.M) != len(t.Fields) {
			return
		}
		if t.SRepr == "tuple" {
			seenAbsent := false
			for i := range t.Fields {
				if v.M[i].V.K == 'a' {
					seenAbsent = true
				} else if seenAbsent {
					out["tuple-absent-before-present-field"] = true
				}
			}
		}
		for i, f := range t.Fields {
			Triggers(f.T, v.M[i].V, f.Nullable, out)
		}
	case "union":
		if len(v.M) != 1 {
			return
		}
		for _, m := range t.Members {
			if m.T.Name == string(v.M[0].K) {
				Triggers(m.T, v.M[0].V, false, out)
			}
		}
	}
}

// ---------------------------------------------------------------------------------------------
// mutations

// Mutant is a local mutation of a conforming input.
type Mutant struct {
	Kind string
	V    Val
}

func cloneVal(v Val) Val {
	out := v
	if v.S != nil {
		out.S = append([]byte{}, v.S...)
	}
	if v.L != nil {
		out.L = make([]Val, len(v.L))
		for i, x := range v.L {
			out.L[i] = cloneVal(x)
		}
	}
	if v.M != nil {
		out.M = make([]KV, len(v.M))
		for i, e := range v.M {
			out.M[i] = KV{append([]byte{}, e.K...), cloneVal(e.V)}
		}
	}
	return out
}

type mutSite struct {
	p     *Val
	t     *SType
	nul   bool
	kinds []string
}

func otherKindVal(r *Rand, not string) Val {
	cands := []Val{Bool(true), Int(5), Float(0.5), Str("zz"), Bytes([]byte{1, 2}), List(), Map(), List(Int(1)), Map(KV{[]byte("q"), Int(1)})}
	for {
		c := cands[r.Intn(len(cands))]
		if ValKind(c) != not {
			return c
		}
	}
}

// collectSites walks input v of type t at the given level (type | repr) and lists, per node, the mutation
// kinds that apply there.
func collectSites(t *SType, lvl string, nul bool, p *Val, sites *[]mutSite) {
	v := p
	if v.K == 'n' {
		*sites = append(*sites, mutSite{p, t, nul, []string{"retype"}})
		return
	}
	kinds := []string{"retype", "null"}
	asMapStruct := func() {
		kinds = append(kinds, "drop-field", "dup-field", "dup-field-newval", "dup-field-empty", "unknown-field", "reorder-fields", "alt-name-field")
		for i := range v.M {
			for _, f := range t.Fields {
				key := f.Name
				if lvl == "repr" {
					key = f.Rename
				}
				if key == string(v.M[i].K) {
					collectSites(f.T, lvl, f.Nullable, &v.M[i].V, sites)
				}
			}
		}
	}
	asMapUnion := func() {
		kinds = append(kinds, "union-unknown-member", "union-two-members", "union-no-member", "union-alt-key")
		if len(v.M) == 1 {
			for _, m := range t.Members {
				key := m.T.Name
				if lvl == "repr" {
					key = m.Disc
				}
				if key == string(v.M[0].K) {
					collectSites(m.T, lvl, false, &v.M[0].V, sites)
				}
			}
		}
	}
	switch t.K {
	case "list":
		if v.K == '[' {
			kinds = append(kinds, "list-dup-elem", "list-drop-elem", "list-null-elem", "list-wrong-elem")
			for i := range v.L {
				collectSites(t.Elem, lvl, t.Nullable, &v.L[i], sites)
			}
		}
	case "map":
		if v.K == '{' {
			kinds = append(kinds, "map-dup-key", "map-dup-key-newval", "map-null-value", "map-drop-entry", "map-reorder")
			for i := range v.M {
				collectSites(t.Elem, lvl, t.Nullable, &v.M[i].V, sites)
			}
		}
	case "struct":
		switch {
		case lvl == "type" || t.SRepr == "map":
			if v.K == '{' {
				asMapStruct()
			}
		case t.SRepr == "tuple":
			if v.K == '[' {
				kinds = append(kinds, "tuple-extra", "tuple-drop-last", "tuple-drop-middle", "tuple-swap", "tuple-null-elem")
				for i := range v.L {
					if i < len(t.Fields) {
						collectSites(t.Fields[i].T, lvl, t.Fields[i].Nullable, &v.L[i], sites)
					}
				}
			}
		case t.SRepr == "listpairs":
			if v.K == '[' {
				kinds = append(kinds, "lp-short", "lp-empty", "lp-long", "lp-unknown", "lp-nonlist", "lp-dup", "lp-drop", "lp-reorder", "lp-key-not-string")
				for i := range v.L {
					if v.L[i].K == '[' && len(v.L[i].L) == 2 {
						for _, f := range t.Fields {
							if f.Name == string(v.L[i].L[0].S) {
								collectSites(f.T, lvl, f.Nullable, &v.L[i].L[1], sites)
							}
						}
					}
				}
			}
		case t.SRepr == "join":
			if v.K == 's' {
				kinds = append(kinds, "join-extra-part", "join-missing-part")
			}
		}
	case "union":
		switch {
		case lvl == "type" || t.URepr == "keyed":
			if v.K == '{' {
				asMapUnion()
			}
		case t.URepr == "kinded":
			kinds = append(kinds, "kinded-unknown-kind")
			for _, m := range t.Members {
				if m.Kind == ValKind(*v) {
					collectSites(m.T, lvl, false, p, sites)
				}
			}
		case t.URepr == "prefix":
			if v.K == 's' {
				kinds = append(kinds, "prefix-unknown", "prefix-no-delim", "prefix-alt")
			}
		}
	case "enum":
		kinds = append(kinds, "enum-unknown", "enum-alt", "enum-wrong-kind")
	}
	if v.K == 'i' && t != nil && t.K == "int" {
		kinds = append(kinds, "int-above-int64") // drawn only where SchemaCfg.IntAboveInt64 is set
	}
	*sites = append(*sites, mutSite{p, t, nul, kinds})
}

func (t *SType) fieldByKey(lvl, key string) *SField {
	for i := range t.Fields {
		k := t.Fields[i].Name
		if lvl == "repr" && t.SRepr == "map" {
			k = t.Fields[i].Rename
		}
		if k == key {
			return &t.Fields[i]
		}
	}
	return nil
}

// inputOf draws a fresh conforming input for a slot of type t at the level.
func inputOf(t *SType, lvl string, r *Rand, cfg SchemaCfg) Val {
	for tries := 0; tries < 8; tries++ {
		tv := GenInhabitant(t, r, cfg, true)
		if lvl == "type" {
			return TypeInput(tv)
		}
		if rv, ok := ReprOf(t, tv); ok {
			return rv
		}
	}
	return Null()
}

func applyMutation(s mutSite, kind, lvl string, r *Rand, cfg SchemaCfg) bool {
	v := s.p
	t := s.t
	pickEntry := func() int { return r.Intn(len(v.M)) }
	unknownKey := func() string {
		for _, c := range []string{"nope", "zzz", "Unknown", "?"} {
			ok := true
			for _, e := range v.M {
				if string(e.K) == c {
					ok = false
				}
			}
			if t.K == "struct" && (t.fieldByKey("type", c) != nil || t.fieldByKey("repr", c) != nil) {
				ok = false
			}
			if ok {
				return c
			}
		}
		return "\x01unknown"
	}
	switch kind {
	case "retype":
		*v = otherKindVal(r, ValKind(*v))
		return true
	case "int-above-int64":
		// an unsigned integer no int64 holds (it reaches the assembler as a datamodel.UintNode through AssignNode, or from
		// the DAG-CBOR decoder): no Int slot of any schema accepts it.  Outside the Lean model's domain (unbounded integers).
		*v = Val{K: 'i', Mag: []uint64{1 << 63, 1<<63 + 1, math.MaxUint64}[r.Intn(3)]}
		return true
	case "null":
		*v = Null()
		return true
	case "drop-field", "map-drop-entry":
		if len(v.M) == 0 {
			return false
		}
		i := pickEntry()
		v.M = append(append([]KV{}, v.M[:i]...), v.M[i+1:]...)
		return true
	case "dup-field", "map-dup-key":
		if len(v.M) == 0 {
			return false
		}
		e := v.M[pickEntry()]
		at := r.Intn(len(v.M) + 1)
		m := append([]KV{}, v.M[:at]...)
		m = append(m, KV{e.K, cloneVal(e.V)})
		v.M = append(m, v.M[at:]...)
		return true
	case "dup-field-newval":
		if len(v.M) == 0 {
			return false
		}
		e := v.M[pickEntry()]
		f := t.fieldByKey(lvl, string(e.K))
		if f == nil {
			return false
		}
		v.M = append(v.M, KV{e.K, inputOf(f.T, lvl, r, cfg)})
		return true
	case "dup-field-empty":
		// the field once more, with an empty container of the kind it had
		var idx []int
		for i, e := range v.M {
			if e.V.K == '{' || e.V.K == '[' {
				idx = append(idx, i)
			}
		}
		if len(idx) == 0 {
			return false
		}
		e := v.M[idx[r.Intn(len(idx))]]
		v.M = append(v.M, KV{e.K, Val{K: e.V.K}})
		return true
	case "map-dup-key-newval":
		if len(v.M) == 0 {
			return false
		}
		e := v.M[pickEntry()]
		v.M = append(v.M, KV{e.K, inputOf(t.Elem, lvl, r, cfg)})
		return true
	case "map-null-value":
		if len(v.M) == 0 {
			return false
		}
		v.M[pickEntry()].V = Null()
		return true
	case "unknown-field":
		at := r.Intn(len(v.M) + 1)
		m := append([]KV{}, v.M[:at]...)
		m = append(m, KV{[]byte(unknownKey()), otherKindVal(r, "")})
		v.M = append(m, v.M[at:]...)
		return true
	case "reorder-fields", "map-reorder":
		if len(v.M) < 2 {
			return false
		}
		i := r.Intn(len(v.M) - 1)
		j := i + 1 + r.Intn(len(v.M)-i-1)
		v.M[i], v.M[j] = v.M[j], v.M[i]
		return true
	case "alt-name-field":
		// the other level's key for a renamed field
		var idx []int
		for i, e := range v.M {
			if f := t.fieldByKey(lvl, string(e.K)); f != nil && f.Rename != f.Name {
				idx = append(idx, i)
			}
		}
		if len(idx) == 0 {
			return false
		}
		i := idx[r.Intn(len(idx))]
		f := t.fieldByKey(lvl, string(v.M[i].K))
		if lvl == "repr" {
			v.M[i].K = []byte(f.Name)
		} else {
			v.M[i].K = []byte(f.Rename)
		}
		return true
	case "union-unknown-member":
		if len(v.M) != 1 {
			return false
		}
		v.M[0].K = []byte(unknownKey())
		return true
	case "union-no-member":
		v.M = nil
		return true
	case "union-two-members":
		if len(v.M) != 1 {
			return false
		}
		m := t.Members[r.Intn(len(t.Members))]
		key := m.T.Name
		if lvl == "repr" {
			key = m.Disc
		}
		e := KV{[]byte(key), inputOf(m.T, lvl, r, cfg)}
		if r.Bool() {
			v.M = append(v.M, e)
		} else {
			v.M = append([]KV{e}, v.M...)
		}
		return true
	case "union-alt-key":
		if len(v.M) != 1 {
			return false
		}
		for _, m := range t.Members {
			if lvl == "repr" && m.Disc == string(v.M[0].K) && m.Disc != m.T.Name {
				v.M[0].K = []byte(m.T.Name)
				return true
			}
			if lvl == "type" && m.T.Name == string(v.M[0].K) && m.Disc != m.T.Name {
				v.M[0].K = []byte(m.Disc)
				return true
			}
		}
		return false
	case "list-dup-elem":
		if len(v.L) == 0 {
			return false
		}
		i := r.Intn(len(v.L))
		l := append([]Val{}, v.L[:i+1]...)
		l = append(l, cloneVal(v.L[i]))
		v.L = append(l, v.L[i+1:]...)
		return true
	case "list-drop-elem", "lp-drop":
		if len(v.L) == 0 {
			return false
		}
		i := r.Intn(len(v.L))
		v.L = append(append([]Val{}, v.L[:i]...), v.L[i+1:]...)
		return true
	case "list-null-elem", "tuple-null-elem":
		at := r.Intn(len(v.L) + 1)
		if kind == "tuple-null-elem" {
			if len(v.L) == 0 {
				return false
			}
			v.L[r.Intn(len(v.L))] = Null()
			return true
		}
		l := append([]Val{}, v.L[:at]...)
		l = append(l, Null())
		v.L = append(l, v.L[at:]...)
		return true
	case "list-wrong-elem":
		not := t.Elem.ReprKind()
		if lvl == "type" && (t.Elem.K == "struct" || t.Elem.K == "union") {
			not = "map"
		}
		if lvl == "type" && t.Elem.K == "enum" {
			not = "str"
		}
		if t.Elem.K == "any" || not == "invalid" {
			return false
		}
		v.L = append(v.L, otherKindVal(r, not))
		return true
	case "tuple-extra":
		// one more element than the value has (past the last field if the tuple was full)
		if len(v.L) < len(t.Fields) && r.Bool() {
			f := t.Fields[len(v.L)]
			v.L = append(v.L, inputOf(f.T, lvl, r, cfg))
			return true
		}
		for len(v.L) < len(t.Fields) {
			f := t.Fields[len(v.L)]
			v.L = append(v.L, inputOf(f.T, lvl, r, cfg))
		}
		v.L = append(v.L, otherKindVal(r, ""))
		return true
	case "tuple-drop-last":
		if len(v.L) == 0 {
			return false
		}
		v.L = v.L[:len(v.L)-1]
		return true
	case "tuple-drop-middle":
		if len(v.L) < 2 {
			return false
		}
		i := r.Intn(len(v.L) - 1)
		v.L = append(append([]Val{}, v.L[:i]...), v.L[i+1:]...)
		return true
	case "tuple-swap", "lp-reorder":
		if len(v.L) < 2 {
			return false
		}
		i := r.Intn(len(v.L) - 1)
		v.L[i], v.L[i+1] = v.L[i+1], v.L[i]
		return true
	case "lp-short":
		if len(v.L) == 0 {
			// an entry naming a field (or not) without a value
			v.L = append(v.L, List(Str([]string{"nope", "a"}[r.Intn(2)])))
			return true
		}
		i := r.Intn(len(v.L))
		if v.L[i].K != '[' || len(v.L[i].L) < 1 {
			return false
		}
		if r.Bool() {
			v.L[i].L = v.L[i].L[:1]
		} else {
			at := r.Intn(len(v.L) + 1)
			l := append([]Val{}, v.L[:at]...)
			l = append(l, List(Str([]string{"nope", string(v.L[i].L[0].S)}[r.Intn(2)])))
			v.L = append(l, v.L[at:]...)
		}
		return true
	case "lp-empty":
		at := r.Intn(len(v.L) + 1)
		l := append([]Val{}, v.L[:at]...)
		l = append(l, List())
		v.L = append(l, v.L[at:]...)
		return true
	case "lp-long":
		if len(v.L) == 0 {
			return false
		}
		i := r.Intn(len(v.L))
		if v.L[i].K != '[' {
			return false
		}
		v.L[i].L = append(v.L[i].L, otherKindVal(r, ""))
		return true
	case "lp-unknown":
		at := r.Intn(len(v.L) + 1)
		l := append([]Val{}, v.L[:at]...)
		l = append(l, List(Str("nope"), otherKindVal(r, "")))
		v.L = append(l, v.L[at:]...)
		return true
	case "lp-nonlist":
		at := r.Intn(len(v.L) + 1)
		l := append([]Val{}, v.L[:at]...)
		l = append(l, []Val{Int(1), Str("a"), Map(), Null()}[r.Intn(4)])
		v.L = append(l, v.L[at:]...)
		return true
	case "lp-dup":
		if len(v.L) == 0 {
			return false
		}
		i := r.Intn(len(v.L))
		if v.L[i].K != '[' || len(v.L[i].L) != 2 {
			return false
		}
		e := cloneVal(v.L[i])
		if f := t.fieldByKey("type", string(e.L[0].S)); f != nil && r.Bool() {
			e.L[1] = inputOf(f.T, lvl, r, cfg)
		}
		v.L = append(v.L, e)
		return true
	case "lp-key-not-string":
		if len(v.L) == 0 {
			return false
		}
		i := r.Intn(len(v.L))
		if v.L[i].K != '[' || len(v.L[i].L) < 1 {
			return false
		}
		v.L[i].L[0] = []Val{Int(0), Null(), Bytes(v.L[i].L[0].S), List()}[r.Intn(4)]
		return true
	case "join-extra-part":
		if r.Bool() {
			v.S = append(append(v.S, t.Delim...), "x"...)
		} else {
			v.S = append(append([]byte("x"), t.Delim...), v.S...)
		}
		return true
	case "join-missing-part":
		i := bytes.Index(v.S, []byte(t.Delim))
		if i < 0 {
			return false
		}
		v.S = append([]byte{}, v.S[i+len(t.Delim):]...)
		return true
	case "kinded-unknown-kind":
		have := map[string]bool{"null": true}
		for _, m := range t.Members {
			have[m.Kind] = true
		}
		for tries := 0; tries < 20; tries++ {
			c := otherKindVal(r, "")
			if !have[ValKind(c)] {
				*v = c
				return true
			}
		}
		return false
	case "prefix-unknown":
		i := bytes.Index(v.S, []byte(t.Delim))
		if i < 0 {
			return false
		}
		v.S = append([]byte("nope"), v.S[i:]...)
		return true
	case "prefix-no-delim":
		i := bytes.Index(v.S, []byte(t.Delim))
		if i < 0 {
			return false
		}
		v.S = append(append([]byte{}, v.S[:i]...), v.S[i+len(t.Delim):]...)
		return true
	case "prefix-alt":
		// the member's type name in place of its discriminant
		i := bytes.Index(v.S, []byte(t.Delim))
		if i < 0 {
			return false
		}
		for _, m := range t.Members {
			if m.Disc == string(v.S[:i]) {
				v.S = append([]byte(m.T.Name), v.S[i:]...)
				return true
			}
		}
		return false
	case "enum-unknown":
		if t.ERepr == "int" && lvl == "repr" {
			*v = Int([]int64{99, -99, math.MaxInt64, 1 << 40}[r.Intn(4)])
		} else {
			*v = Str([]string{"nope", "", "YES", "yes "}[r.Intn(4)])
		}
		return true
	case "enum-alt":
		// the other level's spelling of a member
		if t.ERepr == "int" {
			if lvl == "repr" && v.K == 'i' {
				for _, e := range t.Enum {
					if i, _ := v.Int64(); i == e.RInt {
						*v = Str(e.Name)
						return true
					}
				}
			}
			if lvl == "type" && v.K == 's' {
				for _, e := range t.Enum {
					if e.Name == string(v.S) {
						*v = Int(e.RInt)
						return true
					}
				}
			}
			return false
		}
		if v.K != 's' {
			return false
		}
		for _, e := range t.Enum {
			if e.RStr == e.Name {
				continue
			}
			if lvl == "repr" && e.RStr == string(v.S) {
				*v = Str(e.Name)
				return true
			}
			if lvl == "type" && e.Name == string(v.S) {
				*v = Str(e.RStr)
				return true
			}
		}
		return false
	case "enum-wrong-kind":
		if v.K == 's' {
			*v = []Val{Int(0), Bytes(v.S), Bool(true)}[r.Intn(3)]
		} else {
			*v = []Val{Str("0"), Float(0.5), Bool(false)}[r.Intn(3)]
		}
		return true
	}
	return false
}

// MutateInput returns one local mutation of the conforming input v (of type t at the given level):
// a mutation kind is drawn first, uniformly over the kinds applicable anywhere in the tree, then a site.
func MutateInput(t *SType, lvl string, v Val, r *Rand, cfg SchemaCfg) (Mutant, bool) {
	for tries := 0; tries < 6; tries++ {
		c := cloneVal(v)
		var sites []mutSite
		collectSites(t, lvl, false, &c, &sites)
		byKind := map[string][]int{}
		var kinds []string
		for i, s := range sites {
			for _, k := range s.kinds {
				if k == "int-above-int64" && !cfg.IntAboveInt64 {
					continue
				}
				if _, ok := byKind[k]; !ok {
					kinds = append(kinds, k)
				}
				byKind[k] = append(byKind[k], i)
			}
		}
		if len(kinds) == 0 {
			return Mutant{}, false
		}
		// retype/null apply everywhere: draw them less often than their share of kinds
		k := kinds[r.Intn(len(kinds))]
		if (k == "retype" || k == "null") && len(kinds) > 2 && r.Chance(1, 2) {
			k = kinds[r.Intn(len(kinds))]
		}
		idx := byKind[k]
		s := sites[idx[r.Intn(len(idx))]]
		if applyMutation(s, k, lvl, r, cfg) {
			if c.Term() == v.Term() {
				continue
			}
			return Mutant{Kind: k, V: c}, true
		}
	}
	return Mutant{}, false
}

// MutateTwice applies two local mutations (their interplay: a repeated field next to an unknown one, two
// independent causes of a refusal, …).  The type-directed walk of the second sees the first's result.
func MutateTwice(t *SType, lvl string, v Val, r *Rand, cfg SchemaCfg) (Mutant, bool) {
	m1, ok := MutateInput(t, lvl, v, r, cfg)
	if !ok {
		return Mutant{}, false
	}
	m2, ok := MutateInput(t, lvl, m1.V, r, cfg)
	if !ok {
		return m1, true
	}
	return Mutant{Kind: "two", V: m2.V}, true
}

// ---------------------------------------------------------------------------------------------
// hand-made codec input: entry order and repeated keys are kept exactly as given

// RawCBOR writes v as DAG-CBOR without sorting or de-duplicating map entries.
func RawCBOR(b []byte, v Val) []byte {
	switch v.K {
	case 'n':
		return append(b, 0xf6)
	case 't':
		return append(b, 0xf5)
	case 'f':
		return append(b, 0xf4)
	case 'i':
		if v.Neg {
			return appendHead(b, 1, v.Mag-1, minWidth(v.Mag-1))
		}
		return appendHead(b, 0, v.Mag, minWidth(v.Mag))
	case 'd':
		b = append(b, 0xfb)
		for s := 56; s >= 0; s -= 8 {
			b = append(b, byte(v.F>>uint(s)))
		}
		return b
	case 's':
		b = appendHead(b, 3, uint64(len(v.S)), minWidth(uint64(len(v.S))))
		return append(b, v.S...)
	case 'b':
		b = appendHead(b, 2, uint64(len(v.S)), minWidth(uint64(len(v.S))))
		return append(b, v.S...)
	case 'l':
		b = append(b, 0xd8, 0x2a)
		b = appendHead(b, 2, uint64(len(v.S)+1), minWidth(uint64(len(v.S)+1)))
		b = append(b, 0)
		return append(b, v.S...)
	case '[':
		b = appendHead(b, 4, uint64(len(v.L)), minWidth(uint64(len(v.L))))
		for _, x := range v.L {
			b = RawCBOR(b, x)
		}
		return b
	case '{':
		b = appendHead(b, 5, uint64(len(v.M)), minWidth(uint64(len(v.M))))
		for _, e := range v.M {
			b = appendHead(b, 3, uint64(len(e.K)), minWidth(uint64(len(e.K))))
			b = append(b, e.K...)
			b = RawCBOR(b, e.V)
		}
		return b
	}
	return b
}

func jsonString(sb *strings.Builder, s []byte) {
	var buf bytes.Buffer
	enc := json.NewEncoder(&buf)
	enc.SetEscapeHTML(false)
	_ = enc.Encode(string(s))
	sb.WriteString(strings.TrimSuffix(buf.String(), "\n"))
}

// RawJSON writes v as DAG-JSON text without sorting or de-duplicating map entries.  ok=false for values
// the text form cannot carry faithfully (non-finite floats, strings that are not UTF-8).
func RawJSON(sb *strings.Builder, v Val) bool {
	switch v.K {
	case 'n':
		sb.WriteString("null")
	case 't':
		sb.WriteString("true")
	case 'f':
		sb.WriteString("false")
	case 'i':
		if v.Neg {
			sb.WriteByte('-')
		}
		sb.WriteString(strconv.FormatUint(v.Mag, 10))
	case 'd':
		f := math.Float64frombits(v.F)
		if math.IsNaN(f) || math.IsInf(f, 0) {
			return false
		}
		s := strconv.FormatFloat(f, 'g', -1, 64)
		if !strings.ContainsAny(s, ".eE") {
			s += ".0"
		}
		sb.WriteString(s)
	case 's':
		if !utf8.Valid(v.S) {
			return false
		}
		jsonString(sb, v.S)
	case 'b':
		sb.WriteString(`{"/":{"bytes":"` + base64.RawStdEncoding.EncodeToString(v.S) + `"}}`)
	case 'l':
		c, err := cid.Cast(v.S)
		if err != nil {
			return false
		}
		sb.WriteString(`{"/":"` + c.String() + `"}`)
	case '[':
		sb.WriteByte('[')
		for i, x := range v.L {
			if i > 0 {
				sb.WriteByte(',')
			}
			if !RawJSON(sb, x) {
				return false
			}
		}
		sb.WriteByte(']')
	case '{':
		sb.WriteByte('{')
		for i, e := range v.M {
			if i > 0 {
				sb.WriteByte(',')
			}
			if string(e.K) == "/" {
				return false
			}
			jsonString(sb, e.K)
			sb.WriteByte(':')
			if !RawJSON(sb, e.V) {
				return false
			}
		}
		sb.WriteByte('}')
	default:
		return false
	}
	return true
}

// GenPlainSchema: a type built from typed maps, lists, map-represented structs (fields required or optional, nullable or
// not, no renames) and
// scalars only — the typed builders whose call protocol coincides with the generic one (C12, C01).
func GenPlainSchema(r *Rand, depth int) *SType {
	if depth >= 3 || r.Chance(1, 3) && depth > 0 {
		return &SType{K: []string{"bool", "int", "float", "str", "bytes", "link"}[r.Intn(6)], Name: freshTypeName("P")}
	}
	switch r.Intn(3) {
	case 0:
		return &SType{K: "list", Name: freshTypeName("P"), Elem: GenPlainSchema(r, depth+1), Nullable: r.Chance(1, 4)}
	case 1:
		return &SType{K: "map", Name: freshTypeName("P"), Elem: GenPlainSchema(r, depth+1), Nullable: r.Chance(1, 4)}
	}
	t := &SType{K: "struct", Name: freshTypeName("P"), SRepr: "map"}
	for _, n := range pickDistinct(r, fieldNames, 1+r.Intn(4)) {
		t.Fields = append(t.Fields, SField{Name: n, Rename: n, Opt: r.Chance(1, 3), Nullable: r.Chance(1, 5), T: GenPlainSchema(r, depth+1)})
	}
	return t
}
