/-
  UTF-8 facts for the JSON string codec model (DESIGN §5 C04): a successful `decodeRune` reads a
  well-formed sequence that `encodeRune` reproduces, and only looks at the bytes it consumes.
  Core Lean only.
-/
import IpldModel.Model.JsonText
namespace Ipld
namespace Json

theorem ofNat_eq_of_mod {b : UInt8} {k : Nat} (h : k % 256 = b.toNat) : UInt8.ofNat k = b := by
  apply UInt8.toNat_inj.mp
  simp [UInt8.toNat_ofNat', h]

theorem eq_of_toNat_eq_lit {b : UInt8} {k : Nat} (hk : k < 256) (h : b.toNat = k) : b = UInt8.ofNat k := by
  apply UInt8.toNat_inj.mp
  rw [UInt8.toNat_ofNat', h]; omega

/-! ### arithmetic of the three multi-byte classes -/

theorem utf8_arith2 (c0 c1 r : Nat) (h0 : 0xC2 ≤ c0) (h0' : c0 < 0xE0) (h1 : 0x80 ≤ c1) (h1' : c1 ≤ 0xBF)
    (hr : r = (c0 % 32) * 64 + c1 % 64) :
    0x80 ≤ r ∧ r < 0x800 ∧ (0xC0 + r / 64) % 256 = c0 ∧ (0x80 + r % 64) % 256 = c1 := by
  omega

theorem utf8_arith3 (c0 c1 c2 r : Nat) (h0 : 0xE0 ≤ c0) (h0' : c0 < 0xF0)
    (h1 : (if c0 = 0xE0 then 0xA0 else 0x80) ≤ c1) (h1' : c1 ≤ (if c0 = 0xED then 0x9F else 0xBF))
    (h2 : 0x80 ≤ c2) (h2' : c2 ≤ 0xBF)
    (hr : r = (c0 % 16) * 4096 + (c1 % 64) * 64 + c2 % 64) :
    0x800 ≤ r ∧ r < 0x10000 ∧ ¬ (0xD800 ≤ r ∧ r ≤ 0xDFFF) ∧
      (0xE0 + r / 4096) % 256 = c0 ∧ (0x80 + r / 64 % 64) % 256 = c1 ∧ (0x80 + r % 64) % 256 = c2 := by
  split at h1 <;> split at h1' <;> omega

theorem utf8_arith4 (c0 c1 c2 c3 r : Nat) (h0 : 0xF0 ≤ c0) (h0' : c0 < 0xF5)
    (h1 : (if c0 = 0xF0 then 0x90 else 0x80) ≤ c1) (h1' : c1 ≤ (if c0 = 0xF4 then 0x8F else 0xBF))
    (h2 : 0x80 ≤ c2) (h2' : c2 ≤ 0xBF) (h3 : 0x80 ≤ c3) (h3' : c3 ≤ 0xBF)
    (hr : r = (c0 % 8) * 262144 + (c1 % 64) * 4096 + (c2 % 64) * 64 + c3 % 64) :
    0x10000 ≤ r ∧ r ≤ 0x10FFFF ∧
      (0xF0 + r / 262144) % 256 = c0 ∧ (0x80 + r / 4096 % 64) % 256 = c1 ∧
      (0x80 + r / 64 % 64) % 256 = c2 ∧ (0x80 + r % 64) % 256 = c3 := by
  split at h1 <;> split at h1' <;> omega

/-! ### `encodeRune` by size class -/

theorem encodeRune_1 (r : Nat) (h : r < 0x80) : encodeRune r = [UInt8.ofNat r] := by
  unfold encodeRune
  have h1 : ¬ ((0xD800 ≤ r ∧ r ≤ 0xDFFF) ∨ r > 0x10FFFF) := by omega
  simp only [h1, if_false, h, if_true]

theorem encodeRune_2 (r : Nat) (h : 0x80 ≤ r) (h' : r < 0x800) :
    encodeRune r = [UInt8.ofNat (0xC0 + r / 64), UInt8.ofNat (0x80 + r % 64)] := by
  unfold encodeRune
  have h1 : ¬ ((0xD800 ≤ r ∧ r ≤ 0xDFFF) ∨ r > 0x10FFFF) := by omega
  have h2 : ¬ r < 0x80 := by omega
  simp only [h1, if_false, h2, h', if_true]

theorem encodeRune_3 (r : Nat) (h : 0x800 ≤ r) (h' : r < 0x10000) (hs : ¬ (0xD800 ≤ r ∧ r ≤ 0xDFFF)) :
    encodeRune r = [UInt8.ofNat (0xE0 + r / 4096), UInt8.ofNat (0x80 + r / 64 % 64), UInt8.ofNat (0x80 + r % 64)] := by
  unfold encodeRune
  have h1 : ¬ ((0xD800 ≤ r ∧ r ≤ 0xDFFF) ∨ r > 0x10FFFF) := by omega
  have h2 : ¬ r < 0x80 := by omega
  have h3 : ¬ r < 0x800 := by omega
  simp only [h1, if_false, h2, h3, h', if_true]

theorem encodeRune_4 (r : Nat) (h : 0x10000 ≤ r) (h' : r ≤ 0x10FFFF) :
    encodeRune r = [UInt8.ofNat (0xF0 + r / 262144), UInt8.ofNat (0x80 + r / 4096 % 64),
      UInt8.ofNat (0x80 + r / 64 % 64), UInt8.ofNat (0x80 + r % 64)] := by
  unfold encodeRune
  have h1 : ¬ ((0xD800 ≤ r ∧ r ≤ 0xDFFF) ∨ r > 0x10FFFF) := by omega
  have h2 : ¬ r < 0x80 := by omega
  have h3 : ¬ r < 0x800 := by omega
  have h4 : ¬ r < 0x10000 := by omega
  simp only [h1, if_false, h2, h3, h4]

/-! ### successful decodes -/

/-- A decode of nonempty input that is not the error result `(RuneError, 1)` consumed a well-formed
    sequence `pre`: `encodeRune` gives it back, and the decode does not depend on what follows. -/
theorem decodeRune_ok {s : Bytes} {r n : Nat} (h : decodeRune s = (r, n))
    (hne : ¬ (r = runeError ∧ n = 1)) (hs : s ≠ []) :
    ∃ pre post, s = pre ++ post ∧ pre.length = n ∧ 1 ≤ n ∧ encodeRune r = pre ∧
      ∀ t, decodeRune (pre ++ t) = (r, n) := by
  cases s with
  | nil => exact absurd rfl hs
  | cons b0 rest =>
    unfold decodeRune at h
    dsimp only at h
    by_cases c1 : b0.toNat < 0x80
    · simp only [c1, if_true] at h
      obtain ⟨rfl, rfl⟩ := Prod.mk.inj h
      refine ⟨[b0], rest, rfl, rfl, by omega, ?_, ?_⟩
      · rw [encodeRune_1 _ c1, UInt8.ofNat_toNat]
      · intro t; simp [decodeRune, c1]
    · simp only [c1, if_false] at h
      by_cases c2 : b0.toNat < 0xC2
      · simp only [c2, if_true] at h
        obtain ⟨rfl, rfl⟩ := Prod.mk.inj h
        exact absurd ⟨rfl, rfl⟩ hne
      · simp only [c2, if_false] at h
        by_cases c3 : b0.toNat < 0xE0
        · simp only [c3, if_true] at h
          cases rest with
          | nil =>
            obtain ⟨rfl, rfl⟩ := Prod.mk.inj h
            exact absurd ⟨rfl, rfl⟩ hne
          | cons b1 t0 =>
            dsimp only at h
            by_cases d : 0x80 ≤ b1.toNat ∧ b1.toNat ≤ 0xBF
            · rw [if_pos d] at h
              obtain ⟨hr, rfl⟩ := Prod.mk.inj h
              obtain ⟨a1, a2, a3, a4⟩ := utf8_arith2 b0.toNat b1.toNat r (by omega) c3 d.1 d.2 hr.symm
              refine ⟨[b0, b1], t0, rfl, rfl, by omega, ?_, ?_⟩
              · rw [encodeRune_2 r a1 a2, ofNat_eq_of_mod a3, ofNat_eq_of_mod a4]
              · intro t
                simp only [decodeRune, List.cons_append, List.nil_append, c1, c2, c3, if_false, if_true]
                rw [if_pos d, hr]
            · rw [if_neg d] at h
              obtain ⟨rfl, rfl⟩ := Prod.mk.inj h
              exact absurd ⟨rfl, rfl⟩ hne
        · simp only [c3, if_false] at h
          by_cases c4 : b0.toNat < 0xF0
          · simp only [c4, if_true] at h
            match rest, h with
            | [], h =>
              obtain ⟨rfl, rfl⟩ := Prod.mk.inj h
              exact absurd ⟨rfl, rfl⟩ hne
            | [_], h =>
              obtain ⟨rfl, rfl⟩ := Prod.mk.inj h
              exact absurd ⟨rfl, rfl⟩ hne
            | b1 :: b2 :: t0, h =>
              dsimp only at h
              by_cases d : (if b0.toNat = 0xE0 then 0xA0 else 0x80) ≤ b1.toNat ∧
                  b1.toNat ≤ (if b0.toNat = 0xED then 0x9F else 0xBF) ∧ 0x80 ≤ b2.toNat ∧ b2.toNat ≤ 0xBF
              · rw [if_pos d] at h
                obtain ⟨hr, rfl⟩ := Prod.mk.inj h
                obtain ⟨a1, a2, a3, a4, a5, a6⟩ :=
                  utf8_arith3 b0.toNat b1.toNat b2.toNat r (by omega) c4 d.1 d.2.1 d.2.2.1 d.2.2.2 hr.symm
                refine ⟨[b0, b1, b2], t0, rfl, rfl, by omega, ?_, ?_⟩
                · rw [encodeRune_3 r a1 a2 a3, ofNat_eq_of_mod a4, ofNat_eq_of_mod a5, ofNat_eq_of_mod a6]
                · intro t
                  simp only [decodeRune, List.cons_append, List.nil_append, c1, c2, c3, c4, if_false, if_true]
                  rw [if_pos d, hr]
              · rw [if_neg d] at h
                obtain ⟨rfl, rfl⟩ := Prod.mk.inj h
                exact absurd ⟨rfl, rfl⟩ hne
          · simp only [c4, if_false] at h
            by_cases c5 : b0.toNat < 0xF5
            · simp only [c5, if_true] at h
              match rest, h with
              | [], h =>
                obtain ⟨rfl, rfl⟩ := Prod.mk.inj h
                exact absurd ⟨rfl, rfl⟩ hne
              | [_], h =>
                obtain ⟨rfl, rfl⟩ := Prod.mk.inj h
                exact absurd ⟨rfl, rfl⟩ hne
              | [_, _], h =>
                obtain ⟨rfl, rfl⟩ := Prod.mk.inj h
                exact absurd ⟨rfl, rfl⟩ hne
              | b1 :: b2 :: b3 :: t0, h =>
                dsimp only at h
                by_cases d : (if b0.toNat = 0xF0 then 0x90 else 0x80) ≤ b1.toNat ∧
                    b1.toNat ≤ (if b0.toNat = 0xF4 then 0x8F else 0xBF) ∧ 0x80 ≤ b2.toNat ∧ b2.toNat ≤ 0xBF ∧
                    0x80 ≤ b3.toNat ∧ b3.toNat ≤ 0xBF
                · rw [if_pos d] at h
                  obtain ⟨hr, rfl⟩ := Prod.mk.inj h
                  obtain ⟨a1, a2, a3, a4, a5, a6⟩ :=
                    utf8_arith4 b0.toNat b1.toNat b2.toNat b3.toNat r (by omega) c5 d.1 d.2.1 d.2.2.1 d.2.2.2.1
                      d.2.2.2.2.1 d.2.2.2.2.2 hr.symm
                  refine ⟨[b0, b1, b2, b3], t0, rfl, rfl, by omega, ?_, ?_⟩
                  · rw [encodeRune_4 r a1 a2, ofNat_eq_of_mod a3, ofNat_eq_of_mod a4, ofNat_eq_of_mod a5,
                      ofNat_eq_of_mod a6]
                  · intro t
                    simp only [decodeRune, List.cons_append, List.nil_append, c1, c2, c3, c4, c5, if_false,
                      if_true]
                    rw [if_pos d, hr]
                · rw [if_neg d] at h
                  obtain ⟨rfl, rfl⟩ := Prod.mk.inj h
                  exact absurd ⟨rfl, rfl⟩ hne
            · simp only [c5, if_false] at h
              obtain ⟨rfl, rfl⟩ := Prod.mk.inj h
              exact absurd ⟨rfl, rfl⟩ hne

/-- `decodeRune_ok` phrased with `take`/`drop`. -/
theorem decodeRune_take {s : Bytes} {r n : Nat} (h : decodeRune s = (r, n))
    (hne : ¬ (r = runeError ∧ n = 1)) (hs : s ≠ []) :
    1 ≤ n ∧ n ≤ s.length ∧ encodeRune r = s.take n ∧ ∀ t, decodeRune (s.take n ++ t) = (r, n) := by
  obtain ⟨pre, post, rfl, hl, h1, he, ht⟩ := decodeRune_ok h hne hs
  have : (pre ++ post).take n = pre := List.take_left' hl
  rw [this]
  refine ⟨h1, ?_, he, ht⟩
  rw [List.length_append]; omega

/-! ### validity -/

theorem validUtf8_cons_err (vf : Nat) (s : Bytes) (hs : s ≠ []) (h : decodeRune s = (runeError, 1)) :
    validUtf8 (vf + 1) s = false := by
  cases s with
  | nil => exact absurd rfl hs
  | cons b rest => simp [validUtf8, h]

theorem validUtf8_cons_ok (vf : Nat) (s : Bytes) (r n : Nat) (hs : s ≠ []) (h : decodeRune s = (r, n))
    (hne : ¬ (r = runeError ∧ n = 1)) :
    validUtf8 (vf + 1) s = validUtf8 vf (s.drop n) := by
  cases s with
  | nil => exact absurd rfl hs
  | cons b rest =>
    simp only [validUtf8, h]
    rw [if_neg hne]

theorem decodeRune_ascii (b : UInt8) (rest : Bytes) (h : b.toNat < 0x80) :
    decodeRune (b :: rest) = (b.toNat, 1) := by
  simp [decodeRune, h]

/-- all-ASCII byte strings are valid UTF-8 -/
theorem validUtf8_of_ascii : ∀ (s : Bytes) (vf : Nat), (∀ b ∈ s, b.toNat < 0x80) → validUtf8 vf s = true := by
  intro s
  induction s with
  | nil => intro vf _; cases vf <;> simp [validUtf8]
  | cons b rest ih =>
    intro vf h
    cases vf with
    | zero => simp [validUtf8]
    | succ vf =>
      have hb : b.toNat < 0x80 := h b (by simp)
      rw [validUtf8_cons_ok vf (b :: rest) b.toNat 1 (by simp) (decodeRune_ascii b rest hb)
        (by unfold runeError; omega)]
      exact ih vf (fun x hx => h x (by simp [hx]))

theorem isValidUtf8_of_ascii (s : Bytes) (h : ∀ b ∈ s, b.toNat < 0x80) : isValidUtf8 s = true :=
  validUtf8_of_ascii s _ h

end Json
end Ipld
