/-
  Spec: which byte strings are one complete well-formed DAG-CBOR item, and which value each denotes.
  Written from the DAG-CBOR specification and the documented tolerances of the decoder
  (codec/dagcbor/doc.go): map keys need not be sorted, 16- and 32-bit floats are accepted,
  `undefined` (0xf7) reads as null.  Nothing else is tolerated: definite lengths only, shortest
  heads only, string keys without duplicates, no tag but 42 and that only around 0x00‖valid CID,
  no NaN/±Inf, integers in [-2^63, 2^64).

  `Denotes v bs` is defined by structural recursion on the value, so it can be read clause by clause.
-/
import IpldModel.Model.Base
import IpldModel.Spec.CanonCbor
namespace Ipld
namespace Spec

def finite64 (b : Nat) : Prop := ¬ (b / 2 ^ 52 % 2048 = 2047)
instance (b : Nat) : Decidable (finite64 b) := by unfold finite64; exact inferInstance

/-- the 64-bit float `f` can be written on the wire as … -/
def FloatBytes (f : Nat) (bs : Bytes) : Prop :=
  bs = 0xfb :: be 8 f
  ∨ (∃ w, w < 2 ^ 32 ∧ f32to64 w = f ∧ bs = 0xfa :: be 4 w)
  ∨ (∃ h, h < 2 ^ 16 ∧ f16to64 h = f ∧ bs = 0xf9 :: be 2 h)

mutual
def Denotes : DM → Bytes → Prop
  | .null, bs => bs = [0xf6] ∨ bs = [0xf7]
  | .bool b, bs => bs = [if b then 0xf5 else 0xf4]
  | .int i, bs =>
      (0 ≤ i ∧ i < 2 ^ 64 ∧ bs = shortestHead 0 i.toNat)
      ∨ (i < 0 ∧ -(2 ^ 63) ≤ i ∧ bs = shortestHead 1 (-1 - i).toNat)
  | .float f, bs => finite64 f.toNat ∧ FloatBytes f.toNat bs
  | .str s, bs => bs = shortestHead 3 s.length ++ s
  | .bytes b, bs => bs = shortestHead 2 b.length ++ b
  | .link c, bs => cidValid c = true ∧ bs = shortestHead 6 42 ++ (shortestHead 2 (c.length + 1) ++ (0x00 :: c))
  | .list xs, bs => ∃ body, bs = shortestHead 4 xs.length ++ body ∧ DenotesList xs body
  | .map es, bs => es.keys.Nodup ∧ ∃ body, bs = shortestHead 5 es.length ++ body ∧ DenotesKVs es body
def DenotesList : DMs → Bytes → Prop
  | .nil, bs => bs = []
  | .cons x xs, bs => ∃ b1 b2, bs = b1 ++ b2 ∧ Denotes x b1 ∧ DenotesList xs b2
def DenotesKVs : DMKVs → Bytes → Prop
  | .nil, bs => bs = []
  | .cons k v es, bs => ∃ b1 b2, bs = (shortestHead 3 k.length ++ k) ++ (b1 ++ b2) ∧ Denotes v b1 ∧ DenotesKVs es b2
end

/-! ### an executable verifier of `Denotes` (used as the oracle on what the implementation accepts) -/

def stripPrefix : Bytes → Bytes → Option Bytes
  | [], bs => some bs
  | _ :: _, [] => none
  | p :: ps, b :: bs => if p = b then stripPrefix ps bs else none

def beValS : Bytes → Nat
  | [] => 0
  | b :: bs => b.toNat * 256 ^ bs.length + beValS bs

mutual
/-- `checkItem v bs = some rest` iff a prefix of `bs` denotes `v` and `rest` is what follows. -/
def checkItem : DM → Bytes → Option Bytes
  | .null, bs => match bs with
      | b :: r => if b = 0xf6 ∨ b = 0xf7 then some r else none
      | [] => none
  | .bool b, bs => stripPrefix [if b then 0xf5 else 0xf4] bs
  | .int i, bs =>
      if 0 ≤ i then (if i < 2 ^ 64 then stripPrefix (shortestHead 0 i.toNat) bs else none)
      else if -(2 ^ 63) ≤ i then stripPrefix (shortestHead 1 (-1 - i).toNat) bs else none
  | .float f, bs =>
      if ¬ finite64 f.toNat then none else
      match bs with
      | 0xfb :: r => if r.length < 8 then none else if beValS (r.take 8) = f.toNat then some (r.drop 8) else none
      | 0xfa :: r => if r.length < 4 then none else if f32to64 (beValS (r.take 4)) = f.toNat then some (r.drop 4) else none
      | 0xf9 :: r => if r.length < 2 then none else if f16to64 (beValS (r.take 2)) = f.toNat then some (r.drop 2) else none
      | _ => none
  | .str s, bs => stripPrefix (shortestHead 3 s.length ++ s) bs
  | .bytes b, bs => stripPrefix (shortestHead 2 b.length ++ b) bs
  | .link c, bs =>
      if cidValid c then stripPrefix (shortestHead 6 42 ++ (shortestHead 2 (c.length + 1) ++ (0x00 :: c))) bs else none
  | .list xs, bs => (stripPrefix (shortestHead 4 xs.length) bs).bind (checkList xs)
  | .map es, bs => if es.noDupKeysIn [] then (stripPrefix (shortestHead 5 es.length) bs).bind (checkKVs es) else none
def checkList : DMs → Bytes → Option Bytes
  | .nil, bs => some bs
  | .cons x xs, bs => (checkItem x bs).bind (checkList xs)
def checkKVs : DMKVs → Bytes → Option Bytes
  | .nil, bs => some bs
  | .cons k v es, bs => ((stripPrefix (shortestHead 3 k.length ++ k) bs).bind (checkItem v)).bind (checkKVs es)
end

/-- Does `bs` as a whole denote `v`?  (Only the keys at one level are checked for duplicates by
    `noDupKeysIn []` on that level's entry list; nested maps are checked when reached.) -/
def denotesCheck (v : DM) (bs : Bytes) : Bool := checkItem v bs == some []

end Spec
end Ipld
