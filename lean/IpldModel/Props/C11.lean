/-
  C11 — finished nodes are immutable.  Stated over the heap-level model of basicnode's map and list
  builders (`IpldModel/Model/Heap.lean`): nodes are heap objects, entry tables and list contents are
  Go slices over shared backing arrays (`append` writes in place while there is capacity), the
  shortcut `*na.w = *v2` copies headers so that nodes share arrays and lookup maps, and builders are
  reset and reused.  Property theorems only; the invariant `HInv` (`HeapInv` + frame conditions), the
  relational form of `hstep`, the abstraction `toPure` and all helper lemmas are in
  `IpldModel/Lemmas/Heap*.lean`.  See DESIGN §5 C11.

  Reading is not a builder call: the model has no `HOp` for reading, `absRef` (what a reader sees)
  and `readSet` (the locations it touches) are functions of the heap alone, so reading writes
  nothing and two reads of the same heap agree by construction (A3).  What needs proof is that
  *building* never disturbs what a reader of a finished node sees (A2).
-/
import IpldModel.Lemmas.HeapRefine
import IpldModel.Lemmas.HeapExamples
import IpldModel.Generated.AsmFacts
namespace Ipld.Props.C11
open Ipld Ipld.Asm Ipld.Heap

/-! ### A1 — the invariant -/

/-- The invariant holds of a fresh builder on an empty heap. -/
theorem frozen_inv_init : HInv {} := hinv_init

/-- Every well-formed builder call preserves the invariant: ids, array and lookup-map indices are in
    range; objects under construction are unfinished and pairwise distinct; an unfinished object
    owns its backing array and its lookup map exclusively (so in-place `append` is safe); every
    object refers only to scalars and finished nodes; finished nodes are acyclic. -/
theorem frozen_inv {s : HSt} {op : HOp} (hi : HInv s) (hw : OpWf s op) : HInv (hstep s op) :=
  hstep_inv hi hw

/-- The invariant holds after every well-formed history. -/
theorem frozen_inv_run {ops : List HOp} (hw : HistWf {} ops) : HInv (hrun {} ops) :=
  hrun_inv hinv_init hw

/-! ### A2 — a finished node reads the same after any further building -/

/-- THE PROPERTY.  Split a well-formed history anywhere: a node that is finished after the first
    part reads exactly the same (with any fuel) after the second part — whatever the second part
    does: store the node by reference in containers that are extended later, copy its header with
    the shortcut, reset and reuse builders, grow slices in place or by reallocation. -/
theorem read_stable (ops₁ ops₂ : List HOp) (hw : HistWf {} (ops₁ ++ ops₂)) (id : Nat)
    (hid : id ∈ (hrun {} ops₁).h.finished) (fuel : Nat) :
    absRef (hrun (hrun {} ops₁) ops₂).h fuel (.obj id) = absRef (hrun {} ops₁).h fuel (.obj id) := by
  obtain ⟨hw1, hw2⟩ := HistWf.append.1 hw
  have hi := hrun_inv hinv_init hw1
  exact absRef_congr (· ∈ (hrun {} ops₁).h.finished) (fun j hj => hrun_same hi hw2 hj)
    hi.heap.closed_fin fuel id hid

/-- Footprint form: none of the locations written by the second part of the history (object headers,
    array cells, lookup maps) is a location that a reader of a node finished after the first part
    touches.  (`written` logs every write, most recent first; freshly allocated cells are not
    logged and cannot be in the read set of an older node.) -/
theorem no_write_to_finished (ops₁ ops₂ : List HOp) (hw : HistWf {} (ops₁ ++ ops₂)) :
    ∃ w, (hrun (hrun {} ops₁) ops₂).written = w ++ (hrun {} ops₁).written ∧
      ∀ l ∈ w, ∀ id ∈ (hrun {} ops₁).h.finished, ∀ fuel,
        l ∉ readSet (hrun {} ops₁).h fuel (.obj id) := by
  obtain ⟨hw1, hw2⟩ := HistWf.append.1 hw
  exact hrun_written (hrun_inv hinv_init hw1) hw2

/-- The locations a reader of a finished node touches are themselves the same after any further
    building (so the footprint statement above speaks about a fixed set). -/
theorem readSet_stable (ops₁ ops₂ : List HOp) (hw : HistWf {} (ops₁ ++ ops₂)) (id : Nat)
    (hid : id ∈ (hrun {} ops₁).h.finished) (fuel : Nat) :
    readSet (hrun (hrun {} ops₁) ops₂).h fuel (.obj id) = readSet (hrun {} ops₁).h fuel (.obj id) := by
  obtain ⟨hw1, hw2⟩ := HistWf.append.1 hw
  have hi := hrun_inv hinv_init hw1
  exact readSet_congr (· ∈ (hrun {} ops₁).h.finished) (fun j hj => hrun_same hi hw2 hj)
    hi.heap.closed_fin fuel id hid

/-- One-step form, from any state satisfying the invariant: a well-formed call leaves the header,
    the visible cells and the lookup map of every finished node exactly as they were. -/
theorem step_keeps_finished {s : HSt} {op : HOp} (hi : HInv s) (hw : OpWf s op) {id : Nat}
    (hid : id ∈ s.h.finished) : SameObj s.h (hstep s op).h id :=
  hstep_same hi hw (hi.heap.fin_lt id hid)
    (fun hm => hi.ids_unfin id (List.mem_append_left _ hm) hid)

/-! ### A3 — reading does not write; finished is forever -/

/-- Once a node is finished it stays finished (no call un-finishes a node, so A2 applies to it for
    the rest of the history). -/
theorem finished_monotone (s : HSt) (op : HOp) {id : Nat} (h : id ∈ s.h.finished) :
    id ∈ (hstep s op).h.finished :=
  Heap.finished_monotone s op h

/-! ### A4 — the heap-level model refines the pure assembler model -/

/-- One call.  For a state satisfying the invariant whose abstraction has well-shaped map frames
    (`PInv`; it holds initially and is preserved, see `refines_run`), a well-formed call that is not
    misuse (`NoMisuse`: no `reset`, no shortcut — the pure model has no such calls —, `keyString`
    given to a key assembler and only `keyString` given to it, `assignScalar` with a scalar), and fuel
    exceeding the number of finished nodes (so that reads are not truncated): the abstraction of the
    heap-level step is the pure step on the abstraction, with the call translated by `trOp`
    (`keyString k ↦ assign (.str k)`, `assignScalar d ↦ assign d`,
    `assignNode r ↦ assignNode (absRef h fuel r)`, the others unchanged). -/
theorem refines_step {s : HSt} {op : HOp} {o : Op} (fuel : Nat) (hi : HInv s) (hw : OpWf s op)
    (hp : PInv (toPure fuel s)) (hF : s.h.finished.length < fuel) (hm : NoMisuse s op)
    (ht : trOp (absRef s.h fuel) op = some o) :
    toPure fuel (hstep s op) = (step (toPure fuel s) o).1 :=
  step_refines fuel hi hw hp hF hm ht

/-- All calls, including misuse, `reset` and the shortcut: the abstraction of the heap-level step is
    the abstract step `astep`, which is `hstep` written over pure states. -/
theorem refines_astep {s : HSt} {op : HOp} (fuel : Nat) (hi : HInv s) (hw : OpWf s op)
    (hp : PInv (toPure fuel s)) (hF : s.h.finished.length < fuel) :
    toPure fuel (hstep s op) = astep (toPure fuel s) (absRef s.h fuel) op :=
  toPure_hstep fuel hi hw hp hF

/-- Whole histories from the initial state: the abstraction of the heap-level run is the pure run
    (outcomes ignored) of the translated history. -/
theorem refines_run (ops : List HOp) (fuel : Nat) (hw : HistWf {} ops) (hok : HistOk {} ops)
    (hF : (hrun {} ops).h.finished.length < fuel) :
    toPure fuel (hrun {} ops) = steps (Asm.init .any) (pureOps fuel {} ops) :=
  run_refines fuel hinv_init hw hok (pinv_init fuel) hF

/-- Corollary: what `Build()` returns at heap level, read as a data-model value, is the value the
    pure model builds from the translated history (provided no call of the translated history
    panics: the pure model stops at a panic, the heap model treats misuse as a no-op). -/
theorem refines_build (ops : List HOp) (fuel : Nat) (hw : HistWf {} ops) (hok : HistOk {} ops)
    (hF : (hrun {} ops).h.finished.length < fuel)
    (hnp : Out.panic ∉ (Asm.run (Asm.init .any) (pureOps fuel {} ops)).2) :
    hbuild fuel (hrun {} ops) = Asm.build (Asm.run (Asm.init .any) (pureOps fuel {} ops)).1 := by
  rw [run_no_panic hnp, ← refines_run ops fuel hw hok hF, build_toPure]

/-! ### examples -/

/-- node 0 = {a: 1, b: 2}, built with size hint 4 (two spare cells) -/
example : absRef (hrun {} histA).h 5 (.obj 0) = .map (.cons ka (.int 1) (.cons kb (.int 2) .nil)) := by
  decide

example : 0 ∈ (hrun {} histA).h.finished := by decide

example : HistWf {} (histA ++ histB) := by decide

/-- after the shortcut copy (which shares the array with spare capacity), storing the node in a list
    that outgrows its capacity, storing it in another map, and three resets: still {a: 1, b: 2} -/
example : absRef (hrun (hrun {} histA) histB).h 5 (.obj 0) =
    .map (.cons ka (.int 1) (.cons kb (.int 2) .nil)) := by
  decide

/-- the same, from the theorem instead of by evaluation, for every fuel -/
example (fuel : Nat) : absRef (hrun (hrun {} histA) histB).h fuel (.obj 0) =
    absRef (hrun {} histA).h fuel (.obj 0) :=
  read_stable histA histB (by decide) 0 (by decide) fuel

/-- the shortcut copy really shares: nodes 0 and 1 have the same header after everything -/
example : (hrun (hrun {} histA) histB).h.objs.getD 0 default =
    (hrun (hrun {} histA) histB).h.objs.getD 1 default := by
  decide

/-- refinement on a concrete nested history: {a: [1, {b: null}]} -/
example : hbuild 4 (hrun {} histC) =
    some (.map (.cons ka (.list (.cons (.int 1) (.cons (.map (.cons kb .null .nil)) .nil))) .nil)) := by
  decide

example : hbuild 4 (hrun {} histC) = Asm.build (Asm.run (Asm.init .any) (pureOps 4 {} histC)).1 :=
  refines_build histC 4 (by decide) (by decide) (by decide) (by decide)


/-- (T) The write discipline the heap model's `hstep` assumes, read off the source on this run: a basicnode map/list
    assembler method that writes a field of the node under construction (`m`, `t`, `x`) is either guarded by the
    assembler's *initial* state (it panics once the node is finished), or is the child-value/key assembler's completion,
    which drops its back-pointer in the same call, or is `Begin*`, which (re)allocates the fields.  No method guarded by
    the finished state — in particular `Build` — writes anything. -/
theorem node_writes_need_unfinished_src :
    (Ipld.Generated.maFacts_src ++ Ipld.Generated.laFacts_src).all (fun f =>
      (!(f.writes.any (fun w => w == "m" || w == "t" || w == "x")) ||
        (f.guard == "maState_initial" || f.guard == "laState_initial" || f.nilsBack ||
          f.name == "BeginMap" || f.name == "BeginList")) &&
      (!(f.guard == "maState_finished" || f.guard == "laState_finished") || f.writes == [])) = true := by decide

end Ipld.Props.C11
