/-
  C16 (selector-driven part) — `traversal.WalkTransforming` is a pure functional update: the model `WalkT.walkT`
  (`Model/WalkTransform.lean`, a statement-by-statement transcription of `walkTransforming` and its two iterate
  functions, tied to the code by the `xform.walkt` correspondence of `go/internal/checks/c16.go`) against

    * the rewriting spec `Spec.Rewrites` (`Spec/WalkTransformSpec.lean`): the result is the input with exactly the
      positions replaced where the callback was called and answered another node — the replacement is what the callback
      answered for the node currently there, nothing below a replacement is visited — every other entry the same value
      under the same key at the same place; links the loader skips, or that were seen before, stay; explored, loaded
      links come back INLINED (what the code does: known finding `C16/walk-transform-inlines-linked-blocks`);
    * the matching walk `Walk.walk` (C07's model of `WalkMatching`): the callback is called at the positions the walk
      matches, with the same nodes, in the same order, requests the same links at the same moments, spends the same
      budgets and ends the same way — under the hypotheses that are forced (see `walkT_calls_eq_matches`).

  For all trees, stores, selectors, fuels, budgets and configurations.  Property theorems only; the lemmas are in
  `Lemmas/WalkTransform*.lean`.
-/
import IpldModel.Lemmas.WalkTransformTop
import IpldModel.Lemmas.WalkTransformInv
import IpldModel.Lemmas.WalkExamples
namespace Ipld.Props.C16walk
open Ipld Ipld.Sel Ipld.Walk Ipld.WalkT Ipld.Spec

/-! ## exactly the targeted positions are replaced -/

/-- **walkT_replaces_exactly.**  Whatever `walkTransforming` returns — any selector, callback, configuration, shared
    state, fuel — is its input rewritten exactly where the events it logged say (`Spec.Rewrites`; `evs` are the new
    events in the order they happened): a position differs from the input only if the callback was called there and
    answered another node (then it holds that very node, and nothing below it was visited) or if it held a link that
    was requested, not skipped, and found (then it holds the block, rewritten in turn); every other entry is the same
    value under the same segment at the same place, and every logged call / request is accounted for by one position. -/
theorem walkT_replaces_exactly (cfg : Cfg) (fn : TFn) (fuel : Nat) (path : Path) (n : DM) (s : S) (st st' : St) (r : DM)
    (h : walkT cfg fn fuel path n s st = (st', .ok r)) :
    ∃ evs, st'.events = evs.reverse ++ st.events ∧ Rewrites cfg fn path n r evs :=
  walkT_sound cfg fn fuel path n s st st' r h

/-- The same for a whole run from the root. -/
theorem run_replaces_exactly (cfg : Cfg) (fn : TFn) (fuel : Nat) (nb lb : Option Int) (root : DM) (s : S) (r : DM)
    (h : (run cfg fn fuel nb lb root s).outcome = .ok r) :
    Rewrites cfg fn [] root r (run cfg fn fuel nb lb root s).events :=
  run_rewrites cfg fn fuel nb lb root s r h

/-- Entries keep their place: the rewritten children of a container sit under the original segments, in the
    original order. -/
theorem rewritten_entries_in_order (cfg : Cfg) (fn : TFn) (path : Path) (l out : List (Seg × DM)) (evs : List Event)
    (h : RewritesCh cfg fn path l out evs) : out.map (·.1) = l.map (·.1) :=
  rewritesCh_segs h

/-- A rebuilt map has the keys of the original, in the original order; a rebuilt list the original length. -/
theorem rebuilt_map_keeps_keys (cfg : Cfg) (fn : TFn) (path : Path) (es : DMKVs) (out : List (Seg × DM))
    (evs : List Event) (h : RewritesCh cfg fn path (children (.map es)) out evs) :
    ∃ fs, rebuild (.map es) out = .map fs ∧ fs.keys = es.keys :=
  rebuild_map_keys h

theorem rebuilt_list_keeps_length (cfg : Cfg) (fn : TFn) (path : Path) (xs : DMs) (out : List (Seg × DM))
    (evs : List Event) (h : RewritesCh cfg fn path (children (.list xs)) out evs) :
    ∃ ys, rebuild (.list xs) out = .list ys ∧ ys.length = xs.length :=
  rebuild_list_length h

/-- **The callback sees the node currently at the target.**  In every run — any selector, callback, budgets, fuel,
    WHATEVER THE OUTCOME (also a run that ends in an error after some calls) — over a duplicate-free graph none of whose
    blocks is a bare link, every call of the callback is made with the path of a position and the node
    `traversal.Get` resolves that path to (links on the way loaded from the store).  The two hypotheses are the ones
    C14's `visit_resolves` needs of the walk, for the same reasons (a path does not name one position in a map with a
    repeated key; `Get` keeps following a block that is a bare link where the traversal hands the link node on). -/
theorem walkT_callback_sees_current (cfg : Cfg) (fn : TFn) (F : Nat) (root : DM) (hroot : root.NoDup)
    (hstore : ∀ c blk, storeGet cfg.store c = some blk → blk.NoDup ∧ ∀ c', blk ≠ .link c')
    (fuel : Nat) (nb lb : Option Int) (s : S)
    (p : Path) (m : DM) (hc : (p, m) ∈ callsOf (run cfg fn fuel nb lb root s).events) :
    get cfg.store (F + 2) root p = .ok m :=
  run_calls_resolve_any cfg fn F root hroot hstore fuel nb lb s p m hc

/-- The same read off the rewriting spec of a successful run (the calls are the spec's `replaced` / `called…`
    positions, and each of those sits where `get` arrives). -/
theorem rewrites_calls_see_current (cfg : Cfg) (fn : TFn) (F : Nat) (root : DM)
    (hstore : ∀ c blk, storeGet cfg.store c = some blk → blk.NoDup ∧ ∀ c', blk ≠ .link c')
    (path : Path) (n r : DM) (evs : List Event) (h : Rewrites cfg fn path n r evs) (hn : n.NoDup)
    (hg : get cfg.store (F + 2) root path = .ok n) (p : Path) (m : DM) (rs : Reason)
    (he : Event.visit p m rs ∈ evs) : rs = .matched ∧ get cfg.store (F + 2) root p = .ok m :=
  rewrites_calls_resolve F root hstore h hn hg p m rs he

/-! ## the identity transform -/

/-- **walkT_identity.**  With a callback that never answers another node, a successful run in which no request to
    the loader was answered with a block (every requested link is one the loader skips) returns the root itself:
    equal, entries in their original order.  (When a block WAS loaded the result holds that block inlined where the
    link was — `walkT_replaces_exactly`, constructor `inlined` — which is the known finding, not an identity.) -/
theorem walkT_identity (cfg : Cfg) (fn : TFn) (hfn : ∀ p d e, fn p d ≠ .replace e) (fuel : Nat) (nb lb : Option Int)
    (root : DM) (s : S) (r : DM) (h : (run cfg fn fuel nb lb root s).outcome = .ok r)
    (hl : ∀ c ∈ loadsOf (run cfg fn fuel nb lb root s).events, cfg.skip.contains c = true) : r = root :=
  run_identity cfg fn hfn fuel nb lb root s r h hl

/-- A tree without links makes no request to the loader, whatever the selector and callback. -/
theorem walkT_linkFree_no_load (cfg : Cfg) (fn : TFn) (fuel : Nat) (nb lb : Option Int) (root : DM) (s : S) (r : DM)
    (h : (run cfg fn fuel nb lb root s).outcome = .ok r) (hn : hasLink root = false) :
    loadsOf (run cfg fn fuel nb lb root s).events = [] :=
  run_linkFree_no_load cfg fn fuel nb lb root s r h hn

/-- **Identity on link-free trees.**  The identity transform of a tree without links, under any selector, store,
    budget and fuel, returns the tree it was given whenever it returns a tree. -/
theorem walkT_identity_linkFree (cfg : Cfg) (fn : TFn) (hfn : ∀ p d e, fn p d ≠ .replace e) (fuel : Nat)
    (nb lb : Option Int) (root : DM) (s : S) (r : DM) (h : (run cfg fn fuel nb lb root s).outcome = .ok r)
    (hn : hasLink root = false) : r = root :=
  run_identity cfg fn hfn fuel nb lb root s r h (by
    rw [run_linkFree_no_load cfg fn fuel nb lb root s r h hn]; intro c hc; cases hc)

/-- The same from the rewriting spec alone: no replacement and no loaded block mean no change. -/
theorem rewrites_without_change (cfg : Cfg) (fn : TFn) (hfn : ∀ p d e, fn p d ≠ .replace e) (path : Path) (n r : DM)
    (evs : List Event) (h : Rewrites cfg fn path n r evs)
    (hl : ∀ c, Event.load c ∈ evs → cfg.skip.contains c = true) : r = n :=
  rewrites_identity hfn h hl

/-! ## links that are not explored stay; `LinkVisitOnlyOnce` -/

/-- **walkT_skip_keeps_link.**  A link child for which the loader answers SkipMe, or which is in the seen-set under
    `LinkVisitOnlyOnce`, is assigned to the rebuilt container as the link it is — the level below is not entered,
    whatever it would do — unless the link budget, or `Explore`, ends the transform with an error. -/
theorem walkT_skip_keeps_link (cfg : Cfg) (rec : Path → DM → S → St → TR) (path : Path) (n : DM) (s : S)
    (attn : Option (List Seg)) (ps : Seg) (c : Bytes) (st : St)
    (h : cfg.skip.contains c = true ∨ (cfg.linkOnce = true ∧ st.seen.contains c = true)) :
    (tChild cfg rec path n s attn ps (.link c) st).2 = .ok (.link c) ∨
    (tChild cfg rec path n s attn ps (.link c) st).2 = .error (.walk .budgetLink) ∨
    (tChild cfg rec path n s attn ps (.link c) st).2 = .error (.walk .selector) ∨
    (tChild cfg rec path n s attn ps (.link c) st).2 = .error (.walk .panic) :=
  tChild_link_stays cfg rec path n s attn ps c st h

/-- A link that was seen before is not even requested: the shared state does not change. -/
theorem seen_link_not_requested (cfg : Cfg) (c : Bytes) (st : St) (hl : cfg.linkOnce = true)
    (hc : st.seen.contains c = true) : loadStep cfg c st = (st, .ok none) :=
  linkStep_seen cfg c st hl hc

/-- In the result: the entry of a container that held a skipped link holds that link, at the same index, under the
    same segment — anywhere in the tree (`RewritesCh` relates the children of every rebuilt container). -/
theorem skipped_link_stays (cfg : Cfg) (fn : TFn) (path : Path) (l out : List (Seg × DM)) (evs : List Event)
    (h : RewritesCh cfg fn path l out evs) (i : Nat) (ps : Seg) (c : Bytes) (hi : l[i]? = some (ps, .link c))
    (hk : cfg.skip.contains c = true) : out[i]? = some (ps, .link c) :=
  rewritesCh_skipped_stays h i ps c hi hk

/-- **walkT_once (the invariant).**  Under `LinkVisitOnlyOnce`, from ANY shared state in which no link was requested
    twice and every requested link is in the seen-set, `walkTransforming` — at any level of the recursion, any path,
    node, selector — ends in such a state: the seen-set is one for the whole transform.  (The defect repaired by
    8278c1e was a seen-set per level; a model with that defect fails this theorem at `hLink`.) -/
theorem walkT_once_inv (cfg : Cfg) (hl : cfg.linkOnce = true) (fn : TFn) (fuel : Nat) (path : Path) (n : DM) (s : S)
    (st : St) (h : (loadsOf st.events).Nodup ∧ ∀ c ∈ loadsOf st.events, c ∈ st.seen) :
    (loadsOf (walkT cfg fn fuel path n s st).1.events).Nodup ∧
      ∀ c ∈ loadsOf (walkT cfg fn fuel path n s st).1.events, c ∈ (walkT cfg fn fuel path n s st).1.seen :=
  walkT_onceInv cfg hl fn fuel path n s st h

/-- **walkT_once.**  Under `LinkVisitOnlyOnce` a whole transform requests each distinct link at most once (so, by
    `walkT_replaces_exactly`, inlines each distinct link at most once: every `inlined` entry has its own request in
    the log). -/
theorem walkT_once (cfg : Cfg) (hl : cfg.linkOnce = true) (fn : TFn) (fuel : Nat) (nb lb : Option Int) (root : DM)
    (s : S) : (loadsOf (run cfg fn fuel nb lb root s).events).Nodup :=
  run_loads_nodup cfg hl fn fuel nb lb root s

/-! ## the callback sees what `WalkMatching` visits -/

/-- **walkT_calls_eq_matches.**  With a callback that always answers the node it was given, the transform and the
    walk of the same graph under the same selector, store, skip set, visit-once switch and budgets run in lock step:
    the same observed log (matched visits — path text and node — and loader requests, interleaved as they happened), so
    in particular the callback's calls are `WalkMatching`'s visits, in the same order; the same outcome; the same
    budgets left; the same seen-set.  `f` and `g` are the fuels of the two models (they consume fuel differently);
    the statement is for all `f`, `g` that do not run out.

    Hypotheses, each forced (counterexamples below, by evaluation):
      * `cfg.startAt = []`: `walkTransforming` does not read `StartAtPath`; the walk skips what lies before it.
      * `AlignedAt n s'` at every position the walk can reach: the walk runs over the selector's interests IN THE
        SELECTOR'S ORDER and finds each by `LookupBySegment`; the transform runs over the node's children IN THE NODE'S
        ORDER and keeps those `contains(attn, ps)` accepts.  A fields clause naming `l` before `a` over a map holding `a`
        before `l` is visited `l, a` and transformed `a, l`; a fields clause naming a list element "01" is visited
        (index 1) and not transformed ("01" ≠ "1": the known finding `C16/walk-transform-noncanonical-index-field`).
        Holds of every selector without explicit interests (`aligned_of_no_interests`), of explore-everything
        selectors everywhere (`walkT_calls_eq_matches_all`), and is decidable position by position
        (`walkT_calls_eq_matches_checked`).
      * `PlainMatch s' n` at every such position: a matcher with a subset clause `Decide`s every node (the callback is
        called) but `Match`es only strings and bytes, sliced (the walk reports a candidate, or a slice). -/
theorem walkT_calls_eq_matches (cfg : Cfg) (hs : cfg.startAt = []) (fn : TFn) (hfn : ∀ p d, fn p d = .same)
    (root : DM) (s : S)
    (hal : ∀ path n s', Reach cfg root s path n s' → AlignedAt n s' ∧ PlainMatch s' n)
    (f g : Nat) (nb lb : Option Int)
    (hf : (walk cfg f nb lb root s).outcome ≠ .error .fuel)
    (hg : (run cfg fn g nb lb root s).outcome ≠ .error (.walk .fuel)) :
    observedLog (run cfg fn g nb lb root s).events = observedLog (walk cfg f nb lb root s).events ∧
    callTexts (callsOf (run cfg fn g nb lb root s).events) = callTexts (matchesOf (walk cfg f nb lb root s).events) ∧
    loadsOf (run cfg fn g nb lb root s).events = loadsOf (walk cfg f nb lb root s).events :=
  let h := run_vs_walk cfg hs fn hfn root s hal f g nb lb hf hg
  ⟨h.1, h.2.1, h.2.2.1⟩

/-- **Budgets and outcome (same hypotheses).**  The transform succeeds exactly when the walk does, fails with the
    walk's error otherwise (node budget, link budget, missing block, failing `Explore`, missing reifier) — never with
    a callback error — and leaves the same node budget, link budget and seen-set behind. -/
theorem walkT_outcome_eq_walk (cfg : Cfg) (hs : cfg.startAt = []) (fn : TFn) (hfn : ∀ p d, fn p d = .same)
    (root : DM) (s : S)
    (hal : ∀ path n s', Reach cfg root s path n s' → AlignedAt n s' ∧ PlainMatch s' n)
    (f g : Nat) (nb lb : Option Int)
    (hf : (walk cfg f nb lb root s).outcome ≠ .error .fuel)
    (hg : (run cfg fn g nb lb root s).outcome ≠ .error (.walk .fuel)) :
    ((walk cfg f nb lb root s).outcome = .ok () ↔ ∃ r, (run cfg fn g nb lb root s).outcome = .ok r) ∧
    (∀ e, (walk cfg f nb lb root s).outcome = .error e ↔ (run cfg fn g nb lb root s).outcome = .error (.walk e)) ∧
    (run cfg fn g nb lb root s).outcome ≠ .error .callback ∧
    (run cfg fn g nb lb root s).st.nodeBudget = (walk cfg f nb lb root s).st.nodeBudget ∧
    (run cfg fn g nb lb root s).st.linkBudget = (walk cfg f nb lb root s).st.linkBudget ∧
    (run cfg fn g nb lb root s).st.seen = (walk cfg f nb lb root s).st.seen :=
  (run_vs_walk cfg hs fn hfn root s hal f g nb lb hf hg).2.2.2

/-- A selector without explicit interests (`Interests()` nil: explore-all, a large range, a union with such a member,
    a recursion currently at one) is aligned at every node; so is one with an empty interest list (a matcher). -/
theorem aligned_of_no_interests (s : S) (n : DM) (h : interests s = none ∨ interests s = some []) : AlignedAt n s :=
  h.elim (fun h => alignedAt_of_noInterests h n) (fun h => alignedAt_of_emptyInterests h n)

/-- `Match` and `Decide` agree wherever `Match` answers the node itself; and whatever `Match` answers for, `Decide`
    accepts. -/
theorem plain_match_of_match (s : S) (n : DM) (h : matchNode s n = some n) : PlainMatch s n :=
  plainMatch_of_matchesAll h

theorem decide_of_match (s : S) (n m : DM) (h : matchNode s n = some m) : decideNode s n = true :=
  WalkT.decide_of_match s n m h

/-- **The explore-everything case, without hypotheses on the graph.**  For a selector that explores every child with
    itself and matches every node (`R(none, |[., a(@)])` is one: `C07.selAll_explores_all`), any graph, store, skip
    set, budgets, visit-once: the identity transform's callback sees exactly the positions `WalkMatching` visits, in
    the same order, and requests the same links. -/
theorem walkT_calls_eq_matches_all (cfg : Cfg) (hs : cfg.startAt = []) (fn : TFn) (hfn : ∀ p d, fn p d = .same)
    (root : DM) (s : S) (hall : ExploresAll s) (f g : Nat) (nb lb : Option Int)
    (hf : (walk cfg f nb lb root s).outcome ≠ .error .fuel)
    (hg : (run cfg fn g nb lb root s).outcome ≠ .error (.walk .fuel)) :
    observedLog (run cfg fn g nb lb root s).events = observedLog (walk cfg f nb lb root s).events ∧
    callTexts (callsOf (run cfg fn g nb lb root s).events) = callTexts (matchesOf (walk cfg f nb lb root s).events) ∧
    loadsOf (run cfg fn g nb lb root s).events = loadsOf (walk cfg f nb lb root s).events :=
  walkT_calls_eq_matches cfg hs fn hfn root s (aligned_of_exploresAll hall) f g nb lb hf hg

/-- **The decidable case.**  `alignedFrom cfg d root s` evaluates the two hypotheses position by position (greedy
    pairing of the two child lists, comparing segment text, index and child; `Match` against `Decide`) down to depth
    `d`; when it answers `true` they hold at every position the walk can reach. -/
theorem walkT_calls_eq_matches_checked (cfg : Cfg) (hs : cfg.startAt = []) (fn : TFn) (hfn : ∀ p d, fn p d = .same)
    (root : DM) (s : S) (d : Nat) (hchk : alignedFrom cfg d root s = true) (f g : Nat) (nb lb : Option Int)
    (hf : (walk cfg f nb lb root s).outcome ≠ .error .fuel)
    (hg : (run cfg fn g nb lb root s).outcome ≠ .error (.walk .fuel)) :
    observedLog (run cfg fn g nb lb root s).events = observedLog (walk cfg f nb lb root s).events ∧
    callTexts (callsOf (run cfg fn g nb lb root s).events) = callTexts (matchesOf (walk cfg f nb lb root s).events) ∧
    loadsOf (run cfg fn g nb lb root s).events = loadsOf (walk cfg f nb lb root s).events :=
  walkT_calls_eq_matches cfg hs fn hfn root s (aligned_of_check hchk) f g nb lb hf hg

/-- `Explore` reads a segment only through its text and its index: the string segment "1" a fields clause hands to
    the walk and the int segment 1 the list iterator hands to the transform get the same answer. -/
theorem explore_reads_text_and_index (a b : Seg) (h1 : a.toString = b.toString) (h2 : a.index = b.index) (s : S)
    (n : DM) : explore s n a = explore s n b :=
  explore_congr h1 h2 s n

section Examples
open Ipld.Walk.Ex Ipld.WalkT.Ex

/-! The example graph (`Lemmas/WalkExamples.lean`): root `{"a": [1, 2], "l": <link cid>}`, block `{"x": "hi"}`. -/

/-- successor of every matched int, explore-everything selector: `a`'s elements are replaced, everything else is in
    place and in order, the explored link comes back inlined (the known finding) -/
example : (run Ex.cfg fnSucc 20 none none Ex.root selAll).outcome = .ok rootSucc := by decide +kernel
/-- `walkT_replaces_exactly` applies to it -/
example : Rewrites Ex.cfg fnSucc [] Ex.root rootSucc (run Ex.cfg fnSucc 20 none none Ex.root selAll).events :=
  run_replaces_exactly Ex.cfg fnSucc 20 none none Ex.root selAll rootSucc (by decide +kernel)
/-- a derivation of the spec by hand, for `[1]` under a matcher-for-everything: the list is rebuilt, its element replaced -/
example : Rewrites {} fnSucc [] (.list (.cons (.int 1) .nil)) (.list (.cons (.int 2) .nil))
    [callEvent [] (.list (.cons (.int 1) .nil)), callEvent [.idx 0] (.int 1)] :=
  .calledRebuilt (out := [(.idx 0, .int 2)]) rfl rfl
    (.cons (e1 := [callEvent [.idx 0] (.int 1)]) (e2 := []) (fun c h => by cases h) (.replaced (fnSucc_int _)) (.nil _))
/-- the callback saw the nodes currently at its paths (hypotheses of `walkT_callback_sees_current` met) -/
example : ∀ p m, (p, m) ∈ callsOf (run Ex.cfg fnSucc 20 none none Ex.root selAll).events →
    get Ex.cfg.store 2 Ex.root p = .ok m :=
  fun p m h => walkT_callback_sees_current Ex.cfg fnSucc 0 Ex.root Ex.root_noDup
    (fun c blk hb => ⟨Ex.store_noDup c blk hb, by
      intro c' hc'
      have : blk = Ex.blk := by
        simp only [Ex.cfg, storeGet, List.find?] at hb
        split at hb <;> simp_all
      rw [this] at hc'; cases hc'⟩)
    20 none none selAll p m h
/-- … also in a run that fails: with an empty store the link cannot be loaded, after four calls -/
example : (run {} fnSucc 20 none none Ex.root selAll).outcome = .error (.walk .load) ∧
    (callsOf (run {} fnSucc 20 none none Ex.root selAll).events).length = 4 := by decide +kernel
example : callsOf (run Ex.cfg fnSucc 20 none none Ex.root selAll).events =
    [([], Ex.root), ([.str [0x61]], .list (.cons (.int 1) (.cons (.int 2) .nil))), ([.str [0x61], .idx 0], .int 1),
     ([.str [0x61], .idx 1], .int 2), ([.str [0x6c]], Ex.blk), ([.str [0x6c], .str [0x78]], .str [0x68, 0x69])] := by
  decide +kernel

/-- identity: with the link skipped the result is the root (`walkT_identity`, hypotheses met: the one request is for
    the skipped link) … -/
example : (run { Ex.cfg with skip := [Ex.cid] } fnId 20 none none Ex.root selAll).outcome = .ok Ex.root := by
  decide +kernel
example : loadsOf (run { Ex.cfg with skip := [Ex.cid] } fnId 20 none none Ex.root selAll).events = [Ex.cid] := by
  decide +kernel
/-- … with the link explored it is not: the block sits where the link was (the known finding) -/
example : (run Ex.cfg fnId 20 none none Ex.root selAll).outcome =
    .ok (.map (.cons [0x61] (.list (.cons (.int 1) (.cons (.int 2) .nil))) (.cons [0x6c] Ex.blk .nil))) := by
  decide +kernel
/-- a link-free tree (`walkT_identity_linkFree`) -/
example : hasLink Ex.blk = false := by decide
example : (run {} fnId 20 none none Ex.blk selAll).outcome = .ok Ex.blk := by decide +kernel

/-- visit-once over `[<link>, <link>]`: one request, the first entry inlined, the second left a link (`walkT_once`,
    `walkT_skip_keeps_link`); without visit-once two requests -/
example : (run { Ex.cfg with linkOnce := true } fnId 20 none none
      (.list (.cons (.link Ex.cid) (.cons (.link Ex.cid) .nil))) selAll).outcome =
    .ok (.list (.cons Ex.blk (.cons (.link Ex.cid) .nil))) := by decide +kernel
example : loadsOf (run { Ex.cfg with linkOnce := true } fnId 20 none none
      (.list (.cons (.link Ex.cid) (.cons (.link Ex.cid) .nil))) selAll).events = [Ex.cid] := by decide +kernel
example : loadsOf (run Ex.cfg fnId 20 none none
      (.list (.cons (.link Ex.cid) (.cons (.link Ex.cid) .nil))) selAll).events = [Ex.cid, Ex.cid] := by decide +kernel
/-- the seen-set is shared across levels: `[[<link>], <link>]` requests once -/
example : loadsOf (run { Ex.cfg with linkOnce := true } fnId 20 none none
      (.list (.cons (.list (.cons (.link Ex.cid) .nil)) (.cons (.link Ex.cid) .nil))) selAll).events = [Ex.cid] := by
  decide +kernel

/-- `walkT_calls_eq_matches`: hypotheses met by the example graph under the explore-everything selector … -/
example : callTexts (callsOf (run Ex.cfg fnId 20 none none Ex.root selAll).events) =
    callTexts (matchesOf (walk Ex.cfg 20 none none Ex.root selAll).events) :=
  (walkT_calls_eq_matches_all Ex.cfg rfl fnId (fun _ _ => rfl) Ex.root selAll selAll_exploresAll 20 20 none none
    (by decide +kernel) (by decide +kernel)).2.1
/-- … and under a fields selector naming `a`, `l` in the node's order, with clauses below them (checked: `alignedFrom`) -/
example : alignedFrom Ex.cfg 5 Ex.root selFields = true := by decide +kernel
example : callTexts (callsOf (run Ex.cfg fnId 20 none none Ex.root selFields).events) =
    callTexts (matchesOf (walk Ex.cfg 20 none none Ex.root selFields).events) :=
  (walkT_calls_eq_matches_checked Ex.cfg rfl fnId (fun _ _ => rfl) Ex.root selFields 5 (by decide +kernel) 20 20 none none
    (by decide +kernel) (by decide +kernel)).2.1
example : callTexts (callsOf (run Ex.cfg fnId 20 none none Ex.root selFields).events) =
    [([[0x61], [0x30]], .int 1), ([[0x61], [0x31]], .int 2), ([[0x6c], [0x78]], .str [0x68, 0x69])] := by decide +kernel
/-- … with budgets: both stop on the node budget after the same calls (`walkT_outcome_eq_walk`) -/
example : (run Ex.cfg fnId 20 (some 3) none Ex.root selAll).outcome = .error (.walk .budgetNode) ∧
    (walk Ex.cfg 20 (some 3) none Ex.root selAll).outcome = .error .budgetNode ∧
    callsOf (run Ex.cfg fnId 20 (some 3) none Ex.root selAll).events =
      matchesOf (walk Ex.cfg 20 (some 3) none Ex.root selAll).events := by decide +kernel

/-! the hypotheses of `walkT_calls_eq_matches` are needed -/

/-- interests in the selector's order: the walk visits `l` then `a`, the transform calls at `a` then `l` -/
example : (matchesOf (walk Ex.cfg 20 none none Ex.root selFieldsRev).events).map (·.1) = [[.str [0x6c]], [.str [0x61]]] ∧
    (callsOf (run Ex.cfg fnId 20 none none Ex.root selFieldsRev).events).map (·.1) = [[.str [0x61]], [.str [0x6c]]] ∧
    alignedFrom Ex.cfg 5 Ex.root selFieldsRev = false := by decide +kernel
/-- … and under visit-once the order decides WHICH occurrence of a repeated link is explored, so even the sets differ:
    over `{"a": <X>, "b": <X>}`, X = `[1]`, with `b` (explore all) named before `a` (match), the walk matches `b/0` and
    leaves `a` alone; the transform calls at `a` (with the block) and leaves `b` a link.  The real code does exactly
    this (run on it: WalkMatching reports "b/0", WalkTransforming's callback is called at "a" only). -/
example : matchesOf (walk cfgOnce 20 none none rootAB selBA).events = [([.str [0x62], .idx 0], .int 1)] ∧
    callsOf (run cfgOnce fnSucc 20 none none rootAB selBA).events = [([.str [0x61]], .list (.cons (.int 1) .nil))] ∧
    (run cfgOnce fnSucc 20 none none rootAB selBA).outcome =
      .ok (.map (.cons [0x61] (.list (.cons (.int 1) .nil)) (.cons [0x62] (.link cidX) .nil))) := by decide +kernel
/-- a non-canonical numeral: the walk matches element 1 of `[7, 8]` at path "01", the transform calls nowhere -/
example : matchesOf (walk {} 20 none none list78 sel01).events = [([.str [0x30, 0x31]], .int 8)] ∧
    callsOf (run {} fnId 20 none none list78 sel01).events = [] ∧
    alignedFrom {} 5 list78 sel01 = false := by decide +kernel
/-- a subset matcher on an int: `Decide` calls the callback, `Match` refuses (the walk reports a candidate) -/
example : matchesOf (walk {} 20 none none (.int 5) selSlice).events = [] ∧
    callsOf (run {} fnId 20 none none (.int 5) selSlice).events = [([], .int 5)] ∧
    alignedFrom {} 5 (.int 5) selSlice = false := by decide +kernel
/-- a start-at path: the walk begins at `l`, the transform does not read it -/
example : (matchesOf (walk { Ex.cfg with startAt := [.str [0x6c]] } 20 none none Ex.root selAll).events).length = 2 ∧
    (callsOf (run { Ex.cfg with startAt := [.str [0x6c]] } fnId 20 none none Ex.root selAll).events).length = 6 := by
  decide +kernel
end Examples

end Ipld.Props.C16walk
