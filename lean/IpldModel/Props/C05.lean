/-
  C05 — links are a function of value and prototype; store then load returns the value.
  Property theorems only.  Arbitrary hash function `H` and codec table.
-/
import IpldModel.Model.Link
import IpldModel.Props.C02
import IpldModel.Generated.LinkSkeletons
import IpldModel.Lemmas.LinkMore
import IpldModel.Props.C04
namespace Ipld.Props.C05
open Ipld Ipld.Link

variable (H : Nat → Bytes → Bytes) (codecs : Nat → Option Codec)

/-- Rebuilding a link from the same hash with the link's own prototype gives the link back: every block
    stored under a link built from its hash passes the loader's hash check. -/
theorem buildLink_hashesTo (p : Proto) (b : Bytes) (l : Lnk) (h : buildLink p (H p.mhType b) = some l) :
    hashesTo H l b = true := by
  unfold hashesTo
  simp only [beq_iff_eq]
  unfold buildLink at h
  by_cases hv : v0ok p = true
  · simp only [hv, if_true] at h
    cases ht : truncate p (H p.mhType b) with
    | none => simp [ht] at h
    | some d =>
      simp only [ht, Option.bind] at h
      -- facts about l
      have hl : l.mhType = p.mhType ∧ l.digest = d ∧
          ((p.version = 0 ∧ l.version = 0 ∧ l.codec = 0x70 ∧ d.length = 32) ∨ (p.version = 1 ∧ l.version = 1 ∧ l.codec = p.codec)) := by
        unfold mkLink at h
        by_cases v0 : p.version = 0
        · simp only [v0, if_true] at h
          split at h
          · rename_i h32
            simp only [Option.some.injEq] at h
            subst h
            exact ⟨rfl, rfl, Or.inl ⟨v0, rfl, rfl, h32⟩⟩
          · simp at h
        · simp only [v0, if_false] at h
          by_cases v1 : p.version = 1
          · simp only [v1, if_true, Option.some.injEq] at h
            subst h
            exact ⟨rfl, rfl, Or.inr ⟨v1, rfl, rfl⟩⟩
          · simp [v1] at h
      obtain ⟨hm, hd, hver⟩ := hl
      -- the digest is the hash or a prefix of it, and re-truncating to its own length is the identity
      have hpre : truncate l.proto (H l.mhType b) = some d := by
        unfold truncate at ht ⊢
        simp only [Lnk.proto, hm, hd]
        by_cases c1 : p.mhType = identityCode ∨ p.mhLength = -1
        · simp only [c1, if_true, Option.some.injEq] at ht
          subst ht
          by_cases c2 : p.mhType = identityCode
          · simp [c2]
          · have : ¬ (((H p.mhType b).length : Int) = -1) := by omega
            simp [c2, this]
        · simp only [c1, if_false] at ht
          split at ht
          · -- a length the hash cannot supply: the whole hash is the digest, and it is its own length
            simp only [Option.some.injEq] at ht
            subst ht
            have c1' : ¬ p.mhType = identityCode := fun h' => c1 (Or.inl h')
            simp only [c1', false_or]
            rw [if_neg (by omega), if_neg (by omega)]
            simp
          · rename_i c3
            simp only [Option.some.injEq] at ht
            subst ht
            have c1' : ¬ p.mhType = identityCode := fun h' => c1 (Or.inl h')
            have hlen : (List.take p.mhLength.toNat (H p.mhType b)).length = p.mhLength.toNat := by
              rw [List.length_take]; omega
            have hge : 0 ≤ p.mhLength := by omega
            have e : ((p.mhLength.toNat : Nat) : Int) = p.mhLength := Int.toNat_of_nonneg hge
            simp only [c1', false_or, hlen, e]
            rw [if_neg (by omega), if_neg (by omega)]
      have hv' : v0ok l.proto = true := by
        unfold v0ok at hv ⊢
        simp only [Lnk.proto]
        rcases hver with ⟨p0, l0, _, h32⟩ | ⟨_, l1, _⟩
        · have : p.mhType = sha256Code := by
            apply Classical.byContradiction
            intro hne
            simp [p0, hne] at hv
          simp [l0, hm, this, hd, h32]
        · simp [l1]
      unfold buildLink
      simp only [hv', if_true, hpre, Option.bind]
      unfold mkLink
      simp only [Lnk.proto]
      rcases hver with ⟨_, l0, lc, h32⟩ | ⟨_, l1, lc⟩
      · simp only [l0, if_true, h32]
        congr 1
        cases l; simp_all
      · have : ¬ l.version = 0 := by omega
        simp only [this, if_false, l1, if_true]
        congr 1
        cases l; simp_all
  · simp [hv] at h

/-- `Store` returns exactly the link `ComputeLink` returns (same encoder output into the same hash). -/
theorem store_eq_compute (s : Store) (p : Proto) (v : DM) (l : Lnk) :
    (hstep H codecs s (.store p v)).2 = .link l ↔ (hstep H codecs s (.compute p v)).2 = .link l := by
  simp only [hstep]
  cases hc : codecs p.codec with
  | none => simp
  | some c =>
    cases he : c.encode v with
    | none => simp [he]
    | some b =>
      cases hb : buildLink p (H p.mhType b) with
      | none => simp [he, hb]
      | some l' => simp [he, hb]

/-- The link is a function of the prototype and the encoded bytes alone: nothing else about the node
    (implementation, insertion order, history, storage contents) enters. -/
theorem link_fun (s s' : Store) (p : Proto) (v v' : DM) (c : Codec) (hc : codecs p.codec = some c)
    (he : c.encode v = c.encode v') :
    (hstep H codecs s (.compute p v)).2 = (hstep H codecs s' (.compute p v')).2 := by
  simp only [hstep, hc, he]
  cases he' : c.encode v' with
  | none => rfl
  | some b => cases hb : buildLink p (H p.mhType b) <;> simp [hb]

/-- the DAG-CBOR model as a codec -/
def dagcborCodec : Codec := { encode := Cbor.encode Cbor.dagcborEnc, decode := fun b => (Cbor.decode Cbor.dagcborDec b).toOption }

/-- For DAG-CBOR the link does not depend on map insertion order either (at any depth). -/
theorem link_perm_dagcbor (s s' : Store) (p : Proto) (v v' : DM)
    (hc : codecs p.codec = some dagcborCodec) (nd : v.NoDup) (nd' : v'.NoDup)
    (e : Spec.canon v = Spec.canon v') (henc : Cbor.encodable Cbor.dagcborEnc v = Cbor.encodable Cbor.dagcborEnc v') :
    (hstep H codecs s (.compute p v)).2 = (hstep H codecs s' (.compute p v')).2 := by
  apply link_fun H codecs s s' p v v' dagcborCodec hc
  simp only [dagcborCodec, Cbor.encode, henc]
  rw [Ipld.Props.C02.encode_perm v v' nd nd' e]

/-- Invariant over every history: every stored block hashes to the link it is stored under. -/
def StoreInv (s : Store) : Prop := ∀ l b, s.get l = some b → hashesTo H l b = true

/-- a step leaves the storage alone or adds one block under the link built from that block's hash -/
theorem hstep_store_cases (s : Store) (op : HOp) :
    (hstep H codecs s op).1 = s ∨
    ∃ p l b, buildLink p (H p.mhType b) = some l ∧ (hstep H codecs s op).1 = s.put l b := by
  cases op with
  | store p v =>
    simp only [hstep]
    split
    · left; rfl
    · split
      · left; rfl
      · split
        · left; rfl
        · rename_i hb; right; exact ⟨p, _, _, hb, rfl⟩
  | compute p v =>
    left
    simp only [hstep]
    split
    · rfl
    · split
      · rfl
      · split <;> rfl
  | load l =>
    left
    simp only [hstep]
    split
    · split
      · split <;> rfl
      · rfl
    · rfl
  | loadRaw l =>
    left
    simp only [hstep]
    split
    · split <;> rfl
    · rfl

theorem step_inv (s : Store) (op : HOp) (h : StoreInv H s) : StoreInv H (hstep H codecs s op).1 := by
  rcases hstep_store_cases H codecs s op with e | ⟨p, l, b, hb, e⟩
  · rw [e]; exact h
  · rw [e]
    intro l' b' hg
    simp only [Store.put, Store.get] at hg
    by_cases e : l = l'
    · simp only [e, if_true, Option.some.injEq] at hg
      subst hg; subst e
      exact buildLink_hashesTo H p b l hb
    · simp only [e, if_false] at hg
      exact h l' b' hg

theorem history_inv (s : Store) (ops : List HOp) (h : StoreInv H s) : StoreInv H (hrun H codecs s ops).1 := by
  induction ops generalizing s with
  | nil => exact h
  | cons op ops ih =>
    simp only [hrun]
    exact ih _ (step_inv H codecs s op h)

/-- Store then load (immediately, on the same storage): the loaded node is what the codec's decoder makes
    of the stored bytes, and `LoadRaw` returns exactly those bytes. -/
theorem load_store (s : Store) (p : Proto) (v : DM) (l : Lnk) (c : Codec)
    (hs : hstep H codecs s (.store p v) = (s', .link l)) (hc : codecs l.codec = some c)
    (hp : codecs p.codec = some c) :
    ∃ b, c.encode v = some b ∧ (hstep H codecs s' (.loadRaw l)).2 = .raw b ∧
      (hstep H codecs s' (.load l)).2 = (match c.decode b with | some v' => .node v' | none => .error) := by
  simp only [hstep, hp] at hs
  cases he : c.encode v with
  | none => simp [he] at hs
  | some b =>
    simp only [he] at hs
    cases hb : buildLink p (H p.mhType b) with
    | none => simp [hb] at hs
    | some l' =>
      simp only [hb, Prod.mk.injEq, HOut.link.injEq] at hs
      obtain ⟨h1, h2⟩ := hs
      subst h2; subst h1
      have hh := buildLink_hashesTo H p b l' hb
      refine ⟨b, rfl, ?_, ?_⟩
      · simp [hstep, Store.put, Store.get, hh]
      · simp only [hstep, hc, Store.put, Store.get, if_true, hh]
        cases c.decode b <;> rfl

/-- DAG-CBOR instance of the round trip: what comes back is the stored value in canonical entry order
    (the theorem `decode_encode` of C03 supplies the hypothesis for every value within the decoder's limits). -/
theorem load_store_dagcbor (s : Store) (p : Proto) (v : DM) (l : Lnk)
    (hs : hstep H codecs s (.store p v) = (s', .link l)) (hc : codecs l.codec = some dagcborCodec)
    (hp : codecs p.codec = some dagcborCodec) (nd : v.NoDup)
    (rt : Cbor.decode Cbor.dagcborDec (Cbor.enc Cbor.dagcborEnc v) = .ok (Spec.canon v)) :
    (hstep H codecs s' (.load l)).2 = .node (Spec.canon v) := by
  obtain ⟨b, he, _, hl⟩ := load_store H codecs s p v l dagcborCodec hs hc hp
  rw [hl]
  simp only [dagcborCodec, Cbor.encode] at he
  split at he
  · simp only [Option.some.injEq] at he
    subst he
    simp [dagcborCodec, rt, Except.toOption]
  · simp at he

/-! ## Prototype facts (identity, truncation, CIDv0) -/

/-- Everything a built link owes to its prototype and to the hash: the multihash code is the
    prototype's, the digest is the truncated hash, and version and codec are the prototype's for CIDv1
    and fixed (0, dag-pb) for CIDv0.  Nothing else enters: the link is a function of (prototype, digest). -/
theorem buildLink_fields (p : Proto) (h : Bytes) (l : Lnk) (hb : buildLink p h = some l) :
    l.mhType = p.mhType ∧ truncate p h = some l.digest ∧
      ((p.version = 0 ∧ l.version = 0 ∧ l.codec = 0x70) ∨ (p.version = 1 ∧ l.version = 1 ∧ l.codec = p.codec)) := by
  obtain ⟨_, ht, hm⟩ := buildLink_some hb
  obtain ⟨a, _, c⟩ := mkLink_some hm
  refine ⟨a, ht, ?_⟩
  rcases c with ⟨x, y, z, _⟩ | c
  · exact Or.inl ⟨x, y, z⟩
  · exact Or.inr c

/-- An identity "hash" is never truncated, whatever `MhLength` the prototype carries: the digest of the
    link is the whole hasher output. -/
theorem identity_never_truncated (p : Proto) (h : Bytes) (l : Lnk) (hi : p.mhType = identityCode)
    (hb : buildLink p h = some l) : truncate p h = some h ∧ l.digest = h := by
  have ht := truncate_identity p h hi
  refine ⟨ht, ?_⟩
  have := (buildLink_some hb).2.1
  rw [ht] at this
  exact (Option.some.inj this).symm

example : buildLink ⟨1, 0x55, identityCode, 2⟩ [1, 2, 3, 4, 5] = some ⟨1, 0x55, identityCode, [1, 2, 3, 4, 5]⟩ := by decide

/-- A given `MhLength` (other than -1, on a non-identity hash) yields a digest of exactly that length —
    the first `MhLength` bytes of the hash — when the hash can supply it; a length that is negative or exceeds what
    the hash function yields leaves the whole hash (before the repair of `BuildLink` the Go code panicked there on the
    slice expression: a hostile link could bring a load down).  No third outcome, and never a refusal. -/
theorem truncate_length (p : Proto) (h : Bytes) (hi : p.mhType ≠ identityCode) (hl : p.mhLength ≠ -1) :
    (∃ d, truncate p h = some d ∧ (d.length : Int) = p.mhLength ∧ d = h.take p.mhLength.toNat) ∨
    (truncate p h = some h ∧ (p.mhLength < 0 ∨ (h.length : Int) < p.mhLength)) := by
  by_cases hun : p.mhLength < 0 ∨ (h.length : Int) < p.mhLength
  · exact Or.inr ⟨truncate_unfit hi hl hun, hun⟩
  · cases ht : truncate p h with
    | none => exact absurd ht (truncate_ne_none p h)
    | some d =>
      obtain ⟨a, b⟩ := truncate_some_cut ht hi hl (by omega)
      exact Or.inl ⟨d, rfl, b, a⟩

/-- …and so for the link: its digest has exactly the length the prototype asked for, when the hash can supply it. -/
theorem truncated_digest_length (p : Proto) (h : Bytes) (l : Lnk) (hi : p.mhType ≠ identityCode)
    (hl : p.mhLength ≠ -1) (hfit : 0 ≤ p.mhLength ∧ p.mhLength ≤ (h.length : Int)) (hb : buildLink p h = some l) :
    (l.digest.length : Int) = p.mhLength ∧ l.digest = h.take p.mhLength.toNat := by
  obtain ⟨a, b⟩ := truncate_some_cut (buildLink_some hb).2.1 hi hl hfit
  exact ⟨b, a⟩

/-- With `MhLength = -1` the digest is the whole hash. -/
theorem whole_digest (p : Proto) (h : Bytes) (l : Lnk) (hl : p.mhLength = -1) (hb : buildLink p h = some l) :
    l.digest = h := by
  have := (buildLink_some hb).2.1
  rw [truncate_whole p h hl] at this
  exact (Option.some.inj this).symm

example : buildLink ⟨1, 0x71, 0x12, 2⟩ [9, 8, 7, 6] = some ⟨1, 0x71, 0x12, [9, 8]⟩ := by decide
example : buildLink ⟨1, 0x71, 0x12, 5⟩ [9, 8, 7, 6] = some ⟨1, 0x71, 0x12, [9, 8, 7, 6]⟩ ∧
    buildLink ⟨1, 0x71, 0x12, -2⟩ [9, 8, 7, 6] = some ⟨1, 0x71, 0x12, [9, 8, 7, 6]⟩ := by decide
example : buildLink ⟨1, 0x71, 0x12, -1⟩ [9, 8, 7, 6] = some ⟨1, 0x71, 0x12, [9, 8, 7, 6]⟩ := by decide

/-- In every case the digest is a prefix of the hash. -/
theorem digest_prefix (p : Proto) (h : Bytes) (l : Lnk) (hb : buildLink p h = some l) : l.digest <+: h :=
  truncate_prefix (buildLink_some hb).2.1

/-- A CIDv0 link exists only for sha2-256 with length 32 (or -1, provided the hash is 32 bytes long):
    the result is version 0, dag-pb, with a 32-byte digest, and the prototype's codec is ignored. -/
theorem v0_requires_sha256_32 (p : Proto) (h : Bytes) (l : Lnk) (h0 : p.version = 0)
    (hb : buildLink p h = some l) :
    p.mhType = sha256Code ∧ (p.mhLength = 32 ∨ p.mhLength = -1) ∧ l.digest.length = 32 ∧
      l = ⟨0, 0x70, sha256Code, l.digest⟩ := by
  obtain ⟨hv, _, hm⟩ := buildLink_some hb
  obtain ⟨a, b⟩ := v0ok_v0 hv h0
  obtain ⟨m, _, c⟩ := mkLink_some hm
  rcases c with ⟨_, lv, lc, h32⟩ | ⟨h1, _, _⟩
  · refine ⟨a, b, h32, ?_⟩
    cases l
    simp_all
  · omega

example : buildLink ⟨0, 0x71, sha256Code, 32⟩ (List.replicate 33 7) = some ⟨0, 0x70, sha256Code, List.replicate 32 7⟩ := by decide
example : buildLink ⟨0, 0x70, 0x13, 32⟩ (List.replicate 32 7) = none ∧ buildLink ⟨0, 0x70, sha256Code, 20⟩ (List.replicate 32 7) = none
    ∧ buildLink ⟨0, 0x70, sha256Code, -1⟩ (List.replicate 20 7) = none := by decide

/-- Exactly when `BuildLink` panics (the model's `none`): the CIDv0 guard, a refused truncation, a CIDv0
    digest that is not 32 bytes long, or a version other than 0 and 1. -/
theorem buildLink_none_iff (p : Proto) (h : Bytes) :
    buildLink p h = none ↔
      v0ok p = false ∨ truncate p h = none ∨
      (p.version = 0 ∧ ∃ d, truncate p h = some d ∧ d.length ≠ 32) ∨ (p.version ≠ 0 ∧ p.version ≠ 1) := by
  unfold buildLink
  by_cases hv : v0ok p = true
  · simp only [hv, if_true]
    cases ht : truncate p h with
    | none => simp
    | some d =>
      simp only [Option.bind, mkLink]
      by_cases v0 : p.version = 0
      · by_cases h32 : d.length = 32 <;> simp [v0, h32]
      · by_cases v1 : p.version = 1 <;> simp [v0, v1]
  · simp [hv]

/-! ## The link is an injective function of (prototype, digest): collisions are the only way two blocks share a link -/

/-- Two hashes that give the same link under one prototype have the same truncation: the link determines
    the digest. -/
theorem buildLink_inj (p : Proto) (h₁ h₂ : Bytes) (l : Lnk)
    (e₁ : buildLink p h₁ = some l) (e₂ : buildLink p h₂ = some l) : truncate p h₁ = truncate p h₂ := by
  rw [(buildLink_some e₁).2.1, (buildLink_some e₂).2.1]

/-- …and conversely a hash with the same truncation gives the same link: under a prototype, links and
    truncated digests correspond one to one. -/
theorem buildLink_eq_iff (p : Proto) (h₁ h₂ : Bytes) (l : Lnk) (e₁ : buildLink p h₁ = some l) :
    buildLink p h₂ = some l ↔ truncate p h₂ = truncate p h₁ :=
  ⟨fun e₂ => buildLink_inj p h₂ h₁ l e₂ e₁, fun e => by rw [buildLink_congr e, e₁]⟩

example : buildLink ⟨1, 0x71, 0x12, 2⟩ [9, 8, 7] = some ⟨1, 0x71, 0x12, [9, 8]⟩ ∧
    buildLink ⟨1, 0x71, 0x12, 2⟩ [9, 8, 1, 1] = some ⟨1, 0x71, 0x12, [9, 8]⟩ ∧ ([9, 8, 7] : Bytes) ≠ [9, 8, 1, 1] := by decide

/-- Two stores (any two storages, any two values) under one prototype that return the same link encoded
    to byte strings whose truncated hashes are equal.  So distinct encodings share a link only through a
    collision of the (truncated) hash — the collision assumption, isolated. -/
theorem link_inj_modulo_hash (s s' : Store) (p : Proto) (v₁ v₂ : DM) (l : Lnk)
    (h₁ : (hstep H codecs s (.store p v₁)).2 = .link l) (h₂ : (hstep H codecs s' (.store p v₂)).2 = .link l) :
    ∃ c b₁ b₂, codecs p.codec = some c ∧ c.encode v₁ = some b₁ ∧ c.encode v₂ = some b₂ ∧
      truncate p (H p.mhType b₁) = truncate p (H p.mhType b₂) := by
  obtain ⟨c, b₁, hc, he₁, hb₁, _⟩ := hstep_store_out H codecs h₁
  obtain ⟨c', b₂, hc', he₂, hb₂, _⟩ := hstep_store_out H codecs h₂
  rw [hc] at hc'
  cases hc'
  exact ⟨c, b₁, b₂, hc, he₁, he₂, buildLink_inj p _ _ l hb₁ hb₂⟩

/-- Hence, where the truncated hash has no collision, equal links mean equal encodings… -/
theorem link_inj_of_no_collision (s s' : Store) (p : Proto) (v₁ v₂ : DM) (l : Lnk) (c : Codec)
    (hc : codecs p.codec = some c)
    (hcf : ∀ b₁ b₂ d, truncate p (H p.mhType b₁) = some d → truncate p (H p.mhType b₂) = some d → b₁ = b₂)
    (h₁ : (hstep H codecs s (.store p v₁)).2 = .link l) (h₂ : (hstep H codecs s' (.store p v₂)).2 = .link l) :
    c.encode v₁ = c.encode v₂ := by
  obtain ⟨c', b₁, hc', he₁, hb₁, _⟩ := hstep_store_out H codecs h₁
  obtain ⟨c'', b₂, hc'', he₂, hb₂, _⟩ := hstep_store_out H codecs h₂
  rw [hc] at hc' hc''
  cases hc'; cases hc''
  rw [he₁, he₂, hcf b₁ b₂ l.digest (buildLink_some hb₁).2.1 (buildLink_some hb₂).2.1]

/-- …and for DAG-CBOR equal links mean equal values up to map entry order (`C02.encode_inj`). -/
theorem link_inj_dagcbor (s s' : Store) (p : Proto) (v₁ v₂ : DM) (l : Lnk) (cfg : Cbor.DecCfg)
    (hc : codecs p.codec = some dagcborCodec) (hB : cfg.budget < 2 ^ 63)
    (hcf : ∀ b₁ b₂ d, truncate p (H p.mhType b₁) = some d → truncate p (H p.mhType b₂) = some d → b₁ = b₂)
    (hv₁ : v₁.NoDup ∧ Spec.finiteFloats v₁ ∧ Spec.WithinLimits cfg v₁)
    (hv₂ : v₂.NoDup ∧ Spec.finiteFloats v₂ ∧ Spec.WithinLimits cfg v₂)
    (h₁ : (hstep H codecs s (.store p v₁)).2 = .link l) (h₂ : (hstep H codecs s' (.store p v₂)).2 = .link l) :
    Spec.canon v₁ = Spec.canon v₂ := by
  have e := link_inj_of_no_collision H codecs s s' p v₁ v₂ l dagcborCodec hc hcf h₁ h₂
  obtain ⟨c', b₁, hc', he₁, _, _⟩ := hstep_store_out H codecs h₁
  rw [hc] at hc'; cases hc'
  simp only [dagcborCodec, Cbor.encode] at e he₁
  by_cases x₁ : Cbor.encodable Cbor.dagcborEnc v₁ = true
  · by_cases x₂ : Cbor.encodable Cbor.dagcborEnc v₂ = true
    · simp only [x₁, x₂, if_true, Option.some.injEq] at e
      exact Ipld.Props.C02.encode_inj cfg v₁ v₂ hB ⟨hv₁.1, x₁, hv₁.2⟩ ⟨hv₂.1, x₂, hv₂.2⟩ e
    · simp [x₁, x₂] at e
  · simp [x₁] at he₁

/-- With the identity multihash (the "hash" of a block is the block) a link determines the block outright:
    no collision assumption is left. -/
theorem identity_link_inj (hid : ∀ b, H identityCode b = b) (p : Proto) (b₁ b₂ : Bytes) (l : Lnk)
    (hi : p.mhType = identityCode)
    (e₁ : buildLink p (H p.mhType b₁) = some l) (e₂ : buildLink p (H p.mhType b₂) = some l) : b₁ = b₂ := by
  have := buildLink_inj p _ _ l e₁ e₂
  rw [truncate_identity p _ hi, truncate_identity p _ hi, hi, hid, hid] at this
  exact Option.some.inj this

/-- `link_inj_dagcbor` and `identity_link_inj` apply: identity multihash (no collisions at all), the two
    entry orders of `C02.ex1` stored under one prototype get one link, and the theorem returns that their
    canonical forms agree. -/
example : Spec.canon C02.ex1 = Spec.canon C02.ex1' := by
  let Hid : Nat → Bytes → Bytes := fun _ b => b
  let cs : Nat → Option Codec := fun _ => some dagcborCodec
  let p : Proto := ⟨1, 0x71, identityCode, -1⟩
  let b : Bytes := [0xa2, 0x61, 0x61, 0x81, 0xf5, 0x62, 0x62, 0x62, 0x01]
  let l : Lnk := ⟨1, 0x71, identityCode, b⟩
  have he : dagcborCodec.encode C02.ex1 = some b := by
    show Cbor.encode Cbor.dagcborEnc C02.ex1 = _
    rw [C02.encode_eq_canon C02.ex1 C02.ex1_nodup (by decide)]; decide
  have he' : dagcborCodec.encode C02.ex1' = some b := by
    show Cbor.encode Cbor.dagcborEnc C02.ex1' = _
    rw [C02.encode_eq_canon C02.ex1' C02.ex1'_nodup (by decide)]; decide
  have h₁ : (hstep Hid cs [] (.store p C02.ex1)).2 = .link l := by
    rw [hstep_store_of Hid cs (c := dagcborCodec) (l := l) rfl he (by decide)]
  have h₂ : (hstep Hid cs [] (.store p C02.ex1')).2 = .link l := by
    rw [hstep_store_of Hid cs (c := dagcborCodec) (l := l) rfl he' (by decide)]
  have lim : ∀ v, v = C02.ex1 ∨ v = C02.ex1' → v.NoDup ∧ Spec.finiteFloats v ∧ Spec.WithinLimits Cbor.dagcborDec v := by
    rintro v (rfl | rfl)
    · exact ⟨C02.ex1_nodup, by simp [C02.ex1, Spec.finiteFloats, Spec.finiteFloatsKVs, Spec.finiteFloatsList],
        by unfold Spec.WithinLimits; decide⟩
    · exact ⟨C02.ex1'_nodup, by simp [C02.ex1', Spec.finiteFloats, Spec.finiteFloatsKVs, Spec.finiteFloatsList],
        by unfold Spec.WithinLimits; decide⟩
  exact link_inj_dagcbor Hid cs [] [] p C02.ex1 C02.ex1' l Cbor.dagcborDec rfl (by decide)
    (fun b₁ b₂ d e₁ e₂ => by
      rw [truncate_identity _ _ rfl] at e₁ e₂
      exact (Option.some.inj e₁).trans (Option.some.inj e₂).symm)
    (lim _ (Or.inl rfl)) (lim _ (Or.inr rfl)) h₁ h₂

example : (∀ b, (fun (_ : Nat) (b : Bytes) => b) identityCode b = b) ∧
    buildLink ⟨1, 0x55, identityCode, 3⟩ [1, 2, 3, 4] = some ⟨1, 0x55, identityCode, [1, 2, 3, 4]⟩ ∧
    hashesTo (fun _ b => b) ⟨1, 0x55, identityCode, [1, 2, 3, 4]⟩ [1, 2, 3, 4] = true ∧
    hashesTo (fun _ b => b) ⟨1, 0x55, identityCode, [1, 2, 3, 4]⟩ [1, 2, 3] = false :=
  ⟨fun _ => rfl, by decide, by decide, by decide⟩

/-! ## Store twice -/

/-- Storing the same (prototype, value) a second time returns the same result (the same link, or again
    an error), leaves every lookup as it was, and hence is unobservable by any later history. -/
theorem store_idempotent (s : Store) (p : Proto) (v : DM) :
    let r₁ := hstep H codecs s (.store p v)
    let r₂ := hstep H codecs r₁.1 (.store p v)
    r₂.2 = r₁.2 ∧ (∀ l, r₂.1.get l = r₁.1.get l) ∧
      ∀ ops, (hrun H codecs r₂.1 ops).2 = (hrun H codecs r₁.1 ops).2 := by
  intro r₁ r₂
  have key : r₂.2 = r₁.2 ∧ ∀ l, r₂.1.get l = r₁.1.get l := by
    by_cases hx : ∃ l, (hstep H codecs s (.store p v)).2 = .link l
    · obtain ⟨l, hl⟩ := hx
      obtain ⟨c, b, hc, he, hb, e⟩ := hstep_store_out H codecs hl
      have e₂ : r₂ = ((s.put l b).put l b, .link l) := by
        show hstep H codecs (hstep H codecs s (.store p v)).1 (.store p v) = _
        rw [e]; exact hstep_store_of H codecs hc he hb
      have e₁ : r₁ = (s.put l b, .link l) := e
      rw [e₂, e₁]
      exact ⟨rfl, fun l' => get_put_same _ l b (get_put_self s l b) l'⟩
    · have e₁ : r₁ = (s, .error) := hstep_store_nolink H codecs (fun l hl => hx ⟨l, hl⟩)
      have e₂ : r₂ = (s, .error) := by
        show hstep H codecs (hstep H codecs s (.store p v)).1 (.store p v) = _
        rw [show hstep H codecs s (.store p v) = (s, .error) from e₁]; exact e₁
      rw [e₂, e₁]
      exact ⟨rfl, fun _ => rfl⟩
  exact ⟨key.1, key.2, fun ops => (hrun_congr H codecs _ _ ops key.2).1⟩

example :
    let r₁ := hstep toyHash toyCodecs [] (.store toyP (.bytes [7, 8]))
    let r₂ := hstep toyHash toyCodecs r₁.1 (.store toyP (.bytes [7, 8]))
    r₁.2 = .link ⟨1, 0x55, 0x12, [2, 7]⟩ ∧ r₂.2 = r₁.2 ∧
      (hstep toyHash toyCodecs r₂.1 (.load ⟨1, 0x55, 0x12, [2, 7]⟩)).2 = .node (.bytes [7, 8]) := by decide

/-! ## History independence of loads -/

/-- Frame property of histories: whatever happens, the block a link is bound to afterwards is the one
    it was bound to before, or one that some `store` of the history wrote under that very link. -/
theorem get_after_history_cases (s : Store) (ops : List HOp) (l : Lnk) :
    (hrun H codecs s ops).1.get l = s.get l ∨
    ∃ op ∈ ops, ∃ b, Writes H codecs op l b ∧ (hrun H codecs s ops).1.get l = some b :=
  hrun_get_cases H codecs s ops l

/-- A block written under `l` hashes to `l`. -/
theorem writes_hashesTo (op : HOp) (l : Lnk) (b : Bytes) (h : Writes H codecs op l b) : hashesTo H l b = true := by
  obtain ⟨p, _, _, _, _, _, hb⟩ := h
  exact buildLink_hashesTo H p b l hb

/-- From a storage that satisfies the invariant, after any history, every link that is bound loads:
    `LoadRaw` returns the bound block (never a hash mismatch), and `Load` what the decoder makes of it. -/
theorem bound_links_load_after_history (s : Store) (ops : List HOp) (l : Lnk) (b : Bytes) (h : StoreInv H s)
    (hg : (hrun H codecs s ops).1.get l = some b) :
    (hstep H codecs (hrun H codecs s ops).1 (.loadRaw l)).2 = .raw b ∧
    ∀ c, codecs l.codec = some c →
      (hstep H codecs (hrun H codecs s ops).1 (.load l)).2 =
        (match c.decode b with | some v' => .node v' | none => .error) := by
  have hh := history_inv H codecs s ops h l b hg
  exact ⟨by rw [hstep_loadRaw_of H codecs hg hh], fun c hc => by rw [hstep_load_of H codecs hc hg hh]; rfl⟩

/-- the invariant is needed for that: a block filed under a link it does not hash to is refused -/
example : (hstep toyHash toyCodecs [(⟨1, 0x55, 0x12, [2, 7]⟩, [8, 8])] (.loadRaw ⟨1, 0x55, 0x12, [2, 7]⟩)).2 = .error ∧
    (hstep toyHash toyCodecs [(⟨1, 0x55, 0x12, [2, 7]⟩, [7, 8])] (.loadRaw ⟨1, 0x55, 0x12, [2, 7]⟩)).2 = .raw [7, 8] := by decide

/-- Unconditionally (no assumption on the hash, none on the storage before): once `store p v` has
    returned `l`, then after any further history `LoadRaw l` succeeds and returns a block that hashes to
    `l` — the stored one, or one a later `store` wrote under the same link (which then collides). -/
theorem loadRaw_after_history_hashes (s s₁ : Store) (p : Proto) (v : DM) (l : Lnk) (ops : List HOp)
    (hs : hstep H codecs s (.store p v) = (s₁, .link l)) :
    ∃ c b b', codecs p.codec = some c ∧ c.encode v = some b ∧ hashesTo H l b' = true ∧
      (hstep H codecs (hrun H codecs s₁ ops).1 (.loadRaw l)).2 = .raw b' ∧
      (b' = b ∨ ∃ op ∈ ops, Writes H codecs op l b') := by
  obtain ⟨c, b, hc, he, hb, e⟩ := hstep_store_out H codecs (show (hstep H codecs s (.store p v)).2 = .link l by rw [hs])
  rw [hs] at e
  have e₁ : s₁ = s.put l b := (Prod.mk.inj e).1
  have hg : s₁.get l = some b := by rw [e₁]; exact get_put_self s l b
  rcases hrun_get_cases H codecs s₁ ops l with g | ⟨op, hm, b', hw, g⟩
  · rw [hg] at g
    have hh := buildLink_hashesTo H p b l hb
    exact ⟨c, b, b, hc, he, hh, by rw [hstep_loadRaw_of H codecs g hh], Or.inl rfl⟩
  · have hh := writes_hashesTo H codecs op l b' hw
    exact ⟨c, b, b', hc, he, hh, by rw [hstep_loadRaw_of H codecs g hh], Or.inr ⟨op, hm, hw⟩⟩

/-- History independence.  Once `store p v` has returned `l`, then after ANY further history `ops` on
    that storage — stores of other values, recomputations, loads, in any number and order — `LoadRaw l`
    returns exactly the bytes that were stored and `Load l` the node the decoder makes of them, provided no
    `store` of `ops` wrote a different block under the same link (`hnc`; such a store would be a hash
    collision, see `load_after_history_nocoll`).  Nothing is assumed of the storage before. -/
theorem load_after_history (s s₁ : Store) (p : Proto) (v : DM) (l : Lnk) (c : Codec) (ops : List HOp)
    (hs : hstep H codecs s (.store p v) = (s₁, .link l)) (hc : codecs l.codec = some c)
    (hp : codecs p.codec = some c)
    (hnc : ∀ op ∈ ops, ∀ b', Writes H codecs op l b' → c.encode v = some b') :
    ∃ b, c.encode v = some b ∧
      (hstep H codecs (hrun H codecs s₁ ops).1 (.loadRaw l)).2 = .raw b ∧
      (hstep H codecs (hrun H codecs s₁ ops).1 (.load l)).2 =
        (match c.decode b with | some v' => .node v' | none => .error) := by
  obtain ⟨c', b, hc', he, hb, e⟩ := hstep_store_out H codecs (show (hstep H codecs s (.store p v)).2 = .link l by rw [hs])
  rw [hp] at hc'; cases hc'
  rw [hs] at e
  have e₁ : s₁ = s.put l b := (Prod.mk.inj e).1
  have hh := buildLink_hashesTo H p b l hb
  have hg : (hrun H codecs s₁ ops).1.get l = some b := by
    rcases hrun_get_cases H codecs s₁ ops l with g | ⟨op, hm, b', hw, g⟩
    · rw [g, e₁]; exact get_put_self s l b
    · have := hnc op hm b' hw
      rw [he] at this
      rw [g, Option.some.inj this]
  exact ⟨b, he, by rw [hstep_loadRaw_of H codecs hg hh], by rw [hstep_load_of H codecs hc hg hh]; rfl⟩

/-- The same under the plain collision assumption, with no condition on the history at all: if the
    stored block is the only one that hashes to `l`, nothing later can disturb what `l` loads. -/
theorem load_after_history_nocoll (s s₁ : Store) (p : Proto) (v : DM) (l : Lnk) (c : Codec) (ops : List HOp)
    (hs : hstep H codecs s (.store p v) = (s₁, .link l)) (hc : codecs l.codec = some c)
    (hp : codecs p.codec = some c)
    (hcf : ∀ b', hashesTo H l b' = true → c.encode v = some b') :
    ∃ b, c.encode v = some b ∧
      (hstep H codecs (hrun H codecs s₁ ops).1 (.loadRaw l)).2 = .raw b ∧
      (hstep H codecs (hrun H codecs s₁ ops).1 (.load l)).2 =
        (match c.decode b with | some v' => .node v' | none => .error) :=
  load_after_history H codecs s s₁ p v l c ops hs hc hp
    (fun op _ b' hw => hcf b' (writes_hashesTo H codecs op l b' hw))

/-- In one history: if operation number `pre.length` of a history is `store p v` and returned `l`, the
    loads of `l` after the whole history return what was stored (same proviso as `load_after_history`,
    on the operations after the store only; the operations before it and the initial storage are free). -/
theorem load_any_time_later (s : Store) (pre mid : List HOp) (p : Proto) (v : DM) (l : Lnk) (c : Codec)
    (hout : (hrun H codecs s (pre ++ .store p v :: mid)).2[pre.length]? = some (.link l))
    (hc : codecs l.codec = some c) (hp : codecs p.codec = some c)
    (hnc : ∀ op ∈ mid, ∀ b', Writes H codecs op l b' → c.encode v = some b') :
    ∃ b, c.encode v = some b ∧
      (hstep H codecs (hrun H codecs s (pre ++ .store p v :: mid)).1 (.loadRaw l)).2 = .raw b ∧
      (hstep H codecs (hrun H codecs s (pre ++ .store p v :: mid)).1 (.load l)).2 =
        (match c.decode b with | some v' => .node v' | none => .error) := by
  rw [hrun_append_snd, List.getElem?_append_right (by rw [hrun_length]; exact Nat.le_refl _), hrun_length,
    Nat.sub_self, hrun_cons_snd, List.getElem?_cons_zero, Option.some.injEq] at hout
  rw [hrun_append_fst, hrun_cons_fst]
  exact load_after_history H codecs (hrun H codecs s pre).1 _ p v l c mid (Prod.ext rfl hout) hc hp hnc

/-- The proviso is needed: with a hash under which two blocks collide, a later `store` of the other
    block returns the same link and takes its place (the storage keeps one block per link), so `Load`
    returns the other value.  (`constHash` maps everything to one digest.) -/
example :
    let l : Lnk := ⟨1, 0x55, 0x12, [0]⟩
    let r₁ := hstep constHash toyCodecs [] (.store toyP (.bytes [1]))
    let r₂ := hrun constHash toyCodecs r₁.1 [.store toyP (.bytes [2])]
    r₁.2 = .link l ∧ r₂.2 = [.link l] ∧
      (hstep constHash toyCodecs r₁.1 (.load l)).2 = .node (.bytes [1]) ∧
      (hstep constHash toyCodecs r₂.1 (.load l)).2 = .node (.bytes [2]) ∧
      (hstep constHash toyCodecs r₂.1 (.loadRaw l)).2 = .raw [2] := by decide

/-- `load_after_history` on concrete data: a store, then a store of another value, a recomputation, a
    load of something absent and a second store of the first value; the first link still loads its value. -/
example :
    let l : Lnk := ⟨1, 0x55, 0x12, [2, 7]⟩
    let ops : List HOp := [.store toyP (.bytes [9]), .compute toyP (.bytes [7, 8]), .load ⟨1, 0x55, 0x12, [3, 3]⟩,
      .store toyP (.bytes [7, 8])]
    let r₁ := hstep toyHash toyCodecs [] (.store toyP (.bytes [7, 8]))
    let r₂ := hrun toyHash toyCodecs r₁.1 ops
    r₁.2 = .link l ∧ r₂.2 = [.link ⟨1, 0x55, 0x12, [1, 9]⟩, .link l, .error, .link l] ∧
      (hstep toyHash toyCodecs r₂.1 (.load l)).2 = .node (.bytes [7, 8]) ∧
      (hstep toyHash toyCodecs r₂.1 (.loadRaw l)).2 = .raw [7, 8] := by decide

/-- Both codec hypotheses (`hc` for the link, `hp` for the prototype) are needed, and they can differ:
    a CIDv0 link says dag-pb whatever codec the prototype named, so a block written with the prototype's
    codec is read back with another one (here: none registered for 0x70). -/
example :
    let H32 : Nat → Bytes → Bytes := fun _ b => List.replicate 31 0 ++ [UInt8.ofNat b.length]
    let l : Lnk := ⟨0, 0x70, 0x12, List.replicate 31 0 ++ [2]⟩
    let r₁ := hstep H32 toyCodecs [] (.store ⟨0, 0x55, 0x12, 32⟩ (.bytes [7, 8]))
    r₁.2 = .link l ∧ (hstep H32 toyCodecs r₁.1 (.load l)).2 = .error ∧
      (hstep H32 toyCodecs r₁.1 (.loadRaw l)).2 = .raw [7, 8] := by decide

/-- Storing the same (prototype, value) again at any later time returns the same link and changes no
    lookup (same proviso: no colliding store in between). -/
theorem store_idempotent_later (s s₁ : Store) (p : Proto) (v : DM) (l : Lnk) (c : Codec) (ops : List HOp)
    (hs : hstep H codecs s (.store p v) = (s₁, .link l)) (hp : codecs p.codec = some c)
    (hnc : ∀ op ∈ ops, ∀ b', Writes H codecs op l b' → c.encode v = some b') :
    let s₂ := (hrun H codecs s₁ ops).1
    (hstep H codecs s₂ (.store p v)).2 = .link l ∧
      ∀ l', (hstep H codecs s₂ (.store p v)).1.get l' = s₂.get l' := by
  intro s₂
  obtain ⟨c', b, hc', he, hb, e⟩ := hstep_store_out H codecs (show (hstep H codecs s (.store p v)).2 = .link l by rw [hs])
  rw [hp] at hc'; cases hc'
  rw [hs] at e
  have e₁ : s₁ = s.put l b := (Prod.mk.inj e).1
  have hg : s₂.get l = some b := by
    rcases hrun_get_cases H codecs s₁ ops l with g | ⟨op, hm, b', hw, g⟩
    · show (hrun H codecs s₁ ops).1.get l = some b
      rw [g, e₁]; exact get_put_self s l b
    · have := hnc op hm b' hw
      rw [he] at this
      show (hrun H codecs s₁ ops).1.get l = some b
      rw [g, Option.some.inj this]
  rw [hstep_store_of H codecs (s := s₂) hp he hb]
  exact ⟨rfl, fun l' => get_put_same s₂ l b hg l'⟩

/-- `load_any_time_later` and `store_idempotent_later` on concrete data: a history of six operations on an
    initially non-empty storage (whose one block does not even hash to its link — nothing is assumed of it);
    operation 1 stores `[7, 8]`; after everything the link loads that value, and storing it again returns
    the same link and changes no lookup. -/
example :
    let l : Lnk := ⟨1, 0x55, 0x12, [2, 7]⟩
    let s₀ : Store := [(⟨1, 0x55, 0x12, [5, 5]⟩, [1])]
    let h : List HOp := [.load l, .store toyP (.bytes [7, 8]), .store toyP (.bytes [9]), .loadRaw l,
      .compute toyP (.bytes [7, 8]), .store toyP (.bytes [7, 8])]
    let r := hrun toyHash toyCodecs s₀ h
    r.2 = [.error, .link l, .link ⟨1, 0x55, 0x12, [1, 9]⟩, .raw [7, 8], .link l, .link l] ∧
      (hstep toyHash toyCodecs r.1 (.load l)).2 = .node (.bytes [7, 8]) ∧
      (hstep toyHash toyCodecs r.1 (.loadRaw l)).2 = .raw [7, 8] ∧
      (hstep toyHash toyCodecs r.1 (.store toyP (.bytes [7, 8]))).2 = .link l ∧
      (hstep toyHash toyCodecs r.1 (.load ⟨1, 0x55, 0x12, [5, 5]⟩)).2 = .error := by decide

/-- DAG-CBOR, any time later: what `Load` returns is the stored value in canonical entry order. -/
theorem load_after_history_dagcbor (s s₁ : Store) (p : Proto) (v : DM) (l : Lnk) (ops : List HOp)
    (hs : hstep H codecs s (.store p v) = (s₁, .link l)) (hc : codecs l.codec = some dagcborCodec)
    (hp : codecs p.codec = some dagcborCodec)
    (hnc : ∀ op ∈ ops, ∀ b', Writes H codecs op l b' → dagcborCodec.encode v = some b')
    (rt : Cbor.decode Cbor.dagcborDec (Cbor.enc Cbor.dagcborEnc v) = .ok (Spec.canon v)) :
    (hstep H codecs (hrun H codecs s₁ ops).1 (.load l)).2 = .node (Spec.canon v) ∧
    (hstep H codecs (hrun H codecs s₁ ops).1 (.loadRaw l)).2 = .raw (Cbor.enc Cbor.dagcborEnc v) := by
  obtain ⟨b, he, hr, hl⟩ := load_after_history H codecs s s₁ p v l dagcborCodec ops hs hc hp hnc
  rw [hl, hr]
  simp only [dagcborCodec, Cbor.encode] at he
  split at he
  · simp only [Option.some.injEq] at he
    subst he
    exact ⟨by simp [dagcborCodec, rt, Except.toOption], rfl⟩
  · simp at he

/-- `load_after_history_dagcbor` on concrete data: the value of `C02.ex1` (a map in non-canonical entry
    order) is stored; later the same map in another entry order is stored (same link, same bytes — the
    proviso holds by `C02.encode_perm`), a link is recomputed and something absent is loaded; the first
    link then loads the canonically ordered value.  The round-trip hypothesis is `C02.decode_encode`. -/
example :
    let cs : Nat → Option Codec := fun _ => some dagcborCodec
    let p : Proto := ⟨1, 0x71, 0x12, -1⟩
    let b : Bytes := [0xa2, 0x61, 0x61, 0x81, 0xf5, 0x62, 0x62, 0x62, 0x01]
    let l : Lnk := ⟨1, 0x71, 0x12, [9, 0xa2]⟩
    let ops : List HOp := [.store p C02.ex1', .compute p (.int 1), .load ⟨1, 0x71, 0x12, [3, 3]⟩]
    (hstep toyHash cs (hrun toyHash cs (Store.put [] l b) ops).1 (.load l)).2 = .node C02.ex1' ∧ C02.ex1 ≠ C02.ex1' := by
  intro cs p b l ops
  have he : dagcborCodec.encode C02.ex1 = some b := by
    show Cbor.encode Cbor.dagcborEnc C02.ex1 = _
    rw [C02.encode_eq_canon C02.ex1 C02.ex1_nodup (by decide)]; decide
  have hs : hstep toyHash cs [] (.store p C02.ex1) = (Store.put [] l b, .link l) :=
    hstep_store_of toyHash cs (c := dagcborCodec) rfl he (by decide)
  have hnc : ∀ op ∈ ops, ∀ b', Writes toyHash cs op l b' → dagcborCodec.encode C02.ex1 = some b' := by
    intro op hm b' ⟨p', v', c', hop, hc', he', _⟩
    simp only [ops, List.mem_cons, List.not_mem_nil, or_false] at hm
    rcases hm with rfl | rfl | rfl
    · cases hop
      cases hc'
      rw [← he']
      show Cbor.encode Cbor.dagcborEnc C02.ex1 = Cbor.encode Cbor.dagcborEnc C02.ex1'
      simp only [Cbor.encode]
      rw [C02.encode_perm C02.ex1 C02.ex1' C02.ex1_nodup C02.ex1'_nodup (by decide),
        show Cbor.encodable Cbor.dagcborEnc C02.ex1 = Cbor.encodable Cbor.dagcborEnc C02.ex1' by decide]
    · cases hop
    · cases hop
  have rt := C02.decode_encode Cbor.dagcborDec C02.ex1 (by decide) C02.ex1_nodup (by decide)
    (by simp [C02.ex1, Spec.finiteFloats, Spec.finiteFloatsKVs, Spec.finiteFloatsList])
    (by unfold Spec.WithinLimits; decide)
  have := (load_after_history_dagcbor toyHash cs [] _ p C02.ex1 l ops hs rfl rfl hnc rt).1
  rw [show Spec.canon C02.ex1 = C02.ex1' by decide] at this
  exact ⟨this, by decide⟩

/-! ## Identity links: no collision assumption left -/

/-- With the identity multihash a link carries its block: the only bytes that hash to it are its digest. -/
theorem identity_hashesTo (hid : ∀ b, H identityCode b = b) (l : Lnk) (hl : l.mhType = identityCode) (b : Bytes)
    (h : hashesTo H l b = true) : b = l.digest := by
  unfold hashesTo at h
  simp only [beq_iff_eq] at h
  have := (identity_never_truncated l.proto (H l.mhType b) l hl h).2
  rw [hl, hid] at this
  exact this.symm

/-- So for identity links history independence holds outright, for every history. -/
theorem load_after_history_identity (hid : ∀ b, H identityCode b = b) (s s₁ : Store) (p : Proto) (v : DM)
    (l : Lnk) (c : Codec) (ops : List HOp) (hi : p.mhType = identityCode)
    (hs : hstep H codecs s (.store p v) = (s₁, .link l)) (hc : codecs l.codec = some c)
    (hp : codecs p.codec = some c) :
    ∃ b, c.encode v = some b ∧ l.digest = b ∧
      (hstep H codecs (hrun H codecs s₁ ops).1 (.loadRaw l)).2 = .raw b ∧
      (hstep H codecs (hrun H codecs s₁ ops).1 (.load l)).2 =
        (match c.decode b with | some v' => .node v' | none => .error) := by
  obtain ⟨c', b, hc', he, hb, _⟩ := hstep_store_out H codecs (show (hstep H codecs s (.store p v)).2 = .link l by rw [hs])
  rw [hp] at hc'; cases hc'
  have hm : l.mhType = identityCode := by rw [(buildLink_fields p _ l hb).1, hi]
  have hd : b = l.digest := identity_hashesTo H hid l hm b (buildLink_hashesTo H p b l hb)
  obtain ⟨b₂, he₂, h1, h2⟩ := load_after_history_nocoll H codecs s s₁ p v l c ops hs hc hp
    (fun b' hb' => by rw [he, identity_hashesTo H hid l hm b' hb', hd])
  rw [he] at he₂; cases he₂
  exact ⟨b, he, hd.symm, h1, h2⟩

example :
    let Hid : Nat → Bytes → Bytes := fun _ b => b
    let p : Proto := ⟨1, 0x55, identityCode, 1⟩
    let l : Lnk := ⟨1, 0x55, identityCode, [7, 8]⟩
    let r₁ := hstep Hid toyCodecs [] (.store p (.bytes [7, 8]))
    let r₂ := hrun Hid toyCodecs r₁.1 [.store p (.bytes [7, 8, 9]), .store ⟨1, 0x55, 0x12, 2⟩ (.bytes [7, 8, 9])]
    r₁.2 = .link l ∧ (hstep Hid toyCodecs r₂.1 (.load l)).2 = .node (.bytes [7, 8]) := by decide

/-- `link_inj_modulo_hash` on concrete data: under the toy hash (length, first byte) two different blocks
    collide, and get the same link. -/
example :
    let l : Lnk := ⟨1, 0x55, 0x12, [2, 7]⟩
    (hstep toyHash toyCodecs [] (.store toyP (.bytes [7, 8]))).2 = .link l ∧
    (hstep toyHash toyCodecs [] (.store toyP (.bytes [7, 9]))).2 = .link l ∧
    truncate toyP (toyHash 0x12 [7, 8]) = truncate toyP (toyHash 0x12 [7, 9]) := by decide

/-- `link_inj_of_no_collision` applies (identity multihash: the hypothesis `hcf` is true), and says what it
    should on concrete data. -/
example (v₁ v₂ : DM) (l : Lnk)
    (h₁ : (hstep (fun _ b => b) toyCodecs [] (.store ⟨1, 0x55, identityCode, -1⟩ v₁)).2 = .link l)
    (h₂ : (hstep (fun _ b => b) toyCodecs [] (.store ⟨1, 0x55, identityCode, -1⟩ v₂)).2 = .link l) :
    rawCodec.encode v₁ = rawCodec.encode v₂ :=
  link_inj_of_no_collision (fun _ b => b) toyCodecs [] [] ⟨1, 0x55, identityCode, -1⟩ v₁ v₂ l rawCodec rfl
    (fun b₁ b₂ d e₁ e₂ => by
      rw [truncate_identity _ _ rfl] at e₁ e₂
      exact (Option.some.inj e₁).trans (Option.some.inj e₂).symm) h₁ h₂
example : (hstep (fun _ b => b) toyCodecs [] (.store ⟨1, 0x55, identityCode, -1⟩ (.bytes [1, 2]))).2 =
    .link ⟨1, 0x55, identityCode, [1, 2]⟩ := by decide

/-! ## DAG-JSON -/

/-- For DAG-JSON too the link does not depend on map insertion order, at any depth (composition of
    `link_fun` with `C04.marshalTok_perm`; no lexer enters — only the encoder side is involved; `fmtF` is
    the float formatter parameter of the JSON model).  Values outside the JSON domain give an error on both
    sides. -/
theorem link_perm_dagjson (fmtF : UInt64 → Option Bytes) (lex : Bytes → Option (List Json.JTok))
    (s s' : Store) (p : Proto) (v v' : DM)
    (hc : codecs p.codec = some (dagjsonCodec fmtF lex)) (nd : v.NoDup) (nd' : v'.NoDup)
    (e : Spec.canonLex v = Spec.canonLex v') :
    (hstep H codecs s (.compute p v)).2 = (hstep H codecs s' (.compute p v')).2 := by
  apply link_fun H codecs s s' p v v' (dagjsonCodec fmtF lex) hc
  simp only [dagjsonCodec, Json.encodeJson]
  rw [Ipld.Props.C04.marshalTok_perm v v' nd nd' e]

/-- A DAG-JSON store that returned a link was given a value of the JSON domain (int64 integers, finite
    floats, valid CIDs): outside it the marshaller refuses.  So `JsonDomain` need not be assumed below. -/
theorem store_dagjson_domain (fmtF : UInt64 → Option Bytes) (lex : Bytes → Option (List Json.JTok))
    (s : Store) (p : Proto) (v : DM) (l : Lnk)
    (hs : (hstep H codecs s (.store p v)).2 = .link l) (hp : codecs p.codec = some (dagjsonCodec fmtF lex)) :
    Spec.JsonDomain v := by
  obtain ⟨c, b, hc, he, _, _⟩ := hstep_store_out H codecs hs
  rw [hp] at hc; cases hc
  apply Classical.byContradiction
  intro hd
  simp [dagjsonCodec, Json.encodeJson, Json.marshalTok_none v hd] at he

/-- DAG-JSON round trip through a link system: what `Load` returns is the stored value with every map
    in bytewise key order.  Value hypotheses are those of the C04 round trip (`C04.tok_roundtrip_win`):
    `Expressible` (no map of one of the two reserved shapes), no repeated keys, links that survive the CID
    text codec, nesting within the decoder's 1024 (`JsonDomain v` follows from the store having succeeded).
    `hlex` is the one assumption about the part that is not modelled, the JSON tokenizer: on the text the
    encoder wrote for this value it yields the tokens the encoder was given. -/
theorem load_store_dagjson (fmtF : UInt64 → Option Bytes) (lex : Bytes → Option (List Json.JTok))
    (s : Store) {s' : Store} (p : Proto) (v : DM) (l : Lnk)
    (hs : hstep H codecs s (.store p v) = (s', .link l))
    (hc : codecs l.codec = some (dagjsonCodec fmtF lex)) (hp : codecs p.codec = some (dagjsonCodec fmtF lex))
    (hx : Spec.Expressible v) (nd : v.NoDup) (hcid : Spec.CidTextOK v) (hdep : Spec.jsonDepth v ≤ 1024)
    (hlex : ∀ ts b, Json.marshalTok Json.dagjsonEnc v = some ts → Json.emitToks Json.compact fmtF ts = some b →
      lex b = some ts) :
    (hstep H codecs s' (.load l)).2 = .node (Spec.canonLex v) := by
  have hd := store_dagjson_domain H codecs fmtF lex s p v l (by rw [hs]) hp
  obtain ⟨b, he, _, hl⟩ := load_store H codecs s p v l (dagjsonCodec fmtF lex) hs hc hp
  rw [hl]
  have rt := Ipld.Props.C04.tok_roundtrip_win v hx nd hd hcid hdep
  simp only [dagjsonCodec, Json.encodeJson] at he ⊢
  cases hm : Json.marshalTok Json.dagjsonEnc v with
  | none => simp [hm] at he
  | some ts =>
    simp only [hm, Option.bind_some] at he rt
    simp only [hlex ts b hm he, Option.bind_some, rt]

/-- …and any time later (composition with `load_after_history`). -/
theorem load_after_history_dagjson (fmtF : UInt64 → Option Bytes) (lex : Bytes → Option (List Json.JTok))
    (s s₁ : Store) (p : Proto) (v : DM) (l : Lnk) (ops : List HOp)
    (hs : hstep H codecs s (.store p v) = (s₁, .link l))
    (hc : codecs l.codec = some (dagjsonCodec fmtF lex)) (hp : codecs p.codec = some (dagjsonCodec fmtF lex))
    (hnc : ∀ op ∈ ops, ∀ b', Writes H codecs op l b' → (dagjsonCodec fmtF lex).encode v = some b')
    (hx : Spec.Expressible v) (nd : v.NoDup) (hcid : Spec.CidTextOK v) (hdep : Spec.jsonDepth v ≤ 1024)
    (hlex : ∀ ts b, Json.marshalTok Json.dagjsonEnc v = some ts → Json.emitToks Json.compact fmtF ts = some b →
      lex b = some ts) :
    (hstep H codecs (hrun H codecs s₁ ops).1 (.load l)).2 = .node (Spec.canonLex v) := by
  have hd := store_dagjson_domain H codecs fmtF lex s p v l (by rw [hs]) hp
  obtain ⟨b, he, _, hl⟩ := load_after_history H codecs s s₁ p v l (dagjsonCodec fmtF lex) ops hs hc hp hnc
  rw [hl]
  have rt := Ipld.Props.C04.tok_roundtrip_win v hx nd hd hcid hdep
  simp only [dagjsonCodec, Json.encodeJson] at he ⊢
  cases hm : Json.marshalTok Json.dagjsonEnc v with
  | none => simp [hm] at he
  | some ts =>
    simp only [hm, Option.bind_some] at he rt
    simp only [hlex ts b hm he, Option.bind_some, rt]

/-! Non-vacuity for DAG-JSON: the value `C04.ex` (a four-entry map in non-canonical order holding bytes, a
    link, a nested map and a list), its compact JSON text, and a "tokenizer" that knows this one text. -/

def exJsonBytes : Bytes :=
  [123, 34, 97, 34, 58, 123, 34, 47, 34, 58, 34, 98, 97, 102, 107, 113, 97, 97, 97, 34, 125, 44, 34, 98, 34, 58, 123,
   34, 47, 34, 58, 123, 34, 98, 121, 116, 101, 115, 34, 58, 34, 65, 81, 73, 68, 34, 125, 125, 44, 34, 108, 34, 58, 91,
   116, 114, 117, 101, 44, 110, 117, 108, 108, 93, 44, 34, 109, 34, 58, 123, 34, 47, 34, 58, 34, 120, 34, 44, 34, 107, 34,
   58, 49, 125, 125]

def exLex : Bytes → Option (List Json.JTok) := fun b => if b = exJsonBytes then some C04.exToks else none

theorem ex_marshal : Json.marshalTok Json.dagjsonEnc C04.ex = some C04.exToks := by
  rw [C04.marshalTok_canonical C04.ex C04.ex_domain C04.ex_nodup, show Spec.canonLex C04.ex = C04.ex' by decide]
  simp [Json.ordToks, Json.ordToksKVs, Json.ordToksList, C04.ex', C04.exToks]
  decide

theorem ex_encode : (dagjsonCodec (fun _ => none) exLex).encode C04.ex = some exJsonBytes := by
  show (Json.marshalTok Json.dagjsonEnc C04.ex).bind (Json.emitToks Json.compact (fun _ => none)) = _
  rw [ex_marshal]; rfl

example :
    let cs : Nat → Option Codec := fun _ => some (dagjsonCodec (fun _ => none) exLex)
    let p : Proto := ⟨1, 0x0129, 0x12, -1⟩
    let l : Lnk := ⟨1, 0x0129, 0x12, [85, 123]⟩
    (hstep toyHash cs [] (.store p C04.ex)).2 = .link l ∧
    (hstep toyHash cs (Store.put [] l exJsonBytes) (.load l)).2 = .node C04.ex' ∧ C04.ex ≠ C04.ex' := by
  intro cs p l
  have hs : hstep toyHash cs [] (.store p C04.ex) = (Store.put [] l exJsonBytes, .link l) :=
    hstep_store_of toyHash cs (c := dagjsonCodec (fun _ => none) exLex) rfl ex_encode (by decide)
  have := load_store_dagjson toyHash cs (fun _ => none) exLex [] p C04.ex l hs rfl rfl C04.ex_expressible C04.ex_nodup
    C04.ex_cid (by decide)
    (fun ts b hm hb => by
      rw [ex_marshal] at hm; cases hm
      have : b = exJsonBytes := by
        have e : Json.emitToks Json.compact (fun _ => none) C04.exToks = some exJsonBytes := by rfl
        rw [e] at hb; exact (Option.some.inj hb).symm
      subst this
      simp [exLex])
  rw [show Spec.canonLex C04.ex = C04.ex' by decide] at this
  exact ⟨by rw [hs], this, by decide⟩

/-- `link_perm_dagjson` on the same data: the two entry orders get the same link. -/
example :
    let cs : Nat → Option Codec := fun _ => some (dagjsonCodec (fun _ => none) exLex)
    (hstep toyHash cs [] (.compute ⟨1, 0x0129, 0x12, -1⟩ C04.ex)).2 =
      (hstep toyHash cs [] (.compute ⟨1, 0x0129, 0x12, -1⟩ C04.ex')).2 :=
  link_perm_dagjson toyHash _ (fun _ => none) exLex [] [] _ C04.ex C04.ex' rfl C04.ex_nodup
    (by simp [C04.ex', DM.NoDup, DMKVs.NoDupVals, DMKVs.keys, DMKVs.toList, DMs.NoDup, Json.slash]) (by decide)

/-! ## Store and ComputeLink over arbitrary encoder runs -/

/-- Over an arbitrary encoder run (any sequence of writes, any failure): when `Store` commits, the link
    is the one `ComputeLink` returns on the same run, the committed block is everything the encoder
    wrote, and it hashes to the link. -/
theorem store_committed_computeLink (p : Proto) (e : EncRun) (l : Lnk) (b : Bytes)
    (h : store H p e = .committed l b) :
    computeLink H p e = some (some l) ∧ b = e.writes.flatten ∧ hashesTo H l b = true := by
  obtain ⟨hf, _, hb, rfl⟩ := (store_committed_iff H p e l b).mp h
  exact ⟨by simp [computeLink, hf, hb], rfl, buildLink_hashesTo H p _ l hb⟩

/-- Conversely, when `ComputeLink` returns a link and no storage write fails, `Store` commits under
    that link. -/
theorem computeLink_store (p : Proto) (e : EncRun) (l : Lnk) (h : computeLink H p e = some (some l))
    (hw : ∀ j, e.writerFailsAt = some j → e.writes.length ≤ j) :
    store H p e = .committed l e.writes.flatten := by
  unfold computeLink at h
  cases hf : e.encFails with
  | true => simp [hf] at h
  | false =>
    simp only [hf, Bool.false_eq_true, if_false, Option.some.injEq] at h
    exact (store_committed_iff H p e l _).mpr ⟨hf, hw, h, rfl⟩

/-- How the encoder cuts its output into writes (a property of the node implementation and of the
    encoder's buffering, not of the value) does not matter: two failure-free runs that write the same bytes
    in total have the same outcome. -/
theorem store_chunking_irrelevant (p : Proto) (e e' : EncRun) (hf : e.writes.flatten = e'.writes.flatten)
    (h1 : e.encFails = false) (h2 : e'.encFails = false) (h3 : e.writerFailsAt = none) (h4 : e'.writerFailsAt = none) :
    store H p e = store H p e' ∧ computeLink H p e = computeLink H p e' := by
  simp [store, computeLink, h1, h2, h3, h4, hf]

example : store toyHash toyP ⟨[[0xf5], [0x00]], false, none⟩ = .committed ⟨1, 0x55, 0x12, [2, 0xf5]⟩ [0xf5, 0x00] ∧
    store toyHash toyP ⟨[[0xf5, 0x00]], false, none⟩ = .committed ⟨1, 0x55, 0x12, [2, 0xf5]⟩ [0xf5, 0x00] ∧
    computeLink toyHash toyP ⟨[[], [0xf5, 0x00]], false, some 7⟩ = some (some ⟨1, 0x55, 0x12, [2, 0xf5]⟩) := by decide


/-! ## (T) the transcribed functions as they are in the source on this run -/

/-- `BuildLink`, statement by statement, is what `Link.truncate` / `v0ok` / `mkLink` transcribe: identity hashes are never truncated (`length = -1`), a CIDv0 prototype must be sha2-256 with length 32 or -1 (else panic — the model's `none`), a digest is cut to `MhLength` exactly when a length is given that the hash can supply (otherwise the whole hash stays: no slice-bounds panic on a hostile link), and the version selects the CID constructor (anything but 0 or 1 panics). -/
theorem buildLink_src_is_transcribed : Ipld.Generated.buildLink_skel_src = [
  "p := lp.Prefix",
  "length := p.MhLength",
  "if p.MhType == multihash.IDENTITY",
  ". length = -1",
  "if p.Version == 0 && (p.MhType != multihash.SHA2_256 || (p.MhLength != 32 && p.MhLength != -1))",
  ". panic(fmt.Errorf(\"invalid cid v0 prefix\"))",
  "if length >= 0 && length <= len(hashsum)",
  ". hashsum = hashsum[:length]",
  "mh, err := multihash.Encode(hashsum, p.MhType)",
  "if err != nil",
  ". panic(err)",
  "switch lp.Prefix.Version",
  "case 0",
  ". return Link{cid.NewCidV0(mh)}",
  "case 1",
  ". return Link{cid.NewCidV1(p.Codec, mh)}",
  "default",
  ". panic(fmt.Errorf(\"invalid cid version\"))"
] := by decide

/-- `Store`: the encoder writes into storage and hasher at once, an encoder error or a (first) storage write error returns before the committer is called, the link is built from the hasher's sum and committed under exactly that link (`Link.store`). -/
theorem store_src_is_transcribed : Ipld.Generated.store_skel_src = [
  "if lnkCtx.Ctx == nil",
  ". lnkCtx.Ctx = context.Background()",
  "encoder, err := lsys.EncoderChooser(lp)",
  "if err != nil",
  ". return nil, ErrLinkingSetup{\"could not choose an encoder\", err}",
  "hasher, err := lsys.HasherChooser(lp)",
  "if err != nil",
  ". return nil, ErrLinkingSetup{\"could not choose a hasher\", err}",
  "if lsys.StorageWriteOpener == nil",
  ". return nil, ErrLinkingSetup{\"no storage configured for writing\", io.ErrClosedPipe}",
  "writer, commitFn, err := lsys.StorageWriteOpener(lnkCtx)",
  "if err != nil",
  ". return nil, err",
  "storageWriter := &firstErrWriter{w: writer}",
  "tee := io.MultiWriter(storageWriter, hasher)",
  "err = encoder(n, tee)",
  "if err != nil",
  ". return nil, err",
  "if storageWriter.err != nil",
  ". return nil, storageWriter.err",
  "lnk := lp.BuildLink(hasher.Sum(nil))",
  "return lnk, commitFn(lnk)"
] := by decide

/-- `ComputeLink` runs the same encoder into the same hasher and builds the link the same way, without storage (`Link.computeLink`): `store_eq_compute` is about these two bodies. -/
theorem computeLink_src_is_transcribed : Ipld.Generated.computeLink_skel_src = [
  "encoder, err := lsys.EncoderChooser(lp)",
  "if err != nil",
  ". return nil, ErrLinkingSetup{\"could not choose an encoder\", err}",
  "hasher, err := lsys.HasherChooser(lp)",
  "if err != nil",
  ". return nil, ErrLinkingSetup{\"could not choose a hasher\", err}",
  "err = encoder(n, hasher)",
  "if err != nil",
  ". return nil, err",
  "return lp.BuildLink(hasher.Sum(nil)), nil"
] := by decide

end Ipld.Props.C05
