/-
  Sufficient conditions for the hypothesis of `walk_visit_paths_nodup`: nodes without duplicate map keys and
  selectors whose interest lists have no duplicates.
-/
import IpldModel.Lemmas.WalkNodup
import IpldModel.Lemmas.WalkGet
namespace Ipld
namespace Walk
open Sel

theorem nodup_map_inj {α β : Type} (f : α → β) (hf : ∀ a b, f a = f b → a = b) {l : List α} (h : l.Nodup) :
    (l.map f).Nodup :=
  List.Pairwise.map f (fun a b hab hfab => hab (hf a b hfab)) h

theorem children_segs_nodup {n : DM} (hn : n.NoDup) : ((children n).map (·.1)).Nodup := by
  cases n with
  | map es =>
    simp only [DM.NoDup, DMKVs.keys] at hn
    simp only [children, List.map_map]
    have : (es.toList.map ((fun x : Seg × DM => x.1) ∘ fun e => (Seg.str e.1, e.2)))
        = (es.toList.map (·.1)).map Seg.str := by simp [List.map_map, Function.comp_def]
    rw [this]
    exact nodup_map_inj Seg.str (fun a b h => by cases h; rfl) hn.1
  | list xs =>
    simp only [children, List.map_map]
    have : (xs.toList.zipIdx.map ((fun x : Seg × DM => x.1) ∘ fun e => (Seg.idx e.2, e.1)))
        = (xs.toList.zipIdx.map Prod.snd).map Seg.idx := by
      rw [List.map_map]; rfl
    rw [this, List.zipIdx_map_snd]
    exact nodup_map_inj Seg.idx (fun a b h => by cases h; rfl) (List.nodup_range' 1)
  | _ => simp [children]

theorem filterMap_fst_sublist (n : DM) : (segs : List Seg) →
    ((segs.filterMap fun ps => (lookupBySegment n ps).map fun v => (ps, v)).map (·.1)).Sublist segs
  | [] => List.Sublist.slnil
  | ps :: segs => by
    rw [List.filterMap_cons]
    cases lookupBySegment n ps with
    | none => exact (filterMap_fst_sublist n segs).cons _
    | some v => exact (filterMap_fst_sublist n segs).cons_cons _

theorem childList_segs_nodup {n : DM} {s : S} (hn : n.NoDup) (hs : ∀ l, interests s = some l → l.Nodup) :
    ((childList n s).map (·.1)).Nodup := by
  unfold childList
  cases hi : interests s with
  | none => exact children_segs_nodup hn
  | some l => exact List.Nodup.sublist (filterMap_fst_sublist n l) (hs l hi)

theorem reach_noDup {cfg : Cfg} {root : DM} {s0 : S} (hroot : root.NoDup)
    (hstore : ∀ c blk, storeGet cfg.store c = some blk → blk.NoDup) {path : Path} {n : DM} {s : S}
    (h : Reach cfg root s0 path n s) : n.NoDup := by
  induction h with
  | root => exact hroot
  | child _ hm _ _ ih => exact childList_noDup ih hm
  | link _ _ _ hs _ _ => exact hstore _ _ hs

theorem walk_visit_paths_nodup' (cfg : Cfg) (root : DM) (s0 : S) (hroot : root.NoDup)
    (hstore : ∀ c blk, storeGet cfg.store c = some blk → blk.NoDup)
    (hsel : ∀ path n s, Reach cfg root s0 path n s → ∀ l, interests s = some l → l.Nodup)
    (fuel : Nat) (nb lb : Option Int) :
    ((visitsOf (walk cfg fuel nb lb root s0).events).map (·.1)).Nodup := by
  apply walk_visit_paths_nodup
  intro path n s hr
  exact List.Nodup.sublist (List.filter_sublist.map _)
    (childList_segs_nodup (reach_noDup hroot hstore hr) (hsel path n s hr))

/-! ### `dedupSegs` has no duplicates -/

theorem dedupSegs_foldl_nodup (l : List Seg) : ∀ (acc : List Seg), acc.Nodup →
    (l.foldl (fun acc s => if acc.any (fun t => t.toString == s.toString) then acc else acc ++ [s]) acc).Nodup := by
  induction l with
  | nil => intro acc h; exact h
  | cons s l ih =>
    intro acc h
    simp only [List.foldl_cons]
    apply ih
    split
    · exact h
    · rename_i hany
      rw [List.nodup_append]
      refine ⟨h, by simp, ?_⟩
      intro a ha b hb
      simp only [List.mem_singleton] at hb
      subst hb
      intro hab
      subst hab
      apply hany
      exact List.any_eq_true.2 ⟨a, ha, by simp⟩

theorem dedupSegs_nodup (l : List Seg) : (dedupSegs l).Nodup :=
  dedupSegs_foldl_nodup l [] List.nodup_nil

theorem interests_union_nodup (ms : SList) (l : List Seg) (h : interests (.union ms) = some l) : l.Nodup := by
  simp only [interests, Option.map_eq_some_iff] at h
  obtain ⟨a, _, rfl⟩ := h
  exact dedupSegs_nodup a

end Walk
end Ipld
