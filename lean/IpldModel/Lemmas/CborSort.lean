/-
  Sorting lemmas: a list with pairwise distinct keys has exactly one key-sorted permutation, so
  Go's (unstable) `sort.Slice`, the model's `mergeSort` and the Spec's insertion sort all agree,
  and the result does not depend on the order the entries came in.
-/
import IpldModel.Lemmas.CborHead
namespace Ipld
namespace Cbor

variable {α : Type}

def keysOf (l : List (Bytes × α)) : List Bytes := l.map (·.1)

theorem eq_of_key_eq {l : List (Bytes × α)} (nd : (keysOf l).Nodup) :
    ∀ a ∈ l, ∀ b ∈ l, a.1 = b.1 → a = b := by
  induction l with
  | nil => intro a ha; cases ha
  | cons x xs ih =>
    simp only [keysOf, List.map_cons, List.nodup_cons] at nd
    obtain ⟨hx, hxs⟩ := nd
    intro a ha b hb hab
    simp only [List.mem_cons] at ha hb
    rcases ha with rfl | ha <;> rcases hb with rfl | hb
    · rfl
    · exact absurd (hab ▸ List.mem_map_of_mem (f := (·.1)) hb) hx
    · exact absurd (hab ▸ List.mem_map_of_mem (f := (·.1)) ha) hx
    · exact ih hxs a ha b hb hab

/-- Two key-sorted lists that are permutations of one another and carry distinct keys are equal. -/
theorem sorted_perm_unique (le : Bytes → Bytes → Bool)
    (antisymm : ∀ a b, le a b = true → le b a = true → a = b)
    {l₁ l₂ : List (Bytes × α)} (nd : (keysOf l₁).Nodup)
    (s₁ : l₁.Pairwise (fun a b => le a.1 b.1 = true)) (s₂ : l₂.Pairwise (fun a b => le a.1 b.1 = true))
    (p : l₁.Perm l₂) : l₁ = l₂ := by
  apply List.Perm.eq_of_pairwise (le := fun a b => le a.1 b.1 = true) _ s₁ s₂ p
  intro a b ha hb hab hba
  exact eq_of_key_eq nd a ha b (p.symm.subset hb) (antisymm _ _ hab hba)

theorem keysOf_perm {l₁ l₂ : List (Bytes × α)} (p : l₁.Perm l₂) : (keysOf l₁).Perm (keysOf l₂) :=
  p.map _

theorem keyLE_total (m : SortMode) (a b : Bytes) : (keyLE m a b || keyLE m b a) = true := by
  cases m
  · simp [keyLE]
  · exact lexLE_total a b
  · exact cborLE_total a b

theorem keyLE_trans (m : SortMode) (a b c : Bytes) : keyLE m a b = true → keyLE m b c = true → keyLE m a c = true := by
  cases m
  · simp [keyLE]
  · exact lexLE_trans a b c
  · exact cborLE_trans a b c

theorem keyLE_antisymm {m : SortMode} (hm : m ≠ .none) (a b : Bytes) : keyLE m a b = true → keyLE m b a = true → a = b := by
  cases m
  · exact absurd rfl hm
  · exact lexLE_antisymm a b
  · exact cborLE_antisymm a b

theorem sortPairs_perm (m : SortMode) (l : List (Bytes × α)) : (sortPairs m l).Perm l := by
  cases m
  · exact List.Perm.refl _
  · exact List.mergeSort_perm _ _
  · exact List.mergeSort_perm _ _

theorem sortPairs_sorted (m : SortMode) (hm : m ≠ .none) (l : List (Bytes × α)) :
    (sortPairs m l).Pairwise (fun a b => keyLE m a.1 b.1 = true) := by
  cases m
  · exact absurd rfl hm
  · exact List.pairwise_mergeSort (fun a b c => keyLE_trans .lexical a.1 b.1 c.1) (fun a b => keyLE_total .lexical a.1 b.1) l
  · exact List.pairwise_mergeSort (fun a b c => keyLE_trans .rfc7049 a.1 b.1 c.1) (fun a b => keyLE_total .rfc7049 a.1 b.1) l

/-- Sorting is insensitive to the order the entries arrive in (distinct keys, a sorting mode). -/
theorem sortPairs_perm_invariant (m : SortMode) (hm : m ≠ .none) {l₁ l₂ : List (Bytes × α)}
    (nd : (keysOf l₁).Nodup) (p : l₁.Perm l₂) : sortPairs m l₁ = sortPairs m l₂ := by
  apply sorted_perm_unique (keyLE m) (keyLE_antisymm hm)
  · exact ((keysOf_perm (sortPairs_perm m l₁)).nodup_iff).mpr nd
  · exact sortPairs_sorted m hm l₁
  · exact sortPairs_sorted m hm l₂
  · exact (sortPairs_perm m l₁).trans (p.trans (sortPairs_perm m l₂).symm)

/-! ### insertion sort on lists (mirror of `Spec.insertKV`) -/

def insertL (k : Bytes) (v : α) : List (Bytes × α) → List (Bytes × α)
  | [] => [(k, v)]
  | (k', v') :: es => if cborLE k k' then (k, v) :: (k', v') :: es else (k', v') :: insertL k v es

def isortL : List (Bytes × α) → List (Bytes × α)
  | [] => []
  | (k, v) :: es => insertL k v (isortL es)

theorem insertL_perm (k : Bytes) (v : α) (l : List (Bytes × α)) : (insertL k v l).Perm ((k, v) :: l) := by
  induction l with
  | nil => exact List.Perm.refl _
  | cons x xs ih =>
    obtain ⟨k', v'⟩ := x
    simp only [insertL]
    split
    · exact List.Perm.refl _
    · exact (List.Perm.cons _ ih).trans (List.Perm.swap _ _ _)

theorem isortL_perm (l : List (Bytes × α)) : (isortL l).Perm l := by
  induction l with
  | nil => exact List.Perm.refl _
  | cons x xs ih =>
    obtain ⟨k, v⟩ := x
    exact (insertL_perm k v _).trans (List.Perm.cons _ ih)

theorem insertL_sorted (k : Bytes) (v : α) (l : List (Bytes × α))
    (s : l.Pairwise (fun a b => cborLE a.1 b.1 = true)) :
    (insertL k v l).Pairwise (fun a b => cborLE a.1 b.1 = true) := by
  induction l with
  | nil => simp [insertL]
  | cons x xs ih =>
    obtain ⟨k', v'⟩ := x
    simp only [insertL]
    rw [List.pairwise_cons] at s
    obtain ⟨hx, hxs⟩ := s
    split
    · rename_i hle
      rw [List.pairwise_cons]
      refine ⟨?_, List.pairwise_cons.mpr ⟨hx, hxs⟩⟩
      intro b hb
      simp only [List.mem_cons] at hb
      rcases hb with rfl | hb
      · exact hle
      · exact cborLE_trans _ _ _ hle (hx b hb)
    · rename_i hnle
      have hle' : cborLE k' k = true := by
        have := cborLE_total k k'
        simp only [Bool.or_eq_true] at this
        rcases this with h | h
        · exact absurd h hnle
        · exact h
      rw [List.pairwise_cons]
      refine ⟨?_, ih hxs⟩
      intro b hb
      have := (insertL_perm k v xs).subset hb
      simp only [List.mem_cons] at this
      rcases this with rfl | hb'
      · exact hle'
      · exact hx b hb'

theorem isortL_sorted (l : List (Bytes × α)) : (isortL l).Pairwise (fun a b => cborLE a.1 b.1 = true) := by
  induction l with
  | nil => simp [isortL]
  | cons x xs ih =>
    obtain ⟨k, v⟩ := x
    exact insertL_sorted k v _ ih

/-- Insertion sort and the model's merge sort agree on lists with distinct keys. -/
theorem isortL_eq_sortPairs {l : List (Bytes × α)} (nd : (keysOf l).Nodup) :
    isortL l = sortPairs .rfc7049 l := by
  apply sorted_perm_unique cborLE cborLE_antisymm
  · exact ((keysOf_perm (isortL_perm l)).nodup_iff).mpr nd
  · exact isortL_sorted l
  · exact sortPairs_sorted .rfc7049 (by decide) l
  · exact (isortL_perm l).trans (sortPairs_perm .rfc7049 l).symm

theorem insertL_map {β : Type} (f : α → β) (k : Bytes) (v : α) (l : List (Bytes × α)) :
    (insertL k v l).map (fun e => (e.1, f e.2)) = insertL k (f v) (l.map (fun e => (e.1, f e.2))) := by
  induction l with
  | nil => rfl
  | cons x xs ih =>
    obtain ⟨k', v'⟩ := x
    simp only [insertL, List.map_cons]
    split
    · rfl
    · simp [ih]

theorem isortL_map {β : Type} (f : α → β) (l : List (Bytes × α)) :
    (isortL l).map (fun e => (e.1, f e.2)) = isortL (l.map (fun e => (e.1, f e.2))) := by
  induction l with
  | nil => rfl
  | cons x xs ih =>
    obtain ⟨k, v⟩ := x
    simp only [isortL, List.map_cons]
    rw [insertL_map, ih]

end Cbor
end Ipld
