/-
  A small concrete graph and the explore-everything selector, for the `example`s in Props/C07, C14, C15.
-/
import IpldModel.Model.Walk
namespace Ipld
namespace Walk
namespace Ex
open Sel

/-- the block behind the link: `{"x": "hi"}` -/
def blk : DM := .map (.cons [0x78] (.str [0x68, 0x69]) .nil)
def cid : Bytes := [1, 2, 3]

/-- root: `{"a": [1, 2], "l": <link cid>}` -/
def root : DM :=
  .map (.cons [0x61] (.list (.cons (.int 1) (.cons (.int 2) .nil)))
       (.cons [0x6c] (.link cid) .nil))

def cfg : Cfg := { store := [(cid, blk)] }

/-- `R(none, union[matcher, all(edge)])` -/
def seqAll : S := .union (.cons (.matcher none) (.cons (.all .edge) .nil))
def selAll : S := .recursive seqAll seqAll none none

/-- the same as a data-model spec, to run through `compileSelector` -/
def selAllSpec : DM :=
  .map (.cons (key "R") (.map
    (.cons (key "l") (.map (.cons (key "none") (.map .nil) .nil))
    (.cons (key ":>") (.map (.cons (key "|") (.list
        (.cons (.map (.cons (key ".") (.map .nil) .nil))
        (.cons (.map (.cons (key "a") (.map (.cons (key ">") (.map (.cons (key "@") (.map .nil) .nil)) .nil)) .nil))
        .nil))) .nil))
    .nil))) .nil)

deriving instance DecidableEq for Event

instance {ε α : Type} [DecidableEq ε] [DecidableEq α] : DecidableEq (Except ε α)
  | .ok a, .ok b => if h : a = b then isTrue (by rw [h]) else isFalse (by intro h'; cases h'; exact h rfl)
  | .ok _, .error _ => isFalse (by intro h; cases h)
  | .error _, .ok _ => isFalse (by intro h; cases h)
  | .error a, .error b => if h : a = b then isTrue (by rw [h]) else isFalse (by intro h'; cases h'; exact h rfl)

end Ex
end Walk
end Ipld
