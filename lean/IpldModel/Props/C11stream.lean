/-
  C11 (companion) — stream-backed bytes nodes: every read view is a cursor of its own over the same
  content.  Model: `Model/StreamBytes.lean` (one shared underlying cursor, per-view offsets, every Read
  re-seeks).  Property theorems only; helpers in `Lemmas/StreamBytes.lean`.
-/
import IpldModel.Model.StreamBytes
import IpldModel.Lemmas.StreamBytes
import IpldModel.Generated.StreamSkeletons
namespace Ipld.Props.C11
open Ipld Ipld.StreamBytes

/-- **views_independent.**  In any interleaving of calls on any number of views of one stream-backed bytes node
    (reads of any size, seeks with any whence, the node's `AsBytes` in between), the answers a view gets are exactly
    the answers it gets when its own calls are made alone — from any state that has the same content and the same
    offset for that view; the shared cursor and the other views do not matter. -/
theorem views_independent (sched : List (Nat × Op)) (i : Nat) (s t : St)
    (hc : s.sh.content = t.sh.content) (hv : s.views[i]? = t.views[i]?) :
    answersOf s sched i = run t (projection sched i) := by
  induction sched generalizing s t with
  | nil => rfl
  | cons jo rest ih =>
    obtain ⟨j, op⟩ := jo
    by_cases hji : j = i
    · subst hji
      have h := step_depends_on_own s t j op hc hv
      simp only [answersOf, projection, List.filter_cons, beq_self_eq_true, if_true, run]
      rw [h.1]
      congr 1
      exact ih _ _ (by rw [step_content, step_content, hc]) h.2
    · have hne : (j == i) = false := by simpa using hji
      simp only [answersOf, projection, List.filter_cons, hne, Bool.false_eq_true, if_false]
      exact ih _ _ (by rw [step_content, hc]) (by rw [step_other_view s i j op hji, hv])

/-- Corollary: what a view is told never depends on what the other views did before or in between. -/
theorem views_independent_of_others (sched₁ sched₂ : List (Nat × Op)) (i : Nat) (s : St)
    (h : projection sched₁ i = projection sched₂ i) :
    answersOf s sched₁ i = answersOf s sched₂ i := by
  rw [views_independent sched₁ i s s rfl rfl, views_independent sched₂ i s s rfl rfl, h]

/-- **asBytes_is_content.**  The node's `AsBytes`, issued at any point of any history, delivers the whole content. -/
theorem asBytes_is_content (s : St) (j : Nat) (off : Nat) (h : s.views[j]? = some off) :
    (step s j .asBytes).2 = .bytes s.sh.content false := by
  unfold step
  simp [h, asBytes]

/-- … and the content is the same at every point of every history (reads are repeatable). -/
theorem content_stable (s : St) (sched : List (Nat × Op)) :
    (sched.foldl (fun st jo => (step st jo.1 jo.2).1) s).sh.content = s.sh.content := by
  induction sched generalizing s with
  | nil => rfl
  | cons jo rest ih => simp only [List.foldl_cons]; rw [ih, step_content]

/-- **read_delivers.**  A read of `n` bytes through a view at offset `off` delivers exactly
    `content[off, off+n)` (cut at the end), reports end-of-stream exactly when the offset is at or past the end,
    and advances the view by what it delivered. -/
theorem read_delivers (s : St) (i off n : Nat) (h : s.views[i]? = some off) :
    (step s i (.read n)).2 = .bytes ((s.sh.content.drop off).take n) (decide (s.sh.content.length ≤ off) && decide (0 < n)) ∧
    (step s i (.read n)).1.views[i]? = some (off + ((s.sh.content.drop off).take n).length) := by
  have hl : i < s.views.length := by
    rcases List.getElem?_eq_some_iff.mp h with ⟨h', _⟩; exact h'
  unfold step
  simp only [h, viewRead]
  refine ⟨?_, ?_⟩ <;> first | rfl | trivial | exact setAt_get_eq _ _ _ hl

/-- Two consecutive reads of one view, with anything done by other views in between, deliver consecutive pieces:
    together `content[off, off+n+m)`. -/
theorem reads_concatenate (s : St) (i off n m : Nat) (h : s.views[i]? = some off)
    (between : List (Nat × Op)) (hb : ∀ jo ∈ between, jo.1 ≠ i) :
    answersOf s ((i, .read n) :: between ++ [(i, .read m)]) i =
      [.bytes ((s.sh.content.drop off).take n) (decide (s.sh.content.length ≤ off) && decide (0 < n)),
       .bytes ((s.sh.content.drop (off + ((s.sh.content.drop off).take n).length)).take m)
         (decide (s.sh.content.length ≤ off + ((s.sh.content.drop off).take n).length) && decide (0 < m))] := by
  rw [views_independent _ i s s rfl rfl]
  have hp : projection ((i, Op.read n) :: between ++ [(i, Op.read m)]) i = [(i, .read n), (i, .read m)] := by
    simp only [projection, List.filter_cons, beq_self_eq_true, if_true, List.filter_append, List.filter_nil]
    have : between.filter (fun x => x.1 == i) = [] := by
      apply List.filter_eq_nil_iff.mpr
      intro jo hjo
      simpa using hb jo hjo
    rw [this]
    rfl
  rw [hp]
  have r1 := read_delivers s i off n h
  simp only [run]
  rw [r1.1]
  have r2 := read_delivers (step s i (.read n)).1 i _ m r1.2
  rw [r2.1, step_content]

/-! Non-vacuity: two views and an `AsBytes` interleaved over "abcdef" -/
example :
    let s : St := { sh := { content := [97, 98, 99, 100, 101, 102] }, views := [0, 0] }
    run s [(0, .read 2), (1, .seek 0 .end_), (1, .seek (-2) .current), (0, .read 3), (1, .read 9), (0, .asBytes), (0, .read 5)] =
      [.bytes [97, 98] false, .pos 6, .pos 4, .bytes [99, 100, 101] false, .bytes [101, 102] false,
       .bytes [97, 98, 99, 100, 101, 102] false, .bytes [102] false] := by decide

/-! ## (T) the code as it is on this run -/

/-- `streamBytesView.Read`: lock, seek the underlying stream to the view's own offset, read, advance the offset
    (`viewRead`). -/
theorem viewRead_src_is_transcribed : Ipld.Generated.streamViewRead_skel_src = [
  "v.mu.Lock()",
  "defer v.mu.Unlock()",
  "if _, err := v.rs.Seek(v.off, io.SeekStart); err != nil",
  ". return 0, err",
  "n, err := v.rs.Read(p)",
  "v.off += int64(n)",
  "return n, err"
] := by decide

/-- `streamBytesView.Seek`: start / current are arithmetic on the view's own offset (negative refused); end asks the
    underlying stream under the lock (`viewSeek`). -/
theorem viewSeek_src_is_transcribed : Ipld.Generated.streamViewSeek_skel_src = [
  "switch whence",
  "case io.SeekStart",
  "case io.SeekCurrent",
  ". offset += v.off",
  "case io.SeekEnd",
  ". v.mu.Lock()",
  ". defer v.mu.Unlock()",
  ". end, err := v.rs.Seek(offset, io.SeekEnd)",
  ". if err != nil",
  ". . return 0, err",
  ". v.off = end",
  ". return end, nil",
  "default",
  ". return 0, errors.New(\"streamBytes: invalid whence\")",
  "if offset < 0",
  ". return 0, errors.New(\"streamBytes: negative position\")",
  "v.off = offset",
  "return offset, nil"
] := by decide

/-- `AsBytes` reads everything through a fresh view; `AsLargeBytes` hands out a fresh view (offset 0) sharing the
    node's stream and lock (`asBytes`, a new entry of `St.views`). -/
theorem asBytes_src_is_transcribed :
    Ipld.Generated.streamAsBytes_skel_src = ["return io.ReadAll(&streamBytesView{rs: n.ReadSeeker, mu: n.mu})"] ∧
    Ipld.Generated.streamAsLargeBytes_skel_src = ["return &streamBytesView{rs: n.ReadSeeker, mu: n.mu}, nil"] := by decide

end Ipld.Props.C11
