/-
  Spec for the selector-driven transform (`Model/WalkTransform.lean`), DESIGN §5 C16: what "a tree equal to the
  original with exactly the targeted positions replaced" means, written without reference to selectors, budgets or
  fuel, as a relation between the input node, the result, and the chronological log of what the transform did
  (callback calls and loader requests).

  `Rewrites cfg fn path n r evs` — "`r` is `n` rewritten at the positions `evs` says, and nowhere else":

    * `keep`           nothing at or below this position was touched: no event, the same node;
    * `replaced`       the callback was called here (one event), answered another node `d`: the result is `d`, exactly,
                       and nothing below was looked at;
    * `calledKeep`     the callback was called here, answered the node it was given, and nothing below was touched;
    * `rebuilt`        a list or map rebuilt from its children, in their original order, each under its original
                       segment / key (`RewritesCh`), the callback not called here;
    * `calledRebuilt`  the same after a call that answered the node it was given.

  `RewritesCh cfg fn path l out evs` — the children `l` of the node at `path`, left to right; `out` has the same
  segments in the same order; the events are the concatenation of the children's:

    * `cons`      a child that is not a link: rewritten at `path ++ [ps]`;
    * `kept`      a link child that was not requested from the loader (not explored, or seen before): no event, it stays;
    * `skipped`   a link child that was requested (`.load c`) and for which the loader answered SkipMe: it stays;
    * `inlined`   a link child that was requested (`.load c`), is not skipped, and whose block `blk` the store holds: the
                  entry now holds the REWRITTEN BLOCK (this is what the code does — the recorded known finding
                  `C16/walk-transform-inlines-linked-blocks` — and the block is rewritten at the link's own path).

  So: every difference between `n` and `r` is either a `replaced` position — and then the log has the call, the
  callback did answer `d` for the node currently there, and `r` holds `d` itself — or an `inlined` link — and then the
  log has the request, the link is not a skipped one, and the content is the store's block, rewritten in turn.  Every
  other entry is the same value under the same key at the same place.  Conversely every call in the log is accounted for
  by exactly one `replaced` / `calledKeep` / `calledRebuilt` position and every request by exactly one `skipped` /
  `inlined` entry, in order.

  `Align n s lw lt` — the hypothesis under which the transform's callback sees what a matching walk visits, in the
  same order: the walk runs over `lw` (the selector's explicit interests looked up one by one, in the SELECTOR's
  order, or all children), the transform over `lt` (the node's own children, in the NODE's order, skipping those
  `contains(attn, ps)` refuses).  The two lists are aligned when, after passing over the entries the respective loop
  does nothing with, they pair up one to one, in order: same segment text, same child, same `Explore` answer.
-/
import IpldModel.Model.WalkTransform
namespace Ipld
namespace Spec
open Sel Walk WalkT

mutual
inductive Rewrites (cfg : Cfg) (fn : TFn) : Path → DM → DM → List Event → Prop
  | keep (path : Path) (n : DM) : Rewrites cfg fn path n n []
  | replaced {path : Path} {n d : DM} : fn path n = .replace d → Rewrites cfg fn path n d [callEvent path n]
  | calledKeep {path : Path} {n : DM} : fn path n = .same → Rewrites cfg fn path n n [callEvent path n]
  | rebuilt {path : Path} {n : DM} {out : List (Seg × DM)} {evs : List Event} :
      isRecursive n = true → RewritesCh cfg fn path (children n) out evs → Rewrites cfg fn path n (rebuild n out) evs
  | calledRebuilt {path : Path} {n : DM} {out : List (Seg × DM)} {evs : List Event} :
      fn path n = .same → isRecursive n = true → RewritesCh cfg fn path (children n) out evs →
      Rewrites cfg fn path n (rebuild n out) (callEvent path n :: evs)
inductive RewritesCh (cfg : Cfg) (fn : TFn) : Path → List (Seg × DM) → List (Seg × DM) → List Event → Prop
  | nil (path : Path) : RewritesCh cfg fn path [] [] []
  | cons {path : Path} {ps : Seg} {v v' : DM} {rest out : List (Seg × DM)} {e1 e2 : List Event} :
      (∀ c, v ≠ .link c) → Rewrites cfg fn (path ++ [ps]) v v' e1 → RewritesCh cfg fn path rest out e2 →
      RewritesCh cfg fn path ((ps, v) :: rest) ((ps, v') :: out) (e1 ++ e2)
  | kept {path : Path} {ps : Seg} {c : Bytes} {rest out : List (Seg × DM)} {e2 : List Event} :
      RewritesCh cfg fn path rest out e2 →
      RewritesCh cfg fn path ((ps, .link c) :: rest) ((ps, .link c) :: out) e2
  | skipped {path : Path} {ps : Seg} {c : Bytes} {rest out : List (Seg × DM)} {e2 : List Event} :
      cfg.skip.contains c = true → RewritesCh cfg fn path rest out e2 →
      RewritesCh cfg fn path ((ps, .link c) :: rest) ((ps, .link c) :: out) (.load c :: e2)
  | inlined {path : Path} {ps : Seg} {c : Bytes} {blk v' : DM} {rest out : List (Seg × DM)} {e1 e2 : List Event} :
      cfg.skip.contains c = false → storeGet cfg.store c = some blk →
      Rewrites cfg fn (path ++ [ps]) blk v' e1 → RewritesCh cfg fn path rest out e2 →
      RewritesCh cfg fn path ((ps, .link c) :: rest) ((ps, v') :: out) (.load c :: (e1 ++ e2))
end

/-! ### the transform against the matching walk -/

/-- the walk's list `lw` and the transform's list `lt` of children of `n` under selector `s` pair up -/
inductive Align (n : DM) (s : S) : List (Seg × DM) → List (Seg × DM) → Prop
  | nil : Align n s [] []
  /-- the walk passes over an entry `Explore` answers nil for -/
  | passW {a : Seg × DM} {lw lt : List (Seg × DM)} :
      explore s n a.1 = .ok none → Align n s lw lt → Align n s (a :: lw) lt
  /-- the transform copies an entry it does not attend to, or `Explore` answers nil for -/
  | passT {b : Seg × DM} {lw lt : List (Seg × DM)} :
      (attended (interests s) b.1 = false ∨ explore s n b.1 = .ok none) → Align n s lw lt → Align n s lw (b :: lt)
  /-- both take the same child (the segment may be held as a string by one and as an int by the other) -/
  | both {a b : Seg × DM} {lw lt : List (Seg × DM)} :
      a.1.toString = b.1.toString → a.2 = b.2 → attended (interests s) b.1 = true →
      explore s n a.1 = explore s n b.1 → Align n s lw lt → Align n s (a :: lw) (b :: lt)

/-- at node `n` under selector `s` the walk's children (`Walk.walkAdv`: the interests looked up, or all) and the
    transform's (`children n`, filtered by `attended`) pair up -/
def AlignedAt (n : DM) (s : S) : Prop :=
  Align n s
    (match interests s with
      | none => children n
      | some segs => segs.filterMap fun ps => (lookupBySegment n ps).map fun v => (ps, v))
    (children n)

/-- `Match` and `Decide` agree on `n` and `Match` answers the node itself (false only of a matcher with a subset
    clause: `Decide` is `true` for it whatever the node, `Match` slices a string / bytes node and refuses the rest) -/
def PlainMatch (s : S) (n : DM) : Prop := matchNode s n = if decideNode s n then some n else none

/-- paths as the callback can observe them: the text of every segment (`PathSegment.String()`); the walk hands a
    fields selector's name on as a string segment where the transform hands on the list iterator's int segment -/
def pathText (p : Path) : List Bytes := p.map Seg.toString

def callTexts (l : List (Path × DM)) : List (List Bytes × DM) := l.map fun x => (pathText x.1, x.2)

/-- what a `WalkMatching` callback and the loader together observe of one event: a matched visit (with the path
    read as text), a request to the loader; a candidate visit is not observed -/
def observedEvent : Event → Option Event
  | .visit p n .matched => some (.visit ((pathText p).map .str) n .matched)
  | .visit _ _ .candidate => none
  | .load c => some (.load c)

/-- the log as observed through a matching callback and the loader, in order, interleaved as it happened -/
def observedLog (es : List Event) : List Event := es.filterMap observedEvent

end Spec
end Ipld
