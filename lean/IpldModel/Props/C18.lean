/-
  C18 — filesystem writes are atomic: whatever the interleaving of writers, failures and crashes, a reader of a
  key sees the complete committed block or nothing; the store stays usable after crashes.
  Property theorems only (the invariant `Inv` and all helper lemmas are in Lemmas/FsAtomic).
-/
import IpldModel.Model.Store
import IpldModel.Lemmas.FsAtomic
import IpldModel.Generated.FsstoreFacts
namespace Ipld.Props.C18
open Ipld Ipld.Store

/-! ## B1: the invariant -/

/-- What the invariant says, spelled out.  (i) directory entries refer to existing inodes; (ii) per writer:
    while writing, its staging name is bound to its own unsealed inode, which holds exactly the chunks written so
    far; after Close (phases closed / needDir) the staging name is bound to its sealed inode holding the complete
    content; after the Rename (done) its inode is sealed and complete; live writers have pairwise distinct inodes;
    (iii) every destination name refers to a sealed inode holding the complete content of a writer of that key. -/
theorem inv_unfold (wd : World) : Inv wd ↔
    (∀ e ∈ wd.fs.names, e.2 < wd.fs.inodes.length) ∧
    (∀ (wi : Nat) (w : Writer), wd.writers[wi]? = some w →
      (∀ left, w.phase = .writing left → wd.fs.lookup (.staging wi) = some w.inode ∧
          ∃ ino, wd.fs.inodes[w.inode]? = some ino ∧ ino.sealed = false ∧
            ino.content ++ left.flatten = w.chunks.flatten) ∧
      (w.phase = .closed ∨ w.phase = .needDir → wd.fs.lookup (.staging wi) = some w.inode ∧
          ∃ ino, wd.fs.inodes[w.inode]? = some ino ∧ ino.sealed = true ∧ ino.content = w.chunks.flatten) ∧
      (w.phase = .done →
          ∃ ino, wd.fs.inodes[w.inode]? = some ino ∧ ino.sealed = true ∧ ino.content = w.chunks.flatten)) ∧
    (∀ (wi wj : Nat) (w w' : Writer), wd.writers[wi]? = some w → wd.writers[wj]? = some w' → wi ≠ wj →
      Created w.phase → Created w'.phase → w.inode ≠ w'.inode) ∧
    (∀ (key : Bytes) (i : Nat), (Name.dest key, i) ∈ wd.fs.names →
      ∃ ino, wd.fs.inodes[i]? = some ino ∧ ino.sealed = true ∧
        ∃ w ∈ wd.writers, w.key = key ∧ ino.content = w.chunks.flatten) := by
  constructor
  · intro h
    refine ⟨h.names_ok, ?_, h.distinct, h.dest⟩
    intro wi w hw
    have := h.wok wi w hw
    exact ⟨fun left hp => this.writing hp, fun hp => this.closed hp, fun hp => this.done hp⟩
  · intro ⟨h1, h2, h3, h4⟩
    refine ⟨h1, ?_, h3, h4⟩
    intro wi w hw
    obtain ⟨a, b, c⟩ := h2 wi w hw
    unfold WOk SealedFull
    split
    · rename_i left hp; exact a left hp
    · rename_i hp; exact b (Or.inl hp)
    · rename_i hp; exact b (Or.inr hp)
    · rename_i hp; exact c hp
    · trivial

/-- No destination name refers to the inode of a writer that is still writing (it is unsealed, destination
    inodes are sealed). -/
theorem writing_inode_not_visible {wd : World} (h : Inv wd) {wi : Nat} {w : Writer} {left : List Bytes}
    (hw : wd.writers[wi]? = some w) (hp : w.phase = .writing left) (key : Bytes) :
    (Name.dest key, w.inode) ∉ wd.fs.names := by
  intro hm
  obtain ⟨ino, e, hs, _⟩ := h.dest key w.inode hm
  obtain ⟨_, ino', e', hs', _⟩ := (h.wok wi w hw).writing hp
  rw [e] at e'; cases e'; rw [hs] at hs'; cases hs'

/-- The invariant holds before anything has happened. -/
theorem inv_init (ws : List (Bytes × List Bytes)) : Inv (initWorld ws) := Inv.init ws

/-- Every step of any writer index (in or out of range) under any fate (ok, fail, kill) preserves the invariant. -/
theorem atomic_inv_step {wd : World} (h : Inv wd) (wi : Nat) (f : Fate) : Inv (stepWriter wd wi f) := h.step wi f

/-- The invariant holds after every schedule. -/
theorem atomic_inv (ws : List (Bytes × List Bytes)) (sched : Schedule) : Inv (run (initWorld ws) sched) :=
  (Inv.init ws).run sched

/-! ## B2: a reader sees the complete committed content -/

/-- In any world satisfying the invariant whose writers obey write-once, whatever a reader gets under a key is
    exactly the content committed for that key — never a partial or mixed block. -/
theorem reader_sees_complete {wd : World} (h : Inv wd) (hwo : WriteOnce wd.writers) {key b : Bytes}
    (hr : readKey wd key = some b) : committed wd key = some b :=
  h.read_committed hwo hr

/-- Steps never change what was committed, nor the write-once premise. -/
theorem committed_run (wd : World) (sched : Schedule) (key : Bytes) :
    committed (run wd sched) key = committed wd key :=
  committed_of_kc (run_kc wd sched) key

theorem writeOnce_run {wd : World} (sched : Schedule) (h : WriteOnce wd.writers) : WriteOnce (run wd sched).writers :=
  writeOnce_of_kc (run_kc wd sched) h

/-- A reader that opens a key at any moment of any schedule — any number of concurrent writers of the same or
    other keys, any crashes and failures — reads exactly the complete content given to the writers of the key. -/
theorem reader_sees_complete_run (ws : List (Bytes × List Bytes)) (hwo : WriteOnce (initWorld ws).writers)
    (sched : Schedule) {key b : Bytes} (hr : readKey (run (initWorld ws) sched) key = some b) :
    committed (initWorld ws) key = some b := by
  rw [← committed_run (initWorld ws) sched key]
  exact reader_sees_complete (atomic_inv ws sched) (writeOnce_run sched hwo) hr

/-! ## B3: the store stays usable after crashes -/

/-- Stepping a finished, aborted or dead writer with fate ok or fail changes nothing. -/
theorem dead_is_inert {wd : World} {wi : Nat} {w : Writer} {f : Fate} (hw : wd.writers[wi]? = some w)
    (hp : w.phase = .done ∨ w.phase = .aborted ∨ w.phase = .dead) (hf : f ≠ .kill) : stepWriter wd wi f = wd :=
  step_inert hw hf hp

/-- Stepping a dead writer changes nothing, under any fate. -/
theorem dead_is_inert_any {wd : World} {wi : Nat} {w : Writer} (f : Fate) (hw : wd.writers[wi]? = some w)
    (hp : w.phase = .dead) : stepWriter wd wi f = wd := by
  cases f with
  | kill =>
    rw [step_kill hw]
    unfold kill
    have : ({ w with phase := .dead } : Writer) = w := by cases w; simp_all
    rw [this, setWriter_same hw]
  | ok => exact step_inert hw (by simp) (Or.inr (Or.inr hp))
  | fail => exact step_inert hw (by simp) (Or.inr (Or.inr hp))

/-- Killing a finished or aborted writer only marks it dead: the file system is untouched. -/
theorem kill_finished_fs {wd : World} {wi : Nat} (f : Fate) {w : Writer} (hw : wd.writers[wi]? = some w)
    (hp : w.phase = .done ∨ w.phase = .aborted ∨ w.phase = .dead) : (stepWriter wd wi f).fs = wd.fs := by
  cases f with
  | kill => rw [step_kill hw]; rfl
  | ok => rw [step_inert hw (by simp) hp]
  | fail => rw [step_inert hw (by simp) hp]

/-- A new writer may be added to any world satisfying the invariant. -/
theorem inv_addWriter {wd : World} (h : Inv wd) (key : Bytes) (chunks : List Bytes) : Inv (addWriter wd key chunks) :=
  h.addWriter key chunks

/-- After any schedule (any crashes, failures, abandoned staging files), a fresh writer of any key and content
    that runs undisturbed — OpenFile, one Write per chunk, Close, Rename [, Mkdir, Rename] — makes its key
    readable with exactly its content. -/
theorem crash_usable (ws : List (Bytes × List Bytes)) (sched : Schedule) (key : Bytes) (chunks : List Bytes) :
    let wd := run (initWorld ws) sched
    readKey (run (addWriter wd key chunks) (freshSchedule wd.writers.length chunks (wd.fs.dirs.contains key))) key
      = some chunks.flatten :=
  (atomic_inv ws sched).fresh_completes key chunks

/-- The same from any world satisfying the invariant. -/
theorem crash_usable_inv {wd : World} (h : Inv wd) (key : Bytes) (chunks : List Bytes) :
    readKey (run (addWriter wd key chunks) (freshSchedule wd.writers.length chunks (wd.fs.dirs.contains key))) key
      = some chunks.flatten :=
  h.fresh_completes key chunks

/-- If the fresh writer is consistent with write-once, what it made readable is the committed content of the key. -/
theorem crash_usable_committed {wd : World} (h : Inv wd) (key : Bytes) (chunks : List Bytes)
    (hwo : WriteOnce (addWriter wd key chunks).writers) :
    committed (addWriter wd key chunks) key = some chunks.flatten := by
  rw [← committed_run (addWriter wd key chunks) (freshSchedule wd.writers.length chunks (wd.fs.dirs.contains key)) key]
  exact reader_sees_complete ((h.addWriter key chunks).run _) (writeOnce_run _ hwo) (h.fresh_completes key chunks)

/-! ## B4: failed writes leave nothing; destinations appear only by rename -/

/-- A failed Write unbinds the writer's staging name, changes no destination entry, and ends the writer. -/
theorem abort_leaves_nothing {wd : World} {wi : Nat} {w : Writer} {c : Bytes} {rest : List Bytes}
    (hw : wd.writers[wi]? = some w) (hp : w.phase = .writing (c :: rest)) :
    (stepWriter wd wi .fail).fs.lookup (.staging wi) = none ∧
    (∀ key i, (Name.dest key, i) ∈ (stepWriter wd wi .fail).fs.names ↔ (Name.dest key, i) ∈ wd.fs.names) ∧
    (∀ key, readKey (stepWriter wd wi .fail) key = readKey wd key ∨ wd.fs.lookup (.dest key) = some w.inode) ∧
    (stepWriter wd wi .fail).writers[wi]? = some { w with phase := .aborted } := by
  rw [step_abort hw hp]
  refine ⟨?_, ?_, ?_, setWriter_self _ hw⟩
  · rw [lookup_unbind]; simp
  · intro key i
    rw [mem_unbind]; simp
  · intro key
    unfold readKey
    simp only
    rw [lookup_unbind]
    simp only [reduceCtorEq, if_false, unbind_inodes]
    have : Fs.lookup { wd.fs with inodes := setInode wd.fs.inodes w.inode fun n => { n with sealed := true } } (.dest key)
        = wd.fs.lookup (.dest key) := rfl
    rw [this]
    cases hl : wd.fs.lookup (.dest key) with
    | none => left; rfl
    | some i =>
      by_cases e : i = w.inode
      · right; rw [e]
      · left; simp only; rw [setInode_getElem?]; simp [e]

/-- Under the invariant a failed Write changes nothing any reader can see. -/
theorem abort_invisible {wd : World} (h : Inv wd) {wi : Nat} {w : Writer} {c : Bytes} {rest : List Bytes}
    (hw : wd.writers[wi]? = some w) (hp : w.phase = .writing (c :: rest)) (key : Bytes) :
    readKey (stepWriter wd wi .fail) key = readKey wd key := by
  rcases (abort_leaves_nothing hw hp).2.2.1 key with e | e
  · exact e
  · exact absurd (lookupL_mem e) (writing_inode_not_visible h hw hp key)

/-- A destination entry that was not there before the step was created by the Rename step: fate ok, writer in
    phase closed, writing that key, shard directory present; and it refers to the writer's staging inode. -/
theorem no_dest_before_rename {wd : World} {wi : Nat} {f : Fate} {key : Bytes} {i : Nat}
    (hnew : (Name.dest key, i) ∈ (stepWriter wd wi f).fs.names) (hold : (Name.dest key, i) ∉ wd.fs.names) :
    f = .ok ∧ ∃ w, wd.writers[wi]? = some w ∧ w.phase = .closed ∧ w.key = key ∧
      wd.fs.dirs.contains key = true ∧ wd.fs.lookup (.staging wi) = some i := by
  revert hnew
  apply step_cases (P := fun x => (Name.dest key, i) ∈ x.fs.names → f = .ok ∧ ∃ w, wd.writers[wi]? = some w ∧
      w.phase = .closed ∧ w.key = key ∧ wd.fs.dirs.contains key = true ∧ wd.fs.lookup (.staging wi) = some i) wd wi f
  · intro _ h; exact absurd h hold
  · intro _ _ _ _ h; exact absurd h hold
  · intro _ _ _ h; exact absurd h hold
  · intro w _ _ _ h
    simp only [List.mem_cons, Prod.mk.injEq, reduceCtorEq, false_and, false_or] at h
    exact absurd h hold
  · intro _ _ _ _ _ _ h; exact absurd h hold
  · intro _ _ _ _ _ _ h
    rw [mem_unbind] at h; exact absurd h.1 hold
  · intro _ _ _ _ h; exact absurd h hold
  · intro w hw hf hp hd h
    cases hl : wd.fs.lookup (.staging wi) with
    | none => rw [rename_none hl] at h; exact absurd h hold
    | some j =>
      rw [rename_of_lookup hl] at h
      simp only [List.mem_cons, Prod.mk.injEq, Name.dest.injEq] at h
      rcases h with ⟨rfl, rfl⟩ | h
      · exact ⟨hf, w, hw, hp, rfl, hd, rfl⟩
      · rw [mem_unbind, mem_unbind] at h; exact absurd h.1.1 hold
  · intro _ _ _ _ _ h; exact absurd h hold
  · intro _ _ _ _ h; exact absurd h hold

/-! ## A concrete world -/

section Examples

/-- two writers of key `[1]` (the same content, chunked differently) and one writer of key `[2]` -/
private abbrev ws0 : List (Bytes × List Bytes) :=
  [([1], [[10, 11], [12]]), ([1], [[10], [11, 12]]), ([2], [[20], [21]])]

/-- writer 0 is killed after its first chunk, writer 2's second Write fails, writer 1 runs to the end
    (Rename fails with ENOENT first, then Mkdir, then Rename) -/
private abbrev schedA₁ : Schedule :=
  [(0, .ok), (1, .ok), (0, .ok), (2, .ok), (1, .ok), (2, .ok), (0, .kill), (2, .fail), (1, .ok), (1, .ok)]
private abbrev schedA₂ : Schedule := [(1, .ok), (1, .ok), (1, .ok)]

/-- both writers of key `[1]` and the writer of key `[2]` finish -/
private abbrev schedB₁ : Schedule :=
  [(0, .ok), (1, .ok), (0, .ok), (0, .ok), (1, .ok), (0, .ok), (0, .ok), (0, .ok), (0, .ok)]
private abbrev schedB₂ : Schedule :=
  [(1, .ok), (1, .ok), (1, .ok), (2, .ok), (2, .ok), (2, .ok), (2, .ok), (2, .ok), (2, .ok), (2, .ok)]

/-- the write-once premise is satisfiable -/
example : WriteOnce (initWorld ws0).writers := by unfold WriteOnce; decide
example : committed (initWorld ws0) [1] = some [10, 11, 12] := by decide

/-- A, intermediate: writer 0 dead with a partial staging file, writer 2 aborted, writer 1 closed but not yet
    renamed — no key is readable, nothing partial is visible -/
example : readKey (run (initWorld ws0) schedA₁) [1] = none := by decide
example : readKey (run (initWorld ws0) schedA₁) [2] = none := by decide
example : ((run (initWorld ws0) schedA₁).writers.map (·.phase)) = [.dead, .closed, .aborted] := by decide
example : (run (initWorld ws0) schedA₁).fs.inodes.map (·.content) = [[10, 11], [10, 11, 12], [20]] := by decide
/-- A, final: key `[1]` reads as the complete block; the key of the failed write stays absent -/
example : readKey (run (initWorld ws0) (schedA₁ ++ schedA₂)) [1] = some [10, 11, 12] := by decide
example : readKey (run (initWorld ws0) (schedA₁ ++ schedA₂)) [2] = none := by decide
example : ((run (initWorld ws0) (schedA₁ ++ schedA₂)).writers.map (·.phase)) = [.dead, .done, .aborted] := by decide
/-- the killed writer's staging file is still there (garbage, but under the staging name only) -/
example : (run (initWorld ws0) (schedA₁ ++ schedA₂)).fs.names = [(.dest [1], 1), (.staging 0, 0)] := by decide

/-- B, intermediate: writer 0 has renamed into place while writer 1 is in the middle of writing the same key —
    the reader sees writer 0's complete block -/
example : readKey (run (initWorld ws0) schedB₁) [1] = some [10, 11, 12] := by decide
example : ((run (initWorld ws0) schedB₁).writers.map (·.phase)) = [.done, .writing [[11, 12]], .start] := by decide
/-- B, final: writer 1's rename replaced the directory entry by its own (equal) block -/
example : readKey (run (initWorld ws0) (schedB₁ ++ schedB₂)) [1] = some [10, 11, 12] := by decide
example : readKey (run (initWorld ws0) (schedB₁ ++ schedB₂)) [2] = some [20, 21] := by decide
example : (run (initWorld ws0) (schedB₁ ++ schedB₂)).fs.names = [(.dest [2], 2), (.dest [1], 1)] := by decide

/-- after the crashes of schedule A a fresh writer of key `[2]` completes (instance of `crash_usable`) -/
example :
    let wd := run (initWorld ws0) (schedA₁ ++ schedA₂)
    readKey (run (addWriter wd [2] [[20], [21]]) (freshSchedule 3 [[20], [21]] false)) [2] = some [20, 21] := by
  decide

/-- stepping a finished writer with fate kill does change its phase (to dead), though not the file system -/
example : ((stepWriter (run (initWorld ws0) (schedB₁ ++ schedB₂)) 0 .kill).writers.map (·.phase)) = [.dead, .done, .done] := by
  decide

end Examples


/-! ## (T) the write path as it is in the source on this run -/

/-- Every call on the write path, in source order (pure helpers excluded), is one the writer model `stepWriter`
    accounts for: a random staging name, ONE open, the caller's writes going straight to that file, close, then
    remove (abort) or rename via `move`.  Nothing sits between the caller's `Write` and the staging file, and nothing
    between `Close` and the rename: a write the OS refuses is reported by `Write` itself, and what is renamed is what was
    written.  Any additional call on this path (a buffer to flush, a sync, a copy) breaks this theorem. -/
theorem write_path_src : Ipld.Generated.fsAllCalls_src = [
    ("Store.Put", ["store.PutStream", "wrCommitter", "wr.Write", "wrCommitter", "wrCommitter"]),
    ("Store.PutStream", ["rand.Read", "os.OpenFile", "f.Close", "os.Remove", "store.pathForKey", "move"]),
    ("move", ["os.Rename", "haveDir", "os.Rename", "os.Remove"]),
    ("haveDir", ["os.Mkdir", "haveDir", "os.Mkdir"])] := by decide

/-- The staging file is created exclusively (`O_CREATE|O_EXCL`, write-only, never truncating or appending to an
    existing file): two writers — in one process or several, through one `Store` value or several over the same
    directory — can never share a staging file, which is the freshness of staging names the model's writers assume. -/
theorem staging_open_exclusive_src :
    Ipld.Generated.stagingOpenFlags_src = ["os.O_CREATE", "os.O_EXCL", "os.O_WRONLY"] := by decide

/-- `PutStream` hands out the opened staging file itself as the writer. -/
theorem putStream_writer_is_file_src : Ipld.Generated.putStreamWriter_src = ["the-opened-file"] := by decide

end Ipld.Props.C18
