/-
  C19 — binding Go values is faithful, reversible and a pure function of its inputs.
  Property theorems only.  The reflection walk itself is tied by correspondence only (DESIGN §9);
  what is logic — the integer-width rule and the registry of inferred types — is proved here.
-/
import IpldModel.Model.Bind
import IpldModel.Generated.GlobalWrites
namespace Ipld.Props.C19
open Ipld Ipld.Bind

/-- width_guard: the (repaired) code stores an integer exactly when it fits the Go field, and then stores
    exactly that integer; everything else is refused — for every width and every integer. -/
theorem width_guard (w : Width) (i : Int) : assignCode true w i = assignIdeal w i := by
  unfold assignCode assignIdeal
  by_cases hs : w.signed = true
  · simp [hs]
  · have hs' : w.signed = false := by simpa using hs
    by_cases hn : i < 0
    · have : fits w i = false := by
        unfold fits; simp [hs']; intro h0; omega
      simp [hs', hn, this]
    · simp [hs', hn]

/-- what is stored always fits the field and is the value assigned -/
theorem stored_is_value (w : Width) (i j : Int) (h : assignCode true w i = .stored j) : j = i ∧ fits w j = true := by
  rw [width_guard] at h
  unfold assignIdeal at h
  split at h
  · rename_i hf; cases h; exact ⟨rfl, hf⟩
  · cases h

/-- the unrepaired code deviates exactly on the values that do not fit: there it stores a different number -/
theorem truncating_code_witness : assignCode false .i8 300 = .stored 44 ∧ assignIdeal .i8 300 = .rejected := by decide

/-- uint64 above MaxInt64 into an int64 field wrapped to a negative number -/
theorem truncating_code_witness_u64 :
    assignCode false .i64 9223372036854775808 = .stored (-9223372036854775808) ∧ assignIdeal .i64 9223372036854775808 = .rejected := by decide

/-- An explicit schema: the answer never depends on the history, under any treatment of inference. -/
theorem binding_pure_explicit (m : Mode) (reg : Registry) (g s : Nat) :
    (bindStep m reg (.explicit g s)).2 = single (.explicit g s) := by
  cases m <;> rfl

/-- **binding_pure** (the code as it is: inferred schemas are remembered per Go type): every call — explicit or
    inferred — answers what it answers alone in a fresh process, whatever was bound before. -/
theorem binding_pure (reg : Registry) (c : Call) : (bindStep .memo reg c).2 = single c := by
  cases c with
  | explicit g s => rfl
  | inferred g =>
    simp only [bindStep, single, List.contains_nil]
    split <;> rfl

/-- … lifted to every history of Wrap / Prototype calls, from every state of the registry. -/
theorem binding_pure_history (reg : Registry) (h : List Call) : bindRun .memo reg h = h.map single := by
  induction h generalizing reg with
  | nil => rfl
  | cons c cs ih =>
    have := binding_pure reg c
    simp only [bindRun, List.map_cons]
    rw [ih]
    rw [this]

/-- the same for a design without any shared state -/
theorem binding_pure_perCall (reg : Registry) (h : List Call) : bindRun .perCall reg h = h.map single := by
  induction h generalizing reg with
  | nil => rfl
  | cons c cs ih =>
    simp only [bindRun, List.map_cons]
    cases c <;> simp [bindStep, single, ih]

/-- The repaired defect, stated: in the pinned commit's code (`accumulate`) the second inference of the same Go type
    panicked, which the memoising code does not. -/
theorem binding_inferred_twice_was_a_panic :
    bindRun .accumulate [] [.inferred 7, .inferred 7] = [.ok 7 7, .panic] ∧
    bindRun .memo [] [.inferred 7, .inferred 7] = [.ok 7 7, .ok 7 7] ∧
    [Call.inferred 7, .inferred 7].map single = [.ok 7 7, .ok 7 7] := by decide

/-- (T) Inventory, re-extracted from source on every run, of the package-level variables that any function other
    than `init` writes in the anchored packages (bindnode, schema, multicodec, traversal, selector, linking, cidlink,
    basicnode, datamodel, the two DAG codecs, memstore): exactly the registry of inferred schema types with its memo table (`bindStep`'s
    state, written under a mutex by `inferSchemaLocked` only) and the codec registry through its registration functions (set-up only by contract).
    A new global write breaks this theorem. -/
theorem globalWrites_src_inventory :
    Generated.globalWrites_src =
      [("node/bindnode", "defaultTypeSystem", ["inferSchemaLocked"]),
       ("node/bindnode", "inferredSchemas", ["inferSchemaLocked"]),
       ("multicodec", "DefaultRegistry", ["RegisterDecoder", "RegisterEncoder"])] := by decide

/-! Non-vacuity -/
example : assignCode true .u8 255 = .stored 255 ∧ assignCode true .u8 256 = .rejected ∧ assignCode true .i8 (-128) = .stored (-128) := by decide
example : bindRun .memo [] [.inferred 1, .explicit 1 5, .inferred 1] = [.ok 1 1, .ok 1 5, .ok 1 1] := by decide

end Ipld.Props.C19
