/-
  C12 — the assembler protocol: rejected calls have no effect, every built node is free of
  duplicate keys, and a history with rejected calls builds what the history without them builds.
  Property theorems only; definitions (`Inv`, `OpOk`, `Runs`, `erase`) and helper lemmas are in
  `IpldModel/Lemmas/Assembler.lean`.  See DESIGN §5 C12.
-/
import IpldModel.Lemmas.Assembler
import IpldModel.Lemmas.AsmFacts
namespace Ipld.Props.C12
open Ipld Ipld.Asm

/-! ### (a) a rejected call has no effect -/

/-- If a call returns an error, the assembler state afterwards is the state before the call, with
    one exception: when the call was made on a key assembler (the map frame is in phase `midKey`)
    the state afterwards may instead be that same frame back in phase `init` — exactly the state
    before the `AssembleKey` call that handed out the key assembler.  In neither case has any entry,
    key or value been recorded. -/
theorem reject_no_effect {s s' : St} {op : Op} {c : ErrClass} (h : step s op = (s', .err c)) :
    s' = s ∨ ∃ t m rest, s.frames = .map t m .midKey :: rest ∧
      s' = { s with frames := .map t m .init :: rest } := by
  rcases step_err h with h1 | ⟨_, h2⟩
  · exact Or.inl h1
  · exact Or.inr h2

/-- The exceptional case of `reject_no_effect` happens only for the repeated-key error: a call
    rejected for any other reason (wrong kind, or the catch-all class) leaves the state exactly
    as it was. -/
theorem wrong_kind_no_effect {s s' : St} {op : Op} {c : ErrClass} (h : step s op = (s', .err c))
    (hc : c = .wrongKind ∨ c = .other) : s' = s :=
  step_err_not_repeated h (by rcases hc with rfl | rfl <;> (intro e; cases e))

/-- Outside a key assembler every rejection, including a repeated key given to `AssembleEntry`,
    leaves the state exactly as it was. -/
theorem reject_no_effect_outside_key {s s' : St} {op : Op} {c : ErrClass}
    (hk : inKey s = false) (h : step s op = (s', .err c)) : s' = s :=
  step_not_inKey_err hk h

/-- A key assembler that rejects a repeated key always puts the map assembler back to where it
    was before `AssembleKey` (so the second disjunct of `reject_no_effect` is what happens, not
    merely what may happen). -/
theorem reject_repeated_in_key {s s' : St} {op : Op} {t m rest}
    (hf : s.frames = .map t m .midKey :: rest) (h : step s op = (s', .err .repeatedKey)) :
    s' = { s with frames := .map t m .init :: rest } :=
  step_inKey_repeated hf h

/-! ### (b) the invariant -/

/-- What `Inv` says about a map frame, spelled out: the keys of the entry table are pairwise
    distinct; every entry except possibly the last has a value; in phases `init`/`midKey` all
    entries have values, in phases `expectValue`/`midValue` the last entry is `(k, none)` with `k`
    not in the lookup map; the lookup map returns for every key exactly the value of the first (and
    only) completed entry with that key; every stored value is free of duplicate keys. -/
theorem inv_map_frame {s : St} (hi : Inv s) {t m ph} (hf : Frame.map t m ph ∈ s.frames) :
    (t.map (·.1)).Nodup ∧
    (∀ e ∈ t.dropLast, e.2.isSome = true) ∧
    ((ph = .init ∨ ph = .midKey) → ∀ e ∈ t, e.2.isSome = true) ∧
    ((ph = .expectValue ∨ ph = .midValue) →
      ∃ t0 k, t = t0 ++ [(k, none)] ∧ (∀ e ∈ t0, e.2.isSome = true) ∧ mapHas m k = false) ∧
    (∀ k, mapLookup m k = ((tableEntries t).find? (fun e => e.1 == k)).map (·.2)) ∧
    (∀ k v, (k, some v) ∈ t → v.NoDup) := by
  have h : MapInv t m ph := hi.frames _ hf
  refine ⟨h.keys, h.init_allDone, ?_, ?_, h.agree, h.vals⟩
  · rintro (rfl | rfl) <;> exact h.shape
  · rintro (rfl | rfl) <;> exact h.shape

/-- What `Inv` says about list frames and the root: every stored value is free of duplicate keys. -/
theorem inv_list_frame_root {s : St} (hi : Inv s) :
    (∀ x ph, Frame.list x ph ∈ s.frames → ∀ v ∈ x, v.NoDup) ∧ (∀ d, s.root = some d → d.NoDup) :=
  ⟨fun _ _ hf => hi.frames _ hf, hi.root⟩

/-- A fresh builder satisfies the invariant. -/
theorem inv_init (p : Proto) : Inv (init p) := init_inv p

/-- Every call preserves the invariant, whatever its outcome (accepted, rejected, or misuse),
    provided a node handed to `AssignNode` is itself free of duplicate keys (it was built by a
    builder, so this holds by induction).  Nothing is assumed about the argument of a scalar
    `Assign…` call. -/
theorem inv_step {s : St} {op : Op} (hi : Inv s) (ho : OpOk op) : Inv (step s op).1 :=
  step_inv hi ho

/-- The invariant holds after any history of calls. -/
theorem inv_run {s : St} {h : List Op} (hi : Inv s) (ho : ∀ op ∈ h, OpOk op) : Inv (run s h).1 :=
  run_inv hi ho

/-! ### (c) built nodes never carry a key twice -/

/-- In a state satisfying the invariant, whatever `Build` returns is free of duplicate keys at
    every depth. -/
theorem built_nodup {s : St} {d : DM} (hi : Inv s) (hb : build s = some d) : d.NoDup := by
  unfold build at hb
  split at hb
  · exact hi.root d hb
  · cases hb

/-- For every prototype and every history of calls on a fresh builder — including histories with
    rejected calls and with misuse — if `Build` returns a node then no map anywhere in that node
    carries the same key twice (given that the nodes handed to `AssignNode` have that property). -/
theorem built_nodup_history (p : Proto) (h : List Op) (ho : ∀ op ∈ h, OpOk op) {d : DM}
    (hb : build (run (init p) h).1 = some d) : d.NoDup :=
  built_nodup (run_inv (init_inv p) ho) hb

/-! ### (e) a history with rejected calls builds what the history without them builds -/

/-- `erase s h` only drops calls from `h`; it never adds or reorders any. -/
theorem erase_sublist (s : St) (h : List Op) : (erase s h).Sublist h := by
  simpa [erase] using eraseFrom_sublist s [] h

/-- Take any history `h` run from a state `s` whose current object is not a key assembler, and
    suppose no call in it was misuse (no panic).  Erase from `h` every call that returned an error,
    and also every `AssembleKey` whose key assembler ended by rejecting a repeated key (possibly
    after rejecting some wrong-kind assignments first).  Then running the erased history from `s`
    reaches exactly the same final state, and every call in it is accepted.  The erased history has
    to be computed together with running (`erase` takes the start state) because whether a call is
    rejected depends on the state it meets; the start-state condition is needed because a key
    assembler handed out before the history began cannot be un-handed by erasing calls of the
    history. -/
theorem history_result (s : St) (h : List Op) (hk : inKey s = false)
    (hn : Out.panic ∉ (run s h).2) :
    run s (erase s h) = ((run s h).1, List.replicate (erase s h).length .ok) :=
  eraseFrom_runs h (PendOk.none hk) hn

/-- `history_result` for a fresh builder: same final state, hence the same `Build` result, and all
    calls of the erased history are accepted. -/
theorem history_result_init (p : Proto) (h : List Op) (hn : Out.panic ∉ (run (init p) h).2) :
    build (run (init p) (erase (init p) h)).1 = build (run (init p) h).1 ∧
    ∀ o ∈ (run (init p) (erase (init p) h)).2, o = .ok := by
  have := history_result (init p) h rfl hn
  rw [this]
  exact ⟨rfl, fun o ho => (List.mem_replicate.1 ho).2⟩

/-! ### non-vacuity -/

/-! `exMap` is `{"a": 1, "b": 2}`; `exHistory` builds it with three rejected calls on the way
    (`AssembleEntry "a"` a second time, a key assembler given `"a"` again, and a key assembler given
    an integer before it is given `"b"`).  Both are defined in `Lemmas/Assembler.lean`. -/

example : (run (init .any) exHistory).2 =
    [.ok, .ok, .ok, .err .repeatedKey, .ok, .err .repeatedKey, .ok, .err .wrongKind,
     .ok, .ok, .ok, .ok] := by decide

example : build (run (init .any) exHistory).1 = some exMap := by decide

example : erase (init .any) exHistory =
    [.beginMap 2, .assembleEntry [97], .assign (.int 1),
     .assembleKey, .assignNode (.str [98]), .assembleValue, .assign (.int 2), .finish] := by decide

example : build (run (init .any) (erase (init .any) exHistory)).1 = some exMap := by decide

/-- the start-state condition of `history_result` is needed: if the history starts on a key
    assembler and that key assembler rejects a repeated key, the erased history (empty here) cannot
    undo the `AssembleKey` that happened before the history began -/
example :
    let s0 := (run (init .any) [.beginMap 0, .assembleEntry [97], .assign (.int 1), .assembleKey]).1
    inKey s0 = true ∧ (run s0 [.assign (.str [97])]).2 = [.err .repeatedKey] ∧
    erase s0 [.assign (.str [97])] = [] ∧
    inKey (run s0 [.assign (.str [97])]).1 = false ∧ inKey (run s0 []).1 = true := by decide

example : exMap.NoDup :=
  built_nodup_history .any exHistory (by simp [exHistory, OpOk, DM.NoDup]) (by decide)

end Ipld.Props.C12

namespace Ipld.Props.C12
open Ipld Ipld.Asm Ipld.Generated

/-- (T) The state table regenerated from `node/basicnode/map.go` on this run — per method: the state
    guard, the states assigned, which of the fields `m`/`t` of the map under construction are written,
    whether the back-pointer is dropped — is exactly the table the model's `step` induces. -/
theorem maFacts_src_is_model : maFacts_src = modelMaFacts := by decide

/-- (T) …and the same for `node/basicnode/list.go`. -/
theorem laFacts_src_is_model : laFacts_src = modelLaFacts := by decide

end Ipld.Props.C12
