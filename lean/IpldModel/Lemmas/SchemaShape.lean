/-
  Every node the ideal representation builder builds has the canonical shape and no tuple gap
  (`shapeOK`), hence - being conforming - a representation.
-/
import IpldModel.Lemmas.SchemaTotal
import IpldModel.Lemmas.SchemaMono
namespace Ipld
namespace Schema

/-! ## Shapes of struct and union values -/

theorem shapeOK_scalar (ty : Ty) (v : TL) (h1 : ∀ xs, v ≠ .list xs) (h2 : ∀ es, v ≠ .map es) :
    shapeOK ty v = true := by
  cases v with
  | list xs => exact absurd rfl (h1 xs)
  | map es => exact absurd rfl (h2 es)
  | _ => simp [shapeOK]

theorem shapeOK_any (v : TL) : shapeOK .any v = true := by
  cases v <;> simp [shapeOK]

theorem shapeOK_union_single (ms : Members) (ur : UnionRepr)
    (hnd : (ms.toList.map (·.name)).Nodup) (m : Member) (hm : m ∈ ms.toList) (tv : TL)
    (h : shapeOK m.ty tv = true) : shapeOK (.union ms ur) (wrapMember m.name tv) = true := by
  unfold wrapMember shapeOK
  simp only [find?_key_of_mem (·.name) ms.toList hnd m hm]
  exact h

/-- a union value whose member value has the shape -/
def UnionShape (ms : List Member) (v : TL) : Prop :=
  ∃ m ∈ ms, ∃ tv, v = wrapMember m.name tv ∧ shapeOK m.ty tv = true

theorem shapeOK_of_unionShape (ms : Members) (ur : UnionRepr)
    (hnd : (ms.toList.map (·.name)).Nodup) (v : TL) (h : UnionShape ms.toList v) :
    shapeOK (.union ms ur) v = true := by
  obtain ⟨m, hm, tv, rfl, hc⟩ := h
  exact shapeOK_union_single ms ur hnd m hm tv hc

theorem UnionShape_cons (m : Member) (ms : List Member) (v : TL) (h : UnionShape ms v) :
    UnionShape (m :: ms) v := by
  obtain ⟨m', hm', tv, hv, hc⟩ := h
  exact ⟨m', by simp [hm'], tv, hv, hc⟩

/-- the state holds values of the right shape, none of them `absent` -/
def GSh (fs : List Field) (g : Bytes → Option TL) : Prop :=
  ∀ f ∈ fs, ∀ v, g f.name = some v → shapeOK f.ty v = true ∧ v ≠ .absent

theorem GSh_none (fs : List Field) : GSh fs (fun _ => none) := by
  intro f _ v h; cases h

theorem GSh_set (fs : List Field) (hnd : (fs.map (·.name)).Nodup) (g : Bytes → Option TL)
    (hg : GSh fs g) (f : Field) (hf : f ∈ fs) (v : TL) (hv : shapeOK f.ty v = true) (hne : v ≠ .absent) :
    GSh fs (setFn g f.name v) := by
  intro f' hf' v' h
  by_cases hn : f'.name = f.name
  · have := eq_of_name_eq fs hnd f' f hf' hf hn
    subst this
    simp only [setFn_same, Option.some.injEq] at h
    subst h; exact ⟨hv, hne⟩
  · rw [setFn_other _ _ _ _ hn] at h
    exact hg f' hf' v' h

theorem shapeOKFields_map (g : Bytes → Option TL) : (fs : List Field) →
    (∀ f ∈ fs, ∀ v, g f.name = some v → shapeOK f.ty v = true) →
    shapeOKFields fs (TLKVs.ofList (fs.map fun f => (f.name, (g f.name).getD .absent))) = true
  | [], _ => by simp [shapeOKFields]
  | f :: fs, h => by
    simp only [List.map_cons, TLKVs.ofList_cons, shapeOKFields_cons, beq_self_eq_true, Bool.true_and,
      Bool.and_eq_true]
    refine ⟨?_, shapeOKFields_map g fs (fun f' hf' => h f' (by simp [hf']))⟩
    cases hg : g f.name with
    | none => simp [shapeOK]
    | some v => exact h f (by simp) v hg

theorem finish_shape (fs : Fields) (sr : StructRepr) (hsr : sr ≠ .tuple) (g : Bytes → Option TL)
    (hg : GSh fs.toList g) (v : TL) (h : (SSt.ofFn fs.toList g).finish fs.toList = .ok v) :
    shapeOK (.struct fs sr) v = true := by
  rw [SSt.ofFn_finish] at h
  split at h
  · simp only [Outcome.ok.injEq] at h
    subst h
    unfold shapeOK
    simp only [shapeOKFields_map g fs.toList (fun f hf v hv => (hg f hf v hv).1), Bool.true_and]
  · cases h

theorem allAbsent_map (g : Bytes → Option TL) : (fs : List Field) → (∀ f ∈ fs, g f.name = none) →
    tupleDense.allAbsent (TLKVs.ofList (fs.map fun f => (f.name, (g f.name).getD .absent))) = true
  | [], _ => by simp [tupleDense.allAbsent]
  | f :: fs, h => by
    simp only [List.map_cons, TLKVs.ofList_cons, tupleDense.allAbsent, h f (by simp), Option.getD_none,
      beq_self_eq_true, Bool.true_and]
    exact allAbsent_map g fs (fun f' hf' => h f' (by simp [hf']))

theorem allAbsent_dense : (es : TLKVs) → tupleDense.allAbsent es = true → tupleDense es = true
  | .nil, _ => rfl
  | .cons k v es, h => by
    simp only [tupleDense.allAbsent, Bool.and_eq_true, beq_iff_eq] at h
    simp [tupleDense, h.1, h.2]

theorem tupleDense_map (g : Bytes → Option TL) : (pre suf : List Field) →
    (∀ f ∈ pre, ∃ v, g f.name = some v ∧ v ≠ .absent) → (∀ f ∈ suf, g f.name = none) →
    tupleDense (TLKVs.ofList ((pre ++ suf).map fun f => (f.name, (g f.name).getD .absent))) = true
  | [], suf, _, hs => by
    simp only [List.nil_append]
    exact allAbsent_dense _ (allAbsent_map g suf hs)
  | f :: pre, suf, hp, hs => by
    obtain ⟨v, hv, hne⟩ := hp f (by simp)
    simp only [List.cons_append, List.map_cons, TLKVs.ofList_cons, tupleDense, hv, Option.getD_some, hne,
      if_false]
    exact tupleDense_map g pre suf (fun f' hf' => hp f' (by simp [hf'])) hs

theorem finish_shape_tuple (fs : Fields) (pre suf : List Field) (hfs : fs.toList = pre ++ suf)
    (g : Bytes → Option TL) (hg : GSh fs.toList g)
    (hp : ∀ f ∈ pre, (g f.name).isSome = true) (hs : ∀ f ∈ suf, g f.name = none) (v : TL)
    (h : (SSt.ofFn fs.toList g).finish fs.toList = .ok v) :
    shapeOK (.struct fs .tuple) v = true := by
  rw [SSt.ofFn_finish] at h
  split at h
  · simp only [Outcome.ok.injEq] at h
    subst h
    unfold shapeOK
    simp only [shapeOKFields_map g fs.toList (fun f hf v hv => (hg f hf v hv).1), Bool.true_and]
    rw [hfs]
    apply tupleDense_map g pre suf _ hs
    intro f hf
    cases hgf : g f.name with
    | none => have := hp f hf; simp [hgf] at this
    | some v => exact ⟨v, rfl, (hg f (by rw [hfs]; simp [hf]) v hgf).2⟩
  · cases h

/-! ## Scalars -/

mutual
theorem buildScalar_shape (nul : Bool) (d : DM) : (ty : Ty) → ty.wf = true → (v : TL) →
    buildScalar Engine.ideal .repr nul d ty = .ok v → shapeOK ty v = true
  | .bool, _, v, h => by cases d <;> simp [buildScalar] at h; subst h; simp [shapeOK]
  | .int, _, v, h => by cases d <;> simp [buildScalar] at h; subst h; simp [shapeOK]
  | .float, _, v, h => by cases d <;> simp [buildScalar] at h; subst h; simp [shapeOK]
  | .str, _, v, h => by cases d <;> simp [buildScalar] at h; subst h; simp [shapeOK]
  | .bytes, _, v, h => by cases d <;> simp [buildScalar] at h; subst h; simp [shapeOK]
  | .link, _, v, h => by cases d <;> simp [buildScalar] at h; subst h; simp [shapeOK]
  | .any, _, v, _ => shapeOK_any v
  | .list _ _, _, v, h => by simp [buildScalar] at h
  | .map _ _, _, v, h => by simp [buildScalar] at h
  | .struct fs r, hwf, v, h => by
    unfold buildScalar at h
    split at h
    · simp only [] at h
      split at h
      · cases h
      · split at h
        · next es hes =>
          simp only [Outcome.ok.injEq] at h
          subst h
          have hw := wf_struct hwf
          unfold shapeOK
          simp only [buildJoin_shape fs _ hw.1 es hes, Bool.true_and]
        · cases h
        · cases h
    · cases h
  | .union ms r, hwf, v, h => by
    have hw := wf_union hwf
    unfold buildScalar at h
    split at h
    · exact shapeOK_of_unionShape ms _ hw.2 v (buildKinded_shape nul d ms hw.1 v h)
    · split at h
      · split at h
        · exact shapeOK_of_unionShape ms _ hw.2 v (buildPrefixNoDelim_shape nul _ ms hw.1 v h)
        · split at h
          · cases h
          · exact shapeOK_of_unionShape ms _ hw.2 v (buildPrefix_shape nul _ _ ms hw.1 v h)
      · cases h
    · cases h
  | .enum ms r, _, v, h => by
    have : ∀ s, v = .str s → shapeOK (.enum ms r) v = true := by
      intro s hs; subst hs; simp [shapeOK]
    unfold buildScalar at h
    split at h
    · next heq => cases heq
    · split at h
      · split at h
        · simp only [Outcome.ok.injEq] at h; exact this _ h.symm
        · simp at h
      · cases h
    · split at h
      · split at h
        · simp only [Outcome.ok.injEq] at h; exact this _ h.symm
        · cases h
      · cases h
    · cases h
theorem buildJoin_shape : (fs : Fields) → (ps : List Bytes) → fs.wf = true →
    (es : List (Bytes × TL)) → buildJoin Engine.ideal fs ps = .ok es →
    shapeOKFields fs.toList (TLKVs.ofList es) = true
  | .nil, [], _, es, h => by
    simp only [buildJoin, Outcome.ok.injEq] at h; subst h; simp [Fields.toList, shapeOKFields]
  | .nil, _ :: _, _, es, h => by simp [buildJoin] at h
  | .cons _ _ _ _ _ _, [], _, es, h => by simp [buildJoin] at h
  | .cons n rn o nu t rest, p :: ps, hwf, es, h => by
    simp only [Fields.wf, Bool.and_eq_true] at hwf
    unfold buildJoin at h
    split at h
    · next v hv =>
      split at h
      · next es' hes' =>
        simp only [Outcome.ok.injEq] at h; subst h
        simp only [Fields.toList, TLKVs.ofList_cons, shapeOKFields_cons, beq_self_eq_true, Bool.true_and,
          Bool.and_eq_true]
        exact ⟨buildScalar_shape false (.str p) t hwf.1 v hv, buildJoin_shape rest ps hwf.2 es' hes'⟩
      · cases h
      · cases h
    · cases h
    · cases h
theorem buildKinded_shape (nul : Bool) (d : DM) : (ms : Members) → ms.wf = true →
    (v : TL) → buildKinded Engine.ideal nul d ms = .ok v → UnionShape ms.toList v
  | .nil, _, v, h => by simp [buildKinded] at h
  | .cons n dc k t rest, hwf, v, h => by
    simp only [Members.wf, Bool.and_eq_true] at hwf
    unfold buildKinded at h
    split at h
    · simp only [ideal_nullableUnionPanic, Bool.and_false, Bool.false_eq_true, if_false,
        Outcome.map_eq_ok] at h
      obtain ⟨tv, htv, rfl⟩ := h
      exact ⟨⟨n, dc, k, t⟩, by simp [Members.toList], tv, rfl, buildScalar_shape false d t hwf.1 tv htv⟩
    · exact UnionShape_cons _ _ _ (buildKinded_shape nul d rest hwf.2 v h)
theorem buildPrefix_shape (nul : Bool) (p r : Bytes) : (ms : Members) → ms.wf = true →
    (v : TL) → buildPrefix Engine.ideal nul p r ms = .ok v → UnionShape ms.toList v
  | .nil, _, v, h => by simp [buildPrefix] at h
  | .cons n dc k t rest, hwf, v, h => by
    simp only [Members.wf, Bool.and_eq_true] at hwf
    unfold buildPrefix at h
    split at h
    · simp only [ideal_nullableUnionPanic, Bool.and_false, Bool.false_eq_true, if_false,
        Outcome.map_eq_ok] at h
      obtain ⟨tv, htv, rfl⟩ := h
      exact ⟨⟨n, dc, k, t⟩, by simp [Members.toList], tv, rfl, buildScalar_shape false _ t hwf.1 tv htv⟩
    · exact UnionShape_cons _ _ _ (buildPrefix_shape nul p r rest hwf.2 v h)
theorem buildPrefixNoDelim_shape (nul : Bool) (s : Bytes) : (ms : Members) → ms.wf = true →
    (v : TL) → buildPrefixNoDelim Engine.ideal nul s ms = .ok v → UnionShape ms.toList v
  | .nil, _, v, h => by simp [buildPrefixNoDelim] at h
  | .cons n dc k t rest, hwf, v, h => by
    simp only [Members.wf, Bool.and_eq_true] at hwf
    unfold buildPrefixNoDelim at h
    split at h
    · simp only [ideal_nullableUnionPanic, Bool.and_false, Bool.false_eq_true, if_false,
        Outcome.map_eq_ok] at h
      obtain ⟨tv, htv, rfl⟩ := h
      exact ⟨⟨n, dc, k, t⟩, by simp [Members.toList], tv, rfl, buildScalar_shape false _ t hwf.1 tv htv⟩
    · exact UnionShape_cons _ _ _ (buildPrefixNoDelim_shape nul s rest hwf.2 v h)
end

/-! ## Kinded dispatch -/

mutual
theorem resolveKinded_shape (nul : Bool) (k : Kind) : (ty : Ty) → ty.wf = true → (ty' : Ty) →
    (path : List Bytes) → resolveKinded Engine.ideal nul k ty = .ok (ty', path) →
    ∀ v, shapeOK ty' v = true → shapeOK ty (wrapPath path v) = true
  | .union ms .kinded, hwf, ty', path, h => by
    unfold resolveKinded at h
    have hw := wf_union hwf
    obtain ⟨m, hm, rest, rfl, h2⟩ := resolveMembers_shape nul k ms hw.1 ty' path h
    intro v hv
    exact shapeOK_union_single ms _ hw.2 m hm _ (h2 v hv)
  | .union ms .keyed, _, ty', path, h => by
    simp only [resolveKinded, Outcome.ok.injEq, Prod.mk.injEq] at h
    obtain ⟨rfl, rfl⟩ := h; exact fun v hv => hv
  | .union ms (.stringprefix _), _, ty', path, h => by
    simp only [resolveKinded, Outcome.ok.injEq, Prod.mk.injEq] at h
    obtain ⟨rfl, rfl⟩ := h; exact fun v hv => hv
  | .bool, _, ty', path, h => by
    simp only [resolveKinded, Outcome.ok.injEq, Prod.mk.injEq] at h
    obtain ⟨rfl, rfl⟩ := h; exact fun v hv => hv
  | .int, _, ty', path, h => by
    simp only [resolveKinded, Outcome.ok.injEq, Prod.mk.injEq] at h
    obtain ⟨rfl, rfl⟩ := h; exact fun v hv => hv
  | .float, _, ty', path, h => by
    simp only [resolveKinded, Outcome.ok.injEq, Prod.mk.injEq] at h
    obtain ⟨rfl, rfl⟩ := h; exact fun v hv => hv
  | .str, _, ty', path, h => by
    simp only [resolveKinded, Outcome.ok.injEq, Prod.mk.injEq] at h
    obtain ⟨rfl, rfl⟩ := h; exact fun v hv => hv
  | .bytes, _, ty', path, h => by
    simp only [resolveKinded, Outcome.ok.injEq, Prod.mk.injEq] at h
    obtain ⟨rfl, rfl⟩ := h; exact fun v hv => hv
  | .link, _, ty', path, h => by
    simp only [resolveKinded, Outcome.ok.injEq, Prod.mk.injEq] at h
    obtain ⟨rfl, rfl⟩ := h; exact fun v hv => hv
  | .any, _, ty', path, h => by
    simp only [resolveKinded, Outcome.ok.injEq, Prod.mk.injEq] at h
    obtain ⟨rfl, rfl⟩ := h; exact fun v hv => hv
  | .list _ _, _, ty', path, h => by
    simp only [resolveKinded, Outcome.ok.injEq, Prod.mk.injEq] at h
    obtain ⟨rfl, rfl⟩ := h; exact fun v hv => hv
  | .map _ _, _, ty', path, h => by
    simp only [resolveKinded, Outcome.ok.injEq, Prod.mk.injEq] at h
    obtain ⟨rfl, rfl⟩ := h; exact fun v hv => hv
  | .struct _ _, _, ty', path, h => by
    simp only [resolveKinded, Outcome.ok.injEq, Prod.mk.injEq] at h
    obtain ⟨rfl, rfl⟩ := h; exact fun v hv => hv
  | .enum _ _, _, ty', path, h => by
    simp only [resolveKinded, Outcome.ok.injEq, Prod.mk.injEq] at h
    obtain ⟨rfl, rfl⟩ := h; exact fun v hv => hv
theorem resolveMembers_shape (nul : Bool) (k : Kind) : (ms : Members) → ms.wf = true → (ty' : Ty) →
    (path : List Bytes) → resolveMembers Engine.ideal nul k ms = .ok (ty', path) →
    ∃ m ∈ ms.toList, ∃ rest, path = m.name :: rest ∧
      ∀ v, shapeOK ty' v = true → shapeOK m.ty (wrapPath rest v) = true
  | .nil, _, _, _, h => by simp [resolveMembers] at h
  | .cons n dc k' t rest, hwf, ty', path, h => by
    simp only [Members.wf, Bool.and_eq_true] at hwf
    unfold resolveMembers at h
    split at h
    · simp only [ideal_nullableUnionPanic, Bool.and_false, Bool.false_eq_true, if_false] at h
      split at h
      · next t' p' hq =>
        simp only [Outcome.ok.injEq, Prod.mk.injEq] at h
        obtain ⟨rfl, rfl⟩ := h
        exact ⟨⟨n, dc, k', t⟩, by simp [Members.toList], p', rfl,
          resolveKinded_shape false k t hwf.1 _ _ hq⟩
      · cases h
      · cases h
    · obtain ⟨m, hm, r, hp, h2⟩ := resolveMembers_shape nul k rest hwf.2 ty' path h
      exact ⟨m, by simp [Members.toList, hm], r, hp, h2⟩
end

/-! ## Lists and maps -/

theorem shapeOKList_ofList (ety : Ty) : (ys : List TL) → (∀ y ∈ ys, shapeOK ety y = true) →
    shapeOKList ety (TLs.ofList ys) = true
  | [], _ => by simp [shapeOKList]
  | y :: ys, h => by
    simp only [TLs.ofList_cons, shapeOKList, Bool.and_eq_true]
    exact ⟨h y (by simp), shapeOKList_ofList ety ys (fun y' hy' => h y' (by simp [hy']))⟩

theorem shapeOKMap_ofList (vty : Ty) : (ys : List (Bytes × TL)) → (∀ e ∈ ys, shapeOK vty e.2 = true) →
    shapeOKMap vty (TLKVs.ofList ys) = true
  | [], _ => by simp [shapeOKMap]
  | (k, v) :: ys, h => by
    simp only [TLKVs.ofList_cons, shapeOKMap, Bool.and_eq_true]
    exact ⟨h (k, v) (by simp), shapeOKMap_ofList vty ys (fun e he => h e (by simp [he]))⟩

theorem mem_mapAppend (acc : List (Bytes × TL)) (k : Bytes) (v : TL) (e : Bytes × TL)
    (he : e ∈ mapAppend acc k v) : e.2 = v ∨ e ∈ acc := by
  unfold mapAppend at he
  simp only [List.mem_append, List.mem_map, List.mem_singleton] at he
  rcases he with ⟨e', he', rfl⟩ | rfl
  · split
    · exact Or.inl rfl
    · exact Or.inr he'
  · exact Or.inl rfl

/-! ## The representation-level builder -/

mutual
theorem build_shape : (d : DM) → (ty : Ty) → (nul : Bool) → ty.wf = true → (v : TL) →
    build Engine.ideal .repr ty nul none d = .ok v → shapeOK ty v = true
  | .null, ty, nul, _, v, h => by
    unfold build at h
    split at h
    · simp only [Outcome.ok.injEq] at h; subst h; exact shapeOK_scalar ty _ (by simp) (by simp)
    · cases h
  | .bool b, ty, nul, hwf, v, h => by unfold build at h; exact buildScalar_shape nul _ ty hwf v h
  | .int b, ty, nul, hwf, v, h => by unfold build at h; exact buildScalar_shape nul _ ty hwf v h
  | .float b, ty, nul, hwf, v, h => by unfold build at h; exact buildScalar_shape nul _ ty hwf v h
  | .str b, ty, nul, hwf, v, h => by unfold build at h; exact buildScalar_shape nul _ ty hwf v h
  | .bytes b, ty, nul, hwf, v, h => by unfold build at h; exact buildScalar_shape nul _ ty hwf v h
  | .link b, ty, nul, hwf, v, h => by unfold build at h; exact buildScalar_shape nul _ ty hwf v h
  | .list xs, ty, nul, hwf, v, h => by
    rw [build_repr_list] at h
    split at h
    · cases h
    · cases h
    · next ty' path hres =>
      simp only [Outcome.map_eq_ok] at h
      obtain ⟨r, hr, rfl⟩ := h
      apply resolveKinded_shape nul .list ty hwf ty' path hres
      have hwf' := (resolveKinded_conforms nul .list ty hwf ty' path hres).1
      unfold listBody at hr
      split at hr
      · next ety enul =>
        simp only [curList, Outcome.map_eq_ok] at hr
        obtain ⟨ys, hys, rfl⟩ := hr
        unfold shapeOK
        have hwe : ety.wf = true := by simpa [Ty.wf] using hwf'
        exact shapeOKList_ofList ety ys (buildList_shape xs ety enul hwe [] ys hys (by simp))
      · next fs sr =>
        have hw := wf_struct hwf'
        rw [SSt.init_none] at hr
        split at hr
        · obtain ⟨g', pre', suf', hfs, hg', hp, hs, hfin⟩ :=
            buildTuple_shape xs fs.toList (Fields.wf_mem fs hw.1) hw.2.1 [] fs.toList rfl _
              (GSh_none _) (by simp) (by simp) r hr
          exact finish_shape_tuple fs pre' suf' hfs g' hg' hp hs r hfin
        · obtain ⟨g', hg', hfin⟩ := buildPairs_shape xs fs.toList (Fields.wf_mem fs hw.1) hw.2.1 _
            (GSh_none _) r hr
          exact finish_shape fs _ (by simp) g' hg' r hfin
        · cases hr
      · exact shapeOK_any r
      · cases hr
  | .map es, ty, nul, hwf, v, h => by
    rw [build_repr_map _ ideal_nodeOff] at h
    split at h
    · cases h
    · cases h
    · next ty' path hres =>
      simp only [Outcome.map_eq_ok] at h
      obtain ⟨r, hr, rfl⟩ := h
      apply resolveKinded_shape nul .map ty hwf ty' path hres
      have hwf' := (resolveKinded_conforms nul .map ty hwf ty' path hres).1
      unfold mapBody at hr
      split at hr
      · next vty vnul =>
        simp only [curMap, Outcome.map_eq_ok] at hr
        obtain ⟨ys, hys, rfl⟩ := hr
        unfold shapeOK
        have hwe : vty.wf = true := by simpa [Ty.wf] using hwf'
        exact shapeOKMap_ofList vty ys (buildMap_shape es vty vnul hwe [] ys hys (by simp))
      · next fs sr =>
        have hw := wf_struct hwf'
        rw [SSt.init_none] at hr
        split at hr
        · next heq => cases heq
        · obtain ⟨g', hg', hfin⟩ := buildStruct_shape es fs.toList (Fields.wf_mem fs hw.1) hw.2.1 _
            (GSh_none _) r hr
          exact finish_shape fs _ (by simp) g' hg' r hfin
        · cases hr
      · next ms ur =>
        have hw := wf_union hwf'
        split at hr
        · next heq => cases heq
        · exact shapeOK_of_unionShape ms _ hw.2 r
            (buildUnion_shape es ms.toList (Members.wf_mem ms hw.1) none 0 r hr (by simp))
        · cases hr
      · exact shapeOK_any r
      · cases hr
theorem buildList_shape : (xs : DMs) → (ety : Ty) → (enul : Bool) → ety.wf = true →
    (acc ys : List TL) → buildList Engine.ideal .repr ety enul acc xs = .ok ys →
    (∀ y ∈ acc, shapeOK ety y = true) → ∀ y ∈ ys, shapeOK ety y = true
  | .nil, _, _, _, acc, ys, h, hacc => by
    simp only [buildList, Outcome.ok.injEq] at h; subst h; exact hacc
  | .cons x xs, ety, enul, hwf, acc, ys, h, hacc => by
    unfold buildList at h
    split at h
    · next v hv =>
      have hc := build_shape x ety enul hwf v hv
      apply buildList_shape xs ety enul hwf (acc ++ [v]) ys h
      intro y hy
      simp only [List.mem_append, List.mem_singleton] at hy
      rcases hy with hy | rfl
      · exact hacc y hy
      · exact hc
    · cases h
    · cases h
theorem buildMap_shape : (es : DMKVs) → (vty : Ty) → (vnul : Bool) → vty.wf = true →
    (acc ys : List (Bytes × TL)) → buildMap Engine.ideal .repr vty vnul acc es = .ok ys →
    (∀ e ∈ acc, shapeOK vty e.2 = true) → ∀ e ∈ ys, shapeOK vty e.2 = true
  | .nil, _, _, _, acc, ys, h, hacc => by
    simp only [buildMap, Outcome.ok.injEq] at h; subst h; exact hacc
  | .cons k v es, vty, vnul, hwf, acc, ys, h, hacc => by
    rw [buildMap_cons_ideal] at h
    split at h
    · cases h
    · split at h
      · next tv htv =>
        have hc := build_shape v vty vnul hwf tv htv
        apply buildMap_shape es vty vnul hwf _ ys h
        intro e he
        rcases mem_mapAppend acc k tv e he with h1 | h1
        · rw [h1]; exact hc
        · exact hacc e h1
      · cases h
      · cases h
theorem buildStruct_shape : (es : DMKVs) → (fs : List Field) →
    (∀ f ∈ fs, f.ty.wf = true) → (fs.map (·.name)).Nodup → (g : Bytes → Option TL) → GSh fs g →
    (v : TL) → buildStruct Engine.ideal .repr fs (SSt.ofFn fs g) es = .ok v →
    ∃ g', GSh fs g' ∧ (SSt.ofFn fs g').finish fs = .ok v
  | .nil, fs, _, _, g, hg, v, h => by
    unfold buildStruct at h; exact ⟨g, hg, h⟩
  | .cons k x es, fs, hwf, hnd, g, hg, v, h => by
    unfold buildStruct at h
    split at h
    · cases h
    · next i f hf =>
      have hk := fieldByKey_ideal_some .repr fs k i f hf
      split at h
      · cases h
      · rw [SSt.curOf_ideal] at h
        split at h
        · next tv htv =>
          have hc := build_shape x f.ty f.nullable (hwf f hk.2.1) tv htv
          have hne := conforms_ne_absent _ _ _ (build_conforms .repr x f.ty f.nullable (hwf f hk.2.1) tv htv)
          rw [SSt.ofFn_assign fs g i f tv hk.1 hnd] at h
          exact buildStruct_shape es fs hwf hnd _ (GSh_set fs hnd g hg f hk.2.1 tv hc hne) v h
        · cases h
        · cases h
theorem buildTuple_shape : (xs : DMs) → (fs : List Field) →
    (∀ f ∈ fs, f.ty.wf = true) → (fs.map (·.name)).Nodup → (pre suf : List Field) → fs = pre ++ suf →
    (g : Bytes → Option TL) → GSh fs g → (∀ f ∈ pre, (g f.name).isSome = true) →
    (∀ f ∈ suf, g f.name = none) → (v : TL) →
    buildTuple Engine.ideal fs (SSt.ofFn fs g) pre.length xs = .ok v →
    ∃ g' pre' suf', fs = pre' ++ suf' ∧ GSh fs g' ∧ (∀ f ∈ pre', (g' f.name).isSome = true) ∧
      (∀ f ∈ suf', g' f.name = none) ∧ (SSt.ofFn fs g').finish fs = .ok v
  | .nil, fs, _, _, pre, suf, hfs, g, hg, hp, hs, v, h => by
    unfold buildTuple at h; exact ⟨g, pre, suf, hfs, hg, hp, hs, h⟩
  | .cons x xs, fs, hwf, hnd, pre, suf, hfs, g, hg, hp, hs, v, h => by
    unfold buildTuple at h
    split at h
    · cases h
    · next f hf =>
      cases suf with
      | nil => simp [hfs] at hf
      | cons f0 suf =>
        have hf0 : f0 = f := by simpa [hfs] using hf
        subst hf0
        have hmem : f0 ∈ fs := List.mem_of_getElem? hf
        rw [SSt.curOf_ideal] at h
        split at h
        · next tv htv =>
          have hc := build_shape x f0.ty f0.nullable (hwf f0 hmem) tv htv
          have hne := conforms_ne_absent _ _ _ (build_conforms .repr x f0.ty f0.nullable (hwf f0 hmem) tv htv)
          rw [SSt.ofFn_assign fs g _ f0 tv hf hnd] at h
          have hlen : (pre ++ [f0]).length = pre.length + 1 := by simp
          rw [← hlen] at h
          refine buildTuple_shape xs fs hwf hnd (pre ++ [f0]) suf (by simp [hfs]) _
            (GSh_set fs hnd g hg f0 hmem tv hc hne) ?_ ?_ v h
          · intro f' hf'
            simp only [List.mem_append, List.mem_singleton] at hf'
            simp only [setFn]
            split
            · rfl
            · rcases hf' with hf' | rfl
              · exact hp f' hf'
              · simp_all
          · intro f' hf'
            have hne' : f'.name ≠ f0.name := by
              intro heq
              rw [hfs, List.map_append, List.map_cons] at hnd
              have := (List.nodup_cons.1 (List.nodup_append.1 hnd).2.1).1
              exact this (heq ▸ List.mem_map_of_mem hf')
            rw [setFn_other _ _ _ _ hne']
            exact hs f' (by simp [hf'])
        · cases h
        · cases h
theorem buildPairs_shape : (xs : DMs) → (fs : List Field) →
    (∀ f ∈ fs, f.ty.wf = true) → (fs.map (·.name)).Nodup → (g : Bytes → Option TL) → GSh fs g →
    (v : TL) → buildPairs Engine.ideal fs (SSt.ofFn fs g) xs = .ok v →
    ∃ g', GSh fs g' ∧ (SSt.ofFn fs g').finish fs = .ok v
  | .nil, fs, _, _, g, hg, v, h => by
    unfold buildPairs at h; exact ⟨g, hg, h⟩
  | .cons (.list (.cons (.str k) (.cons x rest))) ps, fs, hwf, hnd, g, hg, v, h => by
    unfold buildPairs at h
    simp only [] at h
    split at h
    · simp at h
    · next i f hf =>
      have hfi := findIdx_some _ fs i f hf
      have hmem : f ∈ fs := List.mem_of_getElem? hfi.1
      split at h
      · cases h
      · rw [SSt.curOf_ideal] at h
        split at h
        · next tv htv =>
          have hc := build_shape x f.ty f.nullable (hwf f hmem) tv htv
          have hne := conforms_ne_absent _ _ _ (build_conforms .repr x f.ty f.nullable (hwf f hmem) tv htv)
          split at h
          · rw [SSt.ofFn_assign fs g i f tv hfi.1 hnd] at h
            exact buildPairs_shape ps fs hwf hnd _ (GSh_set fs hnd g hg f hmem tv hc hne) v h
          · cases h
        · cases h
        · cases h
  | .cons (.list .nil) ps, _, _, _, _, _, _, h => by simp [buildPairs] at h
  | .cons (.list (.cons (.str _) .nil)) ps, _, _, _, _, _, _, h => by simp [buildPairs] at h
  | .cons .null ps, _, _, _, _, _, _, h => by simp [buildPairs] at h
  | .cons (.bool _) ps, _, _, _, _, _, _, h => by simp [buildPairs] at h
  | .cons (.int _) ps, _, _, _, _, _, _, h => by simp [buildPairs] at h
  | .cons (.float _) ps, _, _, _, _, _, _, h => by simp [buildPairs] at h
  | .cons (.str _) ps, _, _, _, _, _, _, h => by simp [buildPairs] at h
  | .cons (.bytes _) ps, _, _, _, _, _, _, h => by simp [buildPairs] at h
  | .cons (.link _) ps, _, _, _, _, _, _, h => by simp [buildPairs] at h
  | .cons (.map _) ps, _, _, _, _, _, _, h => by simp [buildPairs] at h
  | .cons (.list (.cons .null _)) ps, _, _, _, _, _, _, h => by simp [buildPairs] at h
  | .cons (.list (.cons (.bool _) _)) ps, _, _, _, _, _, _, h => by simp [buildPairs] at h
  | .cons (.list (.cons (.int _) _)) ps, _, _, _, _, _, _, h => by simp [buildPairs] at h
  | .cons (.list (.cons (.float _) _)) ps, _, _, _, _, _, _, h => by simp [buildPairs] at h
  | .cons (.list (.cons (.bytes _) _)) ps, _, _, _, _, _, _, h => by simp [buildPairs] at h
  | .cons (.list (.cons (.link _) _)) ps, _, _, _, _, _, _, h => by simp [buildPairs] at h
  | .cons (.list (.cons (.list _) _)) ps, _, _, _, _, _, _, h => by simp [buildPairs] at h
  | .cons (.list (.cons (.map _) _)) ps, _, _, _, _, _, _, h => by simp [buildPairs] at h
theorem buildUnion_shape : (es : DMKVs) → (ms : List Member) →
    (∀ m ∈ ms, m.ty.wf = true) → (cur : Option TL) → (n : Nat) → (v : TL) →
    buildUnion Engine.ideal .repr ms cur n es = .ok v → (∀ c, cur = some c → UnionShape ms c) →
    UnionShape ms v
  | .nil, ms, _, cur, n, v, h, hcur => by
    unfold buildUnion at h
    split at h
    · simp only [Outcome.ok.injEq] at h; subst h; exact hcur _ rfl
    · cases h
  | .cons k x es, ms, hwf, cur, n, v, h, hcur => by
    unfold buildUnion at h
    split at h
    · cases h
    · split at h
      · cases h
      · next m hm =>
        have hmem : m ∈ ms := by
          rw [memberByKey_ideal] at hm
          exact List.mem_of_find?_eq_some hm
        split at h
        · next tv htv =>
          have hc := build_shape x m.ty false (hwf m hmem) tv htv
          apply buildUnion_shape es ms hwf _ _ v h
          intro c hcv
          simp only [Option.some.injEq] at hcv
          subst hcv
          exact ⟨m, hmem, tv, rfl, hc⟩
        · cases h
        · cases h
end

/-- Every node the ideal representation builder builds has a representation. -/
theorem build_repr_has_repr (ty : Ty) (nul : Bool) (d : DM) (v : TL) (hwf : ty.wf = true)
    (h : build Engine.ideal .repr ty nul none d = .ok v) : ∃ d', toRepr ty nul v = some d' :=
  total v ty nul hwf (build_conforms .repr d ty nul hwf v h) (build_shape d ty nul hwf v h)

end Schema
end Ipld
