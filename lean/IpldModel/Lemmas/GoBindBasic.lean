/-
  C19 (binding model): first facts about `Model/GoBind.lean` - pointers, lookups, the union struct, widths.
-/
import IpldModel.Model.GoBind
import IpldModel.Lemmas.SchemaBasic
import IpldModel.Lemmas.SchemaNorm
namespace Ipld
namespace GoBind
open Schema

/-! ## `zipSome` -/

@[simp] theorem zipSome_some {α β γ : Type} (f : α → β → γ) (a : α) (b : β) :
    zipSome f (some a) (some b) = some (f a b) := rfl
@[simp] theorem zipSome_none_left {α β γ : Type} (f : α → β → γ) (b : Option β) :
    zipSome f none b = none := by cases b <;> rfl
@[simp] theorem zipSome_none_right {α β γ : Type} (f : α → β → γ) (a : Option α) :
    zipSome f a none = none := by cases a <;> rfl

theorem zipSome_eq_some {α β γ : Type} {f : α → β → γ} {a : Option α} {b : Option β} {c : γ} :
    zipSome f a b = some c ↔ ∃ x y, a = some x ∧ b = some y ∧ f x y = c := by
  cases a <;> cases b <;> simp

theorem zipSome_eq_none {α β γ : Type} {f : α → β → γ} {a : Option α} {b : Option β} :
    zipSome f a b = none ↔ a = none ∨ b = none := by
  cases a <;> cases b <;> simp

/-! ## Slots of struct fields -/

theorem notPtr_of_isBare {g : GoTy} (h : isBare g = true) : notPtr g = true := by
  cases g <;> simp [isBare] at h <;> rfl

theorem isBare_ptr (g : GoTy) : isBare (.ptr g) = false := rfl

theorem ptrElem_some {g g1 : GoTy} (h : ptrElem g = some g1) : g = .ptr g1 := by
  cases g <;> simp [ptrElem] at h
  rw [h]

theorem fslot_value {g : GoTy} {o n : Bool} (h : fslot g o n = .value) : o = false := by
  unfold fslot at h
  cases o <;> cases hp : ptrElem g <;> cases n <;> cases hb : isBare g <;> simp [hp, hb] at h ⊢

theorem fslot_optPtr {g g1 : GoTy} {o n : Bool} (h : fslot g o n = .optPtr g1) : o = true ∧ g = .ptr g1 := by
  unfold fslot at h
  cases o <;> cases hp : ptrElem g <;> cases n <;> cases hb : isBare g <;> simp [hp, hb] at h ⊢
  all_goals (subst h; exact ptrElem_some hp)

theorem fslot_optBare {g : GoTy} {o n : Bool} (h : fslot g o n = .optBare) :
    o = true ∧ n = false ∧ isBare g = true := by
  unfold fslot at h
  cases o <;> cases hp : ptrElem g <;> cases n <;> cases hb : isBare g <;> simp [hp, hb] at h ⊢

/-- what the struct iterator shows of one field -/
def viewField (g : GoTy) (f : Field) (x : GoVal) : Option TL :=
  match fslot g f.opt f.nullable with
  | .value => view g f.ty f.nullable x
  | .optPtr g1 =>
    (match x with
     | .nilPtr => some .absent
     | .ptr v => view g1 f.ty f.nullable v
     | _ => none)
  | .optBare => if x = .nilBare then some .absent else view g f.ty false x
  | .bad => none

theorem view_false_nilBare (g : GoTy) (t : Ty) : view g t false .nilBare = none := by
  simp [view]

theorem viewFields_cons (n : Bytes) (g : GoTy) (gfs : GoFields) (f : Field) (fs : List Field) (x : GoVal)
    (xs : GoVals) :
    viewFields (.cons n g gfs) (f :: fs) (.cons x xs) =
      zipSome (TLKVs.cons f.name) (viewField g f x) (viewFields gfs fs xs) := by
  cases x <;> simp only [viewFields, viewField] <;> cases fslot g f.opt f.nullable <;>
    simp only [reduceCtorEq, if_false]

def wtField (g : GoTy) (f : Field) (x : GoVal) : Bool :=
  match fslot g f.opt f.nullable with
  | .value => wt g f.ty f.nullable x
  | .optPtr g1 =>
    (match x with
     | .nilPtr => true
     | .ptr v => wt g1 f.ty f.nullable v
     | _ => false)
  | .optBare => x = .nilBare || (decide (x ≠ .nilSlice) && wt g f.ty false x)
  | .bad => false

theorem wtFields_cons (n : Bytes) (g : GoTy) (gfs : GoFields) (f : Field) (fs : List Field) (x : GoVal)
    (xs : GoVals) :
    wtFields (.cons n g gfs) (f :: fs) (.cons x xs) = (wtField g f x && wtFields gfs fs xs) := by
  cases x <;> simp only [wtFields, wtField] <;> cases fslot g f.opt f.nullable <;> simp

/-- `compatFields`, by slot -/
def compatField (g : GoTy) (f : Field) : Bool :=
  match fslot g f.opt f.nullable with
  | .value => compatible g f.ty f.nullable
  | .optPtr g1 => (!f.nullable || !notPtr g1) && compatible g1 f.ty f.nullable
  | .optBare => compatible g f.ty false
  | .bad => false

theorem compatFields_cons (n : Bytes) (g : GoTy) (gfs : GoFields) (f : Field) (fs : List Field) :
    compatFields (.cons n g gfs) (f :: fs) = (n == f.name && compatField g f && compatFields gfs fs) := by
  conv => lhs; unfold compatFields
  congr 1; congr 1
  unfold compatField fslot
  cases ho : f.opt <;> cases hn : f.nullable <;> cases g <;>
    simp [isBare, ptrElem] <;> (try (rename_i lf; cases lf <;> simp))

/-- what is stored into one field -/
def assignField (g : GoTy) (f : Field) (v : TL) : Option GoVal :=
  match fslot g f.opt f.nullable with
  | .value => assignC g f.ty f.nullable v
  | .optPtr g1 => if v = .absent then some GoVal.nilPtr else (assignC g1 f.ty f.nullable v).map GoVal.ptr
  | .optBare => if v = .absent then some GoVal.nilBare else assignC g f.ty false v
  | .bad => none

theorem assignFields_cons (n : Bytes) (g : GoTy) (gfs : GoFields) (f : Field) (fs : List Field) (k : Bytes)
    (v : TL) (es : TLKVs) :
    assignFields (.cons n g gfs) (f :: fs) (.cons k v es) =
      if k != f.name then none else zipSome GoVals.cons (assignField g f v) (assignFields gfs fs es) := by
  conv => lhs; unfold assignFields
  rfl

def intsFitField (g : GoTy) (f : Field) (v : TL) : Bool :=
  match fslot g f.opt f.nullable with
  | .value => intsFit g f.ty f.nullable v
  | .optPtr g1 => intsFit g1 f.ty f.nullable v
  | .optBare => intsFit g f.ty false v
  | .bad => true

theorem intsFitFields_cons (n : Bytes) (g : GoTy) (gfs : GoFields) (f : Field) (fs : List Field) (k : Bytes)
    (v : TL) (es : TLKVs) :
    intsFitFields (.cons n g gfs) (f :: fs) (.cons k v es) = (intsFitField g f v && intsFitFields gfs fs es) := by
  conv => lhs; unfold intsFitFields
  rfl

/-! ## Pointers and bare nilable types -/

/-- the three ways a value slot can be shaped: two pointers (one of them more than needed), one pointer, none -/
theorem unptr_some {nul : Bool} {g g0 : GoTy} (h : unptr nul g = some g0) :
    g = .ptr (.ptr g0) ∨ (g = .ptr g0 ∧ notPtr g0 = true) ∨
      (g = g0 ∧ notPtr g0 = true ∧ (nul = false ∨ isBare g0 = true)) := by
  cases g with
  | ptr g1 =>
    cases g1 with
    | ptr b => left; simp [unptr] at h; rw [h]
    | _ => right; left; simp [unptr] at h; subst h; exact ⟨rfl, rfl⟩
  | _ =>
    right; right
    cases nul <;> simp [unptr, isBare] at h <;> (try subst h) <;> simp [notPtr, isBare]
    all_goals (first | (obtain ⟨h1, h2⟩ := h; subst h2; simp [h1]) | skip)

theorem wrapFor_notPtr {g : GoTy} (x : GoVal) (h : notPtr g = true) : wrapFor g x = x := by
  cases g <;> first | rfl | (simp [notPtr] at h)

theorem wrapFor_ptr {g : GoTy} (x : GoVal) (h : notPtr g = true) : wrapFor (.ptr g) x = .ptr x := by
  cases g <;> first | rfl | (simp [notPtr] at h)

theorem unptr_notPtr {g : GoTy} (h : notPtr g = true) : unptr false g = some g := by
  cases g with
  | ptr _ => simp [notPtr] at h
  | _ => simp [unptr]

theorem unptr_ptr {g : GoTy} (nul : Bool) (h : notPtr g = true) : unptr nul (.ptr g) = some g := by
  cases g <;> first | rfl | (simp [notPtr] at h)

theorem unptr_bare {g : GoTy} (nul : Bool) (h : isBare g = true) : unptr nul g = some g := by
  cases g <;> simp [isBare] at h <;> simp [unptr, isBare]
  rename_i lf; cases lf <;> simp at h ⊢

/-- a bare nilable type reads the same in a nullable slot, nil apart -/
theorem view_bare_nul {g : GoTy} (t : Ty) (x : GoVal) (hb : isBare g = true) (h1 : x ≠ .nilBare)
    (h2 : x ≠ .nilSlice) : view g t true x = view g t false x := by
  have hnp := notPtr_of_isBare hb
  cases x <;> simp [view, hb] at h1 h2 ⊢ <;> cases g <;> simp [isBare, notPtr] at hb hnp ⊢

theorem wt_bare_nul {g : GoTy} (t : Ty) (x : GoVal) (hb : isBare g = true) (h1 : x ≠ .nilBare)
    (h2 : x ≠ .nilSlice) : wt g t true x = wt g t false x := by
  have hnp := notPtr_of_isBare hb
  cases x <;> simp [wt, hb] at h1 h2 ⊢ <;> cases g <;> simp [isBare, notPtr] at hb hnp ⊢

theorem view_wrapFor {nul : Bool} {g g0 : GoTy} (t : Ty) (x : GoVal) (h : unptr nul g = some g0)
    (h1 : x ≠ .nilBare) (h2 : x ≠ .nilSlice) : view g t nul (wrapFor g x) = view g0 t false x := by
  rcases unptr_some h with rfl | ⟨rfl, hn⟩ | ⟨rfl, hn, hnb⟩
  · simp [wrapFor, view]
  · rw [wrapFor_ptr x hn]; simp [view]
  · rw [wrapFor_notPtr x hn]
    rcases hnb with rfl | hb
    · rfl
    · cases nul
      · rfl
      · exact view_bare_nul t x hb h1 h2

theorem wt_wrapFor {nul : Bool} {g g0 : GoTy} (t : Ty) (x : GoVal) (h : unptr nul g = some g0)
    (h1 : x ≠ .nilBare) (h2 : x ≠ .nilSlice) : wt g t nul (wrapFor g x) = wt g0 t false x := by
  rcases unptr_some h with rfl | ⟨rfl, hn⟩ | ⟨rfl, hn, hnb⟩
  · simp [wrapFor, wt]
  · rw [wrapFor_ptr x hn]; simp [wt]
  · rw [wrapFor_notPtr x hn]
    rcases hnb with rfl | hb
    · rfl
    · cases nul
      · rfl
      · exact wt_bare_nul t x hb h1 h2

theorem compatible_bare_nul {g : GoTy} (t : Ty) (hb : isBare g = true) :
    compatible g t true = compatible g t false := by
  cases g <;> simp [isBare] at hb <;> simp [compatible]
  rename_i lf; cases lf <;> simp at hb ⊢

/-- a compatible type that is not a pointer sits in a slot that is not nullable, or is a bare nilable type -/
theorem compatible_notPtr_nul {g : GoTy} {t : Ty} (hn : notPtr g = true)
    (h : compatible g t true = true) : isBare g = true := by
  cases g <;> simp [compatible, notPtr, isBare] at h hn ⊢
  rename_i lf; cases lf <;> simp at h ⊢

theorem compatible_of_unptr {nul : Bool} {g g0 : GoTy} (t : Ty) (h : unptr nul g = some g0)
    (hc : compatible g t nul = true) : compatible g0 t false = true := by
  rcases unptr_some h with rfl | ⟨rfl, _⟩ | ⟨rfl, _, hnb⟩
  · simp only [compatible, Bool.and_eq_true] at hc; exact hc.2.2
  · simp only [compatible, Bool.and_eq_true] at hc; exact hc.2
  · rcases hnb with rfl | hb
    · exact hc
    · cases nul
      · exact hc
      · rwa [compatible_bare_nul t hb] at hc

theorem compatible_unptr_some {g : GoTy} {t : Ty} {nul : Bool} (h : compatible g t nul = true) :
    ∃ g0, unptr nul g = some g0 ∧ compatible g0 t false = true ∧ notPtr g0 = true := by
  cases g with
  | ptr g1 =>
    cases hg1 : notPtr g1
    · cases g1 <;> simp [notPtr] at hg1
      rename_i b
      simp only [compatible, Bool.and_eq_true, notPtr, Bool.or_false, Bool.false_or] at h
      exact ⟨b, rfl, h.2.2, h.2.1⟩
    · simp only [compatible, Bool.and_eq_true] at h
      exact ⟨g1, unptr_ptr nul hg1, h.2, hg1⟩
  | _ =>
    cases nul
    · exact ⟨_, unptr_notPtr rfl, h, rfl⟩
    · have hb := compatible_notPtr_nul rfl h
      exact ⟨_, unptr_bare true hb, by rwa [compatible_bare_nul _ hb] at h, rfl⟩

/-- a compatible type in a nullable slot is a pointer or a bare nilable type -/
theorem compatible_nul {g : GoTy} {t : Ty} (h : compatible g t true = true) :
    (∃ g1, g = .ptr g1) ∨ isBare g = true := by
  cases hg : notPtr g
  · left; cases g <;> simp [notPtr] at hg; exact ⟨_, rfl⟩
  · right; exact compatible_notPtr_nul hg h

/-- what sits behind the pointer of a slot is a slot that is not nullable -/
theorem compatible_ptr {g : GoTy} {t : Ty} {nul : Bool} (h : compatible (.ptr g) t nul = true) :
    compatible g t false = true := by
  simp only [compatible, Bool.and_eq_true] at h; exact h.2

/-! ## Widths -/

theorem fits_unsigned_nonneg (w : Bind.Width) (i : Int) (hs : w.signed = false) (h : Bind.fits w i = true) :
    0 ≤ i := by
  cases w <;> simp [Bind.Width.signed] at hs <;>
    simp only [Bind.fits, Bind.Width.signed, Bind.Width.bits, Bool.false_eq_true, if_false] at h <;>
    replace h := of_decide_eq_true h <;> omega

/-- the width-checked store of an enum member's representation int -/
theorem enumStore_eq_some (k : IntKind) (r i : Int) :
    enumStore k r = some i ↔ i = r ∧ Bind.fits k.width r = true := by
  unfold enumStore
  split
  · rename_i h; simp [h, eq_comm]
  · rename_i h; simp [h]

theorem enumStore_fits (k : IntKind) (r : Int) (h : Bind.fits k.width r = true) : enumStore k r = some r := by
  simp [enumStore, h]

/-! ## Association lists -/

theorem lookup_eq_find? (l : List (Bytes × TL)) (k : Bytes) :
    l.lookup k = (l.find? (fun e => e.1 == k)).map (·.2) := by
  induction l with
  | nil => rfl
  | cons e l ih =>
    obtain ⟨a, b⟩ := e
    by_cases h : k = a
    · subst h
      simp [List.lookup]
    · have h1 : (k == a) = false := by simpa using h
      have h2 : (a == k) = false := by simpa using fun e : a = k => h e.symm
      simp only [List.lookup, h1, List.find?_cons, h2, ih]

/-- with distinct keys, looking every key up gives the list back -/
theorem lookupAll_self : (suf pre : List (Bytes × TL)) → ((pre ++ suf).map (·.1)).Nodup →
    lookupAll (pre ++ suf) (suf.map (·.1)) = some suf
  | [], _, _ => rfl
  | (k, v) :: suf, pre, hnd => by
    have hfind : (pre ++ (k, v) :: suf).lookup k = some v := by
      rw [lookup_eq_find?]
      have hmem : (k, v) ∈ pre ++ (k, v) :: suf := by simp
      have := find?_key_of_mem (α := Bytes × TL) (·.1) _ hnd (k, v) hmem
      simp only at this
      rw [this]; rfl
    have ih := lookupAll_self suf (pre ++ [(k, v)]) (by simpa [List.append_assoc] using hnd)
    simp only [List.append_assoc, List.singleton_append] at ih
    simp only [List.map_cons, lookupAll, hfind, ih, zipSome_some]

theorem lookupAll_self' (l : List (Bytes × TL)) (hnd : (l.map (·.1)).Nodup) :
    lookupAll l (l.map (·.1)) = some l := by
  have := lookupAll_self l [] (by simpa using hnd)
  simpa using this

theorem keysOf_getD (es : TLKVs) : (keysOf es).getD [] = es.toList.map (·.1) := by
  cases es <;> rfl

/-- the keys of a conforming typed map are distinct (and new) -/
theorem conformsMap_nodup (vty : Ty) (vnul : Bool) : (es : TLKVs) → (seen : List Bytes) →
    conformsMap vty vnul seen es = true →
    (es.toList.map (·.1)).Nodup ∧ (∀ k ∈ es.toList.map (·.1), k ∉ seen)
  | .nil, _, _ => by simp [TLKVs.toList]
  | .cons k v es, seen, h => by
    simp only [conformsMap, Bool.and_eq_true, Bool.not_eq_true', List.contains_eq_mem,
      decide_eq_false_iff_not] at h
    obtain ⟨ih1, ih2⟩ := conformsMap_nodup vty vnul es (k :: seen) h.2
    simp only [TLKVs.toList, List.map_cons, List.nodup_cons, List.mem_cons, forall_eq_or_imp]
    refine ⟨⟨fun hk => ?_, ih1⟩, h.1.1, fun a ha hs => ?_⟩
    · exact ih2 k hk (by simp)
    · exact ih2 a ha (by simp [hs])

theorem conformsMap_cons_inv (vty : Ty) (vnul : Bool) (k : Bytes) (v : TL) (es : TLKVs) (seen : List Bytes)
    (h : conformsMap vty vnul seen (.cons k v es) = true) :
    conforms vty vnul v = true ∧ conformsMap vty vnul (k :: seen) es = true := by
  simp only [conformsMap, Bool.and_eq_true] at h
  exact ⟨h.1.2, h.2⟩

/-- what `conformsStruct` says of every entry -/
theorem conformsStruct_vals (F : List Field) : (es : TLKVs) → (seen : List Bytes) →
    conformsStruct F seen es = true →
    ∀ e ∈ es.toList, ∃ f, F.find? (fun f => f.name == e.1) = some f ∧ fieldValOK f e.2 = true
  | .nil, _, _, e, he => by simp [TLKVs.toList] at he
  | .cons k v es, seen, h, e, he => by
    rw [conformsStruct_cons] at h
    cases hf : F.find? (fun f => f.name == k) with
    | none => simp [hf] at h
    | some f =>
      simp only [hf, Bool.and_eq_true] at h
      simp only [TLKVs.toList, List.mem_cons] at he
      rcases he with rfl | he
      · exact ⟨f, hf, h.1.2⟩
      · exact conformsStruct_vals F es (k :: seen) h.2 e he

/-! ## The union struct -/

theorem GoFields.get?_length : (gfs : GoFields) → (i : Nat) → (g : GoTy) → gfs.get? i = some g → i < gfs.length
  | .nil, _, _, h => by simp [GoFields.get?] at h
  | .cons _ _ rest, 0, _, _ => by simp [GoFields.length]
  | .cons _ _ rest, i + 1, g, h => by
    simp only [GoFields.get?] at h
    have := GoFields.get?_length rest i g h
    simp only [GoFields.length]; omega

/-- member `i` of a compatible union struct -/
theorem compatMembers_get : (gfs : GoFields) → (ms : List Member) → compatMembers gfs ms = true →
    (i : Nat) → (m : Member) → ms[i]? = some m →
    ∃ g1, gfs.get? i = some (.ptr g1) ∧ compatible g1 m.ty false = true
  | .nil, [], _, i, m, hm => by simp at hm
  | .nil, _ :: _, h, _, _, _ => by simp [compatMembers] at h
  | .cons _ _ _, [], h, _, _, _ => by simp [compatMembers] at h
  | .cons n g rest, m0 :: ms, h, i, m, hm => by
    unfold compatMembers at h
    simp only [Bool.and_eq_true] at h
    cases i with
    | zero =>
      simp only [List.getElem?_cons_zero, Option.some.injEq] at hm
      subst hm
      cases g <;> simp at h
      exact ⟨_, rfl, h.1.2⟩
    | succ i =>
      simp only [List.getElem?_cons_succ] at hm
      exact compatMembers_get rest ms h.2 i m hm

theorem compatMembers_length : (gfs : GoFields) → (ms : List Member) → compatMembers gfs ms = true →
    gfs.length = ms.length
  | .nil, [], _ => rfl
  | .nil, _ :: _, h => by simp [compatMembers] at h
  | .cons _ _ _, [], h => by simp [compatMembers] at h
  | .cons n g rest, m0 :: ms, h => by
    unfold compatMembers at h
    simp only [Bool.and_eq_true] at h
    simp [GoFields.length, compatMembers_length rest ms h.2]

/-- all the fields after the one set are nil: nothing more is found -/
theorem viewUnion_nilPtrs : (gfs : GoFields) → (ms : List Member) → viewUnion gfs ms (nilPtrs gfs.length) = none
  | .nil, _ => by simp [nilPtrs, GoFields.length, viewUnion]
  | .cons _ _ rest, [] => by simp [nilPtrs, GoFields.length, viewUnion]
  | .cons _ _ rest, _ :: ms => by
    simp only [nilPtrs, GoFields.length, viewUnion]
    exact viewUnion_nilPtrs rest ms

/-- the union struct with field `i` set reads as member `i` -/
theorem viewUnion_unionVals : (gfs : GoFields) → (ms : List Member) → (i : Nat) → (g1 : GoTy) → (m : Member) →
    (x : GoVal) → gfs.get? i = some (.ptr g1) → ms[i]? = some m →
    viewUnion gfs ms (unionVals gfs.length i x) =
      (view g1 m.ty false x).map fun a => .map (.cons m.name a .nil)
  | .nil, _, _, _, _, _, hg, _ => by simp [GoFields.get?] at hg
  | .cons _ _ _, [], _, _, _, _, _, hm => by simp at hm
  | .cons n g rest, m0 :: ms, i, g1, m, x, hg, hm => by
    cases i with
    | zero =>
      simp only [GoFields.get?, Option.some.injEq] at hg
      simp only [List.getElem?_cons_zero, Option.some.injEq] at hm
      subst hg; subst hm
      simp [GoFields.length, unionVals, viewUnion]
    | succ i =>
      simp only [GoFields.get?] at hg
      simp only [List.getElem?_cons_succ] at hm
      simp only [GoFields.length, unionVals, viewUnion]
      exact viewUnion_unionVals rest ms i g1 m x hg hm

end GoBind
end Ipld
