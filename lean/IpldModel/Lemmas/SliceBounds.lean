/-
  `sliceBounds`: the machine-translated Go function (with wrapping int64 arithmetic) equals the model's
  `Sel.sliceBounds` on int64 inputs with a non-negative length, and the bounds it returns are in range.
-/
import IpldModel.Model.Selector
import IpldModel.Generated.SliceBounds
namespace Ipld
namespace Sel

theorem sliceBounds_src_eq (from_ to length : Int) (hf : inI64 from_) (ht : inI64 to) (hl : inI64 length)
    (h0 : 0 ≤ length) : Generated.sliceBounds_src from_ to length = sliceBounds from_ to length := by
  unfold inI64 at hf ht hl
  have w1 : to < 0 → wrapI64 (length + to) = length + to := fun h => wrapI64_id (by unfold inI64; omega)
  have w2 : from_ < 0 → wrapI64 (length + from_) = length + from_ := fun h => wrapI64_id (by unfold inI64; omega)
  unfold Generated.sliceBounds_src sliceBounds
  by_cases c1 : to < 0
  · by_cases c2 : from_ < 0
    · simp only [c1, c2, w1 c1, w2 c2, decide_true, if_true]
      by_cases c3 : length + from_ < 0 <;> simp [c3]
    · simp [c1, c2, w1 c1]
  · by_cases c4 : length < to
    · by_cases c2 : from_ < 0
      · simp only [c1, c2, c4, w2 c2, decide_true, decide_false, if_true, if_false]
        by_cases c3 : length + from_ < 0 <;> simp [c3]
      · simp [c1, c2, c4]
    · by_cases c2 : from_ < 0
      · simp only [c1, c2, c4, w2 c2, decide_true, decide_false, if_true, if_false]
        by_cases c3 : length + from_ < 0 <;> simp [c3, c1]
      · simp [c1, c2, c4]

/-- the two clamped bounds -/
def clampTo (to length : Int) : Int := if to < 0 then length + to else if length < to then length else to
def clampFrom (from_ length : Int) : Int :=
  if from_ < 0 then (if length + from_ < 0 then 0 else length + from_) else from_

theorem sliceBounds_eq (f t len : Int) : sliceBounds f t len =
    if clampFrom f len > clampTo t len ∨ clampFrom f len ≥ len then (false, 0, 0)
    else (true, clampFrom f len, clampTo t len) := rfl

theorem clampFrom_nonneg (f len : Int) : 0 ≤ clampFrom f len := by
  unfold clampFrom; split <;> (try split) <;> omega

theorem clampTo_le (t len : Int) : clampTo t len ≤ len := by
  unfold clampTo; split <;> (try split) <;> omega

theorem sliceBounds_true {f t len a z : Int} (h : sliceBounds f t len = (true, a, z)) :
    0 ≤ a ∧ a ≤ z ∧ z ≤ len ∧ a < len := by
  rw [sliceBounds_eq] at h
  by_cases hc : clampFrom f len > clampTo t len ∨ clampFrom f len ≥ len
  · rw [if_pos hc] at h; simp at h
  · rw [if_neg hc] at h
    simp only [Prod.mk.injEq, true_and] at h
    obtain ⟨ha, hz⟩ := h
    have := clampFrom_nonneg f len
    have := clampTo_le t len
    omega

theorem sliceBounds_false {f t len a z : Int} (h : sliceBounds f t len = (false, a, z)) :
    a = 0 ∧ z = 0 := by
  rw [sliceBounds_eq] at h
  by_cases hc : clampFrom f len > clampTo t len ∨ clampFrom f len ≥ len
  · rw [if_pos hc] at h
    simp only [Prod.mk.injEq, true_and] at h; omega
  · rw [if_neg hc] at h; simp at h

end Sel
end Ipld
