package main

import (
	"fmt"
	"go/ast"
	"go/token"
	"sort"
	"strings"
)

// factGenFiles: fact extractors. Each pattern-matches one AST shape and emits a table.
func factGenFiles() []genFile {
	return []genFile{
		{"AsmFacts", genAsmFacts},
		{"CborConsts", genCborConsts},
	}
}

// ---------------------------------------------------------------------------------------------
// basicnode assembler state tables (C01, C11, C12)

type methodFacts struct {
	recv, name string
	guard      string   // state constant required on entry ("" = none)
	sets       []string // state constants assigned, in source order
	writes     []string // fields of the work-in-progress node written (t, m, x, w = whole header copy)
	nilsBack   bool     // the back-pointer to the parent assembler is nil-ed
	line       int
}

func selectorPath(e ast.Expr) string {
	switch x := e.(type) {
	case *ast.Ident:
		return x.Name
	case *ast.SelectorExpr:
		return selectorPath(x.X) + "." + x.Sel.Name
	case *ast.IndexExpr:
		return selectorPath(x.X) + "[]"
	case *ast.StarExpr:
		return "*" + selectorPath(x.X)
	case *ast.ParenExpr:
		return selectorPath(x.X)
	}
	return "?"
}

func extractMethodFacts(s *source, recvTypes map[string]bool) []methodFacts {
	var out []methodFacts
	for _, d := range s.file.Decls {
		fd, ok := d.(*ast.FuncDecl)
		if !ok || fd.Recv == nil || len(fd.Recv.List) != 1 || fd.Body == nil {
			continue
		}
		rt := fd.Recv.List[0].Type
		if st, ok := rt.(*ast.StarExpr); ok {
			rt = st.X
		}
		ri, ok := rt.(*ast.Ident)
		if !ok || !recvTypes[ri.Name] {
			continue
		}
		mf := methodFacts{recv: ri.Name, name: fd.Name.Name, line: s.fset.Position(fd.Pos()).Line}
		// guard: a top-level `if <x>.state != C { panic(...) }`
		for _, st := range fd.Body.List {
			is, ok := st.(*ast.IfStmt)
			if !ok {
				continue
			}
			be, ok := is.Cond.(*ast.BinaryExpr)
			if !ok || be.Op != token.NEQ || !strings.HasSuffix(selectorPath(be.X), ".state") {
				continue
			}
			panics := false
			for _, b := range is.Body.List {
				if es, ok := b.(*ast.ExprStmt); ok {
					if ce, ok := es.X.(*ast.CallExpr); ok {
						if id, ok := ce.Fun.(*ast.Ident); ok && id.Name == "panic" {
							panics = true
						}
					}
				}
			}
			if panics {
				if mf.guard != "" {
					panic(failure{fmt.Sprintf("%s:%d: %s.%s has two state guards", s.path, mf.line, mf.recv, mf.name)})
				}
				mf.guard = selectorPath(be.Y)
			}
		}
		wr := map[string]bool{}
		ast.Inspect(fd.Body, func(n ast.Node) bool {
			as, ok := n.(*ast.AssignStmt)
			if !ok {
				return true
			}
			for i, l := range as.Lhs {
				p := selectorPath(l)
				switch {
				case strings.HasSuffix(p, ".state"):
					if i < len(as.Rhs) {
						mf.sets = append(mf.sets, selectorPath(as.Rhs[i]))
					}
				case strings.Contains(p, ".w.t"):
					wr["t"] = true
				case strings.Contains(p, ".w.m"):
					wr["m"] = true
				case strings.Contains(p, ".w.x"):
					wr["x"] = true
				case strings.HasPrefix(p, "*") && strings.HasSuffix(p, ".w"):
					wr["w"] = true
				case strings.HasSuffix(p, ".ma") || strings.HasSuffix(p, ".la"):
					if i < len(as.Rhs) {
						if id, ok := as.Rhs[i].(*ast.Ident); ok && id.Name == "nil" {
							mf.nilsBack = true
						}
					}
				}
			}
			return true
		})
		for k := range wr {
			mf.writes = append(mf.writes, k)
		}
		sort.Strings(mf.writes)
		if mf.guard != "" || len(mf.sets) > 0 || len(mf.writes) > 0 || mf.nilsBack {
			out = append(out, mf)
		}
	}
	sort.Slice(out, func(i, j int) bool {
		if out[i].recv != out[j].recv {
			return out[i].recv < out[j].recv
		}
		return out[i].name < out[j].name
	})
	return out
}

func leanStrList(xs []string) string {
	q := make([]string, len(xs))
	for i, x := range xs {
		q[i] = fmt.Sprintf("%q", x)
	}
	return "[" + strings.Join(q, ", ") + "]"
}

func genAsmFacts(repo string) string {
	var sb strings.Builder
	sb.WriteString("structure MethodFacts where\n  recv : String\n  name : String\n  guard : String\n  sets : List String\n  writes : List String\n  nilsBack : Bool\n  deriving DecidableEq, Repr\n\n")
	emit := func(leanName, rel string, recv map[string]bool) {
		s := load(repo, rel)
		facts := extractMethodFacts(s, recv)
		if len(facts) == 0 {
			panic(failure{rel + ": no assembler methods found"})
		}
		fmt.Fprintf(&sb, "/-- generated from %s: per method, the state guard (panic otherwise), the states assigned, the fields of the node under construction that are written, whether the back-pointer is dropped -/\ndef %s : List MethodFacts := [\n", rel, leanName)
		for i, f := range facts {
			comma := ","
			if i == len(facts)-1 {
				comma = ""
			}
			fmt.Fprintf(&sb, "  { recv := %q, name := %q, guard := %q, sets := %s, writes := %s, nilsBack := %v }%s  -- %s:%d\n",
				f.recv, f.name, f.guard, leanStrList(f.sets), leanStrList(f.writes), f.nilsBack, comma, rel, f.line)
		}
		sb.WriteString("]\n\n")
	}
	emit("maFacts_src", "node/basicnode/map.go", map[string]bool{"plainMap__Assembler": true, "plainMap__KeyAssembler": true, "plainMap__ValueAssembler": true,
		"plainMap__ValueAssemblerMap": true, "plainMap__ValueAssemblerList": true, "plainMap__Builder": true})
	emit("laFacts_src", "node/basicnode/list.go", map[string]bool{"plainList__Assembler": true, "plainList__ValueAssembler": true,
		"plainList__ValueAssemblerMap": true, "plainList__ValueAssemblerList": true, "plainList__Builder": true})
	return sb.String()
}

// ---------------------------------------------------------------------------------------------
// dag-cbor decoder constants and option wiring (C03, C10)

func genCborConsts(repo string) string {
	s := load(repo, "codec/dagcbor/unmarshal.go")
	consts := s.intConsts()
	var sb strings.Builder
	for _, name := range []string{"mapEntryCost", "listEntryCost", "defaultAllocationBudget", "defaultMaxCollectionPrealloc", "defaultMaxDepth"} {
		v, ok := consts[name]
		if !ok {
			panic(failure{"codec/dagcbor/unmarshal.go: constant " + name + " not found"})
		}
		fmt.Fprintf(&sb, "/-- generated from codec/dagcbor/unmarshal.go const %s -/\ndef %s_src : Int := %s\n\n", name, name, v)
	}
	// refmtDecodeOptions: which tokenizer flags are set unconditionally, which only when !RelaxedDecode
	fd := s.funcDecl("DecodeOptions.refmtDecodeOptions")
	var always, strictOnly []string
	var walk func(list []ast.Stmt, inStrict bool)
	walk = func(list []ast.Stmt, inStrict bool) {
		for _, st := range list {
			switch x := st.(type) {
			case *ast.AssignStmt:
				for i, l := range x.Lhs {
					if cl, ok := x.Rhs[i].(*ast.CompositeLit); ok {
						for _, el := range cl.Elts {
							if kv, ok := el.(*ast.KeyValueExpr); ok {
								if id, ok := kv.Value.(*ast.Ident); ok && id.Name == "true" {
									always = append(always, selectorPath(kv.Key))
								}
							}
						}
						continue
					}
					if id, ok := x.Rhs[i].(*ast.Ident); ok && id.Name == "true" {
						p := selectorPath(l)
						p = p[strings.LastIndex(p, ".")+1:]
						if inStrict {
							strictOnly = append(strictOnly, p)
						} else {
							always = append(always, p)
						}
					}
				}
			case *ast.IfStmt:
				// expect `if !cfg.RelaxedDecode { ... }`
				ue, ok := x.Cond.(*ast.UnaryExpr)
				if !ok || ue.Op != token.NOT || !strings.HasSuffix(selectorPath(ue.X), ".RelaxedDecode") || x.Else != nil {
					panic(failure{"codec/dagcbor/unmarshal.go refmtDecodeOptions: unexpected condition shape"})
				}
				walk(x.Body.List, true)
			case *ast.ReturnStmt:
			default:
				panic(failure{fmt.Sprintf("codec/dagcbor/unmarshal.go refmtDecodeOptions: unexpected statement %T", st)})
			}
		}
	}
	walk(fd.Body.List, false)
	sort.Strings(always)
	sort.Strings(strictOnly)
	fmt.Fprintf(&sb, "/-- generated from `refmtDecodeOptions`: tokenizer flags set in every mode -/\ndef refmtFlagsAlways_src : List String := %s\n\n", leanStrList(always))
	fmt.Fprintf(&sb, "/-- generated from `refmtDecodeOptions`: tokenizer flags set only when RelaxedDecode is false -/\ndef refmtFlagsStrictOnly_src : List String := %s\n\n", leanStrList(strictOnly))
	// registered codec option literals (multicodec.go)
	m := load(repo, "codec/dagcbor/multicodec.go")
	for _, fn := range []string{"Decode", "Encode"} {
		fd := m.funcDecl(fn)
		var opts []string
		ast.Inspect(fd.Body, func(n ast.Node) bool {
			if cl, ok := n.(*ast.CompositeLit); ok {
				for _, el := range cl.Elts {
					if kv, ok := el.(*ast.KeyValueExpr); ok {
						opts = append(opts, selectorPath(kv.Key)+"="+selectorPath(kv.Value))
					}
				}
			}
			return true
		})
		sort.Strings(opts)
		fmt.Fprintf(&sb, "/-- generated from codec/dagcbor/multicodec.go `%s`: option literal of the registered codec -/\ndef registered%sOptions_src : List String := %s\n\n", fn, fn, leanStrList(opts))
	}
	return sb.String()
}
