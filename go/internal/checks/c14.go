package checks

import (
	"encoding/hex"
	"fmt"
	"strconv"
	"strings"

	"github.com/ipld/go-ipld-prime/datamodel"
	"github.com/ipld/go-ipld-prime/linking"
	"github.com/ipld/go-ipld-prime/node/basicnode"
	"github.com/ipld/go-ipld-prime/traversal"

	"verif/internal/core"
)

// C14 — paths address what was visited: walk paths, focus and stepwise lookup agree.
//
//   (O) oracle        : for every visit (path, node) of a walk, Get(root, path) (links loaded on the way) returns a node
//                       equal to the visited one, equal to one-segment-at-a-time lookup, and Focus hands the callback the
//                       same node; for arbitrary paths Get fails exactly when stepwise lookup fails; ParsePath(p.String())
//                       equals p segment-wise whenever no segment is empty or contains '/'.
//   (D) correspondence: Get vs the model's `get` (`path.get`), ParsePath/String vs the model (`path.rt`); derivation
//                       histories on the real Path (NewPath, ParsePath, AppendSegment*, Join, Parent, Pop, Truncate, Shift,
//                       Last), every path re-read after every step, vs the slice/backing-array model (`pathheap.run`).

func init() {
	core.Register(&core.Check{ID: "C14", Run: runC14, Replay: replayC07})
}

func pathSegStrings(p datamodel.Path) []string {
	var out []string
	for _, s := range p.Segments() {
		out = append(out, s.String())
	}
	return out
}

// mkPathMixed builds the same path with segments in either internal form: a segment whose text is a canonical
// non-negative integer is, at random, an int-form segment.  Both forms denote the same position.
func mkPathMixed(segs []string, r *core.Rand) datamodel.Path {
	ps := make([]datamodel.PathSegment, len(segs))
	for i, s := range segs {
		ps[i] = datamodel.PathSegmentOfString(s)
		if n, err := strconv.ParseInt(s, 10, 64); err == nil && n >= 0 && strconv.FormatInt(n, 10) == s && r != nil && r.Bool() {
			ps[i] = datamodel.PathSegmentOfInt(n)
		}
	}
	return datamodel.NewPath(ps)
}

func mkPath(segs []string) datamodel.Path {
	ps := make([]datamodel.PathSegment, len(segs))
	for i, s := range segs {
		ps[i] = datamodel.PathSegmentOfString(s)
	}
	return datamodel.NewPath(ps)
}

func c14Cfg(g *core.Graph) *traversal.Config {
	return &traversal.Config{LinkSystem: g.LinkSystem(nil, nil),
		LinkTargetNodePrototypeChooser: func(datamodel.Link, linking.LinkContext) (datamodel.NodePrototype, error) {
			return basicnode.Prototype.Any, nil
		}}
}

// stepwise: one segment at a time through the node API, loading links after each step.
func stepwise(g *core.Graph, root datamodel.Node, segs []string) (datamodel.Node, error) {
	lsys := g.LinkSystem(nil, nil)
	n := root
	for _, s := range segs {
		var next datamodel.Node
		var err error
		switch n.Kind() {
		case datamodel.Kind_Map:
			next, err = n.LookupByString(s)
		case datamodel.Kind_List:
			next, err = n.LookupBySegment(datamodel.PathSegmentOfString(s))
		default:
			return nil, fmt.Errorf("terminal")
		}
		if err != nil {
			return nil, err
		}
		for next.Kind() == datamodel.Kind_Link {
			l, _ := next.AsLink()
			if next, err = lsys.Load(linking.LinkContext{}, l, basicnode.Prototype.Any); err != nil {
				return nil, err
			}
		}
		n = next
	}
	return n, nil
}

func specHasSubset(v core.Val) bool {
	for _, e := range v.M {
		if string(e.K) == "subset" || specHasSubset(e.V) {
			return true
		}
	}
	for _, x := range v.L {
		if specHasSubset(x) {
			return true
		}
	}
	return false
}

// distSelector records which selector clause keywords a spec uses (evidence: the generator's clause mix).
func distSelector(c *core.Ctx, v core.Val) {
	seen := map[string]bool{}
	var walk func(core.Val)
	walk = func(x core.Val) {
		for _, e := range x.M {
			k := string(e.K)
			switch k {
			case "R", "a", "f", "i", "r", "|", ".", "@", "~", "subset", "!", "none", "depth", "c":
				seen[k] = true
			}
			walk(e.V)
		}
		for _, y := range x.L {
			walk(y)
		}
	}
	walk(v)
	names := map[string]string{"R": "ExploreRecursive", "a": "ExploreAll", "f": "ExploreFields", "i": "ExploreIndex", "r": "ExploreRange", "|": "ExploreUnion",
		".": "Matcher", "@": "ExploreRecursiveEdge", "~": "ExploreInterpretAs", "subset": "Matcher.subset", "!": "StopAt", "none": "limit:none", "depth": "limit:depth", "c": "Condition"}
	for k := range seen {
		c.Dist("selector-clause:" + names[k])
	}
}

func runC14(c *core.Ctx) error {
	c.Rule = "graphs and selectors as in C07; every visit path of the advanced walk is resolved with Get, Focus and stepwise lookup; plus random paths (existing, partially existing, non-numeric and signed/zero-padded numeric segments on lists, through links) and random segment strings for the format/parse round trip; derivation histories of 3..12 steps over all Path operations (from re-slices too, Truncate beyond the length included), non-trivial = a derivation from a re-slice; non-trivial = path of at least 2 segments or crossing a link; distinct by (graph, path)"
	c.Explanation = "theorems: parse_toString, get_eq_steps, visit_resolves (every visit path of the model walk resolves, through the model's get, to the visited node), get_fails_iff; segEquals facts from pathSegment.go; C14heap: path_ops_preserve_reads, path_history_stable, derived_reads over the heap model of path.go, joinAppend_breaks_stability"
	c.Assumptions = []string{"subset matches are compared on the unsliced node (selectors with a subset matcher are excluded from the visit-resolves oracle)", "Get follows a link found at the end of the path, exactly as the walk visits the loaded block at the link's position"}
	n := c.Pick(400, 30000)
	var lines, impl []string
	for i := 0; i < n; i++ {
		g, err := core.GenGraph(c.Rand, c.Rand.Intn(6))
		if err != nil {
			return err
		}
		spec := core.SelAll()
		if i%3 != 0 {
			spec = core.GenSelector(c.Rand, g, 0, false, false)
		}
		root, err := core.BuildBasic(g.Root, nil)
		if err != nil {
			return err
		}
		U := core.RunWalk(g, spec, core.WalkCfg{}, false)
		if U.PathChanged != "" {
			c.Fail("C14/kept-path-changed", core.Replay{Kind: "oracle", Case: "walk.adv " + g.StoreTokens() + " ROOT " + g.Root.Term() + " SEL " + spec.Term(), Impl: U.PathChanged,
				Detail: "a Path is a value: the one reported at a visit must keep denoting the visited position after the walk has moved on"})
		}
		var paths [][]string
		if U.Compile == "" && U.Outcome == "ok" && !specHasSubset(spec) {
			for _, v := range U.Visits {
				paths = append(paths, v.Path)
				caseID := "path.get " + core.PathArg(v.Path) + " " + g.StoreTokens() + " ROOT " + g.Root.Term()
				got, err := traversal.Progress{Cfg: c14Cfg(g)}.Get(root, mkPathMixed(v.Path, c.Rand))
				if err != nil || termOf(got) != v.Node {
					// the root position holding a link is visited as the link node itself and Get returns it as is
					c.Fail("C14/visit-path-does-not-resolve", core.Replay{Kind: "oracle", Case: caseID, Impl: fmt.Sprint(termOfOrErr(got, err)), Expected: v.Node, Detail: "Get(root, visit path) differs from the visited node"})
				}
				var focused string
				ferr := traversal.Progress{Cfg: c14Cfg(g)}.Focus(root, mkPath(v.Path), func(p traversal.Progress, n datamodel.Node) error {
					focused = termOf(n)
					if p.Path.String() != mkPath(v.Path).String() {
						focused += " at " + p.Path.String()
					}
					return nil
				})
				if ferr != nil || focused != v.Node {
					c.Fail("C14/focus-differs", core.Replay{Kind: "oracle", Case: caseID, Impl: focused + fmt.Sprint(ferr), Expected: v.Node})
				}
				sw, serr := stepwise(g, root, v.Path)
				if serr != nil || termOf(sw) != v.Node {
					c.Fail("C14/stepwise-differs", core.Replay{Kind: "oracle", Case: caseID, Impl: termOfOrErr(sw, serr), Expected: v.Node})
				}
				c.Count(caseID, len(v.Path) >= 2)
				c.Dist("visit-path")
			}
		}
		// the same under a NodeReifier that shows every loaded block differently from its stored form: whatever the walk
		// visits through the link system, Get / Focus / stepwise loading reach at the same path (the model has no reifier)
		if i%4 == 1 && U.Compile == "" && U.Outcome == "ok" && !specHasSubset(spec) && len(g.Order) > 0 {
			core.NodeReifyHide = true
			R := core.RunWalk(g, spec, core.WalkCfg{}, false)
			if R.Outcome == "ok" {
				for _, v := range R.Visits {
					caseID := "path.get-reified " + core.PathArg(v.Path) + " " + g.StoreTokens() + " ROOT " + g.Root.Term() + " SEL " + spec.Term()
					got, err := traversal.Progress{Cfg: c14Cfg(g)}.Get(root, mkPathMixed(v.Path, c.Rand))
					if err != nil || termOf(got) != v.Node {
						c.Fail("C14/visit-path-does-not-resolve", core.Replay{Kind: "oracle", Case: caseID, Impl: fmt.Sprint(termOfOrErr(got, err)), Expected: v.Node, Detail: "with a NodeReifier configured: Get(root, visit path) differs from the visited node"})
					}
					sw, serr := stepwise(g, root, v.Path)
					if serr != nil || termOf(sw) != v.Node {
						c.Fail("C14/stepwise-differs", core.Replay{Kind: "oracle", Case: caseID, Impl: termOfOrErr(sw, serr), Expected: v.Node, Detail: "with a NodeReifier configured"})
					}
					c.Dist("visit-path:with-node-reifier")
				}
			}
			core.NodeReifyHide = false
		}
		// arbitrary paths
		for k := 0; k < 6; k++ {
			var segs []string
			if len(paths) > 0 && c.Rand.Chance(2, 3) {
				segs = append(segs, paths[c.Rand.Intn(len(paths))]...)
				switch c.Rand.Intn(4) {
				case 0:
					segs = append(segs, []string{"a", "0", "zz", "-1", "+0", "00", "", "1e0", "9999999999999999999",
						// digit strings around 2^63 and 2^64 and their multiples plus a small index (no wrap-around may resolve them)
						"9223372036854775807", "9223372036854775808", "18446744073709551615", "18446744073709551616", "18446744073709551617",
						"36893488147419103232", "36893488147419103233", "55340232221128654849", "99999999999999999999", "184467440737095516160"}[c.Rand.Intn(19)])
				case 1:
					if len(segs) > 0 {
						segs[c.Rand.Intn(len(segs))] = []string{"x", "3", "+1", "01"}[c.Rand.Intn(4)]
					}
				case 2:
					if len(segs) > 0 {
						segs = segs[:c.Rand.Intn(len(segs))]
					}
				}
			} else {
				for m := c.Rand.Intn(4); m > 0; m-- {
					segs = append(segs, []string{"a", "b", "c", "0", "1", "k", "+1", "01", "x"}[c.Rand.Intn(9)])
				}
			}
			caseID := "path.get " + core.PathArg(segs) + " " + g.StoreTokens() + " ROOT " + g.Root.Term()
			var got datamodel.Node
			var gerr error
			func() {
				defer func() {
					if r := recover(); r != nil {
						gerr = fmt.Errorf("panic %v", r)
					}
				}()
				got, gerr = traversal.Progress{Cfg: c14Cfg(g)}.Get(root, mkPathMixed(segs, c.Rand))
			}()
			sw, serr := stepwise(g, root, segs)
			if (gerr == nil) != (serr == nil) || (gerr == nil && termOf(got) != termOf(sw)) {
				c.Fail("C14/get-vs-stepwise", core.Replay{Kind: "oracle", Case: caseID, Impl: termOfOrErr(got, gerr), Expected: termOfOrErr(sw, serr), Detail: "Get and one-segment-at-a-time lookup disagree"})
			}
			if gerr != nil && strings.HasPrefix(gerr.Error(), "panic") {
				c.Fail("C14/panic", core.Replay{Kind: "oracle", Case: caseID, Impl: gerr.Error()})
			}
			lines = append(lines, caseID)
			if gerr != nil {
				impl = append(impl, "err")
				c.Dist("get:error")
			} else {
				impl = append(impl, "ok "+termOf(got))
				c.Dist("get:ok")
			}
			c.Count(caseID, len(segs) >= 2)
		}
	}
	// path values: every derived path (append, join, parent, truncate, pop, shift) is a new value; neither the base nor an
	// earlier derivation changes when another one is derived from the same base (depths 0..10: slice growth boundaries)
	for i := 0; i < c.Pick(1500, 60000); i++ {
		var segs []string
		for m := c.Rand.Intn(11); m > 0; m-- {
			segs = append(segs, []string{"a", "b", "0", "7", "k1", "..", ".", "x y"}[c.Rand.Intn(8)])
		}
		base := mkPath(segs)
		if c.Rand.Bool() && len(segs) > 0 {
			// a base that is itself a derivation (spare capacity in its backing array, if any)
			base = mkPath(segs[:len(segs)-1]).AppendSegmentString(segs[len(segs)-1])
		}
		want := func(xs []string) string { return core.PathArg(xs) }
		got := func(p datamodel.Path) string { return core.PathArg(pathSegStrings(p)) }
		type der struct {
			what string
			p    datamodel.Path
			want string
		}
		var ders []der
		for k := 0; k < 4; k++ {
			x := []string{"p", "q", "3", "zz"}[k]
			switch c.Rand.Intn(6) {
			case 0, 1:
				ders = append(ders, der{"AppendSegmentString(" + x + ")", base.AppendSegmentString(x), want(append(append([]string{}, segs...), x))})
			case 2:
				ders = append(ders, der{"AppendSegmentInt(" + fmt.Sprint(k) + ")", base.AppendSegmentInt(int64(k)), want(append(append([]string{}, segs...), fmt.Sprint(k)))})
			case 3:
				ders = append(ders, der{"Join", base.Join(mkPath([]string{x, "t"})), want(append(append([]string{}, segs...), x, "t"))})
			case 4:
				if len(segs) > 0 {
					if c.Rand.Bool() {
						ders = append(ders, der{"Parent+Join", base.Parent().Join(mkPath([]string{x})), want(append(append([]string{}, segs[:len(segs)-1]...), x))})
					} else if c.Rand.Bool() {
						ders = append(ders, der{"Pop+Join", base.Pop().Join(mkPath([]string{x, "u"})), want(append(append([]string{}, segs[:len(segs)-1]...), x, "u"))})
					} else {
						ders = append(ders, der{"Parent+Append", base.Parent().AppendSegmentString(x), want(append(append([]string{}, segs[:len(segs)-1]...), x))})
					}
				}
			case 5:
				if len(segs) > 0 {
					t := c.Rand.Intn(len(segs))
					if c.Rand.Bool() {
						ders = append(ders, der{"Truncate+Join", base.Truncate(t).Join(mkPath([]string{x})), want(append(append([]string{}, segs[:t]...), x))})
					} else {
						ders = append(ders, der{"Truncate+Append", base.Truncate(t).AppendSegmentString(x), want(append(append([]string{}, segs[:t]...), x))})
					}
				}
			}
		}
		ders = append(ders, der{"base", base, want(segs)})
		caseID := "c14.pathvalue " + core.PathArg(segs)
		for _, d := range ders {
			caseID += " " + d.what
		}
		for _, d := range ders {
			if g := got(d.p); g != d.want {
				c.Fail("C14/path-value-changed", core.Replay{Kind: "oracle", Case: caseID, Impl: d.what + " reads " + g, Expected: d.want,
					Detail: "a path derived from a base changed when a sibling was derived from the same base"})
			}
		}
		c.Count(caseID, len(ders) >= 3)
		c.Dist("path-value")
	}
	// path heap: derivation HISTORIES on the real datamodel.Path — every kind of derivation, from any path made so far
	// (re-slices from Parent/Pop/Truncate/Shift included, nested joins), every path made so far re-read after every step.
	// Oracle: no earlier path's Segments()/String() changes.  Correspondence: the reads are those of the heap model
	// (`pathheap.run`, Model/PathHeap.lean; theorems Props/C14heap.lean), including Truncate beyond the length.
	var phLines, phImpl []string
	for i := 0; i < c.Pick(900, 40000); i++ {
		line, impl := c14PathHistory(c)
		phLines = append(phLines, line)
		phImpl = append(phImpl, impl)
	}
	// path text round trip
	var rtLines, rtImpl []string
	for i := 0; i < c.Pick(1500, 100000); i++ {
		var segs []string
		for m := c.Rand.Intn(5); m > 0; m-- {
			s := string(core.GenStrBytes(c.Rand, core.GenCfg{}))
			segs = append(segs, s)
		}
		p := mkPath(segs)
		txt := p.String()
		back := datamodel.ParsePath(txt)
		clean := true
		for _, s := range segs {
			if s == "" || strings.Contains(s, "/") {
				clean = false
			}
		}
		if clean {
			ok := back.Len() == p.Len()
			for k := 0; ok && k < p.Len(); k++ {
				ok = back.Segments()[k].Equals(p.Segments()[k])
			}
			if !ok {
				c.Fail("C14/path-text-roundtrip", core.Replay{Kind: "oracle", Case: "path.rt " + hexArg([]byte(txt)), Impl: back.String(), Expected: txt})
			}
		}
		var bs []string
		for _, s := range back.Segments() {
			bs = append(bs, s.String())
		}
		rtLines = append(rtLines, "path.rt "+hexArg([]byte(txt)))
		rtImpl = append(rtImpl, core.PathArg(bs)+" "+hexArg([]byte(back.String())))
		c.Count(rtLines[len(rtLines)-1], len(segs) >= 2)
		c.Dist("path-text")
	}
	phOuts, err := core.RunDriver(phLines)
	if err != nil {
		return err
	}
	for i := range phLines {
		c.Trace(1)
		if i < 2 {
			c.Sample(map[string]string{"case": truncateStr(phLines[i], 500), "impl": truncateStr(phImpl[i], 300)})
		}
		if phOuts[i] != phImpl[i] {
			c.Fail("C14/corr-path-heap", core.Replay{Kind: "correspondence", Case: phLines[i], Impl: phImpl[i], Model: phOuts[i],
				Detail: "a derivation history on datamodel.Path reads differently from the slice/backing-array model of path.go"})
		}
	}
	outs, err := core.RunDriver(append(lines, rtLines...))
	if err != nil {
		return err
	}
	allImpl := append(impl, rtImpl...)
	allLines := append(lines, rtLines...)
	for i := range allLines {
		c.Trace(1)
		if i < 2 {
			c.Sample(map[string]string{"case": truncateStr(allLines[i], 500), "impl": truncateStr(allImpl[i], 200)})
		}
		if outs[i] != allImpl[i] {
			c.Fail("C14/corr-path", core.Replay{Kind: "correspondence", Case: allLines[i], Impl: allImpl[i], Model: outs[i]})
		}
	}
	return nil
}

// c14PathHistory draws one derivation history, runs it on the real Path type with the value oracle after every step, and
// returns the model's driver line with the implementation's reads in the driver's output format.
func c14PathHistory(c *core.Ctx) (string, string) {
	r := c.Rand
	alphabet := []string{"a", "b", "0", "7", "k1", "..", ".", "x y", "", "zz"}
	var paths []datamodel.Path
	var snapSegs, snapStr []string
	var toks, outs []string
	segHex := func(xs []string) string {
		var sb strings.Builder
		for _, x := range xs {
			sb.WriteString(hex.EncodeToString([]byte(x)))
			sb.WriteByte('.')
		}
		return sb.String()
	}
	pick := func() int { // recent paths more often: derivations of derivations
		if r.Bool() {
			return len(paths) - 1 - r.Intn(min(3, len(paths)))
		}
		return r.Intn(len(paths))
	}
	nsteps := 3 + r.Intn(10)
	reslices, nested := 0, 0
	isReslice := map[int]bool{}
	for k := 0; k < nsteps; k++ {
		var tok, segOut string
		var made *datamodel.Path
		panicked := false
		choice := r.Intn(18)
		if len(paths) == 0 {
			choice = r.Intn(2)
		}
		func() {
			defer func() {
				if rec := recover(); rec != nil {
					panicked = true
				}
			}()
			switch {
			case choice == 0:
				var segs []string
				for m := r.Intn(5); m > 0; m-- {
					segs = append(segs, alphabet[r.Intn(len(alphabet))])
				}
				tok = "new:" + segHex(segs)
				p := mkPath(segs)
				made = &p
			case choice == 1:
				var sb strings.Builder
				for m := r.Intn(5); m > 0; m-- {
					sb.WriteString([]string{"a", "bc", "0", "/", "//", "..", "x y"}[r.Intn(7)])
					if r.Bool() {
						sb.WriteByte('/')
					}
				}
				tok = "parse:" + hexArg([]byte(sb.String()))
				p := datamodel.ParsePath(sb.String())
				made = &p
			case choice <= 4:
				i, x := pick(), alphabet[r.Intn(len(alphabet))]
				tok = fmt.Sprintf("app:%d:%s", i, hexArg([]byte(x)))
				p := paths[i].AppendSegmentString(x)
				if r.Bool() {
					p = paths[i].AppendSegment(datamodel.PathSegmentOfString(x))
				}
				made = &p
				if isReslice[i] {
					nested++
				}
			case choice == 5:
				i, n := pick(), []int64{0, 3, 12, -1, 9223372036854775807}[r.Intn(5)]
				tok = fmt.Sprintf("appi:%d:%d", i, n)
				p := paths[i].AppendSegmentInt(n)
				made = &p
			case choice <= 9:
				i, j := pick(), pick()
				tok = fmt.Sprintf("join:%d:%d", i, j)
				p := paths[i].Join(paths[j])
				made = &p
				if isReslice[i] || isReslice[j] {
					nested++
				}
			case choice <= 11:
				i := pick()
				tok = fmt.Sprintf("par:%d", i)
				p := paths[i].Parent()
				made = &p
				isReslice[len(paths)] = true
			case choice == 12:
				i := pick()
				tok = fmt.Sprintf("pop:%d", i)
				p := paths[i].Pop()
				made = &p
				isReslice[len(paths)] = true
			case choice <= 14:
				i := pick()
				n := r.Intn(paths[i].Len() + 1)
				if r.Chance(1, 4) {
					n = paths[i].Len() + r.Intn(3) // beyond the length: inside the capacity for a re-slice, a panic otherwise
					if r.Chance(1, 6) {
						n = -1
					}
				}
				tok = fmt.Sprintf("trunc:%d:%d", i, n)
				isReslice[len(paths)] = true
				p := paths[i].Truncate(n)
				made = &p
			case choice == 15:
				i := pick()
				tok = fmt.Sprintf("shift:%d", i)
				_, p := paths[i].Shift()
				made = &p
				isReslice[len(paths)] = true
			case choice == 16:
				i := pick()
				tok = fmt.Sprintf("last:%d", i)
				segOut = "seg:" + hex.EncodeToString([]byte(paths[i].Last().String()))
			default:
				i := pick()
				tok = fmt.Sprintf("shiftseg:%d", i)
				sg, _ := paths[i].Shift()
				segOut = "seg:" + hex.EncodeToString([]byte(sg.String()))
			}
		}()
		toks = append(toks, tok)
		if panicked {
			outs = append(outs, "panic")
			c.Dist("path-history:panic")
			break
		}
		if made == nil {
			outs = append(outs, segOut)
			continue
		}
		if isReslice[len(paths)] {
			reslices++
		}
		paths = append(paths, *made)
		snapSegs = append(snapSegs, core.PathArg(pathSegStrings(*made)))
		snapStr = append(snapStr, made.String())
		// re-read every path made so far
		reads := make([]string, len(paths))
		for j, p := range paths {
			reads[j] = core.PathArg(pathSegStrings(p))
			if reads[j] != snapSegs[j] || p.String() != snapStr[j] || p.Len() != len(p.Segments()) {
				c.Fail("C14/path-value-changed", core.Replay{Kind: "oracle", Case: "pathheap.run " + strings.Join(toks, " "),
					Impl: fmt.Sprintf("path #%d reads %s (%q) after step %d (%s)", j, reads[j], p.String(), k, tok), Expected: snapSegs[j],
					Detail: "a Path is a value: a path made earlier changed when another path was derived later"})
			}
		}
		outs = append(outs, strings.Join(reads, ","))
	}
	line := "pathheap.run " + strings.Join(toks, " ")
	c.Count(line, reslices > 0 && nested > 0)
	c.Dist("path-history")
	if nested > 0 {
		c.Dist("path-history:derivation-from-a-reslice")
	}
	return line, strings.Join(outs, " | ")
}

func termOfOrErr(n datamodel.Node, err error) string {
	if err != nil {
		return "err " + err.Error()
	}
	return termOf(n)
}
