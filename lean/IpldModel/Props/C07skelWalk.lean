/-
  C07 (companion) — the walk proper (walkBlock / walkAdv / visit) as transcribed into Model/Walk.lean.
  Recorded by tools/pin_skeletons.py from the source the models were transcribed from; property-tie theorems only.
-/
import IpldModel.Generated.WalkSkeletons
namespace Ipld.Props.C07

/-- (T) statement skeleton of `Progress.walkBlock` (traversal/walk.go) — preloader-free block walk: the statements on this run are the recorded ones. -/
theorem walkBlock_is_transcribed : Ipld.Generated.walkBlock_skel_src = [
  "ph := phaseTraverse",
  "var budget *Budget",
  "if prog.Cfg.Preloader != nil",
  ". ph = phasePreload",
  ". budget = prog.Budget.Clone()",
  "err := prog.walkAdv(ph, n, s, visitFn)",
  "if err != nil && (ph != phasePreload || !errors.Is(&ErrBudgetExceeded{}, err))",
  ". return err",
  "if ph == phasePreload",
  ". prog.Budget = budget",
  ". return prog.walkAdv(phaseTraverse, n, s, visitFn)",
  "return nil"
] := rfl

/-- (T) statement skeleton of `Progress.walkAdv` (traversal/walk.go) — budget, reify, visit, iterate interests or all children (model: `Walk.walkAdv` / `walkChildren`): the statements on this run are the recorded ones. -/
theorem walkAdv_is_transcribed : Ipld.Generated.walkAdv_skel_src = [
  "if err := prog.checkNodeBudget(); err != nil",
  ". return err",
  "if rn, rs, err := prog.reify(n, s); err != nil",
  ". return err",
  "else",
  ". if rn != nil",
  ". . n = rn",
  ". . s = rs",
  "if err := prog.visit(ph, n, s, visitFn); err != nil",
  ". return err",
  "switch n.Kind()",
  "case datamodel.Kind_Map, datamodel.Kind_List",
  "default",
  ". return nil",
  "haveStartAtPath := prog.Cfg.StartAtPath.Len() > 0",
  "var reachedStartAtPath bool",
  "recurse := func(v datamodel.Node, ps datamodel.PathSegment) error { if haveStartAtPath { if reachedStartAtPath { prog.PastStartAtPath = reachedStartAtPath } else if !prog.PastStartAtPath && prog.Path.Len() < prog.Cfg.StartAtPath.Len() { if ps.Equals(prog.Cfg.StartAtPath.Segments()[prog.Path.Len()]) { reachedStartAtPath = true } if !reachedStartAtPath { return nil } } } if err := prog.explore(ph, s, n, visitFn, v, ps); err != nil { return err } return nil }",
  "attn := s.Interests()",
  "if attn == nil",
  ". for itr := selector.NewSegmentIterator(n); !itr.Done(); ",
  ". . ps, v, err := itr.Next()",
  ". . if err != nil",
  ". . . return err",
  ". . if err := recurse(v, ps); err != nil",
  ". . . return err",
  ". return nil",
  "if len(attn) == 0",
  ". return nil",
  "_, ps := range attn",
  ". if v, err := n.LookupBySegment(ps); err != nil",
  ". . continue",
  ". else",
  ". . if err := recurse(v, ps); err != nil",
  ". . . return err",
  "return nil"
] := rfl

/-- (T) statement skeleton of `Progress.visit` (traversal/walk.go) — matched / candidate callbacks after the start path (model: the visit events of `Walk.walkAdv`): the statements on this run are the recorded ones. -/
theorem walkVisit_is_transcribed : Ipld.Generated.walkVisit_skel_src = [
  "if ph != phaseTraverse",
  ". return nil",
  "if !prog.PastStartAtPath && prog.Path.Len() < prog.Cfg.StartAtPath.Len()",
  ". return nil",
  "match, err := s.Match(n)",
  "if err != nil",
  ". return err",
  "if match != nil",
  ". return visitFn(prog, match, VisitReason_SelectionMatch)",
  "return visitFn(prog, n, VisitReason_SelectionCandidate)"
] := rfl

end Ipld.Props.C07
