/-
  Helper lemmas about the decoder: what `decItem` does on a given first byte (one lemma per major
  type / special byte), and the small state-threading functions `charge`/`finish`.
-/
import IpldModel.Lemmas.CborDecHead
namespace Ipld
namespace Cbor

theorem charge_ok (r : Bytes) (B e : Int) (h : e ≤ B) : charge ⟨r, B⟩ e = .ok ⟨r, B - e⟩ := by
  have : ¬ (B - e < 0) := by omega
  simp [charge, this]

theorem charge_eq_ok {s s' : DS} {e : Int} (h : charge s e = .ok s') :
    e ≤ s.budget ∧ s' = ⟨s.rest, s.budget - e⟩ := by
  unfold charge at h
  simp only at h
  split at h
  · cases h
  · injection h with h; subst h; constructor
    · omega
    · rfl

theorem finish_ok (extra c : Int) (v : DM) (r : Bytes) (B : Int) (_h0 : 0 ≤ extra) (hc : 0 ≤ c)
    (h : extra + c ≤ B) : finish none extra c v ⟨r, B⟩ = .ok (v, ⟨r, B - extra - c⟩) := by
  unfold finish
  rw [charge_ok _ _ _ (by omega)]
  simp only [bind, Except.bind]
  rw [charge_ok _ _ _ (by omega)]
  rfl

theorem head_byte (m n : Nat) (hm : m < 8) : (UInt8.ofNat (32 * m + hinfo n)).toNat = 32 * m + hinfo n := by
  have := hinfo_le n
  rw [UInt8.toNat_ofNat']; omega

theorem head_byte_div (m n : Nat) (hm : m < 8) : (UInt8.ofNat (32 * m + hinfo n)).toNat / 32 = m := by
  have := hinfo_le n
  rw [head_byte m n hm]; omega

theorem head_byte_mod (m n : Nat) (hm : m < 8) : (UInt8.ofNat (32 * m + hinfo n)).toNat % 32 = hinfo n := by
  have := hinfo_le n
  rw [head_byte m n hm]; omega

/-! ### dispatch on the first byte -/

section dispatch
variable (cfg : DecCfg) (fuel depth : Nat) (extra : Int) (tag : Option Nat) (b0 : UInt8) (rest : Bytes) (B : Int)

theorem decItem_zero (s : DS) : decItem cfg 0 depth extra tag s = .error .eof := by
  simp [decItem]

theorem decItem_nil : decItem cfg (fuel + 1) depth extra tag ⟨[], B⟩ = .error .eof := by
  simp [decItem]

theorem decItem_null (h : b0.toNat = 0xf6 ∨ b0.toNat = 0xf7) :
    decItem cfg (fuel + 1) depth extra tag ⟨b0 :: rest, B⟩ = finish tag extra 0 .null ⟨rest, B⟩ := by
  simp only [decItem, h, if_true]

theorem decItem_false (h : b0.toNat = 0xf4) :
    decItem cfg (fuel + 1) depth extra tag ⟨b0 :: rest, B⟩ = finish tag extra 1 (.bool false) ⟨rest, B⟩ := by
  simp [decItem, h]

theorem decItem_true (h : b0.toNat = 0xf5) :
    decItem cfg (fuel + 1) depth extra tag ⟨b0 :: rest, B⟩ = finish tag extra 1 (.bool true) ⟨rest, B⟩ := by
  simp [decItem, h]

theorem decItem_f16 (h : b0.toNat = 0xf9) :
    decItem cfg (fuel + 1) depth extra tag ⟨b0 :: rest, B⟩ =
      (do let (a, r) ← take? 2 rest
          let v ← checkFloat (!cfg.relaxed) (f16to64 (beVal a))
          finish tag extra 1 v ⟨r, B⟩) := by
  simp [decItem, h]

theorem decItem_f32 (h : b0.toNat = 0xfa) :
    decItem cfg (fuel + 1) depth extra tag ⟨b0 :: rest, B⟩ =
      (do let (a, r) ← take? 4 rest
          let v ← checkFloat (!cfg.relaxed) (f32to64 (beVal a))
          finish tag extra 1 v ⟨r, B⟩) := by
  simp [decItem, h]

theorem decItem_f64 (h : b0.toNat = 0xfb) :
    decItem cfg (fuel + 1) depth extra tag ⟨b0 :: rest, B⟩ =
      (do let (a, r) ← take? 8 rest
          let v ← checkFloat (!cfg.relaxed) (beVal a)
          finish tag extra 1 v ⟨r, B⟩) := by
  simp [decItem, h]

theorem decItem_indef (h : b0.toNat = 0x5f ∨ b0.toNat = 0x7f ∨ b0.toNat = 0x9f ∨ b0.toNat = 0xbf) :
    decItem cfg (fuel + 1) depth extra tag ⟨b0 :: rest, B⟩ = .error .indefinite := by
  have h1 : ¬ (b0.toNat = 0xf6 ∨ b0.toNat = 0xf7) := by omega
  have h2 : ¬ b0.toNat = 0xf4 := by omega
  have h3 : ¬ b0.toNat = 0xf5 := by omega
  have h4 : ¬ b0.toNat = 0xf9 := by omega
  have h5 : ¬ b0.toNat = 0xfa := by omega
  have h6 : ¬ b0.toNat = 0xfb := by omega
  simp only [decItem, h1, h2, h3, h4, h5, h6, h, if_false, if_true]

theorem decItem_m0 (hm : b0.toNat / 32 = 0) :
    decItem cfg (fuel + 1) depth extra tag ⟨b0 :: rest, B⟩ =
      (do let (n, r) ← readArg (!cfg.relaxed) (b0.toNat % 32) rest
          finish tag extra 1 (.int n) ⟨r, B⟩) := by
  have h1 : ¬ (b0.toNat = 0xf6 ∨ b0.toNat = 0xf7) := by omega
  have h2 : ¬ b0.toNat = 0xf4 := by omega
  have h3 : ¬ b0.toNat = 0xf5 := by omega
  have h4 : ¬ b0.toNat = 0xf9 := by omega
  have h5 : ¬ b0.toNat = 0xfa := by omega
  have h6 : ¬ b0.toNat = 0xfb := by omega
  have h7 : ¬ (b0.toNat = 0x5f ∨ b0.toNat = 0x7f ∨ b0.toNat = 0x9f ∨ b0.toNat = 0xbf) := by omega
  simp only [decItem, h1, h2, h3, h4, h5, h6, h7, hm, if_false, if_true]

theorem decItem_m1 (hm : b0.toNat / 32 = 1) :
    decItem cfg (fuel + 1) depth extra tag ⟨b0 :: rest, B⟩ =
      (do let (n, r) ← readArg (!cfg.relaxed) (b0.toNat % 32) rest
          let pos := if cfg.negWrap then (n + 1) % 18446744073709551616 else n + 1
          if pos > 9223372036854775808 then .error .negOverflow else
          finish tag extra 1 (.int (-(pos : Int))) ⟨r, B⟩) := by
  have h1 : ¬ (b0.toNat = 0xf6 ∨ b0.toNat = 0xf7) := by omega
  have h2 : ¬ b0.toNat = 0xf4 := by omega
  have h3 : ¬ b0.toNat = 0xf5 := by omega
  have h4 : ¬ b0.toNat = 0xf9 := by omega
  have h5 : ¬ b0.toNat = 0xfa := by omega
  have h6 : ¬ b0.toNat = 0xfb := by omega
  have h7 : ¬ (b0.toNat = 0x5f ∨ b0.toNat = 0x7f ∨ b0.toNat = 0x9f ∨ b0.toNat = 0xbf) := by omega
  simp only [decItem, h1, h2, h3, h4, h5, h6, h7, hm, if_false, if_true]
  try (first | rfl | (cases tag <;> rfl))

theorem decItem_m2 (hm : b0.toNat / 32 = 2) (hi : b0.toNat % 32 ≠ 31) :
    decItem cfg (fuel + 1) depth extra tag ⟨b0 :: rest, B⟩ =
      (do let (n, r) ← readLen (!cfg.relaxed) (b0.toNat % 32) rest
          if n > 33554432 then .error .oversized else
          let (payload, r') ← take? n r
          let s0 ← charge ⟨r', B⟩ extra
          let s' ← charge s0 n
          match tag with
          | none => pure (.bytes payload, s')
          | some t =>
            if t ≠ 42 then .error .badTag
            else if !cfg.allowLinks then .error .linksDisabled
            else match payload with
              | 0 :: cid => if cidValid cid then pure (.link cid, s') else .error .badCid
              | _ => .error .badMultibase) := by
  have h1 : ¬ (b0.toNat = 0xf6 ∨ b0.toNat = 0xf7) := by omega
  have h2 : ¬ b0.toNat = 0xf4 := by omega
  have h3 : ¬ b0.toNat = 0xf5 := by omega
  have h4 : ¬ b0.toNat = 0xf9 := by omega
  have h5 : ¬ b0.toNat = 0xfa := by omega
  have h6 : ¬ b0.toNat = 0xfb := by omega
  have h7 : ¬ (b0.toNat = 0x5f ∨ b0.toNat = 0x7f ∨ b0.toNat = 0x9f ∨ b0.toNat = 0xbf) := by omega
  simp only [decItem, h1, h2, h3, h4, h5, h6, h7, hm, if_false, if_true]
  try (first | rfl | (cases tag <;> rfl))

theorem decItem_m3 (hm : b0.toNat / 32 = 3) (hi : b0.toNat % 32 ≠ 31) :
    decItem cfg (fuel + 1) depth extra tag ⟨b0 :: rest, B⟩ =
      (do let (n, r) ← readLen (!cfg.relaxed) (b0.toNat % 32) rest
          if n > 33554432 then .error .oversized else
          let (payload, r') ← take? n r
          finish tag extra n (.str payload) ⟨r', B⟩) := by
  have h1 : ¬ (b0.toNat = 0xf6 ∨ b0.toNat = 0xf7) := by omega
  have h2 : ¬ b0.toNat = 0xf4 := by omega
  have h3 : ¬ b0.toNat = 0xf5 := by omega
  have h4 : ¬ b0.toNat = 0xf9 := by omega
  have h5 : ¬ b0.toNat = 0xfa := by omega
  have h6 : ¬ b0.toNat = 0xfb := by omega
  have h7 : ¬ (b0.toNat = 0x5f ∨ b0.toNat = 0x7f ∨ b0.toNat = 0x9f ∨ b0.toNat = 0xbf) := by omega
  simp only [decItem, h1, h2, h3, h4, h5, h6, h7, hm, if_false, if_true]
  try (first | rfl | (cases tag <;> rfl))

theorem decItem_m4 (hm : b0.toNat / 32 = 4) (hi : b0.toNat % 32 ≠ 31) :
    decItem cfg (fuel + 1) depth extra tag ⟨b0 :: rest, B⟩ =
      (do let (n, r) ← readLen (!cfg.relaxed) (b0.toNat % 32) rest
          let s0 ← charge ⟨r, B⟩ extra
          match tag with
          | some _ => .error .badTag
          | none =>
          if depth ≥ cfg.maxDepth then .error .depth else
          let s1 ← charge s0 n
          let (xs, s2) ← decList (decItem cfg fuel (depth + 1) 4 none) n s1
          pure (.list (DMs.ofList xs), s2)) := by
  have h1 : ¬ (b0.toNat = 0xf6 ∨ b0.toNat = 0xf7) := by omega
  have h2 : ¬ b0.toNat = 0xf4 := by omega
  have h3 : ¬ b0.toNat = 0xf5 := by omega
  have h4 : ¬ b0.toNat = 0xf9 := by omega
  have h5 : ¬ b0.toNat = 0xfa := by omega
  have h6 : ¬ b0.toNat = 0xfb := by omega
  have h7 : ¬ (b0.toNat = 0x5f ∨ b0.toNat = 0x7f ∨ b0.toNat = 0x9f ∨ b0.toNat = 0xbf) := by omega
  simp only [decItem, h1, h2, h3, h4, h5, h6, h7, hm, if_false, if_true]
  try (first | rfl | (cases tag <;> rfl))

theorem decItem_m5 (hm : b0.toNat / 32 = 5) (hi : b0.toNat % 32 ≠ 31) :
    decItem cfg (fuel + 1) depth extra tag ⟨b0 :: rest, B⟩ =
      (do let (n, r) ← readLen (!cfg.relaxed) (b0.toNat % 32) rest
          let s0 ← charge ⟨r, B⟩ extra
          match tag with
          | some _ => .error .badTag
          | none =>
          if depth ≥ cfg.maxDepth then .error .depth else
          let s1 ← charge s0 n
          let (es, s2) ← decMap cfg (decItem cfg fuel (depth + 1) 0 none) n [] s1
          pure (.map (DMKVs.ofList es), s2)) := by
  have h1 : ¬ (b0.toNat = 0xf6 ∨ b0.toNat = 0xf7) := by omega
  have h2 : ¬ b0.toNat = 0xf4 := by omega
  have h3 : ¬ b0.toNat = 0xf5 := by omega
  have h4 : ¬ b0.toNat = 0xf9 := by omega
  have h5 : ¬ b0.toNat = 0xfa := by omega
  have h6 : ¬ b0.toNat = 0xfb := by omega
  have h7 : ¬ (b0.toNat = 0x5f ∨ b0.toNat = 0x7f ∨ b0.toNat = 0x9f ∨ b0.toNat = 0xbf) := by omega
  simp only [decItem, h1, h2, h3, h4, h5, h6, h7, hm, if_false, if_true]
  try (first | rfl | (cases tag <;> rfl))

theorem decItem_m6 (hm : b0.toNat / 32 = 6) :
    decItem cfg (fuel + 1) depth extra tag ⟨b0 :: rest, B⟩ =
      (match tag with
        | some _ => .error .multiTag
        | none => do
          let (t, r) ← readLen (!cfg.relaxed) (b0.toNat % 32) rest
          decItem cfg fuel depth extra (some t) ⟨r, B⟩) := by
  have h1 : ¬ (b0.toNat = 0xf6 ∨ b0.toNat = 0xf7) := by omega
  have h2 : ¬ b0.toNat = 0xf4 := by omega
  have h3 : ¬ b0.toNat = 0xf5 := by omega
  have h4 : ¬ b0.toNat = 0xf9 := by omega
  have h5 : ¬ b0.toNat = 0xfa := by omega
  have h6 : ¬ b0.toNat = 0xfb := by omega
  have h7 : ¬ (b0.toNat = 0x5f ∨ b0.toNat = 0x7f ∨ b0.toNat = 0x9f ∨ b0.toNat = 0xbf) := by omega
  simp only [decItem, h1, h2, h3, h4, h5, h6, h7, hm, if_false, if_true]
  try (first | rfl | (cases tag <;> rfl))

theorem decItem_m7 (hm : b0.toNat / 32 = 7)
    (h1 : ¬ (b0.toNat = 0xf6 ∨ b0.toNat = 0xf7)) (h2 : ¬ b0.toNat = 0xf4) (h3 : ¬ b0.toNat = 0xf5)
    (h4 : ¬ b0.toNat = 0xf9) (h5 : ¬ b0.toNat = 0xfa) (h6 : ¬ b0.toNat = 0xfb) :
    decItem cfg (fuel + 1) depth extra tag ⟨b0 :: rest, B⟩ = .error .badInfo := by
  have h7 : ¬ (b0.toNat = 0x5f ∨ b0.toNat = 0x7f ∨ b0.toNat = 0x9f ∨ b0.toNat = 0xbf) := by omega
  simp only [decItem, h1, h2, h3, h4, h5, h6, h7, hm, if_false]
  rfl

end dispatch

end Cbor
end Ipld
