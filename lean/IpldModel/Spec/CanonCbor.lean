/-
  Spec: canonical DAG-CBOR of a data-model value, written from the DAG-CBOR specification
  (https://ipld.io/specs/codecs/dag-cbor/spec/), not from the code:

    * integers and lengths use the shortest head;
    * floats are always 64-bit;
    * all lengths are definite;
    * map keys are strings, ordered by length first and then bytewise;
    * a link is tag 42 around a byte string holding 0x00 followed by the CID.

  `canon` puts a value in canonical entry order; `encOrdered` writes a value in the order it has.
-/
import IpldModel.Model.DM
namespace Ipld
namespace Spec

/-- big-endian, fixed width -/
def be : Nat → Nat → Bytes
  | 0, _ => []
  | w + 1, n => UInt8.ofNat (n / 256 ^ w % 256) :: be w n

/-- Shortest CBOR head for major type `m` and argument `n < 2^64`. -/
def shortestHead (m n : Nat) : Bytes :=
  if n < 24 then [UInt8.ofNat (32 * m + n)]
  else if n < 2 ^ 8 then UInt8.ofNat (32 * m + 24) :: be 1 n
  else if n < 2 ^ 16 then UInt8.ofNat (32 * m + 25) :: be 2 n
  else if n < 2 ^ 32 then UInt8.ofNat (32 * m + 26) :: be 4 n
  else UInt8.ofNat (32 * m + 27) :: be 8 n

def bytewiseLE : Bytes → Bytes → Bool
  | [], _ => true
  | _ :: _, [] => false
  | a :: as, b :: bs => if a.toNat < b.toNat then true else if b.toNat < a.toNat then false else bytewiseLE as bs

/-- DAG-CBOR key order: length first, then bytewise. -/
def keyLE (a b : Bytes) : Bool :=
  if a.length ≠ b.length then a.length < b.length else bytewiseLE a b

/-- insert an entry into a key-sorted entry list (before the first strictly greater key) -/
def insertKV (k : Bytes) (v : DM) : DMKVs → DMKVs
  | .nil => .cons k v .nil
  | .cons k' v' es => if keyLE k k' then .cons k v (.cons k' v' es) else .cons k' v' (insertKV k v es)

mutual
/-- The value with every map in canonical key order. -/
def canon : DM → DM
  | .list xs => .list (canonList xs)
  | .map es => .map (canonKVs es)
  | d => d
def canonList : DMs → DMs
  | .nil => .nil
  | .cons x xs => .cons (canon x) (canonList xs)
def canonKVs : DMKVs → DMKVs
  | .nil => .nil
  | .cons k v es => insertKV k (canon v) (canonKVs es)
end

mutual
/-- Write a value in the entry order it has. -/
def encOrdered : DM → Bytes
  | .null => [0xf6]
  | .bool false => [0xf4]
  | .bool true => [0xf5]
  | .int i => if 0 ≤ i then shortestHead 0 i.toNat else shortestHead 1 (-1 - i).toNat
  | .float bits => 0xfb :: be 8 bits.toNat
  | .str s => shortestHead 3 s.length ++ s
  | .bytes b => shortestHead 2 b.length ++ b
  | .link cid => shortestHead 6 42 ++ (shortestHead 2 (cid.length + 1) ++ (0x00 :: cid))
  | .list xs => shortestHead 4 xs.length ++ encOrderedList xs
  | .map es => shortestHead 5 es.length ++ encOrderedKVs es
def encOrderedList : DMs → Bytes
  | .nil => []
  | .cons x xs => encOrdered x ++ encOrderedList xs
def encOrderedKVs : DMKVs → Bytes
  | .nil => []
  | .cons k v es => (shortestHead 3 k.length ++ k) ++ encOrdered v ++ encOrderedKVs es
end

/-- Canonical DAG-CBOR bytes of a value. -/
def canonEncode (d : DM) : Bytes := encOrdered (canon d)

end Spec
end Ipld
