/-
  The assembler state tables derived from the *model's* transition function, in the same shape as the
  tables the translator regenerates from node/basicnode/map.go and list.go (Generated/AsmFacts.lean).
-/
import IpldModel.Model.Assembler
import IpldModel.Generated.AsmFacts
namespace Ipld
namespace Asm
open Generated

def mPhases : List MPhase := [.init, .midKey, .expectValue, .midValue]
def lPhases : List LPhase := [.init, .midValue]

def mName : MPhase → String
  | .init => "maState_initial" | .midKey => "maState_midKey"
  | .expectValue => "maState_expectValue" | .midValue => "maState_midValue"
def lName : LPhase → String
  | .init => "laState_initial" | .midValue => "laState_midValue"

def k0 : Bytes := [0x6b]
def k1 : Bytes := [0x6a]

/-- a representative map-assembler state in phase `ph` (one finished entry `k1`; in the value phases the
    entry `k0` is waiting for its value), nested in a list so that `finish` has somewhere to deliver -/
def mState (ph : MPhase) : St :=
  let t0 : List (Bytes × Option DM) := [(k1, some .null)]
  let t := match ph with
    | .init | .midKey => t0
    | _ => t0 ++ [(k0, none)]
  { proto := .any, frames := [.map t [(k1, .null)] ph, .list [] .midValue] }

def lState (ph : LPhase) : St := { proto := .any, frames := [.list [.null] ph, .list [] .midValue] }

def topName (s : St) : String :=
  match s.frames with
  | .map _ _ ph :: _ :: _ => mName ph
  | .list _ ph :: _ :: _ => lName ph
  | _ => "finished"      -- the frame was popped (its value delivered to the parent)

/-- phases from which the call does not panic -/
def mGuard (op : Op) : List String :=
  (mPhases.filter fun ph => (step (mState ph) op).2 != .panic).map mName
def lGuard (op : Op) : List String :=
  (lPhases.filter fun ph => (step (lState ph) op).2 != .panic).map lName

/-- the state after the call from phase `ph` -/
def mAfter (ph : MPhase) (op : Op) : String := topName (step (mState ph) op).1
def lAfter (ph : LPhase) (op : Op) : String := topName (step (lState ph) op).1

def topTM (s : St) : Option (List (Bytes × Option DM) × List (Bytes × DM)) :=
  match s.frames with
  | .map t m _ :: _ => some (t, m)
  | _ => none

/-- which of the two fields of the map under construction the call changes -/
def mWrites (ph : MPhase) (op : Op) : List String :=
  match topTM (mState ph), topTM (step (mState ph) op).1 with
  | some (t, m), some (t', m') => (if m' != m then ["m"] else []) ++ (if t' != t then ["t"] else [])
  | _, _ => []

def one (l : List String) : String := match l with | [x] => x | _ => "?"

/-- The table the model's `step` induces for `map.go` (same row order as the generated table).
    Rows the op language does not cover are stated as what the model assumes of them:
    `BeginMap` allocates both fields (the model starts a frame with empty `t` and `m`);
    `Build` requires the finished state (`build` returns a value only when no frame is open);
    the root `AssignNode` shortcut copies the whole header and finishes (`valueCall … assignNode` delivers `v`). -/
def modelMaFacts : List MethodFacts := [
  { recv := "plainMap__Assembler", name := "AssembleEntry", guard := one (mGuard (.assembleEntry k0)),
    sets := [mAfter .init (.assembleEntry k0)], writes := mWrites .init (.assembleEntry k0), nilsBack := false },
  { recv := "plainMap__Assembler", name := "AssembleKey", guard := one (mGuard .assembleKey),
    sets := [mAfter .init .assembleKey], writes := mWrites .init .assembleKey, nilsBack := false },
  { recv := "plainMap__Assembler", name := "AssembleValue", guard := one (mGuard .assembleValue),
    sets := [mAfter .expectValue .assembleValue], writes := mWrites .expectValue .assembleValue, nilsBack := false },
  { recv := "plainMap__Assembler", name := "AssignNode", guard := "maState_initial", sets := ["maState_finished"], writes := ["w"], nilsBack := false },
  { recv := "plainMap__Assembler", name := "BeginMap", guard := "", sets := [], writes := ["m", "t"], nilsBack := false },
  { recv := "plainMap__Assembler", name := "Finish", guard := one (mGuard .finish),
    sets := ["maState_" ++ mAfter .init .finish], writes := [], nilsBack := false },
  { recv := "plainMap__Builder", name := "Build", guard := "maState_finished", sets := [], writes := [], nilsBack := false },
  -- key assembler: a repeated key puts the map assembler back to `initial`, a fresh key moves on to `expectValue`
  { recv := "plainMap__KeyAssembler", name := "AssignString", guard := "",
    sets := [mAfter .midKey (.assign (.str k1)), mAfter .midKey (.assign (.str k0))],
    writes := mWrites .midKey (.assign (.str k0)), nilsBack := true },
  { recv := "plainMap__ValueAssembler", name := "AssignNode", guard := "",
    sets := [mAfter .midValue (.assignNode .null)], writes := mWrites .midValue (.assignNode .null), nilsBack := true }
]

def topX (s : St) : Option (List DM) :=
  match s.frames with
  | .list x _ :: _ => some x
  | _ => none

def lWrites (ph : LPhase) (op : Op) : List String :=
  match topX (lState ph), topX (step (lState ph) op).1 with
  | some x, some x' => if x' != x then ["x"] else []
  | _, _ => []

def modelLaFacts : List MethodFacts := [
  { recv := "plainList__Assembler", name := "AssembleValue", guard := one (lGuard .assembleValue),
    sets := [lAfter .init .assembleValue], writes := lWrites .init .assembleValue, nilsBack := false },
  { recv := "plainList__Assembler", name := "AssignNode", guard := "laState_initial", sets := ["laState_finished"], writes := ["w"], nilsBack := false },
  { recv := "plainList__Assembler", name := "BeginList", guard := "", sets := [], writes := ["x"], nilsBack := false },
  { recv := "plainList__Assembler", name := "Finish", guard := one (lGuard .finish),
    sets := ["laState_" ++ lAfter .init .finish], writes := [], nilsBack := false },
  { recv := "plainList__Builder", name := "Build", guard := "laState_finished", sets := [], writes := [], nilsBack := false },
  { recv := "plainList__ValueAssembler", name := "AssignNode", guard := "",
    sets := [lAfter .midValue (.assignNode .null)], writes := lWrites .midValue (.assignNode .null), nilsBack := true }
]

end Asm
end Ipld
