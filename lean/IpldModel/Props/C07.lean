/-
  C07 — selectors and the walk: slice bounds, what is visited and matched, visiting order, unions and the
  recursion limit.  Property theorems only.
-/
import IpldModel.Lemmas.SliceBounds
import IpldModel.Lemmas.WalkOrder
import IpldModel.Lemmas.WalkNodup2
import IpldModel.Lemmas.WalkExamples
import IpldModel.Lemmas.WalkVisits
namespace Ipld.Props.C07
open Ipld Ipld.Sel Ipld.Walk

/-! ### slice bounds -/

/-- The Go `sliceBounds` (translated from the source, with wrapping int64 arithmetic) computes the model's
    `sliceBounds` for all int64 arguments with a non-negative length: no intermediate sum wraps. -/
theorem slice_bounds_src (from_ to length : Int) (hf : inI64 from_) (ht : inI64 to) (hl : inI64 length)
    (h0 : 0 ≤ length) : Generated.sliceBounds_src from_ to length = Sel.sliceBounds from_ to length :=
  sliceBounds_src_eq from_ to length hf ht hl h0

/-- A successful `sliceBounds` gives a non-empty-able window inside `[0, len]` starting before the end. -/
theorem slice_bounds_ok {f t len a z : Int} (h : sliceBounds f t len = (true, a, z)) :
    0 ≤ a ∧ a ≤ z ∧ z ≤ len ∧ a < len :=
  sliceBounds_true h

/-- A failed `sliceBounds` returns zeros. -/
theorem slice_bounds_fail {f t len a z : Int} (h : sliceBounds f t len = (false, a, z)) : a = 0 ∧ z = 0 :=
  sliceBounds_false h

/-- `sliceBounds` always answers `(false, 0, 0)` for an empty string. -/
theorem slice_bounds_empty (f t : Int) : sliceBounds f t 0 = (false, 0, 0) := by
  cases h : sliceBounds f t 0 with
  | mk ok az =>
    obtain ⟨a, z⟩ := az
    cases ok with
    | true => have := sliceBounds_true h; omega
    | false => obtain ⟨rfl, rfl⟩ := sliceBounds_false h; rfl

/-! ### what is visited, what is matched -/

/-- Events only grow: `walkAdv` leaves the log it was given untouched and prepends to it (the log is kept
    most-recent-first). -/
theorem events_extend (cfg : Cfg) (fuel : Nat) (past : Bool) (path : Path) (n : DM) (s : S) (st : St) :
    ∃ new, (walkAdv cfg fuel past path n s st).1.events = new ++ st.events :=
  Walk.events_extend cfg fuel past path n s st

/-- Every event of a walk is a link load, or the visit event of a position (path, node, selector) the walk
    can reach from the root: matched with `Match`'s result if the selector at that position matches the node
    there, candidate with the node itself otherwise. -/
theorem visit_is_visitEvent (cfg : Cfg) (fuel : Nat) (nb lb : Option Int) (root : DM) (s : S) (e : Event)
    (he : e ∈ (walk cfg fuel nb lb root s).events) :
    (∃ c, e = .load c) ∨ ∃ path n' s', Reach cfg root s path n' s' ∧
      e = (match matchNode s' n' with
            | some m => .visit path m .matched
            | none => .visit path n' .candidate) :=
  walk_events_ok cfg fuel nb lb root s e he

/-- `WalkMatching` hears exactly of the matched visits (a filter of the log), and each of them carries what
    `Match` returned for the selector and node at a reachable position with that path. -/
theorem matching_is_filter (cfg : Cfg) (fuel : Nat) (nb lb : Option Int) (root : DM) (s : S) (p : Path) (m : DM) :
    (p, m) ∈ matchesOf (walk cfg fuel nb lb root s).events ↔
      .visit p m .matched ∈ (walk cfg fuel nb lb root s).events := by
  unfold matchesOf
  rw [List.mem_filterMap]
  constructor
  · rintro ⟨e, he, h⟩
    cases e with
    | load c => simp at h
    | visit q n r =>
      cases r with
      | matched => simp only [Option.some.injEq, Prod.mk.injEq] at h; obtain ⟨rfl, rfl⟩ := h; exact he
      | candidate => simp at h
  · intro h; exact ⟨_, h, rfl⟩

/-- A matched visit carries `Match(n')` for the selector `s'` and node `n'` at a reachable position. -/
theorem matched_is_match (cfg : Cfg) (fuel : Nat) (nb lb : Option Int) (root : DM) (s : S) (p : Path) (m : DM)
    (h : .visit p m .matched ∈ (walk cfg fuel nb lb root s).events) :
    ∃ n' s', Reach cfg root s p n' s' ∧ matchNode s' n' = some m := by
  rcases walk_events_ok cfg fuel nb lb root s _ h with ⟨c, hc⟩ | ⟨path, n', s', hr, he⟩
  · cases hc
  · unfold visitEvent at he
    cases hm : matchNode s' n' with
    | some m' => rw [hm] at he; cases he; exact ⟨n', s', hr, hm⟩
    | none => rw [hm] at he; cases he

/-- A candidate visit carries the node at a reachable position whose selector does not match it. -/
theorem candidate_is_node (cfg : Cfg) (fuel : Nat) (nb lb : Option Int) (root : DM) (s : S) (p : Path) (m : DM)
    (h : .visit p m .candidate ∈ (walk cfg fuel nb lb root s).events) :
    ∃ s', Reach cfg root s p m s' ∧ matchNode s' m = none := by
  rcases walk_events_ok cfg fuel nb lb root s _ h with ⟨c, hc⟩ | ⟨path, n', s', hr, he⟩
  · cases hc
  · unfold visitEvent at he
    cases hm : matchNode s' n' with
    | some m' => rw [hm] at he; cases he
    | none => rw [hm] at he; cases he; exact ⟨s', hr, hm⟩

/-! ### order -/

/-- Document order (no start-at path): a visit at `p ++ [seg]` is preceded by a visit at `p`. -/
theorem doc_order (cfg : Cfg) (hs : cfg.startAt = []) (fuel : Nat) (nb lb : Option Int) (root : DM) (s : S)
    (a b : List Event) (p : Path) (seg : Seg) (m : DM) (r : Reason)
    (h : (walk cfg fuel nb lb root s).events = a ++ .visit (p ++ [seg]) m r :: b) :
    ∃ m' r', .visit p m' r' ∈ a := by
  unfold walk at h
  exact docOrdered_chrono _ (walk_docOrdered_rev cfg hs fuel nb lb root s) a b p seg m r h

/-- No path is visited twice (any configuration), provided that at every reachable position the children
    the selector actually explores sit at pairwise distinct segments (`childList n s'` = the children the
    per-node loop runs over: all of them, or the found interests; `explored` = `Explore` returns a selector). -/
theorem visit_paths_nodup (cfg : Cfg) (fuel : Nat) (nb lb : Option Int) (root : DM) (s : S)
    (H : ∀ path n s', Reach cfg root s path n s' →
      (((childList n s').filter (explored n s')).map (·.1)).Nodup) :
    ((visitsOf (walk cfg fuel nb lb root s).events).map (·.1)).Nodup :=
  walk_visit_paths_nodup cfg root s H fuel nb lb

/-- In particular: no path is visited twice when no map (root, store blocks) has a duplicate key and every
    reachable selector's explicit interest list is duplicate-free. -/
theorem visit_paths_nodup_of_noDup (cfg : Cfg) (fuel : Nat) (nb lb : Option Int) (root : DM) (s : S)
    (hroot : root.NoDup) (hstore : ∀ c blk, storeGet cfg.store c = some blk → blk.NoDup)
    (hsel : ∀ path n s', Reach cfg root s path n s' → ∀ l, interests s' = some l → l.Nodup) :
    ((visitsOf (walk cfg fuel nb lb root s).events).map (·.1)).Nodup :=
  walk_visit_paths_nodup' cfg root s hroot hstore hsel fuel nb lb

/-- A union's interest list is duplicate-free (first occurrence of every segment text is kept). -/
theorem union_interests_nodup (ms : SList) (l : List Seg) (h : interests (.union ms) = some l) : l.Nodup :=
  interests_union_nodup ms l h

/-! ### unions and the recursion limit -/

/-- A union matches with its first matching member. -/
theorem union_first_match (ms : SList) (n : DM) :
    matchNode (.union ms) n = ms.toList.findSome? (fun s => matchNode s n) :=
  matchNode_union ms n

/-- A union whose members are all bare recursive edges explores to nothing (no `Explore` is called on them). -/
theorem explore_union_comm_edges (ms : SList) (h : ∀ s ∈ ms.toList, s = .edge) (n : DM) (p : Seg) :
    explore (.union ms) n p = .ok none :=
  explore_union_all_edges ms h n p

/-- With a depth limit below 2 the recursion makes one pass: exploring either stays inside the current pass
    (same limit, the sequence not substituted) or, on reaching the edges, drops them and leaves an edge-free
    selector outside any recursion wrapper. -/
theorem recursive_limit (sq cur : S) (d : Int) (hd : d < 2) (stop : Option Bytes) (n : DM) (p : Seg)
    (r : S) (h : explore (.recursive sq cur (some d) stop) n p = .ok (some r)) :
    ∃ nx, explore cur n p = .ok (some nx) ∧
      ((hasEdge nx = false ∧ r = .recursive sq nx (some d) stop) ∨
       (hasEdge nx = true ∧ replaceEdge none nx = some r ∧ hasEdge r = false)) :=
  explore_recursive_last_pass sq cur d hd stop n p r h

section Examples
open Ipld.Walk.Ex
example : sliceBounds 1 (-1) 5 = (true, 1, 4) := by decide
example : sliceBounds (-2) 100 5 = (true, 3, 5) := by decide
example : Generated.sliceBounds_src (-9223372036854775808) 9223372036854775807 9223372036854775807
    = (true, 0, 9223372036854775807) := by decide +kernel
/-- the explore-everything walk over the example graph: paths in document order, all matched -/
example : (visitsOf (walk Ex.cfg 20 none none Ex.root selAll).events).map (·.1) =
    [[], [.str [0x61]], [.str [0x61], .idx 0], [.str [0x61], .idx 1], [.str [0x6c]], [.str [0x6c], .str [0x78]]] := by
  decide +kernel
example : (matchesOf (walk Ex.cfg 20 none none Ex.root selAll).events).length = 6 := by decide +kernel
/-- depth limit 1: the root only; depth limit 2: the root and its children (the link is loaded and its block
    visited, not the block's content) -/
example : (visitsOf (walk Ex.cfg 20 none none Ex.root (.recursive seqAll seqAll (some 1) none)).events).map (·.1) =
    [[]] := by decide +kernel
example : (visitsOf (walk Ex.cfg 20 none none Ex.root (.recursive seqAll seqAll (some 2) none)).events).map (·.1) =
    [[], [.str [0x61]], [.str [0x6c]]] := by decide +kernel
/-- a slicing matcher under a field selector -/
example : matchesOf (walk Ex.cfg 20 none none Ex.blk
      (.fields (.cons [0x78] (.matcher (some (1, 2))) .nil))).events = [([.str [0x78]], .str [0x69])] := by
  decide +kernel
/-- the hypothesis of `visit_paths_nodup` is needed: a fields selector listing a key twice (no spec compiles
    to one) visits that field twice -/
example : (visitsOf (walk {} 9 none none (.map (.cons [0x61] (.int 1) .nil))
      (.fields (.cons [0x61] (.matcher none) (.cons [0x61] (.matcher none) .nil)))).events).map (·.1)
    = [[], [.str [0x61]], [.str [0x61]]] := by decide +kernel
end Examples

/-! ### what a selector denotes, and completeness of the walk (C07-c)

The theorems above say that whatever the walk visits is a position it can reach (`Reach`), in parent-first
order.  The ones below compare the walk with an independent, path-indexed denotation
(`Spec/SelectorDenote.lean`): `selectorAt store s root path` follows `path` from `root` under `s` (random-access
lookup of each segment, `Explore` for the residual selector, a link child replaced by its block) and
`Selected store s root path` says it gets there.  `denote store depth s root` lists the selected positions of
depth `< depth` in document order.

Hypotheses, all explicit:
  * `Unrestricted cfg`: `cfg.startAt = []`, `cfg.skip = []`, `cfg.linkOnce = false`; and no budgets (`none none`);
  * `root.NoDup`, `StoreNoDup cfg.store`: no map of the root or of a stored block has a key twice (what C12 proves
    of every built node).  NEEDED: a path does not name a position otherwise (example below);
  * `(walk …).outcome = .ok ()`: enough fuel, every explored link loadable, no failing `Explore`, no ADL clause.
    `walk_ok_is_clean` / `clean_walk_ok` say this is exactly `Spec.cleanFrom` plus enough fuel. -/

section Complete
open Ipld.Spec

/-- **C07-c3.**  A successful unrestricted walk visits exactly the enumeration `denote` (to any depth `d` at
    least the fuel: the selection has ended by then): the same positions, with the same node and reason, in
    the same order, with the same multiplicity. -/
theorem visits_eq_denote (cfg : Cfg) (hu : Unrestricted cfg) (hstore : StoreNoDup cfg.store) (root : DM)
    (hroot : root.NoDup) (s : S) (fuel : Nat) (hok : (walk cfg fuel none none root s).outcome = .ok ())
    (d : Nat) (hd : fuel ≤ d) :
    visitsOf (walk cfg fuel none none root s).events = denote cfg.store d s root :=
  walk_visits_eq_denote cfg hu hstore root hroot s fuel hok d hd

/-- What `denote` lists, without reference to any traversal: the entry for every path of length `< d` that
    `selectorAt` reaches, carrying `visitOf` of the node and residual selector found there. -/
theorem denote_characterised (store : Store) (d : Nat) (s : S) (root : DM) (x : Path × DM × Reason) :
    x ∈ denote store d s root ↔
      ∃ n' s', x.1.length < d ∧ selectorAt store s root x.1 = some (n', s') ∧ x = visitOf x.1 n' s' :=
  mem_denote store d s root x

/-- **C07-c1.**  Soundness and completeness in one: a path is visited iff the selector leads to it. -/
theorem visited_iff_selected (cfg : Cfg) (hu : Unrestricted cfg) (hstore : StoreNoDup cfg.store) (root : DM)
    (hroot : root.NoDup) (s : S) (fuel : Nat) (hok : (walk cfg fuel none none root s).outcome = .ok ())
    (p : Path) :
    (∃ n r, (p, n, r) ∈ visitsOf (walk cfg fuel none none root s).events) ↔ Selected cfg.store s root p :=
  Walk.visited_iff_selected cfg hu hstore root hroot s fuel hok p

/-- **C07-c2.**  The visit at `p` reports the node `selectorAt` reaches there, or `Match`'s answer for it (the
    slice, for a matcher with a subset) when the residual selector decides it; the reason is `matched`
    exactly in that case. -/
theorem visit_reason (cfg : Cfg) (hu : Unrestricted cfg) (hstore : StoreNoDup cfg.store) (root : DM)
    (hroot : root.NoDup) (s : S) (fuel : Nat) (hok : (walk cfg fuel none none root s).outcome = .ok ())
    (p : Path) (m : DM) (r : Reason) (h : (p, m, r) ∈ visitsOf (walk cfg fuel none none root s).events) :
    ∃ n s', selectorAt cfg.store s root p = some (n, s') ∧ m = (matchNode s' n).getD n ∧
      (r = .matched ↔ decides s' n = true) :=
  Walk.visit_reason cfg hu hstore root hroot s fuel hok p m r h

/-- Completeness with node and reason: the position `selectorAt` reaches at `p` is visited, as `visitOf` says. -/
theorem selected_is_visited (cfg : Cfg) (hu : Unrestricted cfg) (hstore : StoreNoDup cfg.store) (root : DM)
    (hroot : root.NoDup) (s : S) (fuel : Nat) (hok : (walk cfg fuel none none root s).outcome = .ok ())
    (p : Path) (n : DM) (s' : S) (h : selectorAt cfg.store s root p = some (n, s')) :
    visitOf p n s' ∈ visitsOf (walk cfg fuel none none root s).events :=
  selected_visited cfg hu hstore root hroot s fuel hok p n s' h

/-- Soundness holds for EVERY walk (any configuration, budgets, fuel, outcome): what is visited is selected and
    is reported as the spec says.  Only completeness needs the unrestricted, successful walk. -/
theorem visited_is_selected_any (cfg : Cfg) (hstore : StoreNoDup cfg.store) (root : DM) (hroot : root.NoDup)
    (s : S) (fuel : Nat) (nb lb : Option Int) (x : Path × DM × Reason)
    (h : x ∈ visitsOf (walk cfg fuel nb lb root s).events) :
    ∃ n s', selectorAt cfg.store s root x.1 = some (n, s') ∧ x = visitOf x.1 n s' :=
  visited_selectorAt_any cfg hstore root hroot s fuel nb lb x h

/-- The walk's own account of the positions it can arrive at (`Reach`, used by the theorems above) is the
    path-indexed `selectorAt`. -/
theorem reach_is_selectorAt (cfg : Cfg) (hk : cfg.skip = []) (root : DM) (s0 : S) (hroot : root.NoDup)
    (hstore : StoreNoDup cfg.store) (path : Path) (n : DM) (s : S) :
    Reach cfg root s0 path n s ↔ selectorAt cfg.store s0 root path = some (n, s) :=
  reach_iff_selectorAt hk hroot hstore path n s

/-! #### order and exactly-once -/

/-- The visited paths are sorted by document order `DocBefore`: an ancestor before its descendants, and below a
    common ancestor the branch through the segment tried earlier first (the node's own order for selectors
    without explicit interests, the interest order otherwise). -/
theorem visits_doc_sorted (cfg : Cfg) (hu : Unrestricted cfg) (hstore : StoreNoDup cfg.store) (root : DM)
    (hroot : root.NoDup) (s : S) (fuel : Nat) (hok : (walk cfg fuel none none root s).outcome = .ok ()) :
    ((visitsOf (walk cfg fuel none none root s).events).map (·.1)).Pairwise (DocBefore cfg.store s root) :=
  walk_visits_sorted cfg hu hstore root hroot s fuel hok

/-- `DocBefore` is asymmetric (so irreflexive) when no selected position tries a segment twice. -/
theorem doc_before_asymm (store : Store) (s : S) (root : DM) (hnd : SegsNodup store s root) (p q : Path)
    (h : DocBefore store s root p q) : ¬ DocBefore store s root q p :=
  docBefore_asymm hnd h

/-- `SegsNodup` holds when nodes have no duplicate keys and explicit interest lists no duplicate segments
    (unions de-duplicate theirs: `union_interests_nodup`). -/
theorem segs_nodup_of (store : Store) (hstore : StoreNoDup store) (root : DM) (hroot : root.NoDup) (s : S)
    (hsel : ∀ q n s', selectorAt store s root q = some (n, s') → ∀ l, interests s' = some l → l.Nodup) :
    SegsNodup store s root :=
  segsNodup_of hstore hroot hsel

/-- The visit sequence is DETERMINED by the spec: any list holding exactly the selected paths and sorted by
    document order is the list of visited paths. -/
theorem visits_unique (cfg : Cfg) (hu : Unrestricted cfg) (hstore : StoreNoDup cfg.store) (root : DM)
    (hroot : root.NoDup) (s : S) (fuel : Nat) (hok : (walk cfg fuel none none root s).outcome = .ok ())
    (hnd : SegsNodup cfg.store s root) (L : List Path) (hmem : ∀ p, p ∈ L ↔ Selected cfg.store s root p)
    (hsorted : L.Pairwise (DocBefore cfg.store s root)) :
    (visitsOf (walk cfg fuel none none root s).events).map (·.1) = L :=
  walk_visits_unique cfg hu hstore root hroot s fuel hok hnd L hmem hsorted

/-- Exactly once: a selected path is visited once, any other path never. -/
theorem visited_exactly_once (cfg : Cfg) (hu : Unrestricted cfg) (hstore : StoreNoDup cfg.store) (root : DM)
    (hroot : root.NoDup) (s : S) (fuel : Nat) (hok : (walk cfg fuel none none root s).outcome = .ok ())
    (hnd : SegsNodup cfg.store s root) (p : Path) :
    ((visitsOf (walk cfg fuel none none root s).events).map (·.1)).count p =
      if Selected cfg.store s root p then 1 else 0 :=
  walk_visit_count cfg hu hstore root hroot s fuel hok hnd p

/-! #### when the walk succeeds -/

/-- A successful walk with fuel `f` means the selection is clean to depth `f`: no ADL clause is reached, no
    `Explore` fails, every explored link is in the store, and nothing is selected at depth `f` or below. -/
theorem walk_ok_is_clean (cfg : Cfg) (hu : Unrestricted cfg) (hstore : StoreNoDup cfg.store) (root : DM)
    (hroot : root.NoDup) (s : S) (fuel : Nat) (hok : (walk cfg fuel none none root s).outcome = .ok ()) :
    cleanFrom cfg.store fuel root s = true :=
  clean_of_walk_ok cfg hu hstore root hroot s fuel hok fuel (Nat.le_refl _)

/-- Conversely a selection clean to depth `d`, none of whose positions tries more than `W` segments, is walked
    successfully with any fuel from `d * (W + 3)`: the `ok` hypothesis of the theorems above is satisfiable
    whenever it should be. -/
theorem clean_walk_ok (cfg : Cfg) (hu : Unrestricted cfg) (hstore : StoreNoDup cfg.store) (root : DM)
    (hroot : root.NoDup) (s : S) (d W : Nat) (hc : cleanFrom cfg.store d root s = true)
    (hw : WidthLe cfg.store W root s) (fuel : Nat) (hf : d * (W + 3) ≤ fuel) :
    (walk cfg fuel none none root s).outcome = .ok () :=
  walk_ok_of_clean cfg hu hstore root hroot s d W hc hw fuel hf

/-! #### C07-c4: the property text, selector by selector -/

/-- The explore-all-recursively selector `R(none, |[., a(@)])` (and any selector that explores every child with
    itself and matches every node) visits every position of the graph reachable through loadable links
    (`nodeAt`), reports the node there as a match, visits no path twice, and does so in pre-order
    (`preorder`: a node, then its children's subtrees in the node's own order). -/
theorem explore_all_visits_every_node (cfg : Cfg) (hu : Unrestricted cfg) (hstore : StoreNoDup cfg.store)
    (root : DM) (hroot : root.NoDup) (s : S) (hs : ExploresAll s) (fuel : Nat)
    (hok : (walk cfg fuel none none root s).outcome = .ok ()) :
    (∀ p, (∃ n r, (p, n, r) ∈ visitsOf (walk cfg fuel none none root s).events) ↔
      (nodeAt cfg.store root p).isSome = true) ∧
    (∀ p n r, (p, n, r) ∈ visitsOf (walk cfg fuel none none root s).events →
      nodeAt cfg.store root p = some n ∧ r = .matched) ∧
    ((visitsOf (walk cfg fuel none none root s).events).map (·.1)).Nodup ∧
    (∀ d, fuel ≤ d → visitsOf (walk cfg fuel none none root s).events =
      (preorder cfg.store d [] root).map fun x => (x.1, x.2, Reason.matched)) :=
  walk_all_visits cfg hu hstore root hroot s fuel hok hs

/-- the selector of the examples is of that kind -/
theorem selAll_explores_all : ExploresAll Ex.selAll := selAll_exploresAll

/-- An ExploreFields selector whose fields carry matchers visits exactly the root and the named children that
    exist (`LookupBySegment` of the key, taken as a string segment, finds them; a link child stands for its
    block, which the successful walk has loaded). -/
theorem fields_selector_visits_only_named (cfg : Cfg) (hu : Unrestricted cfg) (hstore : StoreNoDup cfg.store)
    (root : DM) (hroot : root.NoDup) (fs : SFields) (hfs : AllMatchers fs) (fuel : Nat)
    (hok : (walk cfg fuel none none root (.fields fs)).outcome = .ok ()) (p : Path) :
    (∃ n r, (p, n, r) ∈ visitsOf (walk cfg fuel none none root (.fields fs)).events) ↔
      p = [] ∨ ∃ k v, p = [.str k] ∧ k ∈ fieldKeys fs ∧ lookupBySegment root (.str k) = some v :=
  walk_fields_visits cfg hu hstore root hroot fs hfs fuel hok p

/-- In general a field selector selects the root, and below a named child that exists whatever that field's
    selector selects there. -/
theorem fields_selected (store : Store) (fs : SFields) (root : DM) (p : Path) :
    Selected store (.fields fs) root p ↔
      p = [] ∨ ∃ k rest v n' s', p = .str k :: rest ∧ k ∈ fieldKeys fs ∧ lookupBySegment root (.str k) = some v ∧
        deref store v = some n' ∧ fieldLookup fs k = some s' ∧ Selected store s' n' rest :=
  selected_fields store fs root p

/-- With depth limit `d` the explore-all selector `R(depth d, |[., a(@)])` visits the positions of the graph at
    depth `< d` — and the root in any case: a limit of 0 (or a negative one) behaves like a limit of 1. -/
theorem recursion_limit_depth (cfg : Cfg) (hu : Unrestricted cfg) (hstore : StoreNoDup cfg.store) (root : DM)
    (hroot : root.NoDup) (d : Int) (fuel : Nat)
    (hok : (walk cfg fuel none none root (recAll d)).outcome = .ok ()) (p : Path) :
    (∃ n r, (p, n, r) ∈ visitsOf (walk cfg fuel none none root (recAll d)).events) ↔
      (nodeAt cfg.store root p).isSome = true ∧ (p = [] ∨ (p.length : Int) < d) :=
  walk_recAll_visits cfg hu hstore root hroot d fuel hok p

section Examples
open Ipld.Walk.Ex
/-- the hypotheses hold of the example graph: the walk succeeds, and `clean_walk_ok` predicts it -/
example : (walk Ex.cfg 20 none none Ex.root selAll).outcome = .ok () := by decide +kernel
example : (walk Ex.cfg 20 none none Ex.root selAll).outcome = .ok () :=
  clean_walk_ok Ex.cfg Ex.unrestricted Ex.store_noDup Ex.root Ex.root_noDup selAll 3 2 (by decide)
    (widthLe_of_within _ 2 3 _ _ (by decide) (by decide)) 20 (by decide)
example : cleanFrom Ex.cfg.store 3 Ex.root selAll = true := by decide
example : cleanFrom Ex.cfg.store 2 Ex.root selAll = false := by decide   -- the selection is 3 levels deep
/-- selected / not selected, and what is found at a selected path (behind the link: the block) -/
example : Selected Ex.cfg.store selAll Ex.root [.str [0x6c], .str [0x78]] := by decide
example : ¬ Selected Ex.cfg.store selAll Ex.root [.str [0x6c], .str [0x79]] := by decide
example : (selectorAt Ex.cfg.store selAll Ex.root [.str [0x6c]]).map (·.1) = some Ex.blk := by decide
/-- `denote` on the example graph, and the conclusion of `visits_eq_denote` checked directly -/
example : denote Ex.cfg.store 20 selAll Ex.root =
    [([], Ex.root, .matched), ([.str [0x61]], .list (.cons (.int 1) (.cons (.int 2) .nil)), .matched),
     ([.str [0x61], .idx 0], .int 1, .matched), ([.str [0x61], .idx 1], .int 2, .matched),
     ([.str [0x6c]], Ex.blk, .matched), ([.str [0x6c], .str [0x78]], .str [0x68, 0x69], .matched)] := by decide
example : visitsOf (walk Ex.cfg 20 none none Ex.root selAll).events = denote Ex.cfg.store 20 selAll Ex.root := by
  decide +kernel
/-- the no-duplicate-keys hypothesis is needed: over `{"a": 1, "a": [2]}` the walk succeeds, visits `a` twice and
    `a/0` below the second, which no path-indexed reading can select -/
example : (walk {} 20 none none rootDup selAll).outcome = .ok () := by decide +kernel
example : (visitsOf (walk {} 20 none none rootDup selAll).events).map (·.1) =
    [[], [.str [0x61]], [.str [0x61]], [.str [0x61], .idx 0]] := by decide +kernel
example : ¬ Selected [] selAll rootDup [.str [0x61], .idx 0] := by decide
/-- the `ok` hypothesis is needed: with an empty store the link cannot be loaded, the walk stops, and the
    selection is not clean -/
example : (walk {} 20 none none Ex.root selAll).outcome = .error .load := by decide +kernel
example : cleanFrom [] 20 Ex.root selAll = false := by decide
/-- a block that is itself a bare link is a position as the link node (spec and walk agree) -/
example : (selectorAt store2 selAll root2 [.str [0x6c]]).map (·.1) = some (.link [2]) := by decide
example : visitsOf (walk { store := store2 } 20 none none root2 selAll).events =
    [([], root2, .matched), ([.str [0x6c]], .link [2], .matched)] := by decide +kernel
/-- fields `l`, `z` over the example root: the root (a candidate) and `l` (its block, matched); `z` does not exist -/
example : (walk Ex.cfg 20 none none Ex.root (.fields fsEx)).outcome = .ok () := by decide +kernel
example : visitsOf (walk Ex.cfg 20 none none Ex.root (.fields fsEx)).events =
    [([], Ex.root, .candidate), ([.str [0x6c]], Ex.blk, .matched)] := by decide +kernel
/-- a field selector reaches into a list when the key reads as an index (the path keeps the string segment) -/
example : visitsOf (walk {} 20 none none (.list (.cons (.int 7) .nil))
      (.fields (.cons [0x30] (.matcher none) .nil))).events =
    [([], .list (.cons (.int 7) .nil), .candidate), ([.str [0x30]], .int 7, .matched)] := by decide +kernel
/-- depth limits 0 and below still visit the root -/
example : (visitsOf (walk Ex.cfg 20 none none Ex.root (recAll 0)).events).map (·.1) = [[]] := by decide +kernel
example : (visitsOf (walk Ex.cfg 20 none none Ex.root (recAll (-5))).events).map (·.1) = [[]] := by decide +kernel
example : (visitsOf (walk Ex.cfg 20 none none Ex.root (recAll 2)).events).map (·.1) =
    [[], [.str [0x61]], [.str [0x6c]]] := by decide +kernel
end Examples

end Complete

end Ipld.Props.C07
