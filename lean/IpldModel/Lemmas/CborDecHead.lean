/-
  Helper lemmas about reading heads: `beVal`/`beBytes` inverse to one another, `take?` on appended
  input, `readArg`/`readLen` on a shortest head.
-/
import IpldModel.Lemmas.CborHead
import IpldModel.Spec.CborLimits
namespace Ipld
namespace Cbor

theorem beVal_beBytes (w n : Nat) : beVal (beBytes w n) = n % 256 ^ w := by
  induction w with
  | zero => simp [beBytes, beVal, Nat.mod_one]
  | succ w ih =>
    simp only [beBytes, beVal, beBytes_length, ih, UInt8.toNat_ofNat']
    rw [Nat.mod_pow_succ (b := 256)]
    have : n / 256 ^ w % 256 % 2 ^ 8 = n / 256 ^ w % 256 := by omega
    rw [this, Nat.mul_comm]; omega

theorem beVal_lt : (a : Bytes) → beVal a < 256 ^ a.length
  | [] => by simp [beVal]
  | b :: bs => by
    have ih := beVal_lt bs
    have hb := b.toNat_lt
    simp only [beVal, List.length_cons, Nat.pow_succ]
    have : b.toNat * 256 ^ bs.length ≤ 255 * 256 ^ bs.length := Nat.mul_le_mul_right _ (by omega)
    omega

/-- `beBytes w` only depends on `n` modulo `256^w`. -/
theorem beBytes_add_mul (w : Nat) : ∀ n m, beBytes w (m * 256 ^ w + n) = beBytes w n := by
  induction w with
  | zero => intros; rfl
  | succ w ih =>
    intro n m
    have hp : 0 < 256 ^ w := Nat.pow_pos (by omega)
    have e : m * 256 ^ (w + 1) = 256 ^ w * (m * 256) := by
      rw [Nat.pow_succ, Nat.mul_comm (256 ^ w) 256, ← Nat.mul_assoc, Nat.mul_comm]
    have e2 : m * 256 ^ (w + 1) = (m * 256) * 256 ^ w := by rw [e, Nat.mul_comm]
    simp only [beBytes]
    congr 1
    · congr 1
      rw [e, Nat.mul_add_div hp]
      omega
    · rw [e2]; exact ih n (m * 256)

theorem beBytes_beVal : (a : Bytes) → beBytes a.length (beVal a) = a
  | [] => rfl
  | b :: bs => by
    have ih := beBytes_beVal bs
    have hlt := beVal_lt bs
    simp only [beVal, List.length_cons, beBytes]
    have hpos : 0 < 256 ^ bs.length := Nat.pow_pos (by omega)
    have e1 : (b.toNat * 256 ^ bs.length + beVal bs) / 256 ^ bs.length = b.toNat := by
      rw [Nat.mul_comm, Nat.mul_add_div hpos, Nat.div_eq_of_lt hlt]; rfl
    have hb := b.toNat_lt
    rw [e1, Nat.mod_eq_of_lt (by omega), UInt8.ofNat_toNat, beBytes_add_mul, ih]

theorem take?_append (a r : Bytes) : take? a.length (a ++ r) = .ok (a, r) := by
  simp [take?]

theorem take?_append' (n : Nat) (a r : Bytes) (h : a.length = n) : take? n (a ++ r) = .ok (a, r) := by
  subst h; exact take?_append a r

theorem take?_ok {n : Nat} {bs a r : Bytes} (h : take? n bs = .ok (a, r)) : bs = a ++ r ∧ a.length = n := by
  unfold take? at h
  split at h
  · cases h
  · rename_i hl
    injection h with h
    injection h with h1 h2
    subst h1 h2
    simp; omega

/-! ### shortest heads, split into the first byte's additional info and the argument bytes -/

def hinfo (n : Nat) : Nat :=
  if n < 24 then n else if n < 256 then 24 else if n < 65536 then 25 else if n < 4294967296 then 26 else 27

def harg (n : Nat) : Bytes :=
  if n < 24 then [] else if n < 256 then beBytes 1 n else if n < 65536 then beBytes 2 n
  else if n < 4294967296 then beBytes 4 n else beBytes 8 n

theorem hinfo_le (n : Nat) : hinfo n ≤ 27 := by
  unfold hinfo; repeat' split
  all_goals omega

theorem shortestHead_eq (m n : Nat) : Spec.shortestHead m n = UInt8.ofNat (32 * m + hinfo n) :: harg n := by
  unfold Spec.shortestHead hinfo harg
  simp only [spec_be_eq]
  split
  · rfl
  · split
    · rfl
    · split
      · rfl
      · split <;> rfl

theorem shortestHead_length_pos (m n : Nat) : 1 ≤ (Spec.shortestHead m n).length := by
  rw [shortestHead_eq]; simp

theorem readArg_harg (strict : Bool) (n : Nat) (hn : n < 2 ^ 64) (r : Bytes) :
    readArg strict (hinfo n) (harg n ++ r) = .ok (n, r) := by
  unfold hinfo harg
  by_cases h1 : n < 24
  · simp [h1, readArg]
  · by_cases h2 : n < 256
    · simp only [h1, h2, if_true, if_false, readArg]
      rw [take?_append' 1 _ _ (beBytes_length _ _)]
      simp only [bind, Except.bind, beVal_beBytes]
      have : n % 256 ^ 1 = n := Nat.mod_eq_of_lt (by omega)
      simp [this, h1]
    · by_cases h3 : n < 65536
      · simp only [h1, h2, h3, if_true, if_false, readArg]
        rw [take?_append' 2 _ _ (beBytes_length _ _)]
        simp only [bind, Except.bind, beVal_beBytes]
        have : n % 256 ^ 2 = n := Nat.mod_eq_of_lt (by omega)
        simp [this, h2]
      · by_cases h4 : n < 4294967296
        · simp only [h1, h2, h3, h4, if_true, if_false, readArg]
          rw [take?_append' 4 _ _ (beBytes_length _ _)]
          simp only [bind, Except.bind, beVal_beBytes]
          have : n % 256 ^ 4 = n := Nat.mod_eq_of_lt (by omega)
          simp [this, h3]
        · simp only [h1, h2, h3, h4, if_true, if_false, readArg]
          rw [take?_append' 8 _ _ (beBytes_length _ _)]
          simp only [bind, Except.bind, beVal_beBytes]
          have : n % 256 ^ 8 = n := Nat.mod_eq_of_lt (by omega)
          simp [this, h4]

theorem readLen_harg (strict : Bool) (n : Nat) (hn : n < 2 ^ 63) (r : Bytes) :
    readLen strict (hinfo n) (harg n ++ r) = .ok (n, r) := by
  unfold readLen
  rw [readArg_harg strict n (by omega) r]
  simp only [bind, Except.bind]
  have : ¬ n > 9223372036854775807 := by omega
  simp [this]

end Cbor
end Ipld
