import IpldModel.Model.Term
import IpldModel.Model.Transform
import IpldModel.Model.WalkTransform
import Driver.Walk
namespace Ipld.Driver
open Ipld Ipld.Sel Ipld.Walk Ipld.Transform

/-- the transform functions the harness uses: id / del / const v / wrap (prev ↦ [prev], v when nothing is there) -/
def mkFn (kind : String) (v : DM) : Fn := fun _ prev =>
  match kind with
  | "id" => prev
  | "del" => none
  | "const" => some v
  | "wrap" => match prev with
    | some p => some (.list (DMs.ofList [p]))
    | none => some v
  | _ => prev

/-- model-side links: not real CIDs (hashing is C05's business); results are compared with links resolved -/
def modelLinkOf (d : DM) : Bytes := 0xfe :: (d.toTerm.toUTF8.toList)

def splitAt (tok : String) (l : List String) : List String × List String :=
  (l.takeWhile (· ≠ tok), (l.dropWhile (· ≠ tok)).drop 1)

/-- xform.focus <createParents t|f> <path p:…> <id|del|const|wrap> STORE … ROOT <term…> VAL <term…>
      → ok <result with every link resolved> w=<blocks written> | err
    xform.walkt <id|succ> <nodeBudget|-> <linkBudget|-> <once t|f> <startPath p:…> <skip cidhex,…|-> STORE … ROOT <term…> SEL <term…>
      → compile-reject | (ok <result term, links NOT resolved> | budget:node | budget:link | err:load | err:other | panic)
        CALLS <path> <node term> | <path> <node term> …      (the callback's calls, in order) -/
def xformHandler : List String → Option String
  | "xform.focus" :: cp :: p :: kind :: "STORE" :: rest =>
    match parsePathArg p, parseStore (rest.length + 1) rest [] with
    | some path, some (store, rest1) =>
      let (rootToks, valToks) := splitAt "VAL" rest1
      match parseTermAll rootToks, parseTermAll valToks with
      | some root, some v =>
        match focused (mkFn kind v) modelLinkOf Spec.canon (cp == "t") 10000 [] (some root) path { store := store } with
        | .error _ => some "err"       -- incl. `.nilEntry`: since the repair the code refuses a nil replacement that
        | .ok (none, _) => some "err"  -- has no container to be removed from (below created parents; the root) with an error
        | .ok (some r, st) => some s!"ok {(expandFuel st.store 1000 r).toTerm} w={st.written.length}"
      | _, _ => some "bad-term"
    | _, _ => some "bad-args"
  | "xform.walkt" :: mode :: nb :: lb :: once :: _start :: skip :: "STORE" :: rest =>
    -- the same graph / selector / configuration encoding as `walk.run` (the start path is carried and ignored:
    -- `walkTransforming` does not read `StartAtPath`)
    match optInt nb, optInt lb, parseStore (rest.length + 1) rest [] with
    | some nb, some lb, some (store, rest1) =>
      let skipL : Option (List Bytes) := if skip == "-" then some [] else (skip.splitOn ",").mapM bytesOfHex
      let fn : Option WalkT.TFn := match mode with
        | "id" => some WalkT.fnId
        | "succ" => some WalkT.fnSucc
        | _ => none
      match skipL, fn, parseTerm rest1 with
      | some sk, some fn, some (root, "SEL" :: selToks) =>
        match parseTermAll selToks with
        | some spec =>
          match compileSelector spec with
          | .error .panic => some "compile-panic"
          | .error .reject => some "compile-reject"
          | .ok s =>
            let cfg : Cfg := { store := store, skip := sk, linkOnce := once == "t" }
            let r := WalkT.run cfg fn 100000 nb lb root s
            let calls := " | ".intercalate ((WalkT.callsOf r.events).map fun c => showPath c.1 ++ " " ++ c.2.toTerm)
            let out := match r.outcome with
              | .ok d => "ok " ++ d.toTerm
              | .error (.walk e) => showErr e
              | .error .callback => "err:callback"
            some (out ++ " CALLS " ++ calls)
        | none => some "bad-selector-term"
      | _, _, _ => some "bad-args"
    | _, _, _ => some "bad-args"
  | _ => none

end Ipld.Driver
