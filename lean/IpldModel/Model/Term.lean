/-
  Line-protocol term language (DESIGN §3):
    n | t | f | i<dec> | d<16 hex> | s<hex> | b<hex> | l<hex> | [ … ] | { s<hex> v … }
  Tokens are separated by single spaces.
-/
import IpldModel.Model.Base
namespace Ipld

def hexDigit (n : Nat) : Char :=
  if n < 10 then Char.ofNat (48 + n) else Char.ofNat (87 + n)

def hexOfBytes (bs : Bytes) : String :=
  String.ofList (bs.flatMap fun b => [hexDigit (b.toNat / 16), hexDigit (b.toNat % 16)])

def hexVal (c : Char) : Option Nat :=
  let n := c.toNat
  if 48 ≤ n ∧ n ≤ 57 then some (n - 48)
  else if 97 ≤ n ∧ n ≤ 102 then some (n - 87)
  else if 65 ≤ n ∧ n ≤ 70 then some (n - 55)
  else none

def bytesOfHexChars : List Char → Option Bytes
  | [] => some []
  | [_] => none
  | a :: b :: rest => do
    let x ← hexVal a
    let y ← hexVal b
    let r ← bytesOfHexChars rest
    pure (UInt8.ofNat (x * 16 + y) :: r)

def bytesOfHex (s : String) : Option Bytes := bytesOfHexChars s.toList

def natOfHexChars (cs : List Char) : Option Nat :=
  cs.foldlM (fun acc c => do let v ← hexVal c; pure (acc * 16 + v)) 0

mutual
def DM.toTokens : DM → List String
  | .null => ["n"]
  | .bool true => ["t"]
  | .bool false => ["f"]
  | .int i => ["i" ++ toString i]
  | .float bits0 =>
      -- NaN payloads are never compared: every NaN prints as one canonical pattern
      let bits : UInt64 := if f64IsNaN bits0.toNat then 0x7ff8000000000001 else bits0
      let h := hexOfBytes ((List.range 8).map fun k => UInt8.ofNat (bits.toNat / 256 ^ (7 - k) % 256))
      ["d" ++ h]
  | .str s => ["s" ++ hexOfBytes s]
  | .bytes b => ["b" ++ hexOfBytes b]
  | .link c => ["l" ++ hexOfBytes c]
  | .list xs => "[" :: (xs.toTokens ++ ["]"])
  | .map es => "{" :: (es.toTokens ++ ["}"])
def DMs.toTokens : DMs → List String
  | .nil => []
  | .cons x xs => x.toTokens ++ xs.toTokens
def DMKVs.toTokens : DMKVs → List String
  | .nil => []
  | .cons k v es => ("s" ++ hexOfBytes k) :: (v.toTokens ++ es.toTokens)
end

def DM.toTerm (d : DM) : String := " ".intercalate d.toTokens

/-- Parse one term from a token list (fuel = number of tokens suffices). -/
def parseTermFuel : Nat → List String → Option (DM × List String)
  | 0, _ => none
  | fuel + 1, toks =>
    match toks with
    | [] => none
    | t :: rest =>
      match t.toList with
      | ['n'] => some (.null, rest)
      | ['t'] => some (.bool true, rest)
      | ['f'] => some (.bool false, rest)
      | ['['] => parseListFuel fuel rest []
      | ['{'] => parseMapFuel fuel rest []
      | 'i' :: cs => (String.ofList cs).toInt?.map fun i => (.int i, rest)
      | 'd' :: cs => (natOfHexChars cs).map fun n => (.float (UInt64.ofNat n), rest)
      | 's' :: cs => (bytesOfHexChars cs).map fun b => (.str b, rest)
      | 'b' :: cs => (bytesOfHexChars cs).map fun b => (.bytes b, rest)
      | 'l' :: cs => (bytesOfHexChars cs).map fun b => (.link b, rest)
      | _ => none
where
  parseListFuel : Nat → List String → List DM → Option (DM × List String)
    | 0, _, _ => none
    | fuel + 1, toks, acc =>
      match toks with
      | [] => none
      | "]" :: rest => some (.list (DMs.ofList acc.reverse), rest)
      | _ =>
        match parseTermFuel fuel toks with
        | none => none
        | some (x, rest) => parseListFuel fuel rest (x :: acc)
  parseMapFuel : Nat → List String → List (Bytes × DM) → Option (DM × List String)
    | 0, _, _ => none
    | fuel + 1, toks, acc =>
      match toks with
      | [] => none
      | "}" :: rest => some (.map (DMKVs.ofList acc.reverse), rest)
      | k :: toks' =>
        match k.toList with
        | 's' :: cs =>
          match bytesOfHexChars cs with
          | none => none
          | some kb =>
            match parseTermFuel fuel toks' with
            | none => none
            | some (v, rest) => parseMapFuel fuel rest ((kb, v) :: acc)
        | _ => none

def parseTerm (toks : List String) : Option (DM × List String) :=
  parseTermFuel (2 * toks.length + 2) toks

def parseTermAll (toks : List String) : Option DM :=
  match parseTerm toks with
  | some (d, []) => some d
  | _ => none

end Ipld
