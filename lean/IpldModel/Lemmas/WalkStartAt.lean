/-
  Start-at path: without budgets and without visit-once, the walk resumed at a start path logs a suffix of what
  the full walk logs (when the full walk succeeds).
-/
import IpldModel.Lemmas.WalkBudget
namespace Ipld
namespace Walk
open Sel

/-- no budgets -/
def Plain (st : St) : Prop := st.nodeBudget = none ∧ st.linkBudget = none

/-- the same configuration without a start-at path -/
def noStart (cfg : Cfg) : Cfg := { cfg with startAt := [] }

/-- at this position the start-at bookkeeping no longer suppresses anything -/
def full (cfg : Cfg) (past : Bool) (path : Path) : Prop := past = true ∨ cfg.startAt.length ≤ path.length
def fullL (cfg : Cfg) (lp : Loop) (path : Path) : Prop :=
  lp.reached = true ∨ lp.past = true ∨ cfg.startAt.length ≤ path.length

theorem checkNode_plain {st : St} (h : Plain st) : checkNode st = .ok st := by
  unfold checkNode; rw [h.1]

theorem linkStep_plain (cfg : Cfg) (hl : cfg.linkOnce = false) (c : Bytes) {st : St} (h : Plain st) :
    linkStep cfg c st = ({ st with events := .load c :: st.events },
      if cfg.skip.contains c then .ok none else
        match storeGet cfg.store c with
        | none => .error .load
        | some blk => .ok (some blk)) := by
  unfold linkStep
  simp only [hl, Bool.false_and, Bool.false_eq_true, if_false]
  have : checkLink st = .ok st := by unfold checkLink; rw [h.2]
  rw [this]
  simp only
  by_cases hk : cfg.skip.contains c = true
  · simp only [if_pos hk]
  · simp only [if_neg hk]
    cases storeGet cfg.store c <;> rfl

/-- `R` = result of the walk with the start-at path from `st`, `U` = result of the walk without from `st0` -/
def RelS (isFull : Prop) (st st0 : St) (R U : WR) : Prop :=
  U.2 = .ok () → R.2 = .ok () ∧ Plain R.1 ∧ Plain U.1 ∧
    ∃ newR newU, R.1.events = newR ++ st.events ∧ U.1.events = newU ++ st0.events ∧ newR.Sublist newU ∧
      visitsOf newR <+: visitsOf newU ∧ (isFull → newR = newU)

theorem RelS.refl_ok {isFull : Prop} {st st0 : St} (h : Plain st) (h0 : Plain st0) :
    RelS isFull st st0 (st, .ok ()) (st0, .ok ()) :=
  fun _ => ⟨rfl, h, h0, [], [], rfl, rfl, List.Sublist.refl _, List.prefix_refl _, fun _ => rfl⟩

theorem RelS.of_error {isFull : Prop} {st st0 : St} {R : WR} {stU : St} {e : Err} :
    RelS isFull st st0 R (stU, .error e) :=
  fun h => by cases h

theorem visitsOf_snoc_load (es : List Event) (c : Bytes) : visitsOf (es ++ [.load c]) = visitsOf es := by
  rw [visitsOf_append]; simp [visitsOf]

theorem RelS.seq {isFull : Prop} {st st0 st1 st01 : St} {R U : WR} (new1R new1U : List Event)
    (h1R : st1.events = new1R ++ st.events) (h1U : st01.events = new1U ++ st0.events)
    (hs : new1R.Sublist new1U) (hp : visitsOf new1R <+: visitsOf new1U) (hf : isFull → new1R = new1U)
    (h2 : RelS True st1 st01 R U) : RelS isFull st st0 R U := by
  intro hok
  obtain ⟨hr, hp1, hp2, newR, newU, heR, heU, _, _, hfull⟩ := h2 hok
  have heq := hfull trivial
  subst heq
  refine ⟨hr, hp1, hp2, newR ++ new1R, newR ++ new1U, by rw [heR, h1R, List.append_assoc],
    by rw [heU, h1U, List.append_assoc], (List.Sublist.refl _).append hs, ?_, ?_⟩
  · rw [visitsOf_append, visitsOf_append]
    exact (List.prefix_append_right_inj _).2 hp
  · intro hfl; rw [hf hfl]

theorem RelS.bind {isFull : Prop} {st st0 : St} {R1 U1 : WR} (g g0 : St → WR) (h1 : RelS isFull st st0 R1 U1)
    (h2 : ∀ st1 st01, Plain st1 → Plain st01 → RelS True st1 st01 (g st1) (g0 st01)) :
    RelS isFull st st0 (andThen R1 g) (andThen U1 g0) := by
  obtain ⟨stR, rR⟩ := R1
  obtain ⟨stU, rU⟩ := U1
  cases rU with
  | error e => exact RelS.of_error
  | ok u =>
    cases u
    obtain ⟨hr, hp1, hp2, newR, newU, heR, heU, hsub, hpre, hfull⟩ := h1 rfl
    simp only at hr hp1 hp2 heR heU
    subst hr
    rw [andThen_ok, andThen_ok]
    exact RelS.seq newR newU heR heU hsub hpre hfull (h2 stR stU hp1 hp2)

theorem plain_all (cfg : Cfg) (fuel : Nat) :
      (∀ past path n s st, Plain st → Plain (walkAdv cfg fuel past path n s st).1) ∧
      (∀ path n s l lp st, Plain st → Plain (walkChildren cfg fuel path n s l lp st).1) ∧
      (∀ past path n s ps v st, Plain st → Plain (exploreChild cfg fuel past path n s ps v st).1) := by
  apply walk_rel cfg (fun a b => Plain a → Plain b)
  · intro st h; exact h
  · intro a b c h1 h2 h; exact h2 (h1 h)
  · intro st st1 hck h; rw [checkNode_plain h] at hck; cases hck; exact h
  · intro past path n s st h; unfold visitSt; split <;> exact h
  · intro c st h
    unfold linkStep
    by_cases h0 : (cfg.linkOnce && st.seen.contains c) = true
    · simp only [if_pos h0]; exact h
    · simp only [if_neg h0]
      have h1 : Plain (if cfg.linkOnce = true then { st with seen := c :: st.seen } else st) := by
        split <;> exact h
      have : checkLink (if cfg.linkOnce = true then { st with seen := c :: st.seen } else st)
          = .ok (if cfg.linkOnce = true then { st with seen := c :: st.seen } else st) := by
        unfold checkLink; rw [h1.2]
      rw [this]
      simp only
      split
      · exact h1
      · split <;> exact h1

theorem visitSt_noStart (cfg : Cfg) (past : Bool) (path : Path) (n : DM) (s : S) (st : St) :
    visitSt (noStart cfg) past path n s st = { st with events := visitEvent path n s :: st.events } := by
  simp [visitSt, noStart]

theorem loopStep_noStart (cfg : Cfg) (path : Path) (lp : Loop) (ps : Seg) :
    loopStep (noStart cfg) path lp ps = (false, lp) := by
  simp [loopStep, noStart]

theorem RelS.mono {P Q : Prop} {st st0 : St} {R U : WR} (h : RelS P st st0 R U) (hqp : Q → P) : RelS Q st st0 R U := by
  intro hok
  obtain ⟨hr, hp1, hp2, newR, newU, heR, heU, hsub, hpre, hfull⟩ := h hok
  exact ⟨hr, hp1, hp2, newR, newU, heR, heU, hsub, hpre, fun hq => hfull (hqp hq)⟩

/-- the three behaviours of the start-at bookkeeping for one child -/
theorem loopStep_cases (cfg : Cfg) (path : Path) (lp : Loop) (ps : Seg) :
    ((loopStep cfg path lp ps).1 = false ∧ full cfg (loopStep cfg path lp ps).2.past (path ++ [ps]) ∧
        fullL cfg (loopStep cfg path lp ps).2 path)
    ∨ ((loopStep cfg path lp ps).1 = false ∧ (loopStep cfg path lp ps).2.past = lp.past ∧
        (loopStep cfg path lp ps).2.reached = true ∧ ¬ fullL cfg lp path)
    ∨ ((loopStep cfg path lp ps).1 = true ∧ (loopStep cfg path lp ps).2 = lp ∧ ¬ fullL cfg lp path) := by
  unfold loopStep
  by_cases hlen : cfg.startAt.length > 0
  · rw [if_pos hlen]
    by_cases hreach : lp.reached = true
    · rw [if_pos hreach]
      exact Or.inl ⟨rfl, Or.inl rfl, Or.inl hreach⟩
    · rw [if_neg hreach]
      by_cases hsearch : (!lp.past && decide (path.length < cfg.startAt.length)) = true
      · rw [if_pos hsearch]
        simp only [Bool.and_eq_true, Bool.not_eq_true', decide_eq_true_eq] at hsearch
        have hnf : ¬ fullL cfg lp path := by
          rintro (h | h | h)
          · exact hreach h
          · rw [hsearch.1] at h; cases h
          · omega
        by_cases heq : ps.equals (cfg.startAt.getD path.length (.str [])) = true
        · rw [if_pos heq]
          exact Or.inr (Or.inl ⟨rfl, rfl, rfl, hnf⟩)
        · rw [if_neg heq]
          exact Or.inr (Or.inr ⟨rfl, rfl, hnf⟩)
      · rw [if_neg hsearch]
        simp only [Bool.and_eq_true, Bool.not_eq_true', decide_eq_true_eq, not_and, Nat.not_lt] at hsearch
        left
        refine ⟨rfl, ?_, ?_⟩
        · show full cfg lp.past (path ++ [ps])
          cases hpast : lp.past with
          | true => exact Or.inl rfl
          | false => right; have := hsearch hpast; simp only [List.length_append, List.length_singleton]; omega
        · show fullL cfg lp path
          cases hpast : lp.past with
          | true => exact Or.inr (Or.inl hpast)
          | false => exact Or.inr (Or.inr (hsearch hpast))
  · rw [if_neg hlen]
    left
    exact ⟨rfl, Or.inr (by omega), Or.inr (Or.inr (by omega))⟩

theorem startAt_all (cfg : Cfg) (hl : cfg.linkOnce = false) (fuel : Nat) :
    (∀ past past0 path n s st st0, Plain st → Plain st0 →
      RelS (full cfg past path) st st0 (walkAdv cfg fuel past path n s st)
        (walkAdv (noStart cfg) fuel past0 path n s st0)) ∧
    (∀ path n s l lp lp0 st st0, Plain st → Plain st0 →
      RelS (fullL cfg lp path) st st0 (walkChildren cfg fuel path n s l lp st)
        (walkChildren (noStart cfg) fuel path n s l lp0 st0)) ∧
    (∀ past past0 path n s ps v st st0, Plain st → Plain st0 →
      RelS (full cfg past (path ++ [ps])) st st0 (exploreChild cfg fuel past path n s ps v st)
        (exploreChild (noStart cfg) fuel past0 path n s ps v st0)) := by
  induction fuel with
  | zero =>
    refine ⟨?_, ?_, ?_⟩
    · intros; rw [walkAdv_zero, walkAdv_zero]; exact RelS.of_error
    · intros; rw [walkChildren_zero, walkChildren_zero]; exact RelS.of_error
    · intros; rw [exploreChild_zero, exploreChild_zero]; exact RelS.of_error
  | succ fuel ih =>
    obtain ⟨ihA, ihC, ihE⟩ := ih
    refine ⟨?_, ?_, ?_⟩
    · intro past past0 path n s st st0 hp hp0
      rw [walkAdv_succ, walkAdv_succ, checkNode_plain hp, checkNode_plain hp0]
      simp only [visitSt_noStart]
      split
      · exact RelS.of_error
      · -- the visit: suppressed on the left iff not `full`
        have hpv : Plain (visitSt cfg past path n s st) := by unfold visitSt; split <;> exact hp
        have hpv0 : Plain { st0 with events := visitEvent path n s :: st0.events } := hp0
        have hvis : (full cfg past path ∧ (visitSt cfg past path n s st).events = visitEvent path n s :: st.events) ∨
            (¬ full cfg past path ∧ (visitSt cfg past path n s st).events = st.events) := by
          unfold visitSt
          split
          · rename_i hc
            right
            refine ⟨?_, rfl⟩
            intro hf
            simp only [Bool.and_eq_true, Bool.not_eq_true', decide_eq_true_eq] at hc
            rcases hf with hf | hf
            · rw [hf] at hc; cases hc.1
            · omega
          · rename_i hc
            left
            refine ⟨?_, rfl⟩
            simp only [Bool.and_eq_true, Bool.not_eq_true', decide_eq_true_eq, not_and, Nat.not_lt] at hc
            cases hpast : past with
            | true => exact Or.inl rfl
            | false => exact Or.inr (hc hpast)
        have hfullL : full cfg past path → fullL cfg { past := past } path := by
          intro hf
          rcases hf with hf | hf
          · exact Or.inr (Or.inl hf)
          · exact Or.inr (Or.inr hf)
        split
        · intro _
          rcases hvis with ⟨hf, hv⟩ | ⟨hf, hv⟩
          · exact ⟨rfl, hpv, hpv0, [visitEvent path n s], [visitEvent path n s], hv, rfl, List.Sublist.refl _,
              List.prefix_refl _, fun _ => rfl⟩
          · exact ⟨rfl, hpv, hpv0, [], [visitEvent path n s], hv, rfl, List.nil_sublist _, List.nil_prefix,
              fun h => absurd h hf⟩
        · -- children
          have hc := ihC path n s (childList n s) { past := past } { past := past0 }
            (visitSt cfg past path n s st) { st0 with events := visitEvent path n s :: st0.events } hpv hpv0
          intro hok
          obtain ⟨hr, hp1, hp2, newRc, newUc, heR, heU, hsubc, hprec, hfullc⟩ := hc hok
          rcases hvis with ⟨hf, hv⟩ | ⟨hf, hv⟩
          · have := hfullc (hfullL hf)
            subst this
            exact ⟨hr, hp1, hp2, newRc ++ [visitEvent path n s], newRc ++ [visitEvent path n s],
              by rw [heR, hv]; simp, by rw [heU]; simp, List.Sublist.refl _, List.prefix_refl _, fun _ => rfl⟩
          · exact ⟨hr, hp1, hp2, newRc, newUc ++ [visitEvent path n s],
              by rw [heR, hv], by rw [heU]; simp, hsubc.trans (List.sublist_append_left _ _),
              by rw [visitsOf_append]; exact hprec.trans (List.prefix_append _ _),
              fun h => absurd h hf⟩
    · intro path n s l lp lp0 st st0 hp hp0
      cases l with
      | nil => rw [walkChildren_nil, walkChildren_nil]; exact RelS.refl_ok hp hp0
      | cons x rest =>
        obtain ⟨ps, v⟩ := x
        rw [walkChildren_cons, walkChildren_cons]
        simp only [loopStep_noStart, Bool.false_eq_true, if_false]
        rcases loopStep_cases cfg path lp ps with ⟨h1, h2, h3⟩ | ⟨h1, h2, h3, h4⟩ | ⟨h1, h2, h3⟩
        · -- child and rest both unaffected by the start path
          rw [h1]
          simp only [Bool.false_eq_true, if_false]
          have hb := RelS.bind (fun st' => walkChildren cfg fuel path n s rest (loopStep cfg path lp ps).2 st')
            (fun st' => walkChildren (noStart cfg) fuel path n s rest lp0 st')
            (ihE (loopStep cfg path lp ps).2.past lp0.past path n s ps v st st0 hp hp0)
            (fun st1 st01 hp1 hp01 => (ihC path n s rest (loopStep cfg path lp ps).2 lp0 st1 st01 hp1 hp01).mono
              (fun _ => h3))
          exact hb.mono (fun _ => h2)
        · -- the start path's child: the rest is past it
          rw [h1]
          simp only [Bool.false_eq_true, if_false]
          have hb := RelS.bind (fun st' => walkChildren cfg fuel path n s rest (loopStep cfg path lp ps).2 st')
            (fun st' => walkChildren (noStart cfg) fuel path n s rest lp0 st')
            (ihE (loopStep cfg path lp ps).2.past lp0.past path n s ps v st st0 hp hp0)
            (fun st1 st01 hp1 hp01 => (ihC path n s rest (loopStep cfg path lp ps).2 lp0 st1 st01 hp1 hp01).mono
              (fun _ => Or.inl h3))
          exact hb.mono (fun h => absurd h h4)
        · -- a child before the start path: skipped on the left
          rw [h1, h2]
          simp only [if_true]
          intro hok
          have hpc := (plain_all (noStart cfg) fuel).2.2 lp0.past path n s ps v st0 hp0
          obtain ⟨newc, hnewc⟩ := events_extend_child (noStart cfg) fuel lp0.past path n s ps v st0
          generalize exploreChild (noStart cfg) fuel lp0.past path n s ps v st0 = u1 at hok hpc hnewc
          obtain ⟨stU1, rU1⟩ := u1
          cases rU1 with
          | error e => cases hok
          | ok u =>
            cases u
            rw [andThen_ok] at hok ⊢
            obtain ⟨hr, hp1, hp2, newR, newU, heR, heU, hsub, hpre, _⟩ :=
              ihC path n s rest lp lp0 st stU1 hp hpc hok
            exact ⟨hr, hp1, hp2, newR, newU ++ newc, heR, by rw [heU, hnewc, List.append_assoc],
              hsub.trans (List.sublist_append_left _ _),
              by rw [visitsOf_append]; exact hpre.trans (List.prefix_append _ _), fun h => absurd h h3⟩
    · intro past past0 path n s ps v st st0 hp hp0
      rw [exploreChild_succ, exploreChild_succ]
      cases hx : explore s n ps with
      | error e => cases e <;> exact RelS.of_error
      | ok o =>
        cases o with
        | none => exact RelS.refl_ok hp hp0
        | some sNext =>
          simp only
          cases v with
          | link c =>
            simp only [enterChild]
            have hl0 : (noStart cfg).linkOnce = false := hl
            rw [linkStep_plain cfg hl c hp, linkStep_plain (noStart cfg) hl0 c hp0]
            have e1 : (noStart cfg).skip = cfg.skip := rfl
            have e2 : (noStart cfg).store = cfg.store := rfl
            rw [e1, e2]
            have hp' : Plain { st with events := .load c :: st.events } := hp
            have hp0' : Plain { st0 with events := .load c :: st0.events } := hp0
            by_cases hk : cfg.skip.contains c = true
            · simp only [if_pos hk]
              intro _
              exact ⟨rfl, hp', hp0', [.load c], [.load c], rfl, rfl, List.Sublist.refl _, List.prefix_refl _,
                fun _ => rfl⟩
            · simp only [if_neg hk]
              cases storeGet cfg.store c with
              | none => exact RelS.of_error
              | some blk =>
                simp only
                have ha := ihA past past0 (path ++ [ps]) blk sNext _ _ hp' hp0'
                intro hok
                obtain ⟨hr, hp1, hp2, newR, newU, heR, heU, hsub, hpre, hfull⟩ := ha hok
                exact ⟨hr, hp1, hp2, newR ++ [.load c], newU ++ [.load c], by rw [heR]; simp, by rw [heU]; simp,
                  hsub.append (List.Sublist.refl _), by rw [visitsOf_snoc_load, visitsOf_snoc_load]; exact hpre,
                  fun h => by rw [hfull h]⟩
          | _ => simp only [enterChild]; exact ihA past past0 (path ++ [ps]) _ sNext st st0 hp hp0

theorem walk_startAt (cfg : Cfg) (hl : cfg.linkOnce = false) (fuel : Nat) (root : DM) (s : S)
    (hok : (walk { cfg with startAt := [] } fuel none none root s).outcome = .ok ()) :
    (walk cfg fuel none none root s).outcome = .ok () ∧
    (walk cfg fuel none none root s).events.Sublist (walk { cfg with startAt := [] } fuel none none root s).events ∧
    visitsOf (walk cfg fuel none none root s).events <:+
      visitsOf (walk { cfg with startAt := [] } fuel none none root s).events := by
  have h := (startAt_all cfg hl fuel).1 false false [] root s {} {} ⟨rfl, rfl⟩ ⟨rfl, rfl⟩
  unfold walk at hok ⊢
  simp only at hok ⊢
  obtain ⟨hr, _, _, newR, newU, heR, heU, hsub, hpre, _⟩ := h hok
  simp only [List.append_nil] at heR heU
  refine ⟨hr, ?_, ?_⟩
  · rw [heR]
    have : (walkAdv { cfg with startAt := [] } fuel false [] root s {}).1.events = newU := heU
    rw [this]
    exact hsub.reverse
  · rw [heR]
    have : (walkAdv { cfg with startAt := [] } fuel false [] root s {}).1.events = newU := heU
    rw [this, visitsOf_reverse, visitsOf_reverse]
    exact List.reverse_suffix.2 hpre

end Walk
end Ipld
