/-
  C09 — a typed builder accepts exactly conforming data, and reports everything else by an error.

  "A typed builder, at type level or at representation level, accepts a data-model tree exactly when
  that tree conforms to the schema type: required fields present, no unknown fields, no repeated field
  or map key, value kinds right, union discriminants and kinds known and unambiguous, enum members
  valid, null only where nullable and absence only where optional.  Every non-conforming input is
  reported by an error, never by a panic and never by silently producing a node that violates the
  type."

  Property theorems only; helper lemmas are in `Lemmas/Schema*.lean`.

  Vocabulary (all in `Model/Schema.lean`):
    * `build e lvl ty nul cur d` — the builder of type `ty` at level `lvl` (type | repr) of engine `e`,
      assembling into a slot that is nullable iff `nul` and holds `cur`, fed the tree `d`;
      `ofType e ty d = build e .type ty false none d`, `ofRepr e ty d = build e .repr ty false none d`;
    * `Engine.ideal` — every quirk flag off;
    * `conforms ty nul v` — type-level conformance of a typed value, `conformsRepr ty nul d` —
      representation-level conformance of a data-model tree; both defined without the builders;
    * `normalize ty v` — struct entries in declaration order, unset optional fields explicit;
    * `Ty.wf` — the schema-level unambiguity (distinct field names / representation keys, distinct
      member names / discriminants / kinds, distinct enum members, stringjoin fields stringy ...).
  `Ty.wf` is needed wherever acceptance is compared with conformance: see `wf_needed_*`.
-/
import IpldModel.Model.Schema
import IpldModel.Lemmas.SchemaNoPanic
import IpldModel.Lemmas.SchemaConf
import IpldModel.Lemmas.SchemaType
import IpldModel.Lemmas.SchemaRepr
import IpldModel.Lemmas.SchemaMono
import IpldModel.Lemmas.SchemaNorm
namespace Ipld.Props.C09
open Ipld Ipld.Schema

/-! ## C09-1 — never a panic -/

/-- **ideal_never_panics.**  The ideal builder, at either level, for every type (well-formed or not),
    every slot (nullable or not, holding something or not) and every input tree, never panics. -/
theorem ideal_never_panics (lvl : Level) (ty : Ty) (nul : Bool) (cur : Option TL) (d : DM) :
    build Engine.ideal lvl ty nul cur d ≠ .panic :=
  build_noPanic _ Engine.ideal_noPanicFlags lvl ty nul cur d

/-- The two root builders never panic. -/
theorem ofType_ofRepr_never_panic (ty : Ty) (d : DM) :
    ofType Engine.ideal ty d ≠ .panic ∧ ofRepr Engine.ideal ty d ≠ .panic :=
  ⟨ideal_never_panics .type ty false none d, ideal_never_panics .repr ty false none d⟩

/-- **never_panics_without_panic_flags.**  More generally: an engine panics only through one of its
    three panic quirks: `nullableUnionPanic`, `lpUnknownKeyPanic` (reflection binding) and
    `assignNodeSkipsBegin` (generated code), the last only when the builder is driven by `AssignNode`
    of prebuilt nodes (`viaNode`).  Whatever the other thirteen flags and the driving mode `viaKeys`
    are, `build` never panics.  (`h3` is needed: `assignNodeSkipsBegin_panics`.) -/
theorem never_panics_without_panic_flags (e : Engine) (h1 : e.nullableUnionPanic = false)
    (h2 : e.lpUnknownKeyPanic = false) (h3 : (e.viaNode && e.assignNodeSkipsBegin) = false)
    (lvl : Level) (ty : Ty) (nul : Bool) (cur : Option TL) (d : DM) :
    build e lvl ty nul cur d ≠ .panic :=
  build_noPanic e ⟨h1, h2, h3⟩ lvl ty nul cur d

/-- `h3` of `never_panics_without_panic_flags` / `helpers_never_panic` is needed: with `assignNodeSkipsBegin`
    under `viaNode` (and no other flag) a prebuilt `{k: 1}` handed to `{String: Int}` panics, and so does the
    list helper on a prebuilt `{a: 1}` handed to a nullable `struct {a Int}` element.  Either of the two alone is
    harmless (by the theorem itself). -/
theorem assignNodeSkipsBegin_panics :
    build { viaNode := true, assignNodeSkipsBegin := true } .type (.map .int false) false none
        (.map (.cons [107] (.int 1) .nil)) = .panic ∧
    buildList { viaNode := true, assignNodeSkipsBegin := true } .type
        (.struct (.cons [97] [97] false false .int .nil) .map) true []
        (.cons (.map (.cons [97] (.int 1) .nil)) .nil) = .panic := by decide

/-- The helper builders never panic either (any engine without the three panic flags): scalars
    (kinded / stringprefix / stringjoin / enum dispatch), kinded dispatch on lists and maps, list
    elements, typed-map entries, struct-as-map, tuple, listpairs, union-as-map. -/
theorem helpers_never_panic (e : Engine) (h1 : e.nullableUnionPanic = false)
    (h2 : e.lpUnknownKeyPanic = false) (h3 : (e.viaNode && e.assignNodeSkipsBegin) = false) :
    (∀ lvl nul d ty, buildScalar e lvl nul d ty ≠ .panic) ∧
    (∀ nul k ty, resolveKinded e nul k ty ≠ .panic) ∧
    (∀ lvl ety enul acc xs, buildList e lvl ety enul acc xs ≠ .panic) ∧
    (∀ lvl vty vnul acc es, buildMap e lvl vty vnul acc es ≠ .panic) ∧
    (∀ lvl fs st es, buildStruct e lvl fs st es ≠ .panic) ∧
    (∀ fs st i xs, buildTuple e fs st i xs ≠ .panic) ∧
    (∀ fs st xs, buildPairs e fs st xs ≠ .panic) ∧
    (∀ lvl ms cur n es, buildUnion e lvl ms cur n es ≠ .panic) :=
  ⟨fun lvl nul d ty => buildScalar_noPanic e ⟨h1, h2, h3⟩ lvl nul d ty,
   fun nul k ty => resolveKinded_noPanic e ⟨h1, h2, h3⟩ nul k ty,
   fun lvl ety enul acc xs => buildList_noPanic e ⟨h1, h2, h3⟩ lvl ety enul acc xs,
   fun lvl vty vnul acc es => buildMap_noPanic e ⟨h1, h2, h3⟩ lvl vty vnul acc es,
   fun lvl fs st es => buildStruct_noPanic e ⟨h1, h2, h3⟩ lvl fs st es,
   fun fs st i xs => buildTuple_noPanic e ⟨h1, h2, h3⟩ fs st i xs,
   fun fs st xs => buildPairs_noPanic e ⟨h1, h2, h3⟩ fs st xs,
   fun lvl ms cur n es => buildUnion_noPanic e ⟨h1, h2, h3⟩ lvl ms cur n es⟩

/-! ## C09-4 — no silently non-conforming node -/

/-- **built_conforms.**  Whatever the ideal builder of a well-formed type builds — at type level or at
    representation level, in a nullable slot or not — conforms to the type. -/
theorem built_conforms (lvl : Level) (ty : Ty) (nul : Bool) (d : DM) (v : TL) (hwf : ty.wf = true)
    (h : build Engine.ideal lvl ty nul none d = .ok v) : conforms ty nul v = true :=
  build_conforms lvl d ty nul hwf v h

/-- **built_conforms** for the root type-level builder. -/
theorem ofType_built_conforms (ty : Ty) (d : DM) (v : TL) (hwf : ty.wf = true)
    (h : ofType Engine.ideal ty d = .ok v) : conforms ty false v = true :=
  build_conforms .type d ty false hwf v h

/-- **built_conforms** for the root representation-level builder. -/
theorem ofRepr_built_conforms (ty : Ty) (d : DM) (v : TL) (hwf : ty.wf = true)
    (h : ofRepr Engine.ideal ty d = .ok v) : conforms ty false v = true :=
  build_conforms .repr d ty false hwf v h

/-! ## C09-2 — the type-level builder accepts exactly the conforming trees -/

/-- **ofType_eq.**  The complete behaviour of the ideal type-level builder of a well-formed type: a
    conforming tree is accepted and the node built is the normalised input; everything else is
    rejected (an error — not a panic, not a node). -/
theorem ofType_eq (ty : Ty) (nul : Bool) (d : DM) (hwf : ty.wf = true) :
    build Engine.ideal .type ty nul none d =
      if conforms ty nul (TL.ofDM d) = true then .ok (normalize ty (TL.ofDM d)) else .reject :=
  build_type d ty nul hwf

/-- **ofType_accepts_iff_conforms.** -/
theorem ofType_accepts_iff_conforms (ty : Ty) (d : DM) (hwf : ty.wf = true) :
    (ofType Engine.ideal ty d).isOk = true ↔ conforms ty false (TL.ofDM d) = true := by
  unfold ofType
  rw [build_type d ty false hwf]
  split <;> simp_all

/-- On acceptance the node built is the normalised input. -/
theorem ofType_value (ty : Ty) (d : DM) (v : TL) (hwf : ty.wf = true)
    (h : ofType Engine.ideal ty d = .ok v) : v = normalize ty (TL.ofDM d) := by
  unfold ofType at h
  rw [build_type d ty false hwf] at h
  split at h
  · exact (Outcome.ok.inj h).symm
  · cases h

/-- A non-conforming tree is reported by an error. -/
theorem ofType_rejects (ty : Ty) (d : DM) (hwf : ty.wf = true)
    (h : conforms ty false (TL.ofDM d) = false) : ofType Engine.ideal ty d = .reject := by
  unfold ofType
  rw [build_type d ty false hwf]
  simp [h]

/-- Consequence of C09-2 and C09-4: normalising a conforming (absent-free) tree keeps it conforming. -/
theorem normalize_conforms_ofDM (ty : Ty) (d : DM) (hwf : ty.wf = true)
    (h : conforms ty false (TL.ofDM d) = true) : conforms ty false (normalize ty (TL.ofDM d)) = true := by
  apply build_conforms .type d ty false hwf
  rw [build_type d ty false hwf]
  simp [h]

/-! ## C09-3 — the representation-level builder accepts exactly the conforming trees -/

/-- **ofRepr_isOk_eq.**  In any slot. -/
theorem ofRepr_isOk_eq (ty : Ty) (nul : Bool) (d : DM) (hwf : ty.wf = true) :
    (build Engine.ideal .repr ty nul none d).isOk = conformsRepr ty nul d :=
  build_repr_isOk d ty nul hwf

/-- **ofRepr_accepts_iff_conformsRepr.** -/
theorem ofRepr_accepts_iff_conformsRepr (ty : Ty) (d : DM) (hwf : ty.wf = true) :
    (ofRepr Engine.ideal ty d).isOk = true ↔ conformsRepr ty false d = true := by
  unfold ofRepr
  rw [build_repr_isOk d ty false hwf]

/-- A tree that does not conform at representation level is reported by an error. -/
theorem ofRepr_rejects (ty : Ty) (d : DM) (hwf : ty.wf = true)
    (h : conformsRepr ty false d = false) : ofRepr Engine.ideal ty d = .reject := by
  have h1 := build_repr_isOk d ty false hwf
  have h2 := ideal_never_panics .repr ty false none d
  unfold ofRepr
  rw [h] at h1
  cases hb : build Engine.ideal .repr ty false none d with
  | ok v => rw [hb] at h1; cases h1
  | reject => rfl
  | panic => exact absurd hb h2

/-- A tree that conforms at representation level is accepted, and the node built conforms. -/
theorem ofRepr_accepts (ty : Ty) (d : DM) (hwf : ty.wf = true)
    (h : conformsRepr ty false d = true) :
    ∃ v, ofRepr Engine.ideal ty d = .ok v ∧ conforms ty false v = true := by
  have h1 := (ofRepr_accepts_iff_conformsRepr ty d hwf).2 h
  obtain ⟨v, hv⟩ := Outcome.isOk_iff.1 h1
  exact ⟨v, hv, ofRepr_built_conforms ty d v hwf hv⟩

/-- The normal form of ANY conforming typed value (with or without explicit `absent` entries)
    conforms. -/
theorem normalize_conforms (ty : Ty) (nul : Bool) (v : TL) (hwf : ty.wf = true)
    (h : conforms ty nul v = true) : conforms ty nul (normalize ty v) = true :=
  conforms_normalize v ty nul hwf h

/-! ## C09-5 — quirk accounting: the flags only matter on inputs the ideal engine rejects -/

/-- **accepted_by_every_engine.**  An input the ideal builder accepts (either level, any type — no
    well-formedness needed) is accepted, with the same node, by the builder of EVERY engine that does
    not have one of the four quirks that refuse or break accepted input: `nullableUnionPanic`
    (reflection binding), `prefixEmptyDelimSplit`, `kindedNullRejected`, and `assignNodeSkipsBegin`
    under the driving mode `viaNode` (generated code) — whatever its other twelve flags (among them
    `tupleShortAccepted` and `keyAsmDupMapKey`) and the driving mode `viaKeys` are.
    Each hypothesis is needed: `nullableUnionPanic_is_the_exception`, `gen_flags_that_break_accepted_input`. -/
theorem accepted_by_every_engine (e : Engine) (hn : e.nullableUnionPanic = false)
    (hp : e.prefixEmptyDelimSplit = false) (hk : e.kindedNullRejected = false)
    (ha : (e.viaNode && e.assignNodeSkipsBegin) = false) (lvl : Level)
    (ty : Ty) (nul : Bool) (d : DM) (v : TL) (h : build Engine.ideal lvl ty nul none d = .ok v) :
    build e lvl ty nul none d = .ok v :=
  build_mono e ⟨hn, hp, hk, ha⟩ lvl d ty nul v h

/-- **quirks_only_on_rejects.**  Equivalently: wherever such an engine's outcome differs from the ideal
    one, the ideal outcome is `reject` — a flag only ever turns an ideal error into something else
    (a node, or — `lpUnknownKeyPanic` — a panic). -/
theorem quirks_only_on_rejects (e : Engine) (hn : e.nullableUnionPanic = false)
    (hp : e.prefixEmptyDelimSplit = false) (hk : e.kindedNullRejected = false)
    (ha : (e.viaNode && e.assignNodeSkipsBegin) = false) (lvl : Level)
    (ty : Ty) (nul : Bool) (d : DM)
    (h : build e lvl ty nul none d ≠ build Engine.ideal lvl ty nul none d) :
    build Engine.ideal lvl ty nul none d = .reject := by
  cases hi : build Engine.ideal lvl ty nul none d with
  | ok v => exact absurd (by rw [build_mono e ⟨hn, hp, hk, ha⟩ lvl d ty nul v hi, hi]) h
  | reject => rfl
  | panic => exact absurd hi (ideal_never_panics lvl ty nul none d)

/-- Any engine with those four quirks switched off (e.g.
    `{ Engine.bindnode with nullableUnionPanic := false, … }`, whatever `Engine.bindnode` is). -/
example (e : Engine) (lvl : Level) (ty : Ty) (d : DM) (v : TL)
    (h : build Engine.ideal lvl ty false none d = .ok v) :
    build { e with nullableUnionPanic := false, prefixEmptyDelimSplit := false, kindedNullRejected := false,
                   assignNodeSkipsBegin := false } lvl ty false none d = .ok v :=
  build_mono _ ⟨rfl, rfl, rfl, by simp⟩ lvl d ty false v h

/-- ... in particular generated code as it is (`Engine.gen`), driven through `AssembleEntry` or through the key
    assembler: its one remaining flag `keyAsmDupMapKey` is not among the four. -/
example (viaKeys : Bool) (lvl : Level) (ty : Ty) (d : DM) (v : TL)
    (h : build Engine.ideal lvl ty false none d = .ok v) :
    build { Engine.gen with viaKeys := viaKeys } lvl ty false none d = .ok v :=
  build_mono _ ⟨rfl, rfl, rfl, rfl⟩ lvl d ty false v h

/-- `struct { u nullable union { | String string } representation kinded }` -/
def exNullableKinded : Ty :=
  .struct (.cons [117] [117] false true (.union (.cons [83] [] .str .str .nil) .kinded) .nil) .map

/-- **nullableUnionPanic_is_the_exception.**  `nullableUnionPanic` is the one flag of the reflection binding
    that breaks an input the ideal engine accepts: `{"u": "x"}` conforms and is accepted; with the flag alone,
    the representation builder panics. -/
theorem nullableUnionPanic_is_the_exception :
    exNullableKinded.wf = true ∧
    ofRepr Engine.ideal exNullableKinded (.map (.cons [117] (.str [120]) .nil))
      = .ok (.map (.cons [117] (.map (.cons [83] (.str [120]) .nil)) .nil)) ∧
    ofRepr { nullableUnionPanic := true } exNullableKinded (.map (.cons [117] (.str [120]) .nil))
      = .panic := by decide

/-- `union { | T1 "aa" } representation stringprefix` with the empty delimiter -/
def exPrefixNoDelim : Ty := .union (.cons [84, 49] [97, 97] .str .str .nil) (.stringprefix [])

/-- `[nullable union { | Int int } representation kinded]` -/
def exListNullableKinded : Ty := .list (.union (.cons [84, 50] [84, 50] .int .int .nil) .kinded) true

/-- **gen_flags_that_break_accepted_input.**  The three generated-code hypotheses of
    `accepted_by_every_engine` / `quirks_only_on_rejects` are needed, each flag alone:
    `prefixEmptyDelimSplit` refuses "aax" for the discriminant "aa"; `kindedNullRejected` refuses `[null]`
    for a list of nullable kinded unions; `assignNodeSkipsBegin` under `viaNode` panics on a prebuilt
    `{k: 1}` handed to `{String: Int}` — all three well-formed types, and inputs the ideal builder accepts. -/
theorem gen_flags_that_break_accepted_input :
    (exPrefixNoDelim.wf = true ∧
     ofRepr Engine.ideal exPrefixNoDelim (.str [97, 97, 120]) = .ok (.map (.cons [84, 49] (.str [120]) .nil)) ∧
     ofRepr { prefixEmptyDelimSplit := true } exPrefixNoDelim (.str [97, 97, 120]) = .reject) ∧
    (exListNullableKinded.wf = true ∧
     ofRepr Engine.ideal exListNullableKinded (.list (.cons .null .nil)) = .ok (.list (.cons .null .nil)) ∧
     ofRepr { kindedNullRejected := true } exListNullableKinded (.list (.cons .null .nil)) = .reject) ∧
    (ofType Engine.ideal (.map .int false) (.map (.cons [107] (.int 1) .nil))
       = .ok (.map (.cons [107] (.int 1) .nil)) ∧
     ofType { viaNode := true, assignNodeSkipsBegin := true } (.map .int false) (.map (.cons [107] (.int 1) .nil))
       = .panic) := by decide

/-! ## Examples: the hypotheses are satisfiable, and needed -/

/-- `struct { a Int (rename "x"); b optional nullable [String] } representation map` -/
def exStruct : Ty :=
  .struct (.cons [97] [120] false false .int (.cons [98] [98] true true (.list .str false) .nil)) .map

/-- `union { | exStruct map | String string } representation kinded`, members named "S" and "T". -/
def exUnion : Ty :=
  .union (.cons [83] [] .map exStruct (.cons [84] [] .str .str .nil)) .kinded

example : exUnion.wf = true := by decide

/-- type level: `{"b": null, "a": 1}` conforms and is accepted, normalised to declaration order -/
example :
    ofType Engine.ideal exStruct (.map (.cons [98] .null (.cons [97] (.int 1) .nil)))
      = .ok (.map (.cons [97] (.int 1) (.cons [98] .null .nil))) := by decide

/-- type level: an unset optional field shows as `absent` -/
example :
    ofType Engine.ideal exStruct (.map (.cons [97] (.int 1) .nil))
      = .ok (.map (.cons [97] (.int 1) (.cons [98] .absent .nil))) := by decide

/-- type level: missing required field, unknown field, repeated field, wrong kind, null where not
    nullable: all rejected -/
example : ofType Engine.ideal exStruct (.map (.cons [98] .null .nil)) = .reject := by decide
example : ofType Engine.ideal exStruct (.map (.cons [97] (.int 1) (.cons [99] .null .nil))) = .reject := by decide
example : ofType Engine.ideal exStruct (.map (.cons [97] (.int 1) (.cons [97] (.int 1) .nil))) = .reject := by decide
example : ofType Engine.ideal exStruct (.map (.cons [97] (.str []) .nil)) = .reject := by decide
example : ofType Engine.ideal exStruct (.map (.cons [97] .null .nil)) = .reject := by decide

/-- representation level: the renamed key is `x`; through the kinded union -/
example :
    ofRepr Engine.ideal exUnion (.map (.cons [120] (.int 1) .nil))
      = .ok (.map (.cons [83] (.map (.cons [97] (.int 1) (.cons [98] .absent .nil))) .nil)) := by decide
example : conformsRepr exUnion false (.map (.cons [120] (.int 1) .nil)) = true := by decide
/-- ... and the original name is not a key of the representation -/
example : ofRepr Engine.ideal exUnion (.map (.cons [97] (.int 1) .nil)) = .reject := by decide
/-- a kind the union does not list -/
example : ofRepr Engine.ideal exUnion (.int 1) = .reject := by decide

/-- `struct { a Int; a Int }` (not well-formed: a repeated field name). -/
def exDupStruct : Ty :=
  .struct (.cons [97] [97] false false .int (.cons [97] [98] false false .int .nil)) .map

/-- **wf_needed_ofType.**  Without `Ty.wf` acceptance and conformance differ: with a repeated field
    name the tree `{"a": 1}` conforms (`a` is known, not repeated, an int, and every required name was
    seen) but no tree can ever set the second field, so the builder rejects. -/
theorem wf_needed_ofType :
    exDupStruct.wf = false ∧
    conforms exDupStruct false (TL.ofDM (.map (.cons [97] (.int 1) .nil))) = true ∧
    ofType Engine.ideal exDupStruct (.map (.cons [97] (.int 1) .nil)) = .reject := by decide

/-- `struct { a Int (rename "x"); b Int (rename "x") }` (not well-formed: a repeated representation key). -/
def exDupRename : Ty :=
  .struct (.cons [97] [120] false false .int (.cons [98] [120] false false .int .nil)) .map

/-- **wf_needed_ofRepr.**  The same at representation level with a repeated representation key. -/
theorem wf_needed_ofRepr :
    exDupRename.wf = false ∧
    conformsRepr exDupRename false (.map (.cons [120] (.int 1) .nil)) = true ∧
    ofRepr Engine.ideal exDupRename (.map (.cons [120] (.int 1) .nil)) = .reject := by decide

/-- **wf_needed_built_conforms.**  ... and what an ill-formed type's builder builds need not conform:
    `struct { a Int; a optional Int }` builds `{a: 1, a: absent}`, which repeats a key. -/
theorem wf_needed_built_conforms :
    let ty : Ty := .struct (.cons [97] [97] false false .int (.cons [97] [98] true false .int .nil)) .map
    ty.wf = false ∧
    ofType Engine.ideal ty (.map (.cons [97] (.int 1) .nil))
      = .ok (.map (.cons [97] (.int 1) (.cons [97] .absent .nil))) ∧
    conforms ty false (.map (.cons [97] (.int 1) (.cons [97] .absent .nil))) = false := by decide

end Ipld.Props.C09
