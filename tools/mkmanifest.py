#!/usr/bin/env python3
"""Regenerates MANIFEST.json from tools/manifest_checks.json (one entry per claimed property)."""
import json, os
V = "/verif"
props = [json.loads(l) for l in open(os.path.join(V, "properties.jsonl"))]
claimed = json.load(open(os.path.join(V, "tools", "manifest_checks.json")))
checks, na = [], []
for p in props:
    pid = p["id"]
    c = claimed.get(pid)
    if c and not c.get("not_applicable"):
        checks.append({
            "property_id": pid,
            "quick_cmd": f"./vcheck {pid} quick",
            "thorough_cmd": f"./vcheck {pid} thorough",
            "evidence_file": f"/verif/evidence/{pid}.json",
            "replay_cmd_template": "./vcheck replay {path}",
            "engine": "lean-proof+correspondence",
            "level_claimed": {"category": "proof", "text": c["text"], "design_ref": c.get("design_ref", f"DESIGN.md §5 {pid}")},
            "level_note": c["note"],
            "technique": c.get("technique", "Lean 4 theorems about a model + regenerated facts + differential correspondence with the implementation"),
        })
    else:
        na.append({"property_id": pid, "reason": (c or {}).get("reason", "check not yet registered: its floor (executable model, correspondence on the unchanged tree, floor theorem) is still under construction")})
m = {
    "version": 1,
    "setup_cmd": "./setup.sh",
    "hooks": {"guard": "verif", "enable": "go build -tags verif (the harness module replaces github.com/ipld/go-ipld-prime by /repo)",
              "baseline_off_cmd": "cd /repo && for m in . storage/bsadapter storage/bsrvadapter storage/dsadapter; do (cd $m && GOFLAGS=-mod=mod GOPROXY=off go test -vet=off -count=1 ./...) || exit 1; done",
              "source_commits": json.load(open(os.path.join(V, "tools", "hook_commits.json"))) if os.path.exists(os.path.join(V, "tools", "hook_commits.json")) else [],
              "add_only": True},
    "engines": [
        {"name": "lean-proof+correspondence", "path": "/verif/lean, /verif/go", "serves_properties": [c["property_id"] for c in checks],
         "kind_free_text": "Lean 4 (core only) models + theorems; Go→Lean translator regenerating facts from /repo on every run; Go differential harness driving the compiled Lean model over a line protocol; property oracle on the implementation"}],
    "checks": checks,
    "notes": "See DESIGN.md. Every check: ./vcheck <id> <tier> regenerates facts from /repo, rebuilds proofs (axiom audit), rebuilds the harness against /repo's working tree with -tags verif, replays known-finding witnesses, runs correspondence + oracle, writes evidence/<id>.json.",
    "not_applicable": na,
}
json.dump(m, open(os.path.join(V, "MANIFEST.json"), "w"), indent=1)
print("claimed:", [c["property_id"] for c in checks])
