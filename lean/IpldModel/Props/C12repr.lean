/-
  C12 for the REPRESENTATION-level builders of schema-bound types - `node/bindnode/repr.go` and the `…__ReprAssembler`s of
  generated code as a call-by-call state machine (`Model/ReprAssembler.lean`): scalars and enums, typed lists and maps,
  structs represented as maps (renamed keys, optional fields), tuples (positional, trailing optional fields may be
  missing) and joined strings, unions keyed (a one-entry map), kinded (the kind of the call selects the member) and
  string-prefixed; nullable slots; `Reset`.  The analogues of (a)-(e) of Props/C12typed.lean, and the ties to the whole-value
  model of C08/C09 (`Model/Schema.lean`): `AssignNode` on a fresh representation builder IS `Schema.ofRepr` of the ideal
  engine; a node built call by call from the representation of a typed value IS that value; after a refused first call a
  legal history is accepted call by call and builds its node.  For all types, histories and states; no bounds.  Property
  theorems only; the invariant (`RAsm.Inv`, `RGood`), `KeyReset`, `erase`, `Agrees` and the helper lemmas are in
  `IpldModel/Lemmas/ReprAssembler*.lean`.  The machine is tied to both engines by the correspondences
  `C12/corr-typed-assembler` (bindnode: `c12Typed`) and `C13/corr-typed-assembler` (both engines: `c13Histories`,
  `c13Retry`, `c13Reset`), `tasm.run <engine> repr …`.

  At representation level the error CLASS of a refusal is compared as "refused" only (bindnode answers with plain errors
  where generated code has typed ones); the repeated-key class is pinned and compared.
-/
import IpldModel.Lemmas.ReprAssemblerExamples
import IpldModel.Lemmas.SchemaRound2
import IpldModel.Lemmas.SchemaNoPanic
import IpldModel.Props.C12typed
namespace Ipld.Props.C12
open Ipld Ipld.Asm Ipld.RAsm
open Ipld.Schema (Ty Fields Field TL TLs TLKVs conforms conformsRepr ofRepr)
open Ipld.TAsm (Call hasReset tailOps int64s)

/-! ### (a) a refused call has no effect -/

/-- **repr_reject_no_effect.**  If a call on a representation builder is answered with an error, the state afterwards is
    the state before the call - in particular a KINDED UNION whose member refused the value has NO member: the next call,
    of whatever kind, is dispatched afresh (`repr_retry`, and the example below) - with two exceptions, as at type level:
    * the call was made on a KEY assembler and ended it (`KeyReset`: a repeated key; for generated code also a key that
      cannot get a value): the map-like assembler is back where it was before `AssembleKey`; nothing has been recorded;
    * the engine leaves a refused `AssignNode` of a map/list node half done (`Engine.anPartial`: generated code, known
      finding `C13/gen-refused-assignnode-wedges-builder`): the state is marked, the model makes no further claim. -/
theorem repr_reject_no_effect {e : RAsm.Engine} {s s' : RAsm.St} {op : Op} {c : ErrClass}
    (h : RAsm.step e s op = (s', .err c)) :
    s' = s ∨ RAsm.KeyReset s s' ∨
    (e.anPartial = true ∧ s' = { s with tainted := true } ∧ ∃ v, op = .assignNode v ∧ TAsm.isRec v = true) :=
  RAsm.step_err h

/-- Outside a key assembler, for an engine that rolls a refused `AssignNode` back (the reflection binding), EVERY refusal -
    wrong kind, a string no strategy can parse, repeated key given to `AssembleEntry`, `Finish` while a field or the
    union's member is missing, a node refused part of the way through its copy - leaves the state exactly as it was. -/
theorem repr_reject_no_effect_outside_key {e : RAsm.Engine} (he : e.anPartial = false) {s s' : RAsm.St} {op : Op}
    {c : ErrClass} (hk : RAsm.inKey s = false) (h : RAsm.step e s op = (s', .err c)) : s' = s := by
  rcases RAsm.step_err h with h1 | h1 | ⟨h1, _⟩
  · exact h1
  · rw [h1.inKey] at hk; cases hk
  · rw [he] at h1; cases h1

/-- the kinded union: a bool (no member of that kind) and a string its stringjoin member cannot split are refused and leave
    no member behind - the list that follows is dispatched to the tuple member and built -/
example :
    (RAsm.run .bindnode (RAsm.init exKindedTy) exKindedHistory).2 =
      [.err .wrongKind, .err .wrongKind, .ok, .ok, .ok, .ok] ∧
    (RAsm.run .gen (RAsm.init exKindedTy) exKindedHistory).2 =
      [.err .wrongKind, .err .wrongKind, .ok, .ok, .ok, .ok] ∧
    RAsm.build (RAsm.run .gen (RAsm.init exKindedTy) exKindedHistory).1 = some exKindedBuilt := by decide

/-- why the third case is there: the struct is handed `{"x":1,"b":2}`.  The reflection binding refuses and is as before;
    generated code refuses and is wedged - the model stops there. -/
example :
    (RAsm.run .bindnode (RAsm.init exStructTy) exRefusedNode).2 = [.err .wrongKind, .ok, .ok, .ok, .ok] ∧
    (RAsm.run .gen (RAsm.init exStructTy) exRefusedNode).2 = [.err .wrongKind, .panic] ∧
    (RAsm.run .gen (RAsm.init exStructTy) exRefusedNode).1.tainted = true := by decide

/-! ### (b) a repeated key is refused at the call that supplies it -/

/-- **repr_repeated_key_rejected_at_call** (`AssembleEntry`).  The current object is a typed map's assembler, or the
    assembler of a struct with the map representation, expecting a key.  `AssembleEntry(k)` with a key the map has
    accepted - for the struct: with the REPRESENTATION key (`keyName`: the rename) of a field that has its value - is
    answered by that very call with the repeated-key error, and nothing changes.  Every engine. -/
theorem repr_repeated_key_rejected_at_call {e : RAsm.Engine} {s : RAsm.St} (ht : s.tainted = false)
    (hx : RAsm.expectsKey s = true) {k n : Bytes} (hn : RAsm.keyName s k = some n) (hk : n ∈ RAsm.acceptedKeys s) :
    RAsm.step e s (.assembleEntry k) = (s, .err .repeatedKey) := by
  rw [RAsm.step_of_not_tainted ht]
  exact RAsm.stepPrim_assembleEntry_repeated hx hn hk

/-- ... and through the KEY ASSEMBLER (`AssembleKey().AssignString(k)` or `.AssignNode(string node)`): answered by that
    very call with the repeated-key error, the key assembler ends.  For a struct this holds of every engine; for a typed
    map `keyAsmDupMapKey = false` is needed (generated code: known finding `C13/gen-keyAsmDupMapKey`, example below). -/
theorem repr_repeated_key_rejected_by_key_assembler {e : RAsm.Engine} {s : RAsm.St} (ht : s.tainted = false)
    (hx : RAsm.pos s = .key) {k n : Bytes} (hn : RAsm.keyName s k = some n) (hk : n ∈ RAsm.acceptedKeys s)
    (he : e.keyAsmDupMapKey = false ∨ RAsm.inStruct s = true) :
    ∃ s', RAsm.KeyReset s s' ∧
      RAsm.step e s (.assign (.str k)) = (s', .err .repeatedKey) ∧
      RAsm.step e s (.assignNode (.str k)) = (s', .err .repeatedKey) := by
  obtain ⟨s', hr, hs⟩ := RAsm.supplyKey_repeated hx hn hk he
  refine ⟨s', hr, ?_, ?_⟩
  · rw [RAsm.step_of_not_tainted ht]
    show RAsm.stepPrim e s (.assign (.str k)) = _
    rw [RAsm.stepPrim_at_key hx]; exact hs
  · rw [RAsm.step_of_not_tainted ht]
    show RAsm.stepPrim e s (.assign (.str k)) = _
    rw [RAsm.stepPrim_at_key hx]; exact hs

/-- the hypotheses are met: the struct of the example after `b` and `x` (= field `a`) - it expects a key, `"x"` is the
    representation key of `a`, which has its value; `AssembleEntry "x"` and `"b"` through the key assembler are refused as
    repeated keys (calls 12 and 14 of the history) -/
example :
    let s := (RAsm.run .bindnode (RAsm.init exStructTy) (exStructHistory.take 12)).1
    s.tainted = false ∧ RAsm.expectsKey s = true ∧ RAsm.keyName s [120] = some [97] ∧ [97] ∈ RAsm.acceptedKeys s ∧
    (RAsm.run .bindnode (RAsm.init exStructTy) exStructHistory).2 =
      [.ok, .err .other, .ok, .err .wrongKind, .err .wrongKind, .err .wrongKind, .ok, .ok, .ok, .ok, .ok, .ok,
       .err .repeatedKey, .ok, .err .repeatedKey, .ok] := by decide

/-- the engine hypothesis is needed: the generated typed map takes `"a"` a second time through its key assembler -/
example :
    (RAsm.run .gen (RAsm.init exMapTy) exDupViaKeyAsm).2 = [.ok, .ok, .ok, .ok, .ok] ∧
    (RAsm.run .bindnode (RAsm.init exMapTy) exDupViaKeyAsm).2 = [.ok, .ok, .ok, .ok, .err .repeatedKey] := by decide

/-! ### (c) a value of a kind the position cannot hold is refused -/

/-- **repr_wrong_kind_rejected.**  The current object is the representation assembler for type `t` in a slot that is
    nullable iff `nul` (`pos s = .value t nul`: the root builder, a list element, a map value, a struct field reached by its
    representation key or its tuple position, the member of a keyed union).  Of the calls it offers (`TAsm.valueCall`: the
    scalar assignments, `BeginMap`, `BeginList`) it accepts EXACTLY those listed by `RAsm.accepts e t nul` and every other
    one is answered with an error by that call and leaves the state exactly as it was.  Never a panic.  Every engine. -/
theorem repr_wrong_kind_rejected {e : RAsm.Engine} {s : RAsm.St} {t : Ty} {nul : Bool} (ht : s.tainted = false)
    (hp : RAsm.pos s = .value t nul) {op : Op} (hc : TAsm.valueCall op = true) :
    (RAsm.accepts e t nul op = true → (RAsm.step e s op).2 = .ok) ∧
    (RAsm.accepts e t nul op = false → ∃ c, RAsm.step e s op = (s, .err c)) := by
  have hs : RAsm.step e s op = RAsm.valuePrim e s t nul op := by
    rw [RAsm.step_of_not_tainted ht]
    cases op <;> first | (cases hc; done) | (show RAsm.stepPrim e s _ = _; exact RAsm.stepPrim_at_value hp _)
  rw [hs]
  exact RAsm.valuePrim_accepts hp hc

/-- Which scalar assignments `accepts` lists, without reference to the machine: those that CONFORM AT REPRESENTATION LEVEL
    in C09's sense (`Schema.conformsRepr`: the kind of the type, or of the member a kinded union lists under the value's
    kind; a string that splits into the fields of a stringjoin struct, that starts with a discriminant of a stringprefix
    union, that is the representation of an enum member; null where the slot is nullable), an integer moreover within
    int64.  Every engine. -/
theorem repr_accepts_scalar_iff_conformsRepr (e : RAsm.Engine) {t : Ty} (hwf : t.wf = true) (nul : Bool) {v : DM}
    (hs : Asm.isScalar v = true) :
    RAsm.accepts e t nul (.assign v) = true ↔ (conformsRepr t nul v = true ∧ RAsm.intOK v = true) := by
  simp only [RAsm.accepts, hs, Bool.true_and, Bool.and_eq_true, Schema.build_repr_isOk v t nul hwf]
  exact And.comm

/-- `BeginMap` is accepted iff the type the position addresses for a map (through its kinded unions) is a typed map, a
    struct with the MAP representation or a KEYED union - by generated code and by the contract.  The reflection binding
    accepts it on every struct and every union that is not kinded (`Engine.beginMapAny`; the map assembler it hands out
    refuses everything, example below): the one place found where a representation builder does not refuse a wrong kind at
    the call that supplies it.  `BeginList`: a typed list or a struct with the TUPLE representation; every engine. -/
theorem repr_accepts_begin (e : RAsm.Engine) (t : Ty) (nul : Bool) (n : Int) :
    RAsm.accepts e t nul (.beginMap n) =
      (match Schema.kindedTarget .map t with
       | some (.map _ _) => true
       | some (.struct _ .map) => true
       | some (.union _ .keyed) => true
       | some (.struct _ _) => e.beginMapAny
       | some (.union _ _) => e.beginMapAny
       | _ => false) ∧
    RAsm.accepts e t nul (.beginList n) =
      (match Schema.kindedTarget .list t with
       | some (.list _ _) => true
       | some (.struct _ .tuple) => true
       | _ => false) :=
  ⟨RAsm.accepts_beginMap e t nul n, RAsm.accepts_beginList e t nul n⟩

/-- `BeginMap` on the representation builder of a tuple-represented struct: refused by generated code (and the contract);
    accepted by an engine with `beginMapAny` (the reflection binding as found), whose map assembler then refuses `Finish`,
    `AssembleEntry` and - through the error assembler `AssembleKey` hands out - every key -/
example :
    (RAsm.run { beginMapAny := true } (RAsm.init exTupleTy) exTupleBeginMap).2 =
      [.ok, .err .other, .err .wrongKind, .ok, .err .other] ∧
    (RAsm.run .gen (RAsm.init exTupleTy) (exTupleBeginMap.take 1)).2 = [.err .wrongKind] ∧
    (RAsm.run .ideal (RAsm.init exTupleTy) (exTupleBeginMap.take 1)).2 = [.err .wrongKind] := by decide

/-- A key assembler (the keys of the fragment are Strings) refuses every scalar that is not a string, `BeginMap`,
    `BeginList` and every node that is not a string, at that call, and stays as it was.  Every engine. -/
theorem repr_key_assembler_accepts_only_strings {e : RAsm.Engine} {s : RAsm.St} (ht : s.tainted = false)
    (hp : RAsm.pos s = .key) :
    (∀ v, Asm.isScalar v = true → (∀ k, v ≠ .str k) →
        RAsm.step e s (.assign v) = (s, .err .wrongKind) ∧ RAsm.step e s (.assignNode v) = (s, .err .wrongKind)) ∧
    (∀ n, RAsm.step e s (.beginMap n) = (s, .err .wrongKind)) ∧
    (∀ n, RAsm.step e s (.beginList n) = (s, .err .wrongKind)) ∧
    (∀ v, TAsm.isRec v = true → RAsm.step e s (.assignNode v) = (s, .err .wrongKind)) := by
  have hbm : ∀ n, RAsm.stepPrim e s (.beginMap n) = (s, .err .wrongKind) := fun n => by
    rw [RAsm.stepPrim_at_key hp]; rfl
  have hbl : ∀ n, RAsm.stepPrim e s (.beginList n) = (s, .err .wrongKind) := fun n => by
    rw [RAsm.stepPrim_at_key hp]; rfl
  refine ⟨?_, ?_, ?_, ?_⟩
  · intro v hs hn
    have h1 : RAsm.stepPrim e s (.assign v) = (s, .err .wrongKind) := by
      rw [RAsm.stepPrim_at_key hp]; exact RAsm.keyPrim_nonstring hs hn
    have hnr : TAsm.isRec v = false := by cases v <;> first | rfl | cases hs
    refine ⟨by rw [RAsm.step_of_not_tainted ht]; exact h1, ?_⟩
    rw [RAsm.step_of_not_tainted ht]
    simp only [RAsm.stepU, hnr, Bool.false_eq_true, if_false]
    exact h1
  · intro n; rw [RAsm.step_of_not_tainted ht]; exact hbm n
  · intro n; rw [RAsm.step_of_not_tainted ht]; exact hbl n
  · intro v hv
    rw [RAsm.step_of_not_tainted ht]
    cases v with
    | list xs => simp [RAsm.stepU, TAsm.isRec, RAsm.putNode, hbl, RAsm.andThen, TAsm.beginOp]
    | map es => simp [RAsm.stepU, TAsm.isRec, RAsm.putNode, hbm, RAsm.andThen, TAsm.beginOp]
    | null => cases hv
    | bool _ => cases hv
    | int _ => cases hv
    | float _ => cases hv
    | str _ => cases hv
    | bytes _ => cases hv
    | link _ => cases hv

/-- An error assembler - the value assembler of a struct key that is no field's representation key (the ORIGINAL name of a
    renamed field is none), of a union key that is no discriminant or comes after the member is set, of a tuple position
    past the last field, and what the reflection binding's dead map assembler hands out - answers every call it offers
    with an error and stays. -/
theorem repr_error_assembler_refuses_everything {e : RAsm.Engine} {s : RAsm.St} (ht : s.tainted = false)
    (hp : RAsm.pos s = .errAsm) {op : Op} (hc : TAsm.valueCall op = true) :
    RAsm.step e s op = (s, .err .other) := by
  rw [RAsm.step_of_not_tainted ht]
  cases op with
  | assign v =>
    show RAsm.stepPrim e s _ = _
    rw [RAsm.stepPrim_at_errAsm hp]
    simp only [TAsm.valueCall] at hc
    simp [RAsm.errPrim, hc]
  | beginMap n => show RAsm.stepPrim e s _ = _; rw [RAsm.stepPrim_at_errAsm hp]; rfl
  | beginList n => show RAsm.stepPrim e s _ = _; rw [RAsm.stepPrim_at_errAsm hp]; rfl
  | assembleKey => cases hc
  | assembleValue => cases hc
  | assembleEntry k => cases hc
  | assignNode v => cases hc
  | finish => cases hc

/-- the original name `"a"` of the field renamed to `"x"` is no key of the representation: accepted by the reflection
    binding's struct assembler, its value refused; refused at the key by generated code.  A second entry for a keyed union
    that has its member: the same split. -/
example :
    (RAsm.run .bindnode (RAsm.init exStructTy) exStructUnknown).2 = [.ok, .ok, .err .other] ∧
    (RAsm.run .gen (RAsm.init exStructTy) (exStructUnknown.take 2)).2 = [.ok, .err .other] ∧
    (RAsm.run .bindnode (RAsm.init exKeyedTy) exKeyedSecond).2 = [.ok, .ok, .ok, .ok, .err .other] ∧
    (RAsm.run .gen (RAsm.init exKeyedTy) (exKeyedSecond.take 4)).2 = [.ok, .ok, .ok, .err .other] := by decide

/-! ### the tie to the whole-value model: `AssignNode` is `Schema.ofRepr` -/

/-- **repr_assignNode_is_build.**  At the representation assembler of a well-formed type `t` of the fragment (slot nullable
    iff `nul`), for every node `v` (any tree, with or without repeated keys) whose integers fit int64 and every engine
    whose key assemblers refuse a repeated map key, `AssignNode(v)` does what C09's ideal whole-value REPRESENTATION builder
    `Schema.build Engine.ideal .repr t nul` does with `v`:
    * it accepts `v` and returns the typed value `w`  ⇒  the call is accepted and delivers `w`;
    * it rejects `v`  ⇒  the call is refused and the state is as it was - or, for an engine with `anPartial`, marked.
    The ideal builder never panics (`Props.C09.ideal_never_panics`), so these are all the cases. -/
theorem repr_assignNode_is_build {e : RAsm.Engine} (he : e.keyAsmDupMapKey = false) {s : RAsm.St} {t : Ty}
    {nul : Bool} (ht : s.tainted = false) (hp : RAsm.pos s = .value t nul) (hwf : t.wf = true)
    (hpl : RAsm.plainR t = true) (v : DM) (hi : int64s v = true) :
    (∀ w, Schema.build Schema.Engine.ideal .repr t nul none v = .ok w →
      RAsm.step e s (.assignNode v) = ((RAsm.deliver s w).1, .ok)) ∧
    (Schema.build Schema.Engine.ideal .repr t nul none v = .reject →
      ∃ c, RAsm.step e s (.assignNode v) = (s, .err c) ∨
        (e.anPartial = true ∧ RAsm.step e s (.assignNode v) = ({ s with tainted := true }, .err c))) := by
  have h := RAsm.step_assignNode_spec he ht hp hwf hpl v hi
  constructor
  · intro w hb; rw [hb] at h; exact h
  · intro hb; rw [hb] at h; exact h

/-- **reprAssignNode_is_ofRepr.**  On a fresh representation builder of a well-formed type of the fragment, one
    `AssignNode(d)` and C09's ideal whole-value builder `Schema.ofRepr Engine.ideal` are the same function of `d` (for trees
    whose integers fit int64): the call is accepted iff the ideal builder accepts, and `Build` returns the node the ideal
    builder returns. -/
theorem reprAssignNode_is_ofRepr {e : RAsm.Engine} (he : e.keyAsmDupMapKey = false) {ty : Ty} (hwf : ty.wf = true)
    (hpl : RAsm.plainR ty = true) (d : DM) (hi : int64s d = true) :
    RAsm.build (RAsm.run e (RAsm.init ty) [.assignNode d]).1 =
      (match ofRepr Schema.Engine.ideal ty d with
       | .ok w => some w
       | _ => none) := by
  obtain ⟨h1, h2⟩ := repr_assignNode_is_build he (s := RAsm.init ty) (t := ty) (nul := false) rfl rfl hwf hpl d hi
  unfold ofRepr
  cases hb : Schema.build Schema.Engine.ideal .repr ty false none d with
  | ok w =>
    rw [RAsm.run_cons_ok [] (h1 w hb)]
    rfl
  | reject =>
    obtain ⟨c, hs | ⟨_, hs⟩⟩ := h2 hb
    · rw [RAsm.run_cons_err [] hs]; rfl
    · rw [RAsm.run_cons_err [] hs]; rfl
  | panic => exact absurd hb (Schema.build_noPanic _ Schema.Engine.ideal_noPanicFlags .repr ty false none d)

/-- ... hence `AssignNode(d)` on a fresh representation builder is accepted exactly when `d` conforms at representation
    level (`Schema.conformsRepr`, Props/C09 `ofRepr_isOk_eq`). -/
theorem repr_assignNode_accepted_iff_conformsRepr {e : RAsm.Engine} (he : e.keyAsmDupMapKey = false) {ty : Ty}
    (hwf : ty.wf = true) (hpl : RAsm.plainR ty = true) (d : DM) (hi : int64s d = true) :
    (RAsm.build (RAsm.run e (RAsm.init ty) [.assignNode d]).1).isSome = conformsRepr ty false d := by
  rw [reprAssignNode_is_ofRepr he hwf hpl d hi, ← Schema.build_repr_isOk d ty false hwf]
  unfold ofRepr
  cases Schema.build Schema.Engine.ideal .repr ty false none d <;> rfl

/-- both branches occur: the struct takes its representation `{"b":null,"x":5}` whole (and lists `a` first), and refuses
    `{"b":null,"a":5}` - `"a"` is the field's name, not its representation key; the kinded union takes `"u:v"` (its
    stringjoin member) and `[7]` (its tuple member) -/
example :
    RAsm.build (RAsm.run .bindnode (RAsm.init exStructTy)
      [.assignNode (.map (.cons [98] .null (.cons [120] (.int 5) .nil)))]).1
      = some (.map (.cons [97] (.int 5) (.cons [98] .null .nil))) ∧
    (RAsm.run .bindnode (RAsm.init exStructTy)
      [.assignNode (.map (.cons [98] .null (.cons [97] (.int 5) .nil)))]).2 = [.err .other] ∧
    RAsm.build (RAsm.run .gen (RAsm.init exKindedTy) [.assignNode (.str [117, 58, 118])]).1
      = some (.map (.cons [74] (.map (.cons [102] (.str [117]) (.cons [103] (.str [118]) .nil))) .nil)) ∧
    RAsm.build (RAsm.run .gen (RAsm.init exKindedTy) [.assignNode (.list (.cons (.int 7) .nil))]).1
      = some exKindedBuilt := by decide

/-- `plainR` is needed: at a position of type `any` the code accepts every scalar, the machine (which does not model `any`
    below a `Begin…`) accepts scalars too but no map - while `Schema.ofRepr` accepts the map -/
example : ofRepr Schema.Engine.ideal .any (.map .nil) = .ok (.map .nil) ∧
    (RAsm.run .bindnode (RAsm.init .any) [.assignNode (.map .nil)]).2 = [.err .wrongKind] := by decide

/-! ### (d) what is built conforms to the type and has a representation -/

/-- A fresh representation builder of a well-formed type satisfies the invariant. -/
theorem repr_inv_init {ty : Ty} (hwf : ty.wf = true) : RAsm.Inv (RAsm.init ty) := RAsm.init_inv hwf

/-- Every call preserves the invariant, whatever its outcome (accepted, refused, misuse) and whatever node is handed
    to `AssignNode` - for an engine whose key assemblers refuse a repeated map key.  The invariant (`RAsm.Inv`): every
    value held - entries of the open containers, the member of an open keyed union, the finished root - conforms to the
    type of the position it was delivered to and has the shape of a value with a representation (`RGood`); the keys of
    every open map / struct are pairwise distinct, a struct's entries are under field names, a tuple's entries are its first
    fields in order, a pending key does not address a field that has its value; every open container was begun at a
    position whose type - through the kinded unions named in the frame - is its own. -/
theorem repr_inv_step {e : RAsm.Engine} (he : e.keyAsmDupMapKey = false) {s : RAsm.St} (op : Op) (hi : RAsm.Inv s) :
    RAsm.Inv (RAsm.step e s op).1 := RAsm.step_inv op he hi

/-- **repr_built_conforms.**  For every well-formed type, every history of calls on a fresh REPRESENTATION builder - with
    refused calls, with misuse, with any nodes handed to `AssignNode` - and every engine whose key assemblers refuse a
    repeated map key: if `Build` returns a node `v` (the typed node), then
    * `v` conforms to the type at TYPE level in C09's sense (`Schema.conforms`: kinds right, null only where nullable, no
      unknown and no repeated field or key, every required field present, a union with exactly one known member);
    * no map anywhere in `v` carries a key twice;
    * `v` is in canonical form (structs list all their fields in declaration order, unset optional fields `absent`);
    * `v` HAS A REPRESENTATION (`Schema.repr`): in particular no tuple in it has an absent field before a present one -
      which the type-level builders do not guarantee (`Props.C08.ofType_built_may_lack_repr`). -/
theorem repr_built_conforms {e : RAsm.Engine} (he : e.keyAsmDupMapKey = false) {ty : Ty} (hwf : ty.wf = true)
    (h : List Op) {v : TL} (hb : RAsm.build (RAsm.run e (RAsm.init ty) h).1 = some v) :
    conforms ty false v = true ∧ TAsm.NoDup v ∧ Schema.normalize ty v = v ∧ ∃ d, Schema.repr ty v = some d := by
  have hi : RAsm.Inv (RAsm.run e (RAsm.init ty) h).1 := RAsm.run_inv h he (RAsm.init_inv hwf)
  have hg := RAsm.build_good hi hb
  rw [RAsm.run_ty] at hg
  exact ⟨hg.1, hg.noDup, hg.canon hwf, hg.has_repr hwf⟩

/-- **repr_built_is_ideal_build** - (d) tied to C08/C09: where the strategies are unambiguous for the node built
    (`Schema.unambig`: no field string containing its stringjoin delimiter, no discriminant that is a prefix of another
    member's text, …), feeding the node's representation to the IDEAL whole-value representation builder gives the node
    back.  `unambig` is C08's condition, shown necessary there (`Props.C08.roundtrip_fails_stringjoin`, …). -/
theorem repr_built_is_ideal_build {e : RAsm.Engine} (he : e.keyAsmDupMapKey = false) {ty : Ty} (hwf : ty.wf = true)
    (h : List Op) {v : TL} (hb : RAsm.build (RAsm.run e (RAsm.init ty) h).1 = some v)
    (hu : Schema.unambig ty v = true) : ∃ d, Schema.repr ty v = some d ∧ ofRepr Schema.Engine.ideal ty d = .ok v := by
  obtain ⟨h1, _, _, d, hd⟩ := repr_built_conforms he hwf h hb
  exact ⟨d, hd, Schema.rt v ty false hwf h1 hu d hd⟩

/-- The engine hypothesis of (d) is needed: generated code takes `"a"` twice through the key assembler of a typed map
    and builds a node that carries it twice. -/
example :
    RAsm.build (RAsm.run .gen (RAsm.init exMapTy) (exDupViaKeyAsm ++ [.assembleValue, .assign (.int 2), .finish])).1
      = some (.map (.cons [97] (.int 1) (.cons [97] (.int 2) .nil))) := by decide

example : exStructTy.wf = true ∧ exTupleTy.wf = true ∧ exKeyedTy.wf = true ∧ exKindedTy.wf = true ∧
    RAsm.plainR exStructTy = true ∧ RAsm.plainR exKindedTy = true ∧ RAsm.plainR exKeyedTy = true := by decide

/-- the histories of the examples build: the struct `{a:5, b:["x"]}` from renamed keys in another order; the tuple
    `{p:7, q:"y", r:absent}` (trailing optional field not supplied); the keyed union `{S: {a:5, b:absent}}` -/
example :
    RAsm.build (RAsm.run .bindnode (RAsm.init exStructTy) exStructHistory).1 = some exStructBuilt ∧
    RAsm.build (RAsm.run .bindnode (RAsm.init exTupleTy) exTupleHistory).1 = some exTupleBuilt ∧
    RAsm.build (RAsm.run .gen (RAsm.init exTupleTy) exTupleHistory).1 = some exTupleBuilt ∧
    RAsm.build (RAsm.run .gen (RAsm.init exKeyedTy) exKeyedHistory).1 = some exKeyedBuilt ∧
    (RAsm.run .gen (RAsm.init exKeyedTy) exKeyedHistory).2 = [.ok, .err .other, .ok, .ok, .ok, .ok, .ok, .ok] ∧
    (RAsm.run .gen (RAsm.init exTupleTy) exTupleHistory).2 =
      [.err .wrongKind, .ok, .err .other, .ok, .err .wrongKind, .ok, .ok, .ok, .ok] := by decide

/-! ### (e) a history with refused calls builds what the history without them builds -/

/-- `erase e s h` only drops calls from `h`; it never adds or reorders any. -/
theorem repr_erase_sublist (e : RAsm.Engine) (s : RAsm.St) (h : List Op) : (RAsm.erase e s h).Sublist h := by
  simpa [RAsm.erase] using RAsm.eraseFrom_sublist e s [] h

/-- **repr_history_result.**  Take any history `h` run from a state `s` in which no `AssembleKey` is outstanding, in which no
    call was misuse (no panic) and which did not end in a state an engine with `anPartial` left half done.  Erase from `h`
    every call that was refused, and every `AssembleKey` whose key assembler ended by a refusal (`RAsm.erase`).  Then running
    the erased history from `s` reaches exactly the same final state - so `Build` returns the same node: the node built
    holds exactly the accepted entries - and every call of the erased history is accepted. -/
theorem repr_history_result (e : RAsm.Engine) (s : RAsm.St) (h : List Op) (hk : RAsm.inKey s = false)
    (hn : Out.panic ∉ (RAsm.run e s h).2) (ht : (RAsm.run e s h).1.tainted = false) :
    RAsm.run e s (RAsm.erase e s h) = ((RAsm.run e s h).1, List.replicate (RAsm.erase e s h).length .ok) :=
  RAsm.eraseFrom_runs h (RAsm.PendOk.none hk) hn ht

/-- An engine that rolls a refused `AssignNode` back never leaves the contract's machine. -/
theorem repr_never_tainted {e : RAsm.Engine} (he : e.anPartial = false) (s : RAsm.St) (hs : s.tainted = false)
    (h : List Op) : (RAsm.run e s h).1.tainted = false := by
  rw [RAsm.run_not_tainted he]; exact hs

/-- `repr_history_result` for a fresh builder of the reflection binding (or any engine without `anPartial`). -/
theorem repr_history_result_init {e : RAsm.Engine} (he : e.anPartial = false) (ty : Ty) (h : List Op)
    (hn : Out.panic ∉ (RAsm.run e (RAsm.init ty) h).2) :
    RAsm.build (RAsm.run e (RAsm.init ty) (RAsm.erase e (RAsm.init ty) h)).1
      = RAsm.build (RAsm.run e (RAsm.init ty) h).1 ∧
    ∀ o ∈ (RAsm.run e (RAsm.init ty) (RAsm.erase e (RAsm.init ty) h)).2, o = .ok := by
  have := repr_history_result e (RAsm.init ty) h rfl hn (repr_never_tainted he _ rfl h)
  rw [this]
  exact ⟨rfl, fun o ho => (List.mem_replicate.1 ho).2⟩

example : RAsm.erase .bindnode (RAsm.init exStructTy) exStructHistory =
    [.beginMap 0, .assembleEntry [98], .beginList 1, .assembleValue, .assign (.str [120]), .finish,
     .assembleEntry [120], .assign (.int 5), .finish] := by decide

example : RAsm.erase .gen (RAsm.init exKindedTy) exKindedHistory =
    [.beginList 1, .assembleValue, .assign (.int 7), .finish] := by decide

/-! ### a node built call by call from the representation of `v` is `v` -/

/-- **repr_built_is_type_built.**  Let `v` be a typed value of a well-formed type of the fragment that conforms
    (`Schema.conforms` - e.g. whatever a TYPE-level builder built, `typed_built_conforms`), for which the strategies are
    unambiguous (`Schema.unambig`: C08's side condition, needed exactly where strings are parsed back) and whose
    representation is `d` (`Schema.repr ty v = some d`, integers within int64).  Then the REPRESENTATION builder, fed `d`
    * as one node (`AssignNode d`), or
    * call by call along the canonical plan of `d` (`Asm.planOf`: `BeginMap` / `AssembleEntry` per entry / `BeginList` /
      `AssembleValue` / scalar assignments / `Finish`) - every call of which it accepts -
    builds exactly `v`.  Every engine whose key assemblers refuse a repeated map key. -/
theorem repr_built_is_type_built {e : RAsm.Engine} (he : e.keyAsmDupMapKey = false) {ty : Ty} (hwf : ty.wf = true)
    (hpl : RAsm.plainR ty = true) {v : TL} (hc : conforms ty false v = true) (hu : Schema.unambig ty v = true)
    {d : DM} (hr : Schema.repr ty v = some d) (hi : int64s d = true) :
    RAsm.build (RAsm.run e (RAsm.init ty) [.assignNode d]).1 = some v ∧
    RAsm.run e (RAsm.init ty) (planOf d) =
      ((RAsm.run e (RAsm.init ty) (planOf d)).1, List.replicate (planOf d).length .ok) ∧
    RAsm.build (RAsm.run e (RAsm.init ty) (planOf d)).1 = some v := by
  have hb : Schema.build Schema.Engine.ideal .repr ty false none d = .ok v := Schema.rt v ty false hwf hc hu d hr
  have hspec := RAsm.putNode_spec he d (RAsm.init ty) ty false rfl hwf hpl hi
  rw [hb] at hspec
  simp only [RAsm.Agrees] at hspec
  have hdel : RAsm.deliver (RAsm.init ty) v = (⟨ty, [], some v, false⟩, .ok) := rfl
  rw [hdel] at hspec
  have hruns := RAsm.plan_runs he d (RAsm.init ty) _ rfl hspec
  refine ⟨?_, ?_, ?_⟩
  · rw [reprAssignNode_is_ofRepr he hwf hpl d hi]
    unfold ofRepr; rw [hb]
  · unfold RAsm.Runs at hruns
    rw [hruns]
  · unfold RAsm.Runs at hruns
    rw [hruns]; rfl

/-- ... in particular for what the TYPE-level builder of the same type built: run the type-level machine
    (`Model/TypedAssembler.lean`) on any history, take the node `v` it built, let `d` be its representation; the
    representation builder run on the plan of `d` builds `v` again. -/
theorem repr_rebuilds_type_built {e : RAsm.Engine} {e' : TAsm.Engine} (he : e.keyAsmDupMapKey = false)
    (he' : e'.keyAsmDupMapKey = false) {ty : Ty} (hwf : ty.wf = true) (hpl : TAsm.plain ty = true)
    (hplr : RAsm.plainR ty = true) (h : List Op) {v : TL}
    (hb : TAsm.build (TAsm.run e' (TAsm.init ty) h).1 = some v) (hu : Schema.unambig ty v = true)
    {d : DM} (hr : Schema.repr ty v = some d) (hi : int64s d = true) :
    RAsm.build (RAsm.run e (RAsm.init ty) (planOf d)).1 = some v :=
  (repr_built_is_type_built he hwf hplr (typed_built_conforms he' hwf hpl h hb).1 hu hr hi).2.2

/-- the struct: `{a:5, b:["x"]}` is represented by `{"x":5,"b":["x"]}`; its plan, run on the representation builder of
    either engine, builds it -/
example :
    Schema.repr exStructTy exStructBuilt =
      some (.map (.cons [120] (.int 5) (.cons [98] (.list (.cons (.str [120]) .nil)) .nil))) ∧
    RAsm.build (RAsm.run .gen (RAsm.init exStructTy)
      (planOf (.map (.cons [120] (.int 5) (.cons [98] (.list (.cons (.str [120]) .nil)) .nil))))).1
      = some exStructBuilt ∧
    Schema.unambig exStructTy exStructBuilt = true := by decide

/-! ### after a refused first call -/

/-- **repr_retry.**  A first call that a NEW representation builder refuses - a scalar of a kind the type cannot hold, a
    string no strategy can parse, a `Begin…` of the wrong kind, a node that does not conform (for an engine with
    `anPartial`: a scalar node) - leaves it new: whatever history `h` follows is answered, call for call, as a new builder
    answers it, and `Build` returns what `h` alone builds. -/
theorem repr_retry (e : RAsm.Engine) (ty : Ty) (op : Op) (c : ErrClass) (h : List Op)
    (hfirst : (RAsm.step e (RAsm.init ty) op).2 = .err c)
    (hsc : e.anPartial = false ∨ ∀ v, op = .assignNode v → TAsm.isRec v = false) :
    RAsm.run e (RAsm.init ty) (op :: h) =
      ((RAsm.run e (RAsm.init ty) h).1, .err c :: (RAsm.run e (RAsm.init ty) h).2) := by
  rcases hs : RAsm.step e (RAsm.init ty) op with ⟨s', o⟩
  rw [hs] at hfirst
  simp only at hfirst; subst hfirst
  have := RAsm.step_init_err hs hsc
  subst this
  rw [RAsm.run_cons_err h hs]

/-- ... so after a refused first call the canonical plan of a conforming representation `d` (`ofRepr` accepts it and
    returns `v`) is accepted call by call and builds `v`: the statement the harness section `c13Retry` samples on both
    engines. -/
theorem repr_retry_builds {e : RAsm.Engine} (he : e.keyAsmDupMapKey = false) {ty : Ty} (hwf : ty.wf = true)
    (hpl : RAsm.plainR ty = true) (op : Op) (c : ErrClass)
    (hfirst : (RAsm.step e (RAsm.init ty) op).2 = .err c)
    (hsc : e.anPartial = false ∨ ∀ v, op = .assignNode v → TAsm.isRec v = false)
    {d : DM} {v : TL} (hb : ofRepr Schema.Engine.ideal ty d = .ok v) (hi : int64s d = true) :
    (RAsm.run e (RAsm.init ty) (op :: planOf d)).2 = .err c :: List.replicate (planOf d).length .ok ∧
    RAsm.build (RAsm.run e (RAsm.init ty) (op :: planOf d)).1 = some v := by
  have hspec := RAsm.putNode_spec he d (RAsm.init ty) ty false rfl hwf hpl hi
  unfold ofRepr at hb
  rw [hb] at hspec
  simp only [RAsm.Agrees] at hspec
  have hdel : RAsm.deliver (RAsm.init ty) v = (⟨ty, [], some v, false⟩, .ok) := rfl
  rw [hdel] at hspec
  have hruns := RAsm.plan_runs he d (RAsm.init ty) _ rfl hspec
  unfold RAsm.Runs at hruns
  rw [repr_retry e ty op c (planOf d) hfirst hsc, hruns]
  exact ⟨rfl, rfl⟩

/-- the kinded union after a refused string: the plan of `[7]` builds the tuple member (both engines) -/
example :
    (RAsm.step .gen (RAsm.init exKindedTy) (.assign (.str [120]))).2 = .err .wrongKind ∧
    ofRepr Schema.Engine.ideal exKindedTy (.list (.cons (.int 7) .nil)) = .ok exKindedBuilt := by decide

/-! ### `Reset` -/

/-- **repr_reset_is_init.**  `Reset()` on a representation builder is accepted in any state and what follows is answered,
    call for call, as a NEW builder of the same type answers it.  Every engine. -/
theorem repr_reset_is_init (e : RAsm.Engine) (b : Bool) (s : RAsm.St) (h : List Call) :
    (RAsm.runC e b s (.reset :: h)).1 = (RAsm.runC e false (RAsm.init s.ty) h).1 ∧
    (RAsm.runC e b s (.reset :: h)).2 = .ok :: (RAsm.runC e false (RAsm.init s.ty) h).2 := by
  rw [RAsm.runC_reset]; exact ⟨rfl, rfl⟩

/-- A history without resets is the history of `RAsm.run`. -/
theorem repr_runC_without_reset (e : RAsm.Engine) (s : RAsm.St) (ops : List Op) :
    RAsm.runC e false s (ops.map .op) = RAsm.run e s ops := RAsm.runC_ops e s ops

/-- **repr_reset_history_result.**  The state a history with at least one `Reset` ends in - so the node `Build` returns -
    is the one reached by running, on a new builder, only the calls made after the LAST reset.  Every engine. -/
theorem repr_reset_history_result (e : RAsm.Engine) (b : Bool) (s : RAsm.St) (h : List Call)
    (hr : hasReset h = true) :
    (RAsm.runC e b s h).1 = (RAsm.run e (RAsm.init s.ty) (tailOps h)).1 ∧
    RAsm.build (RAsm.runC e b s h).1 = RAsm.build (RAsm.run e (RAsm.init s.ty) (tailOps h)).1 := by
  have := RAsm.runC_tail e b s h hr
  exact ⟨this, by rw [this]⟩

/-- (d) for histories with resets. -/
theorem repr_built_conforms_with_resets {e : RAsm.Engine} (he : e.keyAsmDupMapKey = false) {ty : Ty}
    (hwf : ty.wf = true) (h : List Call) {v : TL}
    (hb : RAsm.build (RAsm.runC e false (RAsm.init ty) h).1 = some v) :
    conforms ty false v = true ∧ TAsm.NoDup v ∧ Schema.normalize ty v = v ∧ ∃ d, Schema.repr ty v = some d := by
  have hi : RAsm.Inv (RAsm.runC e false (RAsm.init ty) h).1 := RAsm.runC_inv he false _ h (RAsm.init_inv hwf)
  have hg := RAsm.build_good hi hb
  rw [RAsm.runC_ty] at hg
  exact ⟨hg.1, hg.noDup, hg.canon hwf, hg.has_repr hwf⟩

/-- the tuple begun and cut off, `Reset`, then the whole history: nothing of the first part shows; generated code wedged by
    a refused node is new after the reset -/
example :
    RAsm.build (RAsm.runC .bindnode false (RAsm.init exTupleTy)
      ((exTupleHistory.take 6).map .op ++ [.reset] ++ exTupleHistory.map .op)).1 = some exTupleBuilt ∧
    (RAsm.runC .gen false (RAsm.init exStructTy)
      (exRefusedNode.map .op ++ [.reset] ++ (exRefusedNode.drop 1).map .op)).2
      = [.err .wrongKind, .panic, .ok, .ok, .ok, .ok, .ok] ∧
    RAsm.build (RAsm.runC .gen false (RAsm.init exStructTy)
      (exRefusedNode.map .op ++ [.reset] ++ (exRefusedNode.drop 1).map .op)).1
      = some (.map (.cons [97] (.int 5) (.cons [98] .absent .nil))) := by decide

end Ipld.Props.C12
