// translate: regenerates Lean facts from /repo's current source on every run (DESIGN §4).
//
//	translate <repo dir> <out dir>
//
// A whitelist of small pure functions and tables is read with go/ast and re-emitted as Lean
// definitions over Int / Bytes / Bool with Go's exact (wrapping) integer semantics.  The translator
// fails closed: a whitelisted item it cannot find or translate is an error (a broken tie), never a
// silently skipped fact.
package main

import (
	"fmt"
	"go/ast"
	"go/parser"
	"go/token"
	"os"
	"path/filepath"
	"sort"
	"strconv"
	"strings"
)

type ty int

const (
	tUnknown ty = iota
	tI          // signed 64-bit (int, int64)
	tU          // uint64
	tB          // bool
	tS          // string
	tLS         // []string (or *[]string out-parameter)
	tUntyped    // untyped integer constant
)

func (t ty) lean() string {
	switch t {
	case tI, tU, tUntyped:
		return "Int"
	case tB:
		return "Bool"
	case tS:
		return "Bytes"
	case tLS:
		return "List Bytes"
	}
	return "?"
}

type failure struct{ msg string }

func failf(pos token.Position, f string, a ...any) {
	panic(failure{fmt.Sprintf("%s: ", pos) + fmt.Sprintf(f, a...)})
}

type tr struct {
	fset   *token.FileSet
	file   *ast.File
	env    map[string]ty
	subst  map[string]string     // expression text -> Lean name (for comparator closures)
	substT map[string]ty
	tables map[string]*ast.CompositeLit
	consts map[string]string // const name -> Lean expr
	outPar string            // *[]string out parameter, returned implicitly
	fnName func(string) (string, bool)
}

var reserved = map[string]bool{"from": true, "at": true, "end": true, "have": true, "show": true, "match": true, "then": true,
	"fun": true, "do": true, "in": true, "let": true, "if": true, "else": true, "to": false, "length": false, "open": true, "by": true, "with": true, "where": true, "instance": true, "class": true, "structure": true, "def": true, "theorem": true, "variable": true, "universe": true, "section": true, "namespace": true, "import": true, "local": true, "mutual": true, "partial": true, "private": true, "protected": true, "deriving": true, "extends": true, "infix": true, "notation": true, "macro": true, "syntax": true, "set_option": true, "Type": true, "Prop": true, "Sort": true, "true": false, "false": false, "bytes": false}

func id(s string) string {
	if reserved[s] {
		return s + "_"
	}
	return s
}

func (t *tr) pos(n ast.Node) token.Position { return t.fset.Position(n.Pos()) }

func (t *tr) text(e ast.Expr) string {
	switch x := e.(type) {
	case *ast.Ident:
		return x.Name
	case *ast.SelectorExpr:
		return t.text(x.X) + "." + x.Sel.Name
	case *ast.IndexExpr:
		return t.text(x.X) + "[" + t.text(x.Index) + "]"
	case *ast.StarExpr:
		return "*" + t.text(x.X)
	case *ast.BasicLit:
		return x.Value
	case *ast.ParenExpr:
		return "(" + t.text(x.X) + ")"
	}
	return fmt.Sprintf("<%T>", e)
}

func typeOfExpr(e ast.Expr) ty {
	switch x := e.(type) {
	case *ast.Ident:
		switch x.Name {
		case "int", "int64":
			return tI
		case "uint64", "uint":
			return tU
		case "bool":
			return tB
		case "string":
			return tS
		}
	case *ast.ArrayType:
		if typeOfExpr(x.Elt) == tS {
			return tLS
		}
	case *ast.StarExpr:
		return typeOfExpr(x.X)
	}
	return tUnknown
}

// constant folding for table indices
func (t *tr) constInt(e ast.Expr) (int, bool) {
	switch x := e.(type) {
	case *ast.BasicLit:
		if x.Kind == token.INT {
			v, err := strconv.ParseInt(x.Value, 0, 64)
			return int(v), err == nil
		}
	case *ast.CallExpr:
		if f, ok := x.Fun.(*ast.Ident); ok && f.Name == "len" && len(x.Args) == 1 {
			if a, ok := x.Args[0].(*ast.Ident); ok {
				if tb, ok := t.tables[a.Name]; ok {
					return len(tb.Elts), true
				}
			}
		}
	case *ast.BinaryExpr:
		a, ok1 := t.constInt(x.X)
		b, ok2 := t.constInt(x.Y)
		if ok1 && ok2 {
			switch x.Op {
			case token.ADD:
				return a + b, true
			case token.SUB:
				return a - b, true
			}
		}
	case *ast.ParenExpr:
		return t.constInt(x.X)
	}
	return 0, false
}

// tableField returns the expression of field `name` in the i-th element of a table literal.
func (t *tr) tableField(tb *ast.CompositeLit, i int, name string, fields []string) ast.Expr {
	el, ok := tb.Elts[i].(*ast.CompositeLit)
	if !ok {
		failf(t.pos(tb), "table element %d is not a composite literal", i)
	}
	for j, fe := range el.Elts {
		if kv, ok := fe.(*ast.KeyValueExpr); ok {
			if k, ok := kv.Key.(*ast.Ident); ok && k.Name == name {
				return kv.Value
			}
			continue
		}
		if j < len(fields) && fields[j] == name {
			return fe
		}
	}
	failf(t.pos(tb), "field %s not found in table element %d", name, i)
	return nil
}

// structFields finds the field names of the element type of a table (declared in the same file).
func (t *tr) structFields(tb *ast.CompositeLit) []string {
	at, ok := tb.Type.(*ast.ArrayType)
	if !ok {
		return nil
	}
	name, ok := at.Elt.(*ast.Ident)
	if !ok {
		return nil
	}
	var out []string
	ast.Inspect(t.file, func(n ast.Node) bool {
		if ts, ok := n.(*ast.TypeSpec); ok && ts.Name.Name == name.Name {
			if st, ok := ts.Type.(*ast.StructType); ok {
				for _, f := range st.Fields.List {
					for _, nm := range f.Names {
						out = append(out, nm.Name)
					}
				}
			}
		}
		return true
	})
	return out
}

func (t *tr) exprType(e ast.Expr) ty {
	if s, ok := t.subst[t.text(e)]; ok {
		_ = s
		return t.substT[t.text(e)]
	}
	switch x := e.(type) {
	case *ast.Ident:
		if ty, ok := t.env[x.Name]; ok {
			return ty
		}
		if x.Name == "true" || x.Name == "false" {
			return tB
		}
		if _, ok := t.consts[x.Name]; ok {
			return tUntyped
		}
	case *ast.BasicLit:
		if x.Kind == token.INT {
			return tUntyped
		}
		if x.Kind == token.STRING {
			return tS
		}
	case *ast.ParenExpr:
		return t.exprType(x.X)
	case *ast.StarExpr:
		return t.exprType(x.X)
	case *ast.UnaryExpr:
		if x.Op == token.NOT {
			return tB
		}
		return t.exprType(x.X)
	case *ast.BinaryExpr:
		switch x.Op {
		case token.LSS, token.GTR, token.LEQ, token.GEQ, token.EQL, token.NEQ, token.LAND, token.LOR:
			return tB
		}
		a, b := t.exprType(x.X), t.exprType(x.Y)
		if a == tUntyped || a == tUnknown {
			return b
		}
		return a
	case *ast.CallExpr:
		if f, ok := x.Fun.(*ast.Ident); ok {
			switch f.Name {
			case "len":
				return tI
			case "int", "int64":
				return tI
			case "uint64", "uint":
				return tU
			case "append":
				return tLS
			}
		}
	case *ast.SliceExpr:
		return t.exprType(x.X)
	case *ast.SelectorExpr:
		if ty, ok := t.env[id(strings.ReplaceAll(t.text(x), ".", "_"))]; ok {
			return ty
		}
	case *ast.IndexExpr:
		if t.exprType(x.X) == tS {
			return tI // a byte, compared numerically
		}
	}
	return tUnknown
}

func wrap(tt ty, s string) string {
	switch tt {
	case tU:
		return "(wrapU64 (" + s + "))"
	case tUntyped:
		return "(" + s + ")"
	default:
		return "(wrapI64 (" + s + "))"
	}
}

func bytesLit(s string) string {
	var parts []string
	for _, b := range []byte(s) {
		parts = append(parts, strconv.Itoa(int(b)))
	}
	return "([" + strings.Join(parts, ", ") + "] : Bytes)"
}

func (t *tr) expr(e ast.Expr) string {
	if s, ok := t.subst[t.text(e)]; ok {
		return s
	}
	switch x := e.(type) {
	case *ast.Ident:
		if x.Name == "true" || x.Name == "false" {
			return x.Name
		}
		if c, ok := t.consts[x.Name]; ok {
			return c
		}
		if _, ok := t.env[x.Name]; !ok {
			failf(t.pos(e), "unknown identifier %s", x.Name)
		}
		return id(x.Name)
	case *ast.BasicLit:
		switch x.Kind {
		case token.INT:
			v, err := strconv.ParseUint(strings.ReplaceAll(x.Value, "_", ""), 0, 64)
			if err != nil {
				failf(t.pos(e), "bad int literal %s", x.Value)
			}
			return fmt.Sprintf("(%d : Int)", v)
		case token.STRING:
			s, err := strconv.Unquote(x.Value)
			if err != nil {
				failf(t.pos(e), "bad string literal")
			}
			return bytesLit(s)
		}
	case *ast.ParenExpr:
		return "(" + t.expr(x.X) + ")"
	case *ast.StarExpr:
		return t.expr(x.X)
	case *ast.UnaryExpr:
		switch x.Op {
		case token.SUB:
			return wrap(t.exprType(x.X), "- "+t.expr(x.X))
		case token.NOT:
			return "(!" + t.expr(x.X) + ")"
		}
	case *ast.BinaryExpr:
		a, b := t.expr(x.X), t.expr(x.Y)
		ta, tb := t.exprType(x.X), t.exprType(x.Y)
		isStr := ta == tS || tb == tS
		switch x.Op {
		case token.ADD:
			if isStr {
				return "(" + a + " ++ " + b + ")"
			}
			return wrap(t.exprType(e), a+" + "+b)
		case token.SUB:
			return wrap(t.exprType(e), a+" - "+b)
		case token.MUL:
			return wrap(t.exprType(e), a+" * "+b)
		case token.LSS:
			if isStr {
				return "(strLt " + a + " " + b + ")"
			}
			return "(decide (" + a + " < " + b + "))"
		case token.GTR:
			if isStr {
				return "(strLt " + b + " " + a + ")"
			}
			return "(decide (" + a + " > " + b + "))"
		case token.LEQ:
			if isStr {
				return "(!(strLt " + b + " " + a + "))"
			}
			return "(decide (" + a + " ≤ " + b + "))"
		case token.GEQ:
			if isStr {
				return "(!(strLt " + a + " " + b + "))"
			}
			return "(decide (" + a + " ≥ " + b + "))"
		case token.EQL:
			return "(" + a + " == " + b + ")"
		case token.NEQ:
			return "(" + a + " != " + b + ")"
		case token.LAND:
			return "(" + a + " && " + b + ")"
		case token.LOR:
			return "(" + a + " || " + b + ")"
		}
	case *ast.CallExpr:
		if f, ok := x.Fun.(*ast.Ident); ok {
			switch f.Name {
			case "len":
				if a, ok := x.Args[0].(*ast.Ident); ok {
					if tb, ok := t.tables[a.Name]; ok {
						return fmt.Sprintf("(%d : Int)", len(tb.Elts))
					}
				}
				return "(goLen " + t.expr(x.Args[0]) + ")"
			case "int", "int64":
				return "(wrapI64 " + t.expr(x.Args[0]) + ")"
			case "uint64", "uint":
				return "(wrapU64 " + t.expr(x.Args[0]) + ")"
			case "append":
				var parts []string
				for _, a := range x.Args[1:] {
					parts = append(parts, t.expr(a))
				}
				return "(" + t.expr(x.Args[0]) + " ++ [" + strings.Join(parts, ", ") + "])"
			}
			if t.fnName != nil {
				if ln, ok := t.fnName(f.Name); ok {
					var parts []string
					for _, a := range x.Args {
						parts = append(parts, t.expr(a))
					}
					return "(" + ln + " " + strings.Join(parts, " ") + ")"
				}
			}
		}
	case *ast.SliceExpr:
		if x.Slice3 {
			break
		}
		lo, hi := "(0 : Int)", "(goLen "+t.expr(x.X)+")"
		if x.Low != nil {
			lo = t.expr(x.Low)
		}
		if x.High != nil {
			hi = t.expr(x.High)
		}
		return "(goSlice " + t.expr(x.X) + " " + lo + " " + hi + ")"
	case *ast.SelectorExpr:
		nm := id(strings.ReplaceAll(t.text(x), ".", "_"))
		if _, ok := t.env[nm]; ok {
			return nm
		}
		// field of a constant-indexed table element: T[c].f
		if ix, ok := x.X.(*ast.IndexExpr); ok {
			if tn, ok := ix.X.(*ast.Ident); ok {
				if tb, ok := t.tables[tn.Name]; ok {
					if c, ok := t.constInt(ix.Index); ok && c >= 0 && c < len(tb.Elts) {
						return t.expr(t.tableField(tb, c, x.Sel.Name, t.structFields(tb)))
					}
				}
			}
		}
	}
	failf(t.pos(e), "unsupported expression %s (%T)", t.text(e), e)
	return ""
}

func indent(s string) string { return "  " + strings.ReplaceAll(s, "\n", "\n  ") }

// stmts translates a statement list in continuation style: k() is the translation of whatever
// follows the list (it is only invoked on paths that fall through).
func (t *tr) stmts(list []ast.Stmt, k func() string) string {
	if len(list) == 0 {
		return k()
	}
	s := list[0]
	rest := func() string { return t.stmts(list[1:], k) }
	switch x := s.(type) {
	case *ast.ReturnStmt:
		if len(x.Results) == 0 {
			if t.outPar != "" {
				return id(t.outPar)
			}
			failf(t.pos(s), "naked return")
		}
		var parts []string
		for _, r := range x.Results {
			parts = append(parts, t.expr(r))
		}
		if len(parts) == 1 {
			return parts[0]
		}
		return "(" + strings.Join(parts, ", ") + ")"
	case *ast.AssignStmt:
		if len(x.Lhs) != len(x.Rhs) {
			failf(t.pos(s), "unsupported multi-value assignment")
		}
		if x.Tok != token.ASSIGN && x.Tok != token.DEFINE {
			failf(t.pos(s), "unsupported assignment operator %s", x.Tok)
		}
		var names, vals []string
		for i := range x.Lhs {
			var name string
			switch l := x.Lhs[i].(type) {
			case *ast.Ident:
				name = l.Name
			case *ast.StarExpr:
				if li, ok := l.X.(*ast.Ident); ok {
					name = li.Name
				}
			}
			if name == "" {
				failf(t.pos(s), "unsupported assignment target %s", t.text(x.Lhs[i]))
			}
			vals = append(vals, t.expr(x.Rhs[i]))
			if x.Tok == token.DEFINE || t.env[name] == tUnknown {
				tt := t.exprType(x.Rhs[i])
				if tt == tUntyped {
					tt = tI
				}
				t.env[name] = tt
			}
			names = append(names, id(name))
		}
		if len(names) == 1 {
			return "let " + names[0] + " := " + vals[0] + "\n" + rest()
		}
		return "let (" + strings.Join(names, ", ") + ") := (" + strings.Join(vals, ", ") + ")\n" + rest()
	case *ast.IncDecStmt:
		n, ok := x.X.(*ast.Ident)
		if !ok {
			failf(t.pos(s), "unsupported inc/dec target")
		}
		op := " + 1"
		if x.Tok == token.DEC {
			op = " - 1"
		}
		return "let " + id(n.Name) + " := " + wrap(t.env[n.Name], id(n.Name)+op) + "\n" + rest()
	case *ast.DeclStmt:
		gd, ok := x.Decl.(*ast.GenDecl)
		if !ok || gd.Tok != token.VAR {
			failf(t.pos(s), "unsupported declaration")
		}
		out := ""
		for _, sp := range gd.Specs {
			vs := sp.(*ast.ValueSpec)
			for i, nm := range vs.Names {
				tt := typeOfExpr(vs.Type)
				val := ""
				if i < len(vs.Values) {
					val = t.expr(vs.Values[i])
					if tt == tUnknown {
						tt = t.exprType(vs.Values[i])
					}
				} else {
					switch tt {
					case tI, tU:
						val = "(0 : Int)"
					case tB:
						val = "false"
					case tS:
						val = "([] : Bytes)"
					default:
						failf(t.pos(s), "unsupported zero value")
					}
				}
				t.env[nm.Name] = tt
				out += "let " + id(nm.Name) + " := " + val + "\n"
			}
		}
		return out + rest()
	case *ast.IfStmt:
		if x.Init != nil {
			failf(t.pos(s), "if with init statement")
		}
		c := t.expr(x.Cond)
		saved := t.copyEnv()
		thenS := t.stmts(x.Body.List, rest)
		t.env = saved
		var elseS string
		switch e := x.Else.(type) {
		case nil:
			elseS = rest()
		case *ast.BlockStmt:
			saved2 := t.copyEnv()
			elseS = t.stmts(e.List, rest)
			t.env = saved2
		case *ast.IfStmt:
			saved2 := t.copyEnv()
			elseS = t.stmts([]ast.Stmt{e}, rest)
			t.env = saved2
		}
		return "if " + c + " then\n" + indent(thenS) + "\nelse\n" + indent(elseS)
	case *ast.SwitchStmt:
		if x.Tag != nil || x.Init != nil {
			failf(t.pos(s), "only tag-less switch is supported")
		}
		// build an if-chain; default clause last
		var clauses []*ast.CaseClause
		var def *ast.CaseClause
		for _, cs := range x.Body.List {
			cc := cs.(*ast.CaseClause)
			if cc.List == nil {
				def = cc
			} else {
				clauses = append(clauses, cc)
			}
		}
		var build func(i int) string
		build = func(i int) string {
			if i == len(clauses) {
				if def != nil {
					saved := t.copyEnv()
					r := t.stmts(def.Body, rest)
					t.env = saved
					return r
				}
				return rest()
			}
			var conds []string
			for _, ce := range clauses[i].List {
				conds = append(conds, t.expr(ce))
			}
			saved := t.copyEnv()
			body := t.stmts(clauses[i].Body, rest)
			t.env = saved
			return "if " + strings.Join(conds, " || ") + " then\n" + indent(body) + "\nelse\n" + indent(build(i+1))
		}
		return build(0)
	case *ast.RangeStmt:
		// for _, v := range <package-level table literal> { body }  — unrolled
		tn, ok := x.X.(*ast.Ident)
		if !ok {
			failf(t.pos(s), "range over non-identifier")
		}
		tb, ok := t.tables[tn.Name]
		if !ok {
			failf(t.pos(s), "range over %s which is not a known table literal", tn.Name)
		}
		v, ok := x.Value.(*ast.Ident)
		if !ok {
			failf(t.pos(s), "range without value variable")
		}
		fields := t.structFields(tb)
		var unroll func(i int) string
		unroll = func(i int) string {
			if i == len(tb.Elts) {
				return rest()
			}
			pre := ""
			for _, f := range fields {
				fe := t.tableField(tb, i, f, fields)
				nm := v.Name + "_" + f
				t.env[nm] = tI
				if tt := t.exprType(fe); tt == tS || tt == tB {
					t.env[nm] = tt
				}
				pre += "let " + id(nm) + " := " + t.expr(fe) + "\n"
			}
			return pre + t.stmts(x.Body.List, func() string { return unroll(i + 1) })
		}
		return unroll(0)
	case *ast.ExprStmt, *ast.BlockStmt:
		if b, ok := s.(*ast.BlockStmt); ok {
			return t.stmts(append(append([]ast.Stmt{}, b.List...), list[1:]...), k)
		}
	}
	failf(t.pos(s), "unsupported statement %T", s)
	return ""
}

func (t *tr) copyEnv() map[string]ty {
	m := make(map[string]ty, len(t.env))
	for k, v := range t.env {
		m[k] = v
	}
	return m
}

// ---------------------------------------------------------------------------------------------

type source struct {
	fset *token.FileSet
	file *ast.File
	path string
}

func load(repo, rel string) *source {
	fset := token.NewFileSet()
	p := filepath.Join(repo, rel)
	f, err := parser.ParseFile(fset, p, nil, parser.ParseComments)
	if err != nil {
		panic(failure{fmt.Sprintf("cannot parse %s: %v", p, err)})
	}
	return &source{fset, f, rel}
}

func (s *source) funcDecl(name string) *ast.FuncDecl {
	for _, d := range s.file.Decls {
		if fd, ok := d.(*ast.FuncDecl); ok {
			n := fd.Name.Name
			if fd.Recv != nil && len(fd.Recv.List) == 1 {
				rt := fd.Recv.List[0].Type
				if st, ok := rt.(*ast.StarExpr); ok {
					rt = st.X
				}
				if ri, ok := rt.(*ast.Ident); ok {
					n = ri.Name + "." + n
				}
			}
			if n == name {
				return fd
			}
		}
	}
	panic(failure{fmt.Sprintf("%s: function %s not found", s.path, name)})
}

func (s *source) tables() map[string]*ast.CompositeLit {
	out := map[string]*ast.CompositeLit{}
	for _, d := range s.file.Decls {
		if gd, ok := d.(*ast.GenDecl); ok && gd.Tok == token.VAR {
			for _, sp := range gd.Specs {
				vs := sp.(*ast.ValueSpec)
				for i, nm := range vs.Names {
					if i < len(vs.Values) {
						if cl, ok := vs.Values[i].(*ast.CompositeLit); ok {
							if _, ok := cl.Type.(*ast.ArrayType); ok {
								out[nm.Name] = cl
							}
						}
					}
				}
			}
		}
	}
	return out
}

// intConsts returns the package-level integer constants of the file as Lean expressions.
func (s *source) intConsts() map[string]string {
	out := map[string]string{}
	for _, d := range s.file.Decls {
		if gd, ok := d.(*ast.GenDecl); ok && gd.Tok == token.CONST {
			for _, sp := range gd.Specs {
				vs := sp.(*ast.ValueSpec)
				for i, nm := range vs.Names {
					if i < len(vs.Values) {
						if v, ok := constEval(vs.Values[i], out); ok {
							out[nm.Name] = v
						}
					}
				}
			}
		}
	}
	return out
}

func constEval(e ast.Expr, known map[string]string) (string, bool) {
	switch x := e.(type) {
	case *ast.BasicLit:
		if x.Kind == token.INT {
			v, err := strconv.ParseUint(strings.ReplaceAll(x.Value, "_", ""), 0, 64)
			if err == nil {
				return fmt.Sprintf("(%d : Int)", v), true
			}
		}
	case *ast.Ident:
		if v, ok := known[x.Name]; ok {
			return v, true
		}
	case *ast.ParenExpr:
		return constEval(x.X, known)
	case *ast.BinaryExpr:
		a, ok1 := constEval(x.X, known)
		b, ok2 := constEval(x.Y, known)
		if ok1 && ok2 {
			switch x.Op {
			case token.MUL:
				return "(" + a + " * " + b + ")", true
			case token.ADD:
				return "(" + a + " + " + b + ")", true
			case token.SUB:
				return "(" + a + " - " + b + ")", true
			}
		}
	}
	return "", false
}

// translateFunc emits `def <leanName> (params) : <ret> := body`.
func translateFunc(s *source, goName, leanName string, fnName func(string) (string, bool)) string {
	fd := s.funcDecl(goName)
	t := &tr{fset: s.fset, file: s.file, env: map[string]ty{}, subst: map[string]string{}, substT: map[string]ty{}, tables: s.tables(), consts: s.intConsts(), fnName: fnName}
	var params []string
	for _, f := range fd.Type.Params.List {
		tt := typeOfExpr(f.Type)
		if tt == tUnknown {
			failf(t.pos(f), "unsupported parameter type in %s", goName)
		}
		for _, nm := range f.Names {
			t.env[nm.Name] = tt
			params = append(params, fmt.Sprintf("(%s : %s)", id(nm.Name), tt.lean()))
			if _, isPtr := f.Type.(*ast.StarExpr); isPtr && tt == tLS {
				t.outPar = nm.Name
			}
		}
	}
	var rets []string
	if fd.Type.Results != nil {
		for _, f := range fd.Type.Results.List {
			tt := typeOfExpr(f.Type)
			if tt == tUnknown {
				failf(t.pos(f), "unsupported result type in %s", goName)
			}
			n := len(f.Names)
			if n == 0 {
				n = 1
			}
			for i := 0; i < n; i++ {
				rets = append(rets, tt.lean())
			}
		}
	} else if t.outPar != "" {
		rets = []string{"List Bytes"}
	}
	body := t.stmts(fd.Body.List, func() string {
		if t.outPar != "" {
			return id(t.outPar)
		}
		failf(t.pos(fd), "%s: control reaches end of function without return", goName)
		return ""
	})
	pos := s.fset.Position(fd.Pos())
	return fmt.Sprintf("/-- generated from %s:%d `%s` -/\ndef %s %s : %s :=\n%s\n", s.path, pos.Line, goName, leanName, strings.Join(params, " "), strings.Join(rets, " × "), indent(body))
}

// translateSortComparators finds, inside function fn, every `case <label>: sort.Slice(X, func(i, j int) bool {...})`
// and emits one Lean comparator per case label over two key strings a b
// (X[i].key ↦ a, X[j].key ↦ b).
func translateSortComparators(s *source, fn string, keyField string, leanPrefix string) (string, []string) {
	fd := s.funcDecl(fn)
	var out strings.Builder
	var names []string
	ast.Inspect(fd.Body, func(n ast.Node) bool {
		cc, ok := n.(*ast.CaseClause)
		if !ok || len(cc.List) != 1 {
			return true
		}
		label := ""
		switch l := cc.List[0].(type) {
		case *ast.SelectorExpr:
			label = l.Sel.Name
		case *ast.Ident:
			label = l.Name
		}
		for _, st := range cc.Body {
			es, ok := st.(*ast.ExprStmt)
			if !ok {
				continue
			}
			call, ok := es.X.(*ast.CallExpr)
			if !ok || len(call.Args) != 2 {
				continue
			}
			sel, ok := call.Fun.(*ast.SelectorExpr)
			if !ok || sel.Sel.Name != "Slice" {
				continue
			}
			if pk, ok := sel.X.(*ast.Ident); !ok || pk.Name != "sort" {
				continue
			}
			fl, ok := call.Args[1].(*ast.FuncLit)
			if !ok || len(fl.Type.Params.List) == 0 {
				continue
			}
			var pn []string
			for _, f := range fl.Type.Params.List {
				for _, nm := range f.Names {
					pn = append(pn, nm.Name)
				}
			}
			if len(pn) != 2 {
				continue
			}
			t := &tr{fset: s.fset, file: s.file, env: map[string]ty{}, subst: map[string]string{}, substT: map[string]ty{}, tables: s.tables(), consts: s.intConsts()}
			slice := t.text(call.Args[0])
			t.subst[slice+"["+pn[0]+"]."+keyField] = "a"
			t.subst[slice+"["+pn[1]+"]."+keyField] = "b"
			t.substT[slice+"["+pn[0]+"]."+keyField] = tS
			t.substT[slice+"["+pn[1]+"]."+keyField] = tS
			body := t.stmts(fl.Body.List, func() string { failf(t.pos(fl), "comparator falls off the end"); return "" })
			name := leanPrefix + "_" + label
			names = append(names, name)
			pos := s.fset.Position(fl.Pos())
			fmt.Fprintf(&out, "/-- generated from %s:%d comparator under `case %s` in `%s` (less-than on keys) -/\ndef %s (a b : Bytes) : Bool :=\n%s\n\n", s.path, pos.Line, label, fn, name, indent(body))
		}
		return true
	})
	return out.String(), names
}

const header = "-- GENERATED by /verif/go/cmd/translate from /repo's current source. DO NOT EDIT.\nimport IpldModel.Model.GoPrelude\nnamespace Ipld.Generated\nopen Ipld\n\n"

type genFile struct {
	name string
	gen  func(repo string) string
}

func genFiles() []genFile {
	return []genFile{
		{"CborMarshal", func(repo string) string {
			s := load(repo, "codec/dagcbor/marshal.go")
			out := translateFunc(s, "uintLength", "uintLength_src", nil) + "\n"
			cmp, names := translateSortComparators(s, "marshalMap", "key", "cborLess_src")
			sort.Strings(names)
			want := []string{"cborLess_src_MapSortMode_Lexical", "cborLess_src_MapSortMode_RFC7049"}
			if strings.Join(names, ",") != strings.Join(want, ",") {
				panic(failure{fmt.Sprintf("codec/dagcbor/marshal.go marshalMap: expected sort comparators %v, found %v", want, names)})
			}
			return out + cmp
		}},
		{"SliceBounds", func(repo string) string {
			s := load(repo, "traversal/selector/matcher.go")
			return translateFunc(s, "sliceBounds", "sliceBounds_src", nil)
		}},
		{"Sharding", func(repo string) string {
			s := load(repo, "storage/sharding/sharding.go")
			return translateFunc(s, "Shard_r133", "shard_r133_src", nil) + "\n" +
				translateFunc(s, "Shard_r122", "shard_r122_src", nil) + "\n" +
				translateFunc(s, "Shard_r12", "shard_r12_src", nil)
		}},
	}
}

func main() {
	if len(os.Args) != 3 {
		fmt.Fprintln(os.Stderr, "usage: translate <repo> <outdir>")
		os.Exit(2)
	}
	repo, outdir := os.Args[1], os.Args[2]
	if err := os.MkdirAll(outdir, 0o755); err != nil {
		fmt.Fprintln(os.Stderr, err)
		os.Exit(2)
	}
	status := 0
	for _, g := range append(genFiles(), extraGenFiles()...) {
		func() {
			defer func() {
				if r := recover(); r != nil {
					f, ok := r.(failure)
					if !ok {
						panic(r)
					}
					// fail closed: the generated file states the failure so that every theorem depending on it breaks
					fmt.Fprintf(os.Stderr, "translate: %s: %s\n", g.name, f.msg)
					body := header + "-- TRANSLATION FAILED: " + strings.ReplaceAll(f.msg, "\n", " ") + "\n#eval (throw (IO.userError \"translation of " + g.name + " failed\") : IO Unit)\nend Ipld.Generated\n"
					_ = os.WriteFile(filepath.Join(outdir, g.name+".lean"), []byte(body), 0o644)
					status = 1
				}
			}()
			body := header + g.gen(repo) + "\nend Ipld.Generated\n"
			p := filepath.Join(outdir, g.name+".lean")
			if old, err := os.ReadFile(p); err == nil && string(old) == body {
				return // unchanged: keep mtime so lake does not rebuild
			}
			if err := os.WriteFile(p, []byte(body), 0o644); err != nil {
				panic(err)
			}
		}()
	}
	os.Exit(status)
}
