/-
  C06 — no load returns data that does not hash to its link, whatever the storage does.
  Property theorems only.  All statements are for an arbitrary hash function `H`
  (hence "modulo collisions" by construction), an arbitrary reader (any content, a read error at any
  offset) and an arbitrary decoder behaviour (pulls any number of bytes, succeeds or fails).
-/
import IpldModel.Model.Link
import IpldModel.Model.Cbor
import IpldModel.Generated.LinkSkeletons
namespace Ipld.Props.C06
open Ipld Ipld.Link

variable (H : Nat → Bytes → Bytes)

/-- Untrusted storage: whenever `Fill` succeeds, the bytes the hasher saw hash to the link. -/
theorem fill_ok_hashes (l : Lnk) (s : Stream) (d : DecRun) (h : fill H false l s d = .ok) :
    hashesTo H l (hasherSaw s d) = true := by
  unfold fill at h
  simp only [Bool.false_eq_true, if_false] at h
  unfold hasherSaw
  by_cases hf : d.failed = true
  · simp only [hf, if_true] at h
    cases hfa : s.failAt with
    | some f => simp [hfa] at h
    | none =>
      simp only [hfa] at h
      split at h <;> simp at h
  · simp only [hf, if_false, Bool.false_eq_true] at h ⊢
    split at h
    · assumption
    · simp at h

/-- If the decoder consumes the whole block whenever it succeeds (true of every bundled codec: dag-cbor
    probes for a trailing byte, dag-json slurps to EOF, raw reads everything), a successful `Fill` means
    the *whole block* hashes to the link. -/
theorem fill_ok_whole_block (l : Lnk) (s : Stream) (d : DecRun)
    (consumesAll : d.failed = false → s.failAt = none ∧ s.data.length ≤ d.pulled)
    (h : fill H false l s d = .ok) : s.failAt = none ∧ hashesTo H l s.data = true := by
  have hs := fill_ok_hashes H l s d h
  unfold fill at h
  simp only [Bool.false_eq_true, if_false] at h
  by_cases hf : d.failed = true
  · simp only [hf, if_true] at h
    cases hfa : s.failAt with
    | some f => simp [hfa] at h
    | none => simp only [hfa] at h; split at h <;> simp at h
  · have hf' : d.failed = false := by simpa using hf
    obtain ⟨h1, h2⟩ := consumesAll hf'
    refine ⟨h1, ?_⟩
    simp only [hasherSaw, hf', Bool.false_eq_true, if_false, Stream.deliverable, h1] at hs
    rwa [List.take_of_length_le h2] at hs

/-- The hash verdict takes precedence over the decoder's: with no I/O error, a block that does not
    hash to the link yields `hashMismatch` even though decoding failed (first). -/
theorem mismatch_precedes_decode (l : Lnk) (s : Stream) (d : DecRun)
    (hio : s.failAt = none) (hbad : hashesTo H l s.data = false) (hd : d.failed = true) :
    fill H false l s d = .hashMismatch := by
  simp [fill, hio, hbad, hd]

/-- …and a successful decode of bytes that do not hash to the link is a `hashMismatch` too. -/
theorem mismatch_on_success (l : Lnk) (s : Stream) (d : DecRun)
    (hd : d.failed = false) (hbad : hashesTo H l (s.deliverable.take d.pulled) = false) :
    fill H false l s d = .hashMismatch := by
  simp [fill, hbad, hd]

/-- A read error surfaces as an I/O error (never as data, never as a decode verdict). -/
theorem io_surfaces (l : Lnk) (s : Stream) (d : DecRun) (f : Nat)
    (hio : s.failAt = some f) (hd : d.failed = true) :
    fill H false l s d = .ioErr := by
  simp [fill, hio, hd]

/-- `LoadRaw` returns bytes only together with `ok`, and then they are the whole block and hash to the link. -/
theorem loadRaw_ok_hashes (l : Lnk) (s : Stream) (b : Bytes) (r : Res)
    (h : loadRaw H l s = (r, some b)) : r = .ok ∧ b = s.data ∧ hashesTo H l b = true := by
  unfold loadRaw at h
  cases hfa : s.failAt with
  | some f => simp [hfa] at h
  | none =>
    simp only [hfa] at h
    split at h
    · rename_i hh
      simp only [Prod.mk.injEq, Option.some.injEq] at h
      obtain ⟨h1, h2⟩ := h
      subst h2
      exact ⟨h1.symm, rfl, hh⟩
    · simp at h

/-- A store whose encoder fails, or whose storage writer fails on any write, never reaches the committer. -/
theorem store_fail_no_commit (p : Proto) (e : EncRun)
    (h : e.encFails = true ∨ ∃ j, e.writerFailsAt = some j ∧ j < e.writes.length) :
    store H p e = .failed := by
  unfold store
  rcases h with h | ⟨j, hj, hlt⟩
  · cases hw : e.writerFailsAt with
    | none => simp [h]
    | some j => simp [h]
  · simp [hj, hlt]

/-- dag-cbor (model): a successful decode in the default mode has consumed every byte it was given. -/
theorem dagcbor_ok_consumes_all (cfg : Cbor.DecCfg) (bs : Bytes) (v : DM)
    (hm : cfg.dontParseBeyondEnd = false) (h : Cbor.decode cfg bs = .ok v) :
    ∃ st, Cbor.decItem cfg (bs.length + 1) 0 0 none { rest := bs, budget := cfg.budget } = .ok (v, st) ∧ st.rest = [] := by
  unfold Cbor.decode at h
  cases hd : Cbor.decItem cfg (bs.length + 1) 0 0 none { rest := bs, budget := cfg.budget } with
  | error e => simp [hd, bind, Except.bind] at h
  | ok r =>
    obtain ⟨v', st⟩ := r
    simp only [hd, bind, Except.bind, hm, Bool.false_eq_true, if_false, pure, Except.pure] at h
    by_cases he : st.rest.isEmpty = true
    · simp only [he, if_true, Except.ok.injEq] at h
      subst h
      exact ⟨st, rfl, by simpa using he⟩
    · simp [he] at h

/-! Non-vacuity: a concrete run of each shape (with a toy hash so that everything evaluates). -/
def toyH : Nat → Bytes → Bytes := fun _ b => [UInt8.ofNat b.length, b.headD 0]
def toyL : Lnk := ⟨1, 0x71, 0x12, [2, 0xf5]⟩
example : fill toyH false toyL ⟨[0xf5, 0x00], none⟩ ⟨2, false⟩ = .ok := by decide
example : fill toyH false toyL ⟨[0xf4, 0x00], none⟩ ⟨2, true⟩ = .hashMismatch := by decide
example : fill toyH false toyL ⟨[0xf5, 0x00], some 1⟩ ⟨1, true⟩ = .ioErr := by decide
example : store toyH ⟨1, 0x71, 0x12, -1⟩ ⟨[[0xf5], [0x00]], false, some 1⟩ = .failed := by decide


/-! ## (T) the transcribed functions as they are in the source on this run -/

/-- `Fill` (and `Load` through it): unless storage is declared trusted the decoder reads through a tee into the hasher; on a decode error the rest of the stream is drained into the hasher (an I/O error there is returned as such); the hash comparison comes next and returns `ErrHashMismatch`; only then is the decode error admitted.  There is no return between the decoder call and the hash comparison other than the I/O error of the drain — which is `Link.fill`. -/
theorem fill_src_is_transcribed : Ipld.Generated.fill_skel_src = [
  "if lnkCtx.Ctx == nil",
  ". lnkCtx.Ctx = context.Background()",
  "decoder, err := lsys.DecoderChooser(lnk)",
  "if err != nil",
  ". return ErrLinkingSetup{\"could not choose a decoder\", err}",
  "hasher, err := lsys.HasherChooser(lnk.Prototype())",
  "if err != nil",
  ". return ErrLinkingSetup{\"could not choose a hasher\", err}",
  "if lsys.StorageReadOpener == nil",
  ". return ErrLinkingSetup{\"no storage configured for reading\", io.ErrClosedPipe}",
  "reader, err := lsys.StorageReadOpener(lnkCtx, lnk)",
  "if err != nil",
  ". return err",
  "if closer, ok := reader.(io.Closer); ok",
  ". defer closer.Close()",
  "if lsys.TrustedStorage",
  ". return decoder(na, reader)",
  "tee := io.TeeReader(reader, hasher)",
  "decodeErr := decoder(na, tee)",
  "if decodeErr != nil",
  ". _, err := io.Copy(hasher, reader)",
  ". if err != nil",
  ". . return err",
  "hash := hasher.Sum(nil)",
  "lnk2 := lnk.Prototype().BuildLink(hash)",
  "if lnk2.Binary() != lnk.Binary()",
  ". return ErrHashMismatch{Actual: lnk2, Expected: lnk}",
  "if decodeErr != nil",
  ". return decodeErr",
  "return nil"
] := by decide

/-- `LoadRaw` buffers the whole stream (an I/O error returns no bytes), hashes the buffer, compares links, and only then hands the bytes out (`Link.loadRaw`). -/
theorem loadRaw_src_is_transcribed : Ipld.Generated.loadRaw_skel_src = [
  "if lnkCtx.Ctx == nil",
  ". lnkCtx.Ctx = context.Background()",
  "hasher, err := lsys.HasherChooser(lnk.Prototype())",
  "if err != nil",
  ". return nil, ErrLinkingSetup{\"could not choose a hasher\", err}",
  "if lsys.StorageReadOpener == nil",
  ". return nil, ErrLinkingSetup{\"no storage configured for reading\", io.ErrClosedPipe}",
  "reader, err := lsys.StorageReadOpener(lnkCtx, lnk)",
  "if err != nil",
  ". return nil, err",
  "if closer, ok := reader.(io.Closer); ok",
  ". defer closer.Close()",
  "var buf bytes.Buffer",
  "if _, err := io.Copy(&buf, reader); err != nil",
  ". return nil, err",
  "hasher.Write(buf.Bytes())",
  "hash := hasher.Sum(nil)",
  "lnk2 := lnk.Prototype().BuildLink(hash)",
  "if lnk2.Binary() != lnk.Binary()",
  ". return nil, ErrHashMismatch{Actual: lnk2, Expected: lnk}",
  "return buf.Bytes(), nil"
] := by decide

end Ipld.Props.C06
