/-
  Primitives shared by Spec and Model: the CID byte grammar (go-cid `Cast`, go-multihash, go-varint)
  and IEEE-754 widening of 16/32-bit floats to 64-bit bit patterns.  Core Lean only.
-/
import IpldModel.Model.DM
namespace Ipld

/-! ## CID grammar (go-cid `Cast`, go-multihash, go-varint) -/

/-- go-varint `FromUvarint`: at most 9 bytes, the ninth below 0x80, minimal. Returns value and rest. -/
def uvarintAux : Nat → Nat → Nat → Bytes → Option (Nat × Bytes)
  | _, _, _, [] => none
  | i, x, s, b :: bs =>
    if (i == 8 && b.toNat ≥ 128) || i ≥ 9 then none
    else if b.toNat < 128 then
      if b.toNat == 0 && s > 0 then none else some (x + b.toNat * 2 ^ s, bs)
    else uvarintAux (i + 1) (x + (b.toNat % 128) * 2 ^ s) (s + 7) bs

def uvarint (bs : Bytes) : Option (Nat × Bytes) := uvarintAux 0 0 0 bs

/-- `multihash` grammar: code varint, length varint (≤ 2^31-1), exactly that many digest bytes,
    and the buffer holds at least 2 bytes.  Returns the rest after the multihash. -/
def multihashPrefix (bs : Bytes) : Option Bytes :=
  if bs.length < 2 then none else
  match uvarint bs with
  | none => none
  | some (_, r1) =>
    match uvarint r1 with
    | none => none
    | some (len, r2) =>
      if len > 2147483647 then none
      else if len > r2.length then none
      else some (r2.drop len)

/-- `cid.Cast` accepts exactly these byte strings. -/
def cidValid (bs : Bytes) : Bool :=
  match bs with
  | 0x12 :: 0x20 :: _ :: _ => bs.length == 34
  | _ =>
    match uvarint bs with
    | none => false
    | some (vers, r1) =>
      if vers != 1 then false else
      match uvarint r1 with
      | none => false
      | some (_, r2) =>
        match multihashPrefix r2 with
        | some [] => true
        | _ => false

/-! ## Float widening on bit patterns -/

def highBit : Nat → Nat → Nat   -- index of the highest set bit among the low `w` bits (0 if none)
  | 0, _ => 0
  | w + 1, m => if m / 2 ^ w % 2 = 1 then w else highBit w m

/-- Widen a narrow float given sign, exponent field, mantissa field, their widths and bias, to f64 bits. -/
def widen (ebits mbits : Nat) (s e m : Nat) : Nat :=
  let bias := 2 ^ (ebits - 1) - 1
  let emax := 2 ^ ebits - 1
  if e = 0 then
    if m = 0 then s * 2 ^ 63
    else
      let p := highBit mbits m
      -- value = m * 2^(1 - bias - mbits) = 2^(p + 1 - bias - mbits) * (1 + frac)
      s * 2 ^ 63 + (p + 1 + 1023 - bias - mbits) * 2 ^ 52 + (m - 2 ^ p) * 2 ^ (52 - p)
  else if e = emax then
    if m = 0 then s * 2 ^ 63 + 2047 * 2 ^ 52
    else s * 2 ^ 63 + 2047 * 2 ^ 52 + 2 ^ 51 + m * 2 ^ (52 - mbits) % 2 ^ 51  -- quiet NaN, payload kept
  else s * 2 ^ 63 + (e + 1023 - bias) * 2 ^ 52 + m * 2 ^ (52 - mbits)

def f16to64 (h : Nat) : Nat := widen 5 10 (h / 32768) (h / 1024 % 32) (h % 1024)
def f32to64 (w : Nat) : Nat := widen 8 23 (w / 2147483648) (w / 8388608 % 256) (w % 8388608)

def f64IsNaN (b : Nat) : Bool := b / 2 ^ 52 % 2048 = 2047 && b % 2 ^ 52 ≠ 0
def f64IsInf (b : Nat) : Bool := b / 2 ^ 52 % 2048 = 2047 && b % 2 ^ 52 = 0


end Ipld
