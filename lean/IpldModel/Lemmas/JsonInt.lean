/-
  Decimal integer round trip (strconv.AppendInt / ParseInt base 10 as modelled in `Model/JsonText`):
  `parseInt (emitInt i) = some i`.  DESIGN §5 C04.  Core Lean only.
-/
import IpldModel.Model.JsonText
namespace Ipld.Json

/-- the step function of `parseNatDigits` -/
def natDigitStep (acc : Nat) (d : UInt8) : Option Nat :=
  if 48 ≤ d.toNat ∧ d.toNat ≤ 57 then some (acc * 10 + (d.toNat - 48)) else none

theorem toNat_ofNat_digit (d : Nat) (h : d < 10) : (UInt8.ofNat (48 + d)).toNat = 48 + d := by
  rw [UInt8.toNat_ofNat']; omega

theorem natDigitStep_digit (acc d : Nat) (h : d < 10) :
    natDigitStep acc (UInt8.ofNat (48 + d)) = some (acc * 10 + d) := by
  unfold natDigitStep
  rw [toNat_ofNat_digit d h]
  rw [if_pos (by omega)]
  congr 2
  omega

theorem natDigits_ne_nil (fuel n : Nat) : natDigits (fuel + 1) n ≠ [] := by
  unfold natDigits
  split <;> simp

theorem natDigits_foldlM : ∀ (fuel n : Nat), n < fuel →
    (natDigits fuel n).foldlM natDigitStep 0 = some n
  | 0, _, h => by omega
  | fuel + 1, n, h => by
    unfold natDigits
    split
    · rename_i h10
      simp only [List.foldlM_cons, List.foldlM_nil, natDigitStep_digit 0 n h10]
      simp
    · rename_i h10
      have ih := natDigits_foldlM fuel (n / 10) (by omega)
      rw [List.foldlM_append, ih]
      simp only [Option.bind_eq_bind, Option.bind_some, List.foldlM_cons, List.foldlM_nil,
        natDigitStep_digit (n / 10) (n % 10) (by omega)]
      simp only [Option.pure_def]
      congr 1
      omega

/-- every byte of `natDigits` is an ASCII digit -/
theorem natDigits_all_digit : ∀ (fuel n : Nat) (d : UInt8), d ∈ natDigits fuel n →
    48 ≤ d.toNat ∧ d.toNat ≤ 57
  | 0, _, d, h => by simp [natDigits] at h
  | fuel + 1, n, d, h => by
    unfold natDigits at h
    split at h
    · rename_i h10
      simp only [List.mem_singleton] at h
      subst h; rw [toNat_ofNat_digit n h10]; omega
    · simp only [List.mem_append, List.mem_singleton] at h
      cases h with
      | inl h => exact natDigits_all_digit fuel (n / 10) d h
      | inr h => subst h; rw [toNat_ofNat_digit (n % 10) (by omega)]; omega

theorem parseNatDigits_emitNat (n : Nat) : parseNatDigits (emitNat n) = some n := by
  have hne := natDigits_ne_nil n n
  have hf := natDigits_foldlM (n + 1) n (by omega)
  unfold emitNat parseNatDigits
  split
  · rename_i heq; exact absurd heq hne
  · exact hf

theorem parseInt_of_nonneg (n : Nat) : parseInt (emitNat n) = some (n : Int) := by
  unfold parseInt
  split
  · rename_i ds heq
    have := natDigits_all_digit (n + 1) n 0x2d (by unfold emitNat at heq; rw [heq]; simp)
    simp at this
  · rw [parseNatDigits_emitNat]; rfl

theorem parseInt_emitInt (i : Int) : parseInt (emitInt i) = some i := by
  unfold emitInt
  split
  · rename_i hneg
    simp only [parseInt, parseNatDigits_emitNat]
    simp only [Option.bind_eq_bind, Option.bind_some, Option.pure_def, Option.map_some]
    congr 1; omega
  · rename_i hnn
    rw [parseInt_of_nonneg]
    congr 1; omega

end Ipld.Json
