/-
  The refmt JSON encoder state machine accepts every token stream the DAG-JSON marshaller produces:
  marshalled streams are well-formed value token lists (`VTok`), and the emitter, started in a state
  that expects a value, consumes a well-formed value and returns to the state of the enclosing container.
-/
import IpldModel.Lemmas.CborSort
import IpldModel.Model.JsonTok
set_option linter.unusedSimpArgs false
namespace Ipld
namespace Json
open Cbor

/-- token lists that spell one value, every scalar of which the emitter can write -/
inductive VTok (fmtF : UInt64 → Option Bytes) : List JTok → Prop
  | scalar (t : JTok) (w : Bytes) (h : scalarText fmtF t = some w) : VTok fmtF [t]
  | arr (items : List (List JTok)) (h : ∀ i ∈ items, VTok fmtF i) :
      VTok fmtF (.arrOpen :: (items.flatten ++ [.arrClose]))
  | map (ps : List (Bytes × List JTok)) (h : ∀ p ∈ ps, VTok fmtF p.2) :
      VTok fmtF (.mapOpen :: (flattenTokPairs ps ++ [.mapClose]))

def Ready (st : EmitSt) : Prop :=
  st.done = false ∧
  ((st.stack = [] ∧ st.current = .anyValue) ∨
   (st.stack.getLast? = some .mapKeyOrEnd ∧ st.current = .mapValue) ∨
   (st.stack.getLast? = some .arrValueOrEnd ∧ st.current = .arrValueOrEnd))

def After (st st' : EmitSt) : Prop :=
  (st.stack = [] → st'.done = true) ∧
  (st.stack ≠ [] → st'.done = false ∧ st'.stack = st.stack ∧ some st'.current = st.stack.getLast?)

/-- inside a container of phase `p`, between entries -/
def Inside (p : Phase) (st : EmitSt) : Prop :=
  st.done = false ∧ st.stack.getLast? = some p ∧ st.current = p

variable (lay : Layout) (fmtF : UInt64 → Option Bytes)

theorem emit_scalar (t : JTok) (w : Bytes) (h : scalarText fmtF t = some w) (st : EmitSt) (hr : Ready st) :
    ∃ st', emitStep lay fmtF st t = some st' ∧ After st st' := by
  obtain ⟨hd, hc⟩ := hr
  rcases hc with ⟨h1, h2⟩ | ⟨h1, h2⟩ | ⟨h1, h2⟩
  · cases t <;> simp [scalarText] at h <;> simp [emitStep, hd, h2, h, scalarText, After, h1]
  · have hne : st.stack ≠ [] := by intro e; simp [e] at h1
    cases t <;> simp [scalarText] at h <;> simp [emitStep, hd, h2, h, scalarText, After, h1, hne]
  · have hne : st.stack ≠ [] := by intro e; simp [e] at h1
    cases t <;> simp [scalarText] at h <;> simp [emitStep, hd, h2, h, scalarText, After, h1, hne, entrySep]


/-- opening a container from a state that expects a value -/
theorem emit_open (t : JTok) (p : Phase)
    (ht : (t = .arrOpen ∧ p = .arrValueOrEnd) ∨ (t = .mapOpen ∧ p = .mapKeyOrEnd))
    (st : EmitSt) (hr : Ready st) :
    ∃ st1, emitStep lay fmtF st t = some st1 ∧ st1.stack = st.stack ++ [p] ∧ Inside p st1 := by
  obtain ⟨hd, hc⟩ := hr
  rcases ht with ⟨rfl, rfl⟩ | ⟨rfl, rfl⟩ <;> rcases hc with ⟨h1, h2⟩ | ⟨h1, h2⟩ | ⟨h1, h2⟩ <;>
    simp [emitStep, hd, h2, EmitSt.push, Inside, entrySep]

/-- closing the container that was opened from `st` -/
theorem emit_close (t : JTok) (p : Phase)
    (ht : (t = .arrClose ∧ p = .arrValueOrEnd) ∨ (t = .mapClose ∧ p = .mapKeyOrEnd))
    (st st2 : EmitSt) (hs : st2.stack = st.stack ++ [p]) (hi : Inside p st2) :
    ∃ st', emitStep lay fmtF st2 t = some st' ∧ After st st' := by
  obtain ⟨hd, _, hc⟩ := hi
  have hpop : ∀ (st3 : EmitSt) (w : Bytes), st3.stack = st.stack ++ [p] → st3.done = false →
      ∃ st', EmitSt.pop lay st3 w = some st' ∧ After st st' := by
    intro st3 w hs hd
    unfold EmitSt.pop
    simp only [hs, List.length_append, List.length_cons, List.length_nil, Nat.add_sub_cancel]
    have hne : ¬ ((st.stack ++ [p]).isEmpty = true) := by simp
    simp only [hne, if_false, Bool.false_eq_true]
    by_cases h0 : st.stack.length = 0
    · have : st.stack = [] := List.length_eq_zero_iff.mp h0
      simp [h0, After, this]
    · have hne' : st.stack ≠ [] := fun e => h0 (by simp [e])
      simp only [Nat.zero_add, h0, if_false]
      refine ⟨_, rfl, ?_⟩
      refine ⟨fun e => absurd e hne', fun _ => ⟨hd, by simp, ?_⟩⟩
      simp only [List.getD_eq_getElem?_getD]
      have hlt : st.stack.length - 1 < st.stack.length := by omega
      rw [List.getElem?_append_left hlt, List.getLast?_eq_getElem?]
      cases h : st.stack[st.stack.length - 1]? with
      | none => simp [List.getElem?_eq_none_iff] at h; omega
      | some x => simp
  rcases ht with ⟨rfl, rfl⟩ | ⟨rfl, rfl⟩
  · simp only [emitStep, hd, hc, Bool.false_eq_true, if_false]
    exact hpop _ _ hs rfl
  · simp only [emitStep, hd, hc, Bool.false_eq_true, if_false]
    exact hpop _ _ hs rfl


def Emits (ts : List JTok) : Prop :=
  ∀ st, Ready st → ∃ st', ts.foldlM (emitStep lay fmtF) st = some st' ∧ After st st'

theorem Inside.ne {p : Phase} {st : EmitSt} (h : Inside p st) : st.stack ≠ [] := by
  intro e; have := h.2.1; simp [e] at this

theorem emit_items (items : List (List JTok)) (h : ∀ i ∈ items, Emits lay fmtF i) :
    ∀ st1, Inside .arrValueOrEnd st1 →
    ∃ st2, items.flatten.foldlM (emitStep lay fmtF) st1 = some st2 ∧ st2.stack = st1.stack ∧ Inside .arrValueOrEnd st2 := by
  induction items with
  | nil => intro st1 hi; exact ⟨st1, by simp [List.foldlM], rfl, hi⟩
  | cons i items ih =>
    intro st1 hi
    obtain ⟨st', e1, ha⟩ := h i List.mem_cons_self st1 ⟨hi.1, Or.inr (Or.inr ⟨hi.2.1, hi.2.2⟩)⟩
    obtain ⟨hd', hs', hc'⟩ := ha.2 hi.ne
    have hi' : Inside .arrValueOrEnd st' := by
      refine ⟨hd', by rw [hs']; exact hi.2.1, ?_⟩
      rw [hi.2.1] at hc'; exact (Option.some.inj hc')
    obtain ⟨st2, e2, hs2, hi2⟩ := ih (fun j hj => h j (List.mem_cons_of_mem _ hj)) st' hi'
    refine ⟨st2, ?_, by rw [hs2, hs'], hi2⟩
    simp only [List.flatten_cons, List.foldlM_append, e1, Option.bind_eq_bind, Option.bind_some, e2]

theorem emit_pairs (ps : List (Bytes × List JTok)) (h : ∀ p ∈ ps, Emits lay fmtF p.2) :
    ∀ st1, Inside .mapKeyOrEnd st1 →
    ∃ st2, (flattenTokPairs ps).foldlM (emitStep lay fmtF) st1 = some st2 ∧ st2.stack = st1.stack ∧ Inside .mapKeyOrEnd st2 := by
  induction ps with
  | nil => intro st1 hi; exact ⟨st1, by simp [flattenTokPairs, List.foldlM], rfl, hi⟩
  | cons p ps ih =>
    intro st1 hi
    obtain ⟨k, ts⟩ := p
    -- the key
    have ek : ∃ stk, emitStep lay fmtF st1 (.str k) = some stk ∧ stk.stack = st1.stack ∧ stk.done = false ∧ stk.current = .mapValue := by
      simp [emitStep, hi.1, hi.2.2, entrySep]
    obtain ⟨stk, e0, hsk, hdk, hck⟩ := ek
    obtain ⟨st', e1, ha⟩ := h (k, ts) List.mem_cons_self stk ⟨hdk, Or.inr (Or.inl ⟨by rw [hsk]; exact hi.2.1, hck⟩)⟩
    have hnek : stk.stack ≠ [] := by rw [hsk]; exact hi.ne
    obtain ⟨hd', hs', hc'⟩ := ha.2 hnek
    have hi' : Inside .mapKeyOrEnd st' := by
      refine ⟨hd', by rw [hs', hsk]; exact hi.2.1, ?_⟩
      rw [hsk, hi.2.1] at hc'; exact (Option.some.inj hc')
    obtain ⟨st2, e2, hs2, hi2⟩ := ih (fun j hj => h j (List.mem_cons_of_mem _ hj)) st' hi'
    refine ⟨st2, ?_, by rw [hs2, hs', hsk], hi2⟩
    have : flattenTokPairs ((k, ts) :: ps) = .str k :: (ts ++ flattenTokPairs ps) := by
      simp [flattenTokPairs]
    rw [this]
    simp only [List.foldlM_cons, e0, List.foldlM_append, e1, Option.bind_eq_bind, Option.bind_some, e2]

/-- the emitter accepts every well-formed value token list -/
theorem emit_VTok {ts : List JTok} (h : VTok fmtF ts) : Emits lay fmtF ts := by
  induction h with
  | scalar t w h =>
    intro st hr
    obtain ⟨st', h1, h2⟩ := emit_scalar lay fmtF t w h st hr
    exact ⟨st', by simp [List.foldlM, h1], h2⟩
  | arr items _ ih =>
    intro st hr
    obtain ⟨st1, e1, hs1, hi1⟩ := emit_open lay fmtF .arrOpen .arrValueOrEnd (Or.inl ⟨rfl, rfl⟩) st hr
    obtain ⟨st2, e2, hs2, hi2⟩ := emit_items lay fmtF items ih st1 hi1
    obtain ⟨st', e3, ha⟩ := emit_close lay fmtF .arrClose .arrValueOrEnd (Or.inl ⟨rfl, rfl⟩) st st2 (by rw [hs2, hs1]) hi2
    refine ⟨st', ?_, ha⟩
    simp only [List.foldlM_cons, e1, List.foldlM_append, e2, Option.bind_eq_bind, Option.bind_some, List.foldlM_nil, e3]
    rfl
  | map ps _ ih =>
    intro st hr
    obtain ⟨st1, e1, hs1, hi1⟩ := emit_open lay fmtF .mapOpen .mapKeyOrEnd (Or.inr ⟨rfl, rfl⟩) st hr
    obtain ⟨st2, e2, hs2, hi2⟩ := emit_pairs lay fmtF ps ih st1 hi1
    obtain ⟨st', e3, ha⟩ := emit_close lay fmtF .mapClose .mapKeyOrEnd (Or.inr ⟨rfl, rfl⟩) st st2 (by rw [hs2, hs1]) hi2
    refine ⟨st', ?_, ha⟩
    simp only [List.foldlM_cons, e1, List.foldlM_append, e2, Option.bind_eq_bind, Option.bind_some, List.foldlM_nil, e3]
    rfl

theorem emitToks_VTok {ts : List JTok} (h : VTok fmtF ts) : (emitToks lay fmtF ts).isSome = true := by
  obtain ⟨st', e, _⟩ := emit_VTok lay fmtF h {} ⟨rfl, Or.inl ⟨rfl, rfl⟩⟩
  simp [emitToks, e]


theorem mem_flattenTokPairs {ps : List (Bytes × List JTok)} {p : Bytes × List JTok} {t : JTok}
    (hp : p ∈ ps) (ht : t ∈ p.2) : t ∈ flattenTokPairs ps := by
  simp only [flattenTokPairs, List.mem_flatMap]
  exact ⟨p, hp, List.mem_cons_of_mem _ ht⟩

mutual
theorem marshalTok_VTok (cfg : EncCfg) : (v : DM) → ∀ ts, marshalTok cfg v = some ts →
    (∀ f, JTok.float f ∈ ts → (fmtF f).isSome = true) → VTok fmtF ts
  | .null, ts, h, _ => by
    simp [marshalTok] at h; subst h; exact .scalar _ _ rfl
  | .bool true, ts, h, _ => by
    simp [marshalTok] at h; subst h; exact .scalar _ _ rfl
  | .bool false, ts, h, _ => by
    simp [marshalTok] at h; subst h; exact .scalar _ _ rfl
  | .int i, ts, h, _ => by
    simp only [marshalTok] at h
    split at h
    · simp at h; subst h; exact .scalar _ _ rfl
    · simp at h
  | .float f, ts, h, hf => by
    simp only [marshalTok] at h
    split at h
    · simp at h; subst h
      have := hf f (by simp)
      obtain ⟨w, hw⟩ := Option.isSome_iff_exists.mp this
      exact .scalar _ w (by simp [scalarText, hw])
    · simp at h
  | .str s, ts, h, _ => by
    simp [marshalTok] at h; subst h; exact .scalar _ _ rfl
  | .bytes b, ts, h, _ => by
    simp only [marshalTok] at h
    split at h
    · simp at h; subst h
      have inner : VTok fmtF [.mapOpen, .str bytesWord, .str (base64Raw b), .mapClose] :=
        VTok.map [(bytesWord, [.str (base64Raw b)])] (by
          intro p hp; simp at hp; subst hp; exact .scalar _ _ rfl)
      exact VTok.map [(slash, [.mapOpen, .str bytesWord, .str (base64Raw b), .mapClose])] (by
        intro p hp; simp at hp; subst hp; exact inner)
    · simp at h
  | .link c, ts, h, _ => by
    simp only [marshalTok] at h
    split at h
    · simp at h; subst h
      exact VTok.map [(slash, [.str (cidText c)])] (by
        intro p hp; simp at hp; subst hp; exact .scalar _ _ rfl)
    · simp at h
  | .list xs, ts, h, hf => by
    simp only [marshalTok, Option.map_eq_some_iff] at h
    obtain ⟨ts', h', rfl⟩ := h
    obtain ⟨items, rfl, hi⟩ := marshalList_VTok cfg xs ts' h' (fun f hm => hf f (by simp [hm]))
    exact .arr items hi
  | .map es, ts, h, hf => by
    simp only [marshalTok, Option.map_eq_some_iff] at h
    obtain ⟨ps, h', rfl⟩ := h
    have hperm := sortPairs_perm cfg.sort ps
    have hall := marshalKVs_VTok cfg es ps h' (by
      intro f p hp hm
      apply hf f
      have : JTok.float f ∈ flattenTokPairs (sortPairs cfg.sort ps) :=
        mem_flattenTokPairs (hperm.symm.subset hp) hm
      simp [this])
    exact .map _ (fun p hp => hall p (hperm.subset hp))
theorem marshalList_VTok (cfg : EncCfg) : (xs : DMs) → ∀ ts, marshalList cfg xs = some ts →
    (∀ f, JTok.float f ∈ ts → (fmtF f).isSome = true) →
    ∃ items : List (List JTok), ts = items.flatten ∧ ∀ i ∈ items, VTok fmtF i
  | .nil, ts, h, _ => by
    simp [marshalList] at h; subst h; exact ⟨[], rfl, by simp⟩
  | .cons x xs, ts, h, hf => by
    simp only [marshalList] at h
    cases ha : marshalTok cfg x with
    | none => simp [ha] at h
    | some a =>
      cases hb : marshalList cfg xs with
      | none => simp [ha, hb] at h
      | some b =>
        simp [ha, hb] at h
        subst h
        have va := marshalTok_VTok cfg x a ha (fun f hm => hf f (by simp [hm]))
        obtain ⟨items, rfl, hi⟩ := marshalList_VTok cfg xs b hb (fun f hm => hf f (by simp [hm]))
        refine ⟨a :: items, by simp, ?_⟩
        intro i hi'
        simp only [List.mem_cons] at hi'
        rcases hi' with rfl | hi'
        · exact va
        · exact hi i hi'
theorem marshalKVs_VTok (cfg : EncCfg) : (es : DMKVs) → ∀ ps, marshalKVs cfg es = some ps →
    (∀ f, ∀ p ∈ ps, JTok.float f ∈ p.2 → (fmtF f).isSome = true) → ∀ p ∈ ps, VTok fmtF p.2
  | .nil, ps, h, _ => by
    simp [marshalKVs] at h; subst h; simp
  | .cons k v es, ps, h, hf => by
    simp only [marshalKVs] at h
    cases ha : marshalTok cfg v with
    | none => simp [ha] at h
    | some a =>
      cases hb : marshalKVs cfg es with
      | none => simp [ha, hb] at h
      | some b =>
        simp [ha, hb] at h
        subst h
        have va := marshalTok_VTok cfg v a ha (fun f hm => hf f (k, a) (by simp) hm)
        have vb := marshalKVs_VTok cfg es b hb (fun f p hp hm => hf f p (by simp [hp]) hm)
        intro p hp
        simp only [List.mem_cons] at hp
        rcases hp with rfl | hp
        · exact va
        · exact vb p hp
end


mutual
theorem marshalTok_floats (cfg : EncCfg) : (v : DM) → ∀ ts, marshalTok cfg v = some ts →
    ∀ f, JTok.float f ∈ ts → finiteBits f = true
  | .null, ts, h, f, hm => by simp [marshalTok] at h; subst h; simp at hm
  | .bool _, ts, h, f, hm => by simp [marshalTok] at h; subst h; simp at hm
  | .int i, ts, h, f, hm => by
    simp only [marshalTok] at h
    split at h
    · simp at h; subst h; simp at hm
    · simp at h
  | .float g, ts, h, f, hm => by
    simp only [marshalTok] at h
    split at h
    · rename_i hg; simp at h; subst h; simp at hm; subst hm; exact hg
    · simp at h
  | .str s, ts, h, f, hm => by simp [marshalTok] at h; subst h; simp at hm
  | .bytes b, ts, h, f, hm => by
    simp only [marshalTok] at h
    split at h
    · simp at h; subst h; simp at hm
    · simp at h
  | .link c, ts, h, f, hm => by
    simp only [marshalTok] at h
    split at h
    · simp at h; subst h; simp at hm
    · simp at h
  | .list xs, ts, h, f, hm => by
    simp only [marshalTok, Option.map_eq_some_iff] at h
    obtain ⟨ts', h', rfl⟩ := h
    simp at hm
    exact marshalList_floats cfg xs ts' h' f hm
  | .map es, ts, h, f, hm => by
    simp only [marshalTok, Option.map_eq_some_iff] at h
    obtain ⟨ps, h', rfl⟩ := h
    simp [flattenTokPairs] at hm
    obtain ⟨k, ts', hp, hm⟩ := hm
    exact marshalKVs_floats cfg es ps h' (k, ts') ((sortPairs_perm cfg.sort ps).subset hp) f hm
theorem marshalList_floats (cfg : EncCfg) : (xs : DMs) → ∀ ts, marshalList cfg xs = some ts →
    ∀ f, JTok.float f ∈ ts → finiteBits f = true
  | .nil, ts, h, f, hm => by simp [marshalList] at h; subst h; simp at hm
  | .cons x xs, ts, h, f, hm => by
    simp only [marshalList] at h
    cases ha : marshalTok cfg x with
    | none => simp [ha] at h
    | some a =>
      cases hb : marshalList cfg xs with
      | none => simp [ha, hb] at h
      | some b =>
        simp [ha, hb] at h
        subst h
        simp only [List.mem_append] at hm
        rcases hm with hm | hm
        · exact marshalTok_floats cfg x a ha f hm
        · exact marshalList_floats cfg xs b hb f hm
theorem marshalKVs_floats (cfg : EncCfg) : (es : DMKVs) → ∀ ps, marshalKVs cfg es = some ps →
    ∀ p ∈ ps, ∀ f, JTok.float f ∈ p.2 → finiteBits f = true
  | .nil, ps, h, p, hp, f, hm => by simp [marshalKVs] at h; subst h; simp at hp
  | .cons k v es, ps, h, p, hp, f, hm => by
    simp only [marshalKVs] at h
    cases ha : marshalTok cfg v with
    | none => simp [ha] at h
    | some a =>
      cases hb : marshalKVs cfg es with
      | none => simp [ha, hb] at h
      | some b =>
        simp [ha, hb] at h
        subst h
        simp only [List.mem_cons] at hp
        rcases hp with rfl | hp
        · exact marshalTok_floats cfg v a ha f hm
        · exact marshalKVs_floats cfg es b hb p hp f hm
end


end Json
end Ipld
