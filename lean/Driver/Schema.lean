import IpldModel.Model.Term
import IpldModel.Model.Schema
namespace Ipld.Driver
open Ipld Ipld.Schema

/-!
  Line protocol of the schema model.

  Type tokens (prefix, self-delimiting; names and strings are hex, possibly empty):

      bool | int | float | str | bytes | link | any
      list <ty>            list? <ty>          (list? / map? : nullable values)
      map <ty>             map? <ty>
      struct <srepr> <field>* )        srepr  = map | tuple | listpairs | join:<hexdelim>
          field  = f<flags>:<hexname>:<hexrename> <ty>       flags ⊆ "on" (optional, nullable), e.g. f:61:61  fo:61:62  fon:61:61
      union <urepr> <member>* )        urepr  = keyed | kinded | prefix:<hexdelim>
          member = m:<hexTypeName>:<hexdisc>:<kind> <ty>     kind = null|bool|int|float|str|bytes|link|list|map|- (`-`: none; keyed/prefix members)
      enum <str|int> <e:<hexname>:<hexreprstring>:<int>>* )

  Typed values: the term language of Term.lean plus `a` (Absent).

  Commands:
      schema.repr <ty…> VAL <tl-term…>                  → <dm-term> | nonconforming
      schema.ofrepr <engine> <ty…> VAL <dm-term…>       → ok <tl-term> | reject | panic
      schema.oftype <engine> <ty…> VAL <dm-term…>       → ok <tl-term> | reject | panic
      schema.conforms <ty…> VAL <tl-term…>              → true | false
      schema.conformsrepr <ty…> VAL <dm-term…>          → true | false
      schema.normalize <ty…> VAL <tl-term…>             → <tl-term>   (canonical typed value of a conforming type-level tree)
      schema.quirks <type|repr> <ty…> VAL <dm-term…>    → names of the bindnode flags whose removal changes the
                                                           answer of the bindnode engine on this input (`-` if none)
      schema.wf <ty…>                                   → true | false
      schema.quirksof <engine> <type|repr> <ty…> VAL <dm…>  → the same for any engine (C13: `gen`)
      engine = ideal | bindnode | bindnode-<flag> | gen | gen-<flag>   (<engine>-<flag>: that engine with one flag cleared),
               optionally followed by @entry | @keys | @node: how the builder is driven (Engine.viaKeys / viaNode)
-/

mutual
def TL.toTokens : TL → List String
  | .absent => ["a"]
  | .null => ["n"]
  | .bool true => ["t"]
  | .bool false => ["f"]
  | .int i => (DM.int i).toTokens
  | .float b => (DM.float b).toTokens
  | .str s => ["s" ++ hexOfBytes s]
  | .bytes b => ["b" ++ hexOfBytes b]
  | .link c => ["l" ++ hexOfBytes c]
  | .list xs => "[" :: (TLs.toTokens xs ++ ["]"])
  | .map es => "{" :: (TLKVs.toTokens es ++ ["}"])
def TLs.toTokens : TLs → List String
  | .nil => []
  | .cons x xs => TL.toTokens x ++ TLs.toTokens xs
def TLKVs.toTokens : TLKVs → List String
  | .nil => []
  | .cons k v es => ("s" ++ hexOfBytes k) :: (TL.toTokens v ++ TLKVs.toTokens es)
end

def TL.toTerm (v : TL) : String := " ".intercalate (TL.toTokens v)

/-- Parse one typed-value term (the DM term language plus `a`). -/
def parseTLFuel : Nat → List String → Option (TL × List String)
  | 0, _ => none
  | fuel + 1, toks =>
    match toks with
    | [] => none
    | t :: rest =>
      match t.toList with
      | ['a'] => some (.absent, rest)
      | ['n'] => some (.null, rest)
      | ['t'] => some (.bool true, rest)
      | ['f'] => some (.bool false, rest)
      | ['['] => parseListFuel fuel rest []
      | ['{'] => parseMapFuel fuel rest []
      | 'i' :: cs => (String.ofList cs).toInt?.map fun i => (.int i, rest)
      | 'd' :: cs => (natOfHexChars cs).map fun n => (.float (UInt64.ofNat n), rest)
      | 's' :: cs => (bytesOfHexChars cs).map fun b => (.str b, rest)
      | 'b' :: cs => (bytesOfHexChars cs).map fun b => (.bytes b, rest)
      | 'l' :: cs => (bytesOfHexChars cs).map fun b => (.link b, rest)
      | _ => none
where
  parseListFuel : Nat → List String → List TL → Option (TL × List String)
    | 0, _, _ => none
    | fuel + 1, toks, acc =>
      match toks with
      | [] => none
      | "]" :: rest => some (.list (TLs.ofList acc.reverse), rest)
      | _ =>
        match parseTLFuel fuel toks with
        | none => none
        | some (x, rest) => parseListFuel fuel rest (x :: acc)
  parseMapFuel : Nat → List String → List (Bytes × TL) → Option (TL × List String)
    | 0, _, _ => none
    | fuel + 1, toks, acc =>
      match toks with
      | [] => none
      | "}" :: rest => some (.map (TLKVs.ofList acc.reverse), rest)
      | k :: toks' =>
        match k.toList with
        | 's' :: cs =>
          match bytesOfHexChars cs with
          | none => none
          | some kb =>
            match parseTLFuel fuel toks' with
            | none => none
            | some (v, rest) => parseMapFuel fuel rest ((kb, v) :: acc)
        | _ => none

def parseTLAll (toks : List String) : Option TL :=
  match parseTLFuel (2 * toks.length + 2) toks with
  | some (v, []) => some v
  | _ => none

def hexArgS (s : String) : Option Bytes := if s.isEmpty then some [] else bytesOfHex s

def parseKind : String → Option Kind
  | "null" => some .null | "bool" => some .bool | "int" => some .int | "float" => some .float
  | "str" => some .str | "bytes" => some .bytes | "link" => some .link | "list" => some .list
  | "map" => some .map
  | "-" => some .null     -- no kind: members of keyed / stringprefix unions (the field is read by the kinded strategy only)
  | _ => none

/-- Parse one type from the token list. -/
def parseTyFuel : Nat → List String → Option (Ty × List String)
  | 0, _ => none
  | fuel + 1, toks =>
    match toks with
    | [] => none
    | "bool" :: rest => some (.bool, rest)
    | "int" :: rest => some (.int, rest)
    | "float" :: rest => some (.float, rest)
    | "str" :: rest => some (.str, rest)
    | "bytes" :: rest => some (.bytes, rest)
    | "link" :: rest => some (.link, rest)
    | "any" :: rest => some (.any, rest)
    | "list" :: rest => (parseTyFuel fuel rest).map fun (t, r) => (.list t false, r)
    | "list?" :: rest => (parseTyFuel fuel rest).map fun (t, r) => (.list t true, r)
    | "map" :: rest => (parseTyFuel fuel rest).map fun (t, r) => (.map t false, r)
    | "map?" :: rest => (parseTyFuel fuel rest).map fun (t, r) => (.map t true, r)
    | "struct" :: sr :: rest =>
      let srepr : Option StructRepr :=
        match sr.splitOn ":" with
        | ["map"] => some .map
        | ["tuple"] => some .tuple
        | ["listpairs"] => some .listpairs
        | ["join", h] => (hexArgS h).map .stringjoin
        | _ => none
      match srepr with
      | none => none
      | some r => (parseFields fuel rest []).map fun (fs, rest') => (.struct (Fields.ofList fs) r, rest')
    | "union" :: ur :: rest =>
      let urepr : Option UnionRepr :=
        match ur.splitOn ":" with
        | ["keyed"] => some .keyed
        | ["kinded"] => some .kinded
        | ["prefix", h] => (hexArgS h).map .stringprefix
        | _ => none
      match urepr with
      | none => none
      | some r => (parseMembers fuel rest []).map fun (ms, rest') => (.union (Members.ofList ms) r, rest')
    | "enum" :: er :: rest =>
      let erepr : Option EnumRepr := match er with | "str" => some .str | "int" => some .int | _ => none
      match erepr with
      | none => none
      | some r => (parseEnum rest []).map fun (ms, rest') => (.enum ms r, rest')
    | _ => none
where
  parseFields : Nat → List String → List Field → Option (List Field × List String)
    | 0, _, _ => none
    | fuel + 1, toks, acc =>
      match toks with
      | ")" :: rest => some (acc.reverse, rest)
      | f :: rest =>
        match f.splitOn ":" with
        | [flags, hn, hr] =>
          if !flags.startsWith "f" then none else
          match hexArgS hn, hexArgS hr, parseTyFuel fuel rest with
          | some n, some r, some (t, rest') =>
            parseFields fuel rest' (⟨n, r, flags.contains 'o', flags.contains 'n', t⟩ :: acc)
          | _, _, _ => none
        | _ => none
      | [] => none
  parseMembers : Nat → List String → List Member → Option (List Member × List String)
    | 0, _, _ => none
    | fuel + 1, toks, acc =>
      match toks with
      | ")" :: rest => some (acc.reverse, rest)
      | m :: rest =>
        match m.splitOn ":" with
        | ["m", hn, hd, k] =>
          match hexArgS hn, hexArgS hd, parseKind k, parseTyFuel fuel rest with
          | some n, some d, some kd, some (t, rest') => parseMembers fuel rest' (⟨n, d, kd, t⟩ :: acc)
          | _, _, _, _ => none
        | _ => none
      | [] => none
  parseEnum : List String → List EnumMember → Option (List EnumMember × List String)
    | [], _ => none
    | ")" :: rest, acc => some (acc.reverse, rest)
    | m :: rest, acc =>
      match m.splitOn ":" with
      | ["e", hn, hs, i] =>
        match hexArgS hn, hexArgS hs, i.toInt? with
        | some n, some s, some ri => parseEnum rest (⟨n, s, ri⟩ :: acc)
        | _, _, _ => none
      | _ => none

/-- `<ty…> VAL <rest…>` -/
def parseTyVal (toks : List String) : Option (Ty × List String) :=
  match parseTyFuel (toks.length + 1) toks with
  | some (t, "VAL" :: rest) => some (t, rest)
  | _ => none

def parseEngineBase (s : String) : Option Engine :=
  if s == "ideal" then some Engine.ideal
  else if s == "bindnode" then some Engine.bindnode
  else if s.startsWith "bindnode-" then
    let flag := (s.drop 9).toString
    (Engine.bindnode.flags.find? (fun f => f.1 == flag)).map fun f => f.2.2
  else if s == "gen" then some Engine.gen
  else if s.startsWith "gen-" then
    let flag := (s.drop 4).toString
    (Engine.gen.flags.find? (fun f => f.1 == flag)).map fun f => f.2.2
  else none

/-- `<engine>` or `<engine>@keys` / `<engine>@node`: the engine driven through the key assembler / by one
    `AssignNode` of a prebuilt node (`Engine.viaKeys`, `Engine.viaNode`). -/
def parseEngine (s : String) : Option Engine :=
  match s.splitOn "@" with
  | [b] => parseEngineBase b
  | [b, "entry"] => parseEngineBase b
  | [b, "keys"] => (parseEngineBase b).map fun e => { e with viaKeys := true }
  | [b, "node"] => (parseEngineBase b).map fun e => { e with viaNode := true }
  | _ => none

/-- The flags of engine `e0` that are responsible for its answer on an input: (a) those whose removal alone
    changes the answer, then (b) those whose removal changes it while walking from `e0` to `ideal` one flag
    at a time (the algorithm of `schema.quirks`, for any engine). -/
def quirksOfEngine (e0 : Engine) (lvl : Level) (ty : Ty) (d : DM) : String :=
  let base := buildSealed e0 lvl ty d
  let single := e0.flags.filterMap fun (name, isSet, cleared) =>
    if isSet && buildSealed cleared lvl ty d != base then some name else none
  let walk := e0.flags.foldl (init := (e0, base, ([] : List String)))
    fun (cur, ans, acc) (name, _, _) =>
      match (cur.flags.find? (fun f => f.1 == name)) with
      | some (_, true, cleared) =>
        let ans' := buildSealed cleared lvl ty d
        (cleared, ans', if ans' != ans then acc ++ [name] else acc)
      | _ => (cur, ans, acc)
  let resp := single ++ walk.2.2.filter (fun n => !single.contains n)
  if resp.isEmpty then "-" else ",".intercalate resp

def showOutcome : Outcome TL → String
  | .ok v => "ok " ++ TL.toTerm v
  | .reject => "reject"
  | .panic => "panic"

def parseLevel : String → Option Level
  | "type" => some .type
  | "repr" => some .repr
  | _ => none

def schemaHandler : List String → Option String
  | "schema.repr" :: toks =>
    match parseTyVal toks with
    | some (ty, rest) =>
      match parseTLAll rest with
      | some v => some (match Schema.repr ty v with | some d => d.toTerm | none => "nonconforming")
      | none => some "bad-term"
    | none => some "bad-type"
  | "schema.ofrepr" :: eng :: toks =>
    match parseEngine eng, parseTyVal toks with
    | some e, some (ty, rest) =>
      match parseTermAll rest with
      | some d => some (showOutcome (buildSealed e .repr ty d))
      | none => some "bad-term"
    | _, _ => some "bad-args"
  | "schema.oftype" :: eng :: toks =>
    match parseEngine eng, parseTyVal toks with
    | some e, some (ty, rest) =>
      match parseTermAll rest with
      | some d => some (showOutcome (buildSealed e .type ty d))
      | none => some "bad-term"
    | _, _ => some "bad-args"
  | "schema.conforms" :: toks =>
    match parseTyVal toks with
    | some (ty, rest) =>
      match parseTLAll rest with
      | some v => some (if conforms ty false v then "true" else "false")
      | none => some "bad-term"
    | none => some "bad-type"
  | "schema.normalize" :: toks =>
    match parseTyVal toks with
    | some (ty, rest) =>
      match parseTLAll rest with
      | some v => some (TL.toTerm (normalize ty v))
      | none => some "bad-term"
    | none => some "bad-type"
  | "schema.conformsrepr" :: toks =>
    match parseTyVal toks with
    | some (ty, rest) =>
      match parseTermAll rest with
      | some d => some (if conformsRepr ty false d then "true" else "false")
      | none => some "bad-term"
    | none => some "bad-type"
  | "schema.quirks" :: lv :: toks =>
    match parseLevel lv, parseTyVal toks with
    | some lvl, some (ty, rest) =>
      match parseTermAll rest with
      | some d =>
        let base := build Engine.bindnode lvl ty false none d
        -- (a) flags whose removal alone changes the answer
        let single := Engine.bindnode.flags.filterMap fun (name, isSet, cleared) =>
          if isSet && build cleared lvl ty false none d != base then some name else none
        -- (b) flags whose removal changes the answer while walking from `bindnode` to `ideal` one flag at a
        --     time (finds a cause when several independent ones give the same answer, e.g. two panics)
        let walk := Engine.bindnode.flags.foldl (init := (Engine.bindnode, base, ([] : List String)))
          fun (cur, ans, acc) (name, _, _) =>
            match (cur.flags.find? (fun f => f.1 == name)) with
            | some (_, true, cleared) =>
              let ans' := build cleared lvl ty false none d
              (cleared, ans', if ans' != ans then acc ++ [name] else acc)
            | _ => (cur, ans, acc)
        let resp := single ++ walk.2.2.filter (fun n => !single.contains n)
        some (if resp.isEmpty then "-" else ",".intercalate resp)
      | none => some "bad-term"
    | _, _ => some "bad-args"
  | "schema.quirksof" :: eng :: lv :: toks =>
    match parseEngine eng, parseLevel lv, parseTyVal toks with
    | some e, some lvl, some (ty, rest) =>
      match parseTermAll rest with
      | some d => some (quirksOfEngine e lvl ty d)
      | none => some "bad-term"
    | _, _, _ => some "bad-args"
  | "schema.wf" :: toks =>
    match parseTyFuel (toks.length + 1) toks with
    | some (ty, []) => some (if ty.wf then "true" else "false")
    | _ => some "bad-type"
  | _ => none

end Ipld.Driver
