import IpldModel.Model.Term
import IpldModel.Model.Bind
namespace Ipld.Driver
open Ipld Ipld.Bind

def parseWidth : String → Option Width
  | "i8" => some .i8 | "i16" => some .i16 | "i32" => some .i32 | "i64" => some .i64
  | "u8" => some .u8 | "u16" => some .u16 | "u32" => some .u32 | "u64" => some .u64
  | _ => none

def showAssign : Assign → String
  | .stored i => "stored i" ++ toString i
  | .rejected => "rejected"

/-- bind.width <i8|…|u64> i<n>  →  <ideal> / <code>     (ideal: store iff it fits; code: the guarded assignment) -/
def bindHandler : List String → Option String
  | ["bind.width", w, t] =>
    match parseWidth w, parseTermAll [t] with
    | some w, some (.int i) => some (showAssign (assignIdeal w i) ++ " / " ++ showAssign (assignCode true w i))
    | _, _ => some "bad-args"
  | "bind.history" :: calls =>
    -- bind.history (e<go>:<schema> | i<go>)*  →  one answer per call under the code's treatment of inference (memo)
    let parse (t : String) : Option Call :=
      match t.toList with
      | 'i' :: r => (String.ofList r).toNat?.map Call.inferred
      | 'e' :: r =>
        match (String.ofList r).splitOn ":" with
        | [a, b] => match a.toNat?, b.toNat? with
          | some g, some s => some (Call.explicit g s)
          | _, _ => none
        | _ => none
      | _ => none
    match calls.mapM parse with
    | none => some "bad-args"
    | some cs =>
      let show1 : CallOut → String
        | .ok g s => "ok:" ++ toString g ++ ":" ++ toString s
        | .panic => "panic"
      some (" ".intercalate ((bindRun .memo [] cs).map show1))
  | _ => none

end Ipld.Driver
