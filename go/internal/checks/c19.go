package checks

import (
	"bytes"
	"fmt"
	"math"
	"reflect"
	"sort"
	"strings"

	"github.com/ipfs/go-cid"
	ipld "github.com/ipld/go-ipld-prime"
	"github.com/ipld/go-ipld-prime/codec"
	"github.com/ipld/go-ipld-prime/codec/dagcbor"
	"github.com/ipld/go-ipld-prime/codec/dagjson"
	"github.com/ipld/go-ipld-prime/datamodel"
	"github.com/ipld/go-ipld-prime/node/basicnode"
	"github.com/ipld/go-ipld-prime/node/bindnode"
	"github.com/ipld/go-ipld-prime/node/bindnode/registry"
	"github.com/ipld/go-ipld-prime/schema"

	"verif/internal/core"
)

// C19 — binding Go values is faithful, reversible and a pure function of its inputs.
//
//   impl observation : Wrap of Go values of a catalogue of shapes (struct fields, slices, ordered-map structs, pointers for
//                      optional and nullable, union structs, narrow and unsigned integers) read as nodes; nodes built through
//                      the prototype and unwrapped; Marshal / Unmarshal through dag-cbor and dag-json; repeated and interleaved
//                      Wrap / Prototype calls with explicit and inferred schemas
//   (O) oracle        : node content == an independent, hand-written reading of the Go value; Unwrap(build(data)) holds exactly
//                       data; Unmarshal(Marshal(v)) == v as data (nil and empty slices identified, ordered-map key order
//                       canonicalised by the key-sorting codecs); integers that do not fit the field's width are refused;
//                       every repetition of a binding call succeeds with the same result
//   (D) correspondence: the width rule and the registry history against the Lean model (`bind.width`, `bind.history`).
//
//   Second part (c19BindSection): the quantifier "all Go types in the shape vocabulary, all values".  For random schemas
//   (core.GenSchema) a random compatible Go type is built with reflect (core.UserBindEngine with every integer kind), random
//   Go values of it are made by reflection (nil / non-nil pointers, nil / empty / non-empty slices, ordered maps in random key
//   order, boundary integers of each width), and
//   (O) Wrap(value) read through the node API == an independent reflection walk (core.WalkGo); Unwrap(build(content)) is the
//       normalised value (core.NormGo; reflect.DeepEqual where it is meaningful, the token form always); Marshal → Unmarshal
//       through dag-cbor and dag-json into a fresh value gives the normalised value up to ordered-map key order; a typed value
//       built into the Go type reads back exactly as assembled, or is refused exactly when an integer does not fit;
//   (D) `gobind.view` / `gobind.assign` of the Lean model (Model/GoBind.lean) answer what the implementation does, case by case.
//   The Go types cover every slot shape verifyCompatibility accepts (core.UserBindEngine.AllSlotShapes): pointers for optional /
//   nullable, ONE pointer more than a slot needs (*T where T would do, **T for nullable, ***T for optional nullable), bare nilable
//   types for optional fields and for every nullable slot (struct field, list element, map value).

func init() {
	core.Register(&core.Check{ID: "C19", Run: runC19, Replay: replayC19})
}

type c19Inner struct {
	S string
	N int64
}

type c19OMap struct {
	Keys   []string
	Values map[string]int64
}

type c19Union struct {
	Str *string
	Num *int64
}

type c19Rec struct {
	B   bool
	I   int64
	I8  int8
	U8  uint8
	U64 uint64
	F   float64
	S   string
	Y   []byte
	L   []string
	O   *string
	Nl  *int64
	In  c19Inner
	M   c19OMap
	U   c19Union
	Lk  cid.Cid
}

var c19TS = schema.MustTypeSystem(
	schema.SpawnBool("Bool"), schema.SpawnInt("Int"), schema.SpawnFloat("Float"), schema.SpawnString("String"), schema.SpawnBytes("Bytes"), schema.SpawnLink("Link"),
	schema.SpawnList("List__String", "String", false),
	schema.SpawnMap("Map__String__Int", "String", "Int", false),
	schema.SpawnStruct("Inner", []schema.StructField{schema.SpawnStructField("S", "String", false, false), schema.SpawnStructField("N", "Int", false, false)}, schema.SpawnStructRepresentationTuple()),
	schema.SpawnUnion("Un", []schema.TypeName{"String", "Int"}, schema.SpawnUnionRepresentationKeyed(map[string]schema.TypeName{"s": "String", "n": "Int"})),
	schema.SpawnStruct("Rec", []schema.StructField{
		schema.SpawnStructField("B", "Bool", false, false), schema.SpawnStructField("I", "Int", false, false),
		schema.SpawnStructField("I8", "Int", false, false), schema.SpawnStructField("U8", "Int", false, false),
		schema.SpawnStructField("U64", "Int", false, false), schema.SpawnStructField("F", "Float", false, false),
		schema.SpawnStructField("S", "String", false, false), schema.SpawnStructField("Y", "Bytes", false, false),
		schema.SpawnStructField("L", "List__String", false, false), schema.SpawnStructField("O", "String", true, false),
		schema.SpawnStructField("Nl", "Int", false, true), schema.SpawnStructField("In", "Inner", false, false),
		schema.SpawnStructField("M", "Map__String__Int", false, false), schema.SpawnStructField("U", "Un", false, false),
		schema.SpawnStructField("Lk", "Link", false, false),
	}, schema.SpawnStructRepresentationMap(map[string]string{"S": "str"})),
)

func genC19Rec(r *core.Rand) c19Rec {
	var v c19Rec
	v.B = r.Bool()
	v.I = func() int64 { x, _ := core.GenInt(r, false).Int64(); return x }()
	v.I8 = []int8{0, 1, -1, 127, -128, 42}[r.Intn(6)]
	v.U8 = []uint8{0, 1, 255, 128}[r.Intn(4)]
	v.U64 = []uint64{0, 1, math.MaxInt64, 12345}[r.Intn(4)]
	for {
		v.F = math.Float64frombits(core.GenFloat(r, false).F)
		if v.F != math.Trunc(v.F) || math.Abs(v.F) >= 1e21 {
			break // integral floats written without exponent do not survive the JSON codecs (C04's known finding); kept out here
		}
	}
	v.S = string(core.GenStrBytes(r, core.GenCfg{ValidUTF8: true}))
	if r.Chance(2, 3) {
		v.Y = r.Bytes(r.Intn(5))
	}
	for n := r.Intn(4); n > 0; n-- {
		v.L = append(v.L, string(core.GenStrBytes(r, core.GenCfg{ValidUTF8: true})))
	}
	if r.Bool() {
		s := "opt"
		v.O = &s
	}
	if r.Bool() {
		i := int64(r.Intn(100))
		v.Nl = &i
	}
	v.In = c19Inner{S: "in", N: int64(r.Intn(9))}
	v.M.Values = map[string]int64{}
	for n := r.Intn(4); n > 0; n-- {
		k := []string{"b", "a", "cc", "", "zz"}[r.Intn(5)]
		if _, ok := v.M.Values[k]; ok {
			continue
		}
		v.M.Keys = append(v.M.Keys, k)
		v.M.Values[k] = int64(r.Intn(50))
	}
	if r.Bool() {
		s := "u"
		v.U.Str = &s
	} else {
		i := int64(7)
		v.U.Num = &i
	}
	c, _ := cid.Cast(core.GenCid(r))
	v.Lk = c
	return v
}

// dataOf: the type-level data a Rec holds, written by hand (independent of bindnode).
func c19DataOf(v c19Rec) core.Val {
	kv := func(k string, x core.Val) core.KV { return core.KV{K: []byte(k), V: x} }
	l := core.Val{K: '['}
	for _, s := range v.L {
		l.L = append(l.L, core.Str(s))
	}
	m := core.Val{K: '{'}
	for _, k := range v.M.Keys {
		m.M = append(m.M, kv(k, core.Int(v.M.Values[k])))
	}
	o := core.Val{K: 'a'}
	if v.O != nil {
		o = core.Str(*v.O)
	}
	nl := core.Null()
	if v.Nl != nil {
		nl = core.Int(*v.Nl)
	}
	var u core.Val
	if v.U.Str != nil {
		u = core.Map(kv("String", core.Str(*v.U.Str)))
	} else {
		u = core.Map(kv("Int", core.Int(*v.U.Num)))
	}
	return core.Map(kv("B", core.Bool(v.B)), kv("I", core.Int(v.I)), kv("I8", core.Int(int64(v.I8))), kv("U8", core.Int(int64(v.U8))), kv("U64", core.Uint(v.U64)),
		kv("F", core.Float(v.F)), kv("S", core.Str(v.S)), kv("Y", core.Bytes(v.Y)), kv("L", l), kv("O", o), kv("Nl", nl),
		kv("In", core.Map(kv("S", core.Str(v.In.S)), kv("N", core.Int(v.In.N)))), kv("M", m), kv("U", u), kv("Lk", core.Link(v.Lk.Bytes())))
}

// canonRec: nil and empty slices/maps identified; ordered-map keys sorted (key-sorting codecs canonicalise them)
func c19Canon(v c19Rec, sortKeys bool) string {
	d := c19DataOf(v)
	if sortKeys {
		for i := range d.M {
			if string(d.M[i].K) == "M" {
				d.M[i].V = d.M[i].V.Sorted(core.LessLex)
			}
		}
	}
	return d.Term()
}

func stripAbsent(v core.Val) core.Val {
	if v.K == '{' {
		out := core.Val{K: '{'}
		for _, e := range v.M {
			if e.V.K == 'a' {
				continue
			}
			out.M = append(out.M, core.KV{K: e.K, V: stripAbsent(e.V)})
		}
		return out
	}
	return v
}

func runC19(c *core.Ctx) error {
	c.Rule = "(a) random values of a catalogue struct covering bool / int64 / int8 / uint8 / uint64 / float64 / string / []byte fields, a slice, optional and nullable pointers, a nested tuple struct, an ordered-map struct, a keyed-union struct and a link; Wrap, build+Unwrap, Marshal/Unmarshal through dag-cbor and dag-json; integers at and beyond each field's width; histories of repeated and interleaved Wrap/Prototype calls with explicit and with inferred schemas (four inferable Go types sharing member types) against the registry model; non-trivial = value with a non-empty list or ordered map; distinct by value.  (b) random schemas (core.GenSchema, plus integer-heavy structs), for each a random compatible Go type built with reflect (every integer kind int8…int64/int/uint8…uint64/uint for Int and for int-represented enums, string for enums, cid.Cid / cidlink.Link / datamodel.Link, datamodel.Node, slices, pointers for optional / nullable / both, ordered-map structs, union structs; and the other slot shapes verifyCompatibility accepts: ONE pointer more than the slot needs - *T on a required non-nullable struct field / list element / map value / value behind an optional field's or union member's pointer, **T on a nullable one, ***T on an optional nullable field - and bare nilable Go types - slice, []byte, datamodel.Link, datamodel.Node - for optional struct fields and for nullable struct fields, list elements and map values), three random Go values of it by reflection (nil and non-nil pointers, nil / empty / non-empty slices, random key orders, boundary integers of each width, unsigned values above MaxInt64), two random typed values built into it (integers beyond the widths, struct fields in random order), one non-inhabitant in every fourth type; non-trivial = more than three nodes; distinct by case line"
	c.Explanation = "theorems on the binding model: width_guard (an integer is stored iff it fits the field's width — the ideal; the code's wrap-around is the named deviation with its witness), binding_pure / binding_pure_history for every history of explicit and inferred bindings (the memoising registry), binding_inferred_twice_was_a_panic; on the Wrap/Unwrap model (Model/GoBind.lean, tied to the implementation by `gobind.view` / `gobind.assign` / `gobind.wt` / `gobind.compatible` on every case): view_assign (wrap of what was built shows exactly the normal form of what was assembled; no side condition), view_norm (the normalisation keeps the data), empty_list_in_bare_nilable_slot_stays_empty / norm_keeps_empty_list_in_nilable_slot (the repaired behaviour of the former known findings on empty lists / bytes in bare nilable slots), nullable_elements_in_bare_nilable, double_pointer_slots, unwrap_well_typed, pointer_uint64_reads_back, optional_in_bare_nilable_is_absent, assign_view (Unwrap∘build of a wrapped value's content is the value up to GoVal.norm), view_total, view_conforms / view_normal, assign_refuses_iff (refused iff not conforming or an integer - an enum member's representation int included - does not fit), marshal_unmarshal (composition with C08 ofRepr_repr_partial), the others at full strength under t.wf and compatible only (each shown to be needed: view_assign_needs_wf, assign_refuses_iff_needs_wf, assign_refuses_iff_needs_compatible); the earlier repaired deviations as theorems of the repaired behaviour (enum_300_into_int8_is_refused, uint_above_int64_reads_back)"
	c.Assumptions = []string{"Go values are compared as data: nil and empty slices/maps identified where nil stands for the empty list (not in a bare nilable slot, where nil is absent / null and the empty value is kept apart), ordered-map key order canonicalised after a key-sorting codec", "custom converters are user code and not registered", "Go values that are not inhabitants of the schema (a union struct with no or several members set, Keys/Values out of step) are outside the quantifier",
		"the shape vocabulary is what verifyCompatibility accepts: pointers for optional and nullable, one pointer more than a slot needs (*T, **T for nullable, ***T for optional nullable), bare nilable Go types for optional struct fields and for nullable struct fields / list elements / map values; a pointer to a nil pointer in a **T slot is not an inhabitant; float64 only (a float32 field rounds silently); Go field names = strings.Title of the schema names",
		"[]byte values are compared as data (nil and empty identified except in a bare nilable slot, where nil is absent / null); datamodel.Node values by their content",
		"values whose representation is ambiguous for a string strategy (a stringjoin field holding the delimiter) are not generated (C08 unambig); floats are non-integral (C04's known finding on integral floats in dag-json)"}
	recT := c19TS.TypeByName("Rec")
	// --- known-finding witnesses ---------------------------------------------------------------
	{
		proto := bindnode.Prototype((*c19Rec)(nil), recT)
		v := genC19Rec(core.NewRand(7, "c19w"))
		d := stripAbsent(c19DataOf(v))
		for i := range d.M {
			if string(d.M[i].K) == "I8" {
				d.M[i].V = core.Int(300)
			}
		}
		nb := proto.NewBuilder()
		err, panicked, _ := core.Catch(func() error { return core.Assemble(nb, d, nil) })
		stored := ""
		if err == nil && !panicked {
			stored = fmt.Sprint(bindnode.Unwrap(nb.Build()).(*c19Rec).I8)
		}
		c.KnownWitness("C19/narrow-int-overflow-stored-silently", err == nil && !panicked, "300 assigned to an int8 field is accepted and stored as "+stored)
	}
	if err := c19InferHistories(c); err != nil {
		return err
	}
	c19Converters(c)
	c19Registry(c)
	if err := c19BindSection(c); err != nil {
		return err
	}
	// --- the main loop -------------------------------------------------------------------------
	n := c.Pick(1500, 80000)
	proto := bindnode.Prototype((*c19Rec)(nil), recT)
	var widthLines, widthImpl []string
	for i := 0; i < n; i++ {
		r := c.Rand
		v := genC19Rec(r)
		want := c19DataOf(v)
		caseID := "c19.rec " + want.Term()
		c.Count(caseID, len(v.L) > 0 || len(v.M.Keys) > 0)
		c.Trace(1)
		if i < 2 {
			c.Sample(truncateStr(caseID, 400))
		}
		// wrap_faithful
		vv := v
		node := bindnode.Wrap(&vv, recT)
		if got := termOf(node); got != want.Term() {
			c.Fail("C19/wrap-not-faithful", core.Replay{Kind: "oracle", Case: caseID, Impl: got, Expected: want.Term()})
		}
		// binding is pure: repeated / interleaved calls with the explicit schema
		if i%50 == 0 {
			for k := 0; k < 3; k++ {
				_, panicked, pv := core.Catch(func() error {
					p2 := bindnode.Prototype((*c19Rec)(nil), recT)
					n2 := bindnode.Wrap(&vv, recT)
					if termOf(n2) != want.Term() || p2.Type() != recT {
						return fmt.Errorf("differs")
					}
					_ = bindnode.Prototype((*c19Inner)(nil), c19TS.TypeByName("Inner"))
					return nil
				})
				if panicked {
					c.Fail("C19/repeated-binding-fails", core.Replay{Kind: "oracle", Case: caseID, Impl: fmt.Sprint(pv)})
				}
			}
			c.Dist("history:repeated-explicit-binding")
		}
		// unwrap_build
		nb := proto.NewBuilder()
		if err, panicked, pv := core.Catch(func() error { return core.Assemble(nb, stripAbsent(want), c.Rand) }); err != nil || panicked {
			c.Fail("C19/build-refused", core.Replay{Kind: "oracle", Case: caseID, Impl: fmt.Sprint(err, pv)})
		} else {
			got := bindnode.Unwrap(nb.Build()).(*c19Rec)
			if c19Canon(*got, false) != c19Canon(v, false) {
				c.Fail("C19/unwrap-differs", core.Replay{Kind: "oracle", Case: caseID, Impl: c19Canon(*got, false), Expected: c19Canon(v, false)})
			}
		}
		// marshal / unmarshal
		for _, cd := range []struct {
			name string
			enc  codec.Encoder
			dec  codec.Decoder
		}{{"dag-cbor", dagcbor.Encode, dagcbor.Decode}, {"dag-json", dagjson.Encode, dagjson.Decode}} {
			var out c19Rec
			var b []byte
			err, panicked, pv := core.Catch(func() error {
				var err error
				if b, err = ipld.Marshal(cd.enc, &vv, recT); err != nil {
					return err
				}
				_, err = ipld.Unmarshal(b, cd.dec, &out, recT)
				return err
			})
			if err != nil || panicked {
				c.Fail("C19/marshal-roundtrip-fails", core.Replay{Kind: "oracle", Case: caseID + " via " + cd.name, Impl: fmt.Sprint(err, pv)})
				continue
			}
			if c19Canon(out, true) != c19Canon(v, true) {
				c.Fail("C19/marshal-roundtrip-differs", core.Replay{Kind: "oracle", Case: caseID + " via " + cd.name, Impl: c19Canon(out, true), Expected: c19Canon(v, true), Detail: string(b)})
			}
			c.Dist("codec:" + cd.name)
		}
		// width guard: integers at and beyond the width of each field
		if i%10 == 0 {
			field := []string{"I8", "U8", "U64", "I"}[r.Intn(4)]
			x := []core.Val{core.Int(127), core.Int(128), core.Int(-128), core.Int(-129), core.Int(255), core.Int(256), core.Int(-1), core.Int(300),
				core.Uint(math.MaxInt64), core.Uint(1 << 63), core.Uint(math.MaxUint64), core.Int(math.MinInt64)}[r.Intn(12)]
			d := stripAbsent(want)
			for k := range d.M {
				if string(d.M[k].K) == field {
					d.M[k].V = x
				}
			}
			nb := proto.NewBuilder()
			err, panicked, _ := core.Catch(func() error { return core.Assemble(nb, d, nil) })
			obs := "rejected"
			if panicked {
				obs = "panic"
			} else if err == nil {
				got := bindnode.Unwrap(nb.Build()).(*c19Rec)
				var stored core.Val
				switch field {
				case "I8":
					stored = core.Int(int64(got.I8))
				case "U8":
					stored = core.Int(int64(got.U8))
				case "U64":
					stored = core.Uint(got.U64)
				default:
					stored = core.Int(got.I)
				}
				obs = "stored " + stored.Term()
			}
			width := map[string]string{"I8": "i8", "U8": "u8", "U64": "u64", "I": "i64"}[field]
			widthLines = append(widthLines, "bind.width "+width+" "+x.Term())
			widthImpl = append(widthImpl, obs)
			c.Dist("width:" + field)
		}
	}
	outs, err := core.RunDriver(widthLines)
	if err != nil {
		return err
	}
	for i := range widthLines {
		// model answers: "<ideal> / <code>" — the ideal (fits ⇒ stored exactly, else rejected) and what the code does
		f := strings.SplitN(outs[i], " / ", 2)
		if len(f) != 2 {
			return fmt.Errorf("bad driver answer %q", outs[i])
		}
		ideal, code := f[0], f[1]
		if widthImpl[i] != code {
			c.Fail("C19/corr-width", core.Replay{Kind: "correspondence", Case: widthLines[i], Impl: widthImpl[i], Model: outs[i]})
		}
		if widthImpl[i] != ideal {
			c.Fail("C19/narrow-int-overflow-stored-silently", core.Replay{Kind: "oracle", Case: widthLines[i], Impl: widthImpl[i], Expected: ideal,
				Detail: "an integer that does not fit the Go field is not refused"})
		}
	}
	// nil vs empty and reflect-level sanity of the comparison itself
	_ = reflect.DeepEqual
	_ = sort.Strings
	_ = bytes.Equal
	_ = basicnode.NewInt
	_ = datamodel.Null
	return nil
}

func replayC19(c *core.Ctx, rp core.Replay) error {
	if strings.HasPrefix(rp.Case, "c19.bind ") || strings.HasPrefix(rp.Case, "c19.build ") {
		return c19BindReplay(c, rp.Case)
	}
	return fmt.Errorf("C19 cases replay by seed: VERIF_SEED=%d ./vcheck C19 %s (case: %s)", rp.Seed, rp.Tier, rp.Case)
}

// ---------------------------------------------------------------------------------------------
// histories of bindings with inferred schemas

type c19InfA struct {
	A string
	N int64
}
type c19InfB struct {
	L []int64
	S []string
}
type c19InfC struct {
	In c19InfA
	B  []byte
	F  float64
	Ok bool
}
type c19InfD struct {
	L []int64 // shares the inferred List_Int with c19InfB
	X c19InfA
}

var c19InfTS = schema.MustTypeSystem(
	schema.SpawnString("String"), schema.SpawnInt("Int"),
	schema.SpawnStruct("c19InfA", []schema.StructField{
		schema.SpawnStructField("A", "String", false, false),
		schema.SpawnStructField("N", "Int", false, false),
	}, schema.SpawnStructRepresentationMap(nil)),
)

// c19InferHistories: random histories of Wrap / Prototype calls with a nil schema (inferred) and with an explicit one,
// over Go types that share member types; every call must succeed and show the value; the per-call answers are compared
// with the registry model (`bind.history`).
func c19InferHistories(c *core.Ctx) error {
	r := c.Rand.Fork()
	mk := func(g int, r *core.Rand) (ptr interface{}, want string) {
		a := c19InfA{A: string(core.GenStrBytes(r, core.GenCfg{ValidUTF8: true})), N: int64(r.Intn(1000)) - 500}
		at := fmt.Sprintf("{ s41 %s s4e %s }", core.Str(a.A).Term(), core.Int(a.N).Term())
		switch g {
		case 0:
			return &a, at
		case 1:
			v := c19InfB{L: []int64{1, int64(r.Intn(9))}, S: []string{"x"}}
			return &v, fmt.Sprintf("{ s4c [ i1 i%d ] s53 [ s78 ] }", v.L[1])
		case 2:
			v := c19InfC{In: a, B: []byte{1, 2}, F: 1.5, Ok: true}
			return &v, fmt.Sprintf("{ s496e %s s42 b0102 s46 %s s4f6b t }", at, core.Float(1.5).Term())
		}
		v := c19InfD{L: []int64{7}, X: a}
		return &v, fmt.Sprintf("{ s4c [ i7 ] s58 %s }", at)
	}
	protoOf := func(g int) interface{} {
		return []interface{}{(*c19InfA)(nil), (*c19InfB)(nil), (*c19InfC)(nil), (*c19InfD)(nil)}[g]
	}
	var lines, impls []string
	for h := 0; h < c.Pick(30, 2000); h++ {
		var toks, outs []string
		for k := 2 + r.Intn(8); k > 0; k-- {
			g := r.Intn(4)
			explicit := g == 0 && r.Chance(1, 3)
			viaProto := r.Bool()
			ptr, want := mk(g, r)
			var st schema.Type
			tok := fmt.Sprintf("i%d", g)
			if explicit {
				st = c19InfTS.TypeByName("c19InfA")
				tok = "e0:100"
			}
			toks = append(toks, tok)
			out := fmt.Sprintf("ok:%d:%d", g, g)
			if explicit {
				out = "ok:0:100"
			}
			caseID := "bind.history " + strings.Join(toks, " ")
			_, panicked, pv := core.Catch(func() error {
				if viaProto {
					p := bindnode.Prototype(protoOf(g), st)
					nb := p.NewBuilder()
					if err := datamodel.Copy(bindnode.Wrap(ptr, st), nb); err != nil {
						return err
					}
					if got := termOf(nb.Build()); got != want {
						c.Fail("C19/wrap-not-faithful", core.Replay{Kind: "oracle", Case: caseID, Impl: got, Expected: want, Detail: "node built through a prototype with an inferred schema"})
					}
					return nil
				}
				if got := termOf(bindnode.Wrap(ptr, st)); got != want {
					c.Fail("C19/wrap-not-faithful", core.Replay{Kind: "oracle", Case: caseID, Impl: got, Expected: want, Detail: "Wrap with an inferred schema"})
				}
				return nil
			})
			if panicked {
				out = "panic"
				c.Fail("C19/repeated-binding-fails", core.Replay{Kind: "oracle", Case: caseID, Impl: fmt.Sprint(pv), Expected: "the call succeeds as it does alone in a fresh process",
					Detail: "Wrap/Prototype with an inferred schema after earlier bindings"})
			}
			outs = append(outs, out)
		}
		line := "bind.history " + strings.Join(toks, " ")
		lines = append(lines, line)
		impls = append(impls, strings.Join(outs, " "))
		c.Count(line, len(toks) >= 3)
		c.Dist("history:inferred-and-explicit-bindings")
	}
	mouts, err := core.RunDriver(lines)
	if err != nil {
		return err
	}
	for i := range lines {
		c.Trace(1)
		if mouts[i] != impls[i] {
			c.Fail("C19/corr-registry", core.Replay{Kind: "correspondence", Case: lines[i], Impl: impls[i], Model: mouts[i]})
		}
	}
	return nil
}

// ---------------------------------------------------------------------------------------------
// random Go types and values against the binding model (Model/GoBind.lean)
//
// case lines (self-contained, replayable):
//   c19.bind  <go type tokens> SCHEMA <schema tokens> VAL <go value tokens>      a Go value: Wrap, build+Unwrap, Marshal/Unmarshal
//   c19.build <go type tokens> SCHEMA <schema tokens> VAL <typed value term>     a typed value: build into the Go type, Unwrap, Wrap again

type c19Bind struct {
	T     *core.SType
	G     *core.GTy
	RT    reflect.Type
	ST    schema.Type
	Proto schema.TypedPrototype
	Head  string // "<go type tokens> SCHEMA <schema tokens>"
}

var c19SchemaCfg = core.SchemaCfg{MaxDepth: 3, NullableDispatchUnion: 12, KindedIntEnum: 10, TupleLooseOptional: 0, UnionAnyMember: 0, EnumEmptyRename: 3}

// newC19Bind declares the schema and binds the Go type; g == nil: the Go type is chosen by core.UserBindEngine (all integer kinds).
func newC19Bind(t *core.SType, g *core.GTy) (b *c19Bind, err error) {
	ts, err := core.BuildTypeSystem(t)
	if err != nil {
		return nil, err
	}
	st := ts.TypeByName(t.Name)
	var rt reflect.Type
	if g == nil {
		eng := core.NewUserBindEngine(ts, t.Tokens())
		eng.AllIntKinds = true
		eng.AllSlotShapes = true
		rt = eng.GoType(st)
		if g, err = core.GTyOf(rt, t, false); err != nil {
			return nil, err
		}
		if g.Reflect() != rt {
			return nil, fmt.Errorf("go type %s does not rebuild from its tokens %s", rt, g.Tokens())
		}
	} else {
		core.AnnotateGTy(g, t, false)
		rt = g.Reflect()
	}
	defer func() {
		if r := recover(); r != nil {
			err = fmt.Errorf("bindnode.Prototype(%s, %s) panicked: %v", rt, t.Tokens(), r)
		}
	}()
	proto := bindnode.Prototype(reflect.New(rt).Interface(), st)
	return &c19Bind{T: t, G: g, RT: rt, ST: st, Proto: proto, Head: g.Tokens() + " SCHEMA " + t.Tokens()}, nil
}

// pending correspondence lines of a batch
type c19Pending struct {
	lines, impls, cases, sigs []string
}

func (p *c19Pending) add(line, impl, caseID, sig string) {
	p.lines = append(p.lines, line)
	p.impls = append(p.impls, impl)
	p.cases = append(p.cases, caseID)
	p.sigs = append(p.sigs, sig)
}

func (p *c19Pending) flush(c *core.Ctx) error {
	outs, err := core.RunDriver(p.lines)
	if err != nil {
		return err
	}
	for i := range p.lines {
		c.Trace(1)
		if outs[i] != p.impls[i] {
			c.Fail(p.sigs[i], core.Replay{Kind: "correspondence", Case: p.cases[i], Impl: p.impls[i], Model: outs[i], Detail: "model line: " + truncateStr(p.lines[i], 300)})
		}
	}
	*p = c19Pending{}
	return nil
}

// c19Node is one value of a canonical typed value together with the Go type it is bound to (pointers stripped).
type c19Node struct {
	G           *core.GTy
	T           *core.SType
	V           core.Val
	UnderKinded bool // the value is directly the member of a kinded union
	// MemberExtraPtr: the value is the member of a kinded or stringprefix union and sits behind one pointer more than the member's
	// own (a union struct field **T): those unions hand the member's reflect value to a representation node as it is
	MemberExtraPtr bool
}

// c19Nodes visits every present value of the canonical typed value v bound to Go type g (written against the token forms only).
func c19Nodes(g *core.GTy, t *core.SType, nul bool, v core.Val, underKinded bool, visit func(c19Node)) {
	c19NodesAt(g, t, nul, v, underKinded, false, visit)
}

func c19NodesAt(g *core.GTy, t *core.SType, nul bool, v core.Val, underKinded, memberExtraPtr bool, visit func(c19Node)) {
	if v.K == 'n' || v.K == 'a' {
		return
	}
	for g.K == "ptr" {
		g = g.Elem
	}
	visit(c19Node{G: g, T: t, V: v, UnderKinded: underKinded, MemberExtraPtr: memberExtraPtr})
	switch t.K {
	case "list":
		for _, x := range v.L {
			c19Nodes(g.Elem, t.Elem, t.Nullable, x, false, visit)
		}
	case "map":
		for _, e := range v.M {
			c19Nodes(g.Elem, t.Elem, t.Nullable, e.V, false, visit)
		}
	case "struct":
		for i, f := range t.Fields {
			if i >= len(v.M) || i >= len(g.Fields) {
				continue
			}
			c19Nodes(g.Fields[i].T, f.T, f.Nullable, v.M[i].V, false, visit)
		}
	case "union":
		for i, m := range t.Members {
			if len(v.M) == 1 && string(v.M[0].K) == m.T.Name && i < len(g.Fields) {
				mg := g.Fields[i].T
				extra := (t.URepr == "kinded" || t.URepr == "prefix") && mg.K == "ptr" && mg.Elem.K == "ptr"
				c19NodesAt(mg, m.T, false, v.M[0].V, t.URepr == "kinded", extra, visit)
			}
		}
	}
}

// c19HasBigUnsigned: the typed value holds an integer above MaxInt64 in a slot bound to Go kind `only` ("" = any unsigned
// kind; "kinded" = any unsigned kind, directly as the member of a kinded union).
func c19HasBigUnsigned(g *core.GTy, t *core.SType, nul bool, v core.Val, only string) bool {
	found := false
	c19Nodes(g, t, false, v, false, func(n c19Node) {
		if n.T.K != "int" {
			return
		}
		_, inInt64 := n.V.Int64()
		big := n.V.K == 'i' && !inInt64 && !n.V.Neg
		switch only {
		case "":
			found = found || big
		case "kinded":
			found = found || (big && n.UnderKinded)
		default:
			found = found || (big && n.G.K == only)
		}
	})
	return found
}

// c19IntsFit: every integer of the canonical typed value fits the Go kind it is bound to (the oracle for refusals; written
// against the token forms only).
func c19IntsFit(g *core.GTy, t *core.SType, nul bool, v core.Val, skipEnums bool) bool {
	fits := true
	c19Nodes(g, t, false, v, false, func(n c19Node) {
		switch n.T.K {
		case "int":
			bits, signed, _ := core.IntBits(n.G.K)
			if signed {
				i, ok := n.V.Int64()
				fits = fits && ok && (bits == 64 || (i >= -(1<<(bits-1)) && i < 1<<(bits-1)))
			} else {
				fits = fits && !n.V.Neg && (bits == 64 || n.V.Mag < 1<<bits)
			}
		case "enum":
			if skipEnums || n.G.K == "string" {
				return
			}
			bits, signed, _ := core.IntBits(n.G.K)
			for _, e := range n.T.Enum {
				if e.Name == string(n.V.S) {
					if signed {
						fits = fits && (bits == 64 || (e.RInt >= -(1<<(bits-1)) && e.RInt < 1<<(bits-1)))
					} else {
						fits = fits && e.RInt >= 0 && (bits == 64 || e.RInt < 1<<bits)
					}
					return
				}
			}
		}
	})
	return fits
}

// c19SlotShapes lists the slot shapes of the binding (distribution).
func c19SlotShapes(g *core.GTy, t *core.SType, nul bool, out map[string]bool) {
	n := 0
	for g.K == "ptr" {
		g = g.Elem
		n++
	}
	switch {
	case nul && n == 0:
		out["nullable-slot-bound-to-bare-nilable:"+g.K] = true
	case nul && n == 2:
		out["nullable-slot-bound-to-double-pointer:"+t.K] = true
	case !nul && n == 1:
		out["plain-slot-bound-to-pointer:"+t.K] = true
	}
	switch t.K {
	case "list":
		if t.Nullable && g.Elem.K != "ptr" {
			out["nullable-list-element-bare:"+g.Elem.K] = true
		}
		c19SlotShapes(g.Elem, t.Elem, t.Nullable, out)
	case "map":
		if t.Nullable && g.Elem.K != "ptr" {
			out["nullable-map-value-bare:"+g.Elem.K] = true
		}
		c19SlotShapes(g.Elem, t.Elem, t.Nullable, out)
	case "struct":
		for i, f := range t.Fields {
			fg := g.Fields[i].T
			switch slot := core.FieldSlot(fg, f.Opt, f.Nullable); slot {
			case "optptr":
				out["field:optional-pointer"] = true
				if f.Nullable && fg.Elem.K == "ptr" && fg.Elem.Elem.K == "ptr" {
					out["field:optional-nullable-triple-pointer"] = true
				}
				c19SlotShapes(fg.Elem, f.T, f.Nullable, out)
			case "optbare":
				out["field:optbare:"+fg.K] = true
				c19SlotShapes(fg, f.T, false, out)
			default:
				if f.Nullable && fg.K != "ptr" {
					out["field:nulbare:"+fg.K] = true
				}
				c19SlotShapes(fg, f.T, f.Nullable, out)
			}
		}
	case "union":
		for i, m := range t.Members {
			c19SlotShapes(g.Fields[i].T.Elem, m.T, false, out)
		}
	}
}

// c19ShuffleStructs: the type-level builder takes struct fields in any order.
func c19ShuffleStructs(t *core.SType, v core.Val, r *core.Rand) core.Val {
	switch {
	case t.K == "list" && v.K == '[':
		out := core.Val{K: '['}
		for _, x := range v.L {
			out.L = append(out.L, c19ShuffleStructs(t.Elem, x, r))
		}
		return out
	case t.K == "map" && v.K == '{':
		out := core.Val{K: '{'}
		for _, e := range v.M {
			out.M = append(out.M, core.KV{K: e.K, V: c19ShuffleStructs(t.Elem, e.V, r)})
		}
		return out
	case t.K == "struct" && v.K == '{' && len(v.M) == len(t.Fields):
		out := core.Val{K: '{'}
		for _, i := range r.Perm(len(v.M)) {
			out.M = append(out.M, core.KV{K: v.M[i].K, V: c19ShuffleStructs(t.Fields[i].T, v.M[i].V, r)})
		}
		return out
	case t.K == "union" && v.K == '{' && len(v.M) == 1:
		for _, m := range t.Members {
			if m.T.Name == string(v.M[0].K) {
				return core.Map(core.KV{K: v.M[0].K, V: c19ShuffleStructs(m.T, v.M[0].V, r)})
			}
		}
	}
	return v
}

// c19BuildUnwrap feeds the content into the type-level builder of the binding and unwraps: the Go value's tokens, or
// "refused" / "panic(…)".
func c19BuildUnwrap(b *c19Bind, content core.Val, r *core.Rand) (tokens string, got reflect.Value) {
	nb := b.Proto.NewBuilder()
	err, panicked, pv := core.Catch(func() error {
		if err := core.Assemble(nb, content, r); err != nil {
			return err
		}
		ptr := bindnode.Unwrap(nb.Build())
		if ptr == nil {
			return fmt.Errorf("Unwrap returned nil")
		}
		got = reflect.ValueOf(ptr).Elem()
		if got.Type() != b.RT {
			return fmt.Errorf("Unwrap returned a %s, bound was %s", got.Type(), b.RT)
		}
		tokens = core.GoValTokens(got, b.G, false)
		return nil
	})
	if panicked {
		return "panic(" + fmt.Sprint(pv) + ")", reflect.Value{}
	}
	if err != nil {
		return "refused", reflect.Value{}
	}
	return tokens, got
}

var c19Codecs = []struct {
	name string
	enc  codec.Encoder
	dec  codec.Decoder
}{{"dag-cbor", dagcbor.Encode, dagcbor.Decode}, {"dag-json", dagjson.Encode, dagjson.Decode}}

// c19CheckGoValue: everything the property says about one Go value pv (a pointer to a value of the bound type).
func c19CheckGoValue(c *core.Ctx, b *c19Bind, pv reflect.Value, r *core.Rand, p *c19Pending) {
	goTokens := core.GoValTokens(pv.Elem(), b.G, false)
	caseID := "c19.bind " + b.Head + " VAL " + goTokens
	want, werr := core.WalkGo(pv.Elem(), b.G, b.T, false)
	if werr != nil {
		// not an inhabitant of the schema type (the reflection walk fails): outside the quantifier.  The model must find it
		// unreadable and ill-typed; what the implementation does with it (an error, a panic, or a garbage read such as the
		// string "<invalid Value>" for a key without value) is only recorded.
		c.Count(caseID, false)
		got := "wrap-panic"
		core.Catch(func() error { got = readView(bindnode.Wrap(pv.Interface(), b.ST)); return nil })
		if strings.HasPrefix(got, "read-error(") || strings.HasPrefix(got, "read-panic(") || strings.HasPrefix(got, "wrap-panic") {
			c.Dist("non-inhabitant:implementation-refuses-to-read")
		} else {
			c.Dist("non-inhabitant:implementation-reads-something")
		}
		p.add("gobind.view "+b.Head+" VAL "+goTokens, "unreadable", caseID, "C19/corr-view")
		p.add("gobind.wt "+b.Head+" VAL "+goTokens, "false", caseID, "C19/corr-wt")
		return
	}
	c.Count(caseID, want.Size() > 3)
	bigAny := c19HasBigUnsigned(b.G, b.T, false, want, "")
	bigKinded := c19HasBigUnsigned(b.G, b.T, false, want, "kinded")
	// (O) wrap_faithful: the node API shows exactly the reflection walk
	var node datamodel.Node
	got := "wrap-panic"
	_, panicked, ppv := core.Catch(func() error {
		node = bindnode.Wrap(pv.Interface(), b.ST)
		return nil
	})
	if panicked {
		got = "wrap-panic(" + fmt.Sprint(ppv) + ")"
	} else {
		got = readView(node)
	}
	if got != want.Term() {
		c.Fail("C19/wrap-not-faithful", core.Replay{Kind: "oracle", Case: caseID, Impl: got, Expected: want.Term(), Detail: "Wrap(value) read through the node API vs. a reflection walk of the Go value"})
	} else if prob := consistency(node, ""); prob != "" {
		// iteration, every lookup form and Length tell the same story
		c.Fail("C19/wrapped-node-inconsistent", core.Replay{Kind: "oracle", Case: caseID, Impl: prob, Expected: "iterators, LookupByString / LookupByIndex / LookupByNode / LookupBySegment and Length agree", Detail: "the node API of Wrap(value) disagrees with itself"})
	}
	// the value is a well-typed inhabitant for the model as well (the hypothesis of the theorems)
	p.add("gobind.wt "+b.Head+" VAL "+goTokens, "true", caseID, "C19/corr-wt")
	implView := got
	if strings.HasPrefix(got, "read-error(") || strings.HasPrefix(got, "read-panic(") || strings.HasPrefix(got, "wrap-panic") {
		implView = "unreadable"
	}
	p.add("gobind.view "+b.Head+" VAL "+goTokens, implView, caseID, "C19/corr-view")
	// (O) unwrap_build: building the content and unwrapping gives the normalised value
	norm := core.NormGo(pv.Elem(), b.G)
	normTokens := core.GoValTokens(norm, b.G, false)
	content := core.TypeInput(want)
	var ar *core.Rand
	if r != nil && r.Bool() {
		ar = r
		content = c19ShuffleStructs(b.T, content, r)
	}
	builtTokens, built := c19BuildUnwrap(b, content, ar)
	if builtTokens != normTokens {
		c.Fail("C19/unwrap-differs", core.Replay{Kind: "oracle", Case: caseID, Impl: builtTokens, Expected: normTokens, Detail: "Unwrap(build(content of the value)) vs. the normalised value"})
	} else if b.G.DeepEqualUsable() && !reflect.DeepEqual(built.Interface(), norm.Interface()) {
		c.Fail("C19/unwrap-differs", core.Replay{Kind: "oracle", Case: caseID, Impl: fmt.Sprintf("%#v", built.Interface()), Expected: fmt.Sprintf("%#v", norm.Interface()), Detail: "reflect.DeepEqual(Unwrap(build(content)), normalised value) is false although the token forms agree"})
	}
	p.add("gobind.assign "+b.Head+" VAL "+want.Term(), builtTokens, caseID, "C19/corr-assign")
	// (O) the normalisation does not change the data held: the normalised value holds what the value holds
	if nw, err := core.WalkGo(norm, b.G, b.T, false); err != nil || nw.Term() != want.Term() {
		c.Fail("C19/normalisation-changes-data", core.Replay{Kind: "oracle", Case: caseID, Impl: fmt.Sprint(nw.Term(), err), Expected: want.Term(), Detail: "the data held by Unwrap(build(content of the value)) vs. the data held by the value"})
	}
	// (O) marshal_unmarshal, per codec, into a fresh value
	wantSorted := core.GoValTokens(norm, b.G, true)
	for _, cd := range c19Codecs {
		out := reflect.New(b.RT)
		var enc []byte
		err, panicked, ppv := core.Catch(func() error {
			var err error
			if enc, err = ipld.Marshal(cd.enc, pv.Interface(), b.ST); err != nil {
				return fmt.Errorf("Marshal: %w", err)
			}
			if _, err = ipld.Unmarshal(enc, cd.dec, out.Interface(), b.ST); err != nil {
				return fmt.Errorf("Unmarshal: %w", err)
			}
			return nil
		})
		sig := ""
		rp := core.Replay{Kind: "oracle", Case: caseID, Expected: wantSorted, Detail: "Marshal → Unmarshal through " + cd.name + " into a fresh value"}
		switch {
		case err != nil || panicked:
			sig, rp.Impl = "C19/marshal-roundtrip-fails", fmt.Sprint(err, ppv)
		case core.GoValTokens(out.Elem(), b.G, true) != wantSorted:
			sig, rp.Impl = "C19/marshal-roundtrip-differs", core.GoValTokens(out.Elem(), b.G, true)
			rp.Detail += fmt.Sprintf(" (%d bytes: %x)", len(enc), truncateBytes(enc, 120))
		}
		if sig != "" {
			switch {
			case bigAny && cd.name == "dag-json":
				sig = "C19/dagjson-unsigned-above-int64"
			case bigKinded:
				sig = "C19/kinded-union-unsigned-above-int64-marshal-fails"
			}
			c.Fail(sig, rp)
		}
		c.Dist("codec:" + cd.name)
	}
	// (O) pure, last because it scribbles over the Go value: a builder given the wrapped node with AssignNode produces a
	// value of its own - later edits of either Go value, or further use of the builder, do not show in the other node
	if node != nil && !panicked {
		typedAliasing(c, "C19", caseID, b.Proto, node)
	}
}

// c19CheckTypedValue: a typed value (canonical: every field listed, absent explicit) is built into the Go type.
func c19CheckTypedValue(c *core.Ctx, b *c19Bind, tl core.Val, r *core.Rand, p *c19Pending) {
	caseID := "c19.build " + b.Head + " VAL " + tl.Term()
	c.Count(caseID, tl.Size() > 3)
	content := core.TypeInput(tl)
	var ar *core.Rand
	if r != nil && r.Bool() {
		ar = r
		content = c19ShuffleStructs(b.T, content, r)
	}
	builtTokens, built := c19BuildUnwrap(b, content, ar)
	p.add("gobind.assign "+b.Head+" VAL "+tl.Term(), builtTokens, caseID, "C19/corr-assign")
	fits := c19IntsFit(b.G, b.T, false, tl, false)
	switch {
	case strings.HasPrefix(builtTokens, "panic("):
		c.Fail("C19/build-panics", core.Replay{Kind: "oracle", Case: caseID, Impl: builtTokens, Expected: "built or refused"})
	case builtTokens == "refused" && fits:
		c.Fail("C19/build-refused", core.Replay{Kind: "oracle", Case: caseID, Impl: "refused", Expected: "built: the value conforms and every integer fits its Go kind"})
	case builtTokens != "refused" && !fits:
		c.Fail("C19/narrow-int-overflow-stored-silently", core.Replay{Kind: "oracle", Case: caseID, Impl: builtTokens, Expected: "refused: an integer does not fit its Go kind"})
	case builtTokens != "refused":
		// wrap of what was built shows exactly what was assembled
		ptr := reflect.New(b.RT)
		ptr.Elem().Set(built)
		got := "wrap-panic"
		_, panicked, _ := core.Catch(func() error { got = readView(bindnode.Wrap(ptr.Interface(), b.ST)); return nil })
		if panicked || got != tl.Term() {
			c.Fail("C19/wrap-of-built-differs", core.Replay{Kind: "oracle", Case: caseID, Impl: got, Expected: tl.Term(), Detail: "Wrap(Unwrap(build(typed value))) read through the node API"})
		}
		c.Dist("build:accepted")
	default:
		c.Dist("build:refused-integer-does-not-fit")
	}
}

func truncateBytes(b []byte, n int) []byte {
	if len(b) > n {
		return b[:n]
	}
	return b
}

// c19GenIntHeavy: a struct of integer-bearing fields (GenSchema's trees are string-heavy): ints, lists and maps of ints
// (nullable or not), int-represented enums with representation ints around the int8 / uint8 / int16 boundaries, in optional,
// nullable and optional-nullable fields.
func c19GenIntHeavy(r *core.Rand) *core.SType {
	names := []string{"a", "b", "c", "x", "y", "id", "val"}
	var sb strings.Builder
	sb.WriteString("struct " + []string{"map", "tuple", "listpairs"}[r.Intn(3)])
	n := 1 + r.Intn(5)
	for i := 0; i < n; i++ {
		flags := ""
		if i >= n-2 && r.Chance(1, 3) {
			flags += "o"
		}
		if r.Chance(1, 4) {
			flags += "n"
		}
		h := fmt.Sprintf("%x", names[i])
		sb.WriteString(" f" + flags + ":" + h + ":" + h + " ")
		switch r.Intn(7) {
		case 0, 1:
			sb.WriteString("int")
		case 2:
			sb.WriteString([]string{"list int", "list? int"}[r.Intn(2)])
		case 3:
			sb.WriteString([]string{"map int", "map? int"}[r.Intn(2)])
		case 4:
			sb.WriteString("list map int")
		default:
			pool := []int64{0, 1, 2, 127, 128, 255, 256, -1, -128, -129, 32767, 32768, 65535, 7}
			sb.WriteString("enum int")
			for j, k := range r.Perm(len(pool))[:1+r.Intn(3)] {
				nm := fmt.Sprintf("%x", []string{"A", "B", "C"}[j])
				sb.WriteString(fmt.Sprintf(" e:%s:%s:%d", nm, nm, pool[k]))
			}
			sb.WriteString(" )")
		}
	}
	sb.WriteString(" )")
	t, _, err := core.ParseSType(strings.Fields(sb.String()))
	if err != nil {
		panic(err)
	}
	return t
}

func c19BindSection(c *core.Ctx) error {
	r := c.Rand.Fork()
	var p c19Pending
	// known-finding witnesses (hand-declared Go types; see known_findings.json)
	c19BindWitnesses(c)
	for _, line := range c19Directed {
		if err := c19RunCase(c, line, &p); err != nil {
			return fmt.Errorf("directed case %q: %w", line, err)
		}
		c.Dist("directed:repaired-deviations-and-boundaries")
	}
	nTypes := c.Pick(1200, 40000)
	for i := 0; i < nTypes; i++ {
		t := core.GenSchema(r, c19SchemaCfg)
		if i%3 == 2 {
			t = c19GenIntHeavy(r)
		}
		b, err := newC19Bind(t, nil)
		if err != nil {
			return err
		}
		p.add("gobind.compatible "+b.Head, "true", "c19.bind "+b.Head+" VAL -", "C19/corr-compatible")
		kinds := map[string]bool{}
		b.G.GoKinds(kinds)
		for k := range kinds {
			c.Dist("gokind:" + k)
		}
		shapes := map[string]bool{}
		c19SlotShapes(b.G, b.T, false, shapes)
		for k := range shapes {
			c.Dist("slotshape:" + k)
		}
		strat := map[string]bool{}
		t.Strategies(strat)
		for k := range strat {
			c.Dist("strategy:" + k)
		}
		for k := 0; k < 3; k++ {
			stats := core.GoValStats{}
			pv := reflect.New(b.RT)
			core.FillGo(r, pv.Elem(), b.G, b.T, false, false, r.Chance(1, 10), stats)
			for s, n := range stats {
				for ; n > 0; n-- {
					c.Dist("goval:" + s)
				}
			}
			c19CheckGoValue(c, b, pv, r, &p)
			if i < 2 && k == 0 {
				c.Sample(truncateStr("c19.bind "+b.Head+" VAL "+core.GoValTokens(pv.Elem(), b.G, false), 600))
			}
		}
		if i%4 == 0 {
			// a Go value that is NOT an inhabitant (a union struct without member, a key without value, an enum integer no
			// member has): outside the property's quantifier; the model must find it unreadable where the implementation does
			pv := reflect.New(b.RT)
			core.FillGo(r, pv.Elem(), b.G, b.T, false, false, false, core.GoValStats{})
			if what := core.BreakGo(r, pv.Elem(), b.G, b.T, false); what != "" {
				c19CheckGoValue(c, b, pv, r, &p)
				c.Dist("non-inhabitant:" + what)
			}
		}
		for k := 0; k < 2; k++ {
			tl := core.GenInhabitant(t, r, c19SchemaCfg, false)
			c19CheckTypedValue(c, b, tl, r, &p)
		}
		if len(p.lines) > 4000 {
			if err := p.flush(c); err != nil {
				return err
			}
		}
	}
	return p.flush(c)
}

// c19Directed: inputs of deviations that were found by this check and repaired in the library (f5ad5bb: a Go uint above
// MaxInt64 was unreadable; 7093040: an enum representation int was stored into a narrower Go integer without a width check),
// plus boundary bindings; they run through the ordinary checks, so a recurrence is an ordinary violation.
var c19Directed = []string{
	"c19.bind struct n:58 uint ) SCHEMA struct map f:58:58 int ) VAL ( i9223372036854775808 )",
	"c19.bind struct n:58 ptr uint n:59 slice uint ) SCHEMA struct tuple fn:58:58 int f:59:59 list int ) VAL ( & i18446744073709551615 [ i0 i9223372036854775807 i9223372036854775808 ] )",
	"c19.build struct n:58 uint ) SCHEMA struct map f:58:58 int ) VAL { s58 i18446744073709551615 }",
	"c19.build struct n:45 i8 ) SCHEMA struct map f:45:45 enum int e:41:41:300 e:42:42:1 ) ) VAL { s45 s41 }",
	"c19.build struct n:45 i8 ) SCHEMA struct map f:45:45 enum int e:41:41:300 e:42:42:1 ) ) VAL { s45 s42 }",
	"c19.build struct n:45 u8 ) SCHEMA struct map f:45:45 enum int e:41:41:256 e:42:42:255 e:43:43:-1 ) ) VAL { s45 s41 }",
	"c19.build struct n:45 u8 ) SCHEMA struct map f:45:45 enum int e:41:41:256 e:42:42:255 e:43:43:-1 ) ) VAL { s45 s43 }",
	"c19.build struct n:45 ptr i16 ) SCHEMA struct listpairs fo:45:45 enum int e:41:41:32768 e:42:42:-32768 ) ) VAL { s45 s41 }",
	"c19.bind struct n:45 u8 ) SCHEMA struct map f:45:45 enum int e:41:41:256 e:42:42:255 e:43:43:-1 ) ) VAL ( i255 )",
	// the slot shapes beyond "pointers for optional and nullable": a required, non-nullable slot bound to ONE pointer
	// (struct field, list elements, map values) holding unsigned values around 2^63 …
	"c19.bind struct n:636f756e74 ptr u64 n:6e ptr uint n:6c slice ptr u64 n:6d omap ptr u64 ) SCHEMA struct map f:636f756e74:636f756e74 int f:6e:6e int f:6c:6c list int f:6d:6d map int ) VAL ( & i18446744073709551615 & i9223372036854775808 [ & i0 & i9223372036854775807 & i9223372036854775808 ] m k[ s6b ] v{ s6b & i18446744073709551615 } )",
	"c19.build struct n:636f756e74 ptr u64 n:6c slice ptr u64 ) SCHEMA struct map f:636f756e74:636f756e74 int f:6c:6c list int ) VAL { s636f756e74 i9223372036854775808 s6c [ i18446744073709551615 i1 ] }",
	// … and optional / nullable struct fields bound to bare nilable Go types (slice, []byte, datamodel.Link, datamodel.Node),
	// absent, null and present
	"c19.bind struct n:74616773 slice string n:626c6f62 bytes n:726566 link:iface n:616e79 node n:6e slice i8 n:78 i64 ) SCHEMA struct map fo:74616773:74616773 list str fo:626c6f62:626c6f62 bytes fo:726566:726566 link fo:616e79:616e79 any fn:6e:6e list int f:78:78 int ) VAL ( nilb nilb nilb nilb nilb i1 )",
	"c19.bind struct n:74616773 slice string n:626c6f62 bytes n:726566 link:iface n:616e79 node n:6e slice i8 n:78 i64 ) SCHEMA struct map fo:74616773:74616773 list str fo:626c6f62:626c6f62 bytes fo:726566:726566 link fo:616e79:616e79 any fn:6e:6e list int f:78:78 int ) VAL ( [ s61 s ] b00ff l0155a0e4020106 N { s6b [ i1 ] } [ i-128 i127 ] i1 )",
	"c19.bind struct n:78 i64 n:74616773 slice string ) SCHEMA struct tuple f:78:78 int fo:74616773:74616773 list str ) VAL ( i1 nilb )",
	"c19.build struct n:74616773 slice string n:626c6f62 bytes n:6e slice i8 ) SCHEMA struct listpairs fo:74616773:74616773 list str fo:626c6f62:626c6f62 bytes fn:6e:6e list int ) VAL { s74616773 a s626c6f62 b s6e n }",
	"c19.build struct n:74616773 slice string n:6e slice i8 ) SCHEMA struct map fo:74616773:74616773 list str fn:6e:6e list int ) VAL { s74616773 [ s78 ] s6e [ i300 ] }",
	// repaired (PENDING): an EMPTY list / empty bytes in an optional / nullable slot bound to a bare slice / []byte stays an empty
	// list / empty bytes (it used to become absent / null); an empty list is a non-nil slice in every slot
	"c19.build struct n:74616773 slice string n:626c6f62 bytes n:6e slice i8 n:70 ptr slice bool n:71 slice bool ) SCHEMA struct map fo:74616773:74616773 list str fo:626c6f62:626c6f62 bytes fn:6e:6e list int fn:70:70 list bool f:71:71 list bool ) VAL { s74616773 [ ] s626c6f62 b s6e [ ] s70 [ ] s71 [ ] }",
	"c19.bind struct n:74616773 slice string n:626c6f62 bytes n:6e slice i8 n:71 slice bool ) SCHEMA struct map fo:74616773:74616773 list str fo:626c6f62:626c6f62 bytes fn:6e:6e list int f:71:71 list bool ) VAL ( [ ] b [ ] nils )",
	// repaired (PENDING): nullable list elements / map values bound to bare nilable types, nil and non-nil
	"c19.bind struct n:6c slice slice string n:6d omap bytes n:6b slice link:iface n:61 slice node ) SCHEMA struct map f:6c:6c list? list str f:6d:6d map? bytes f:6b:6b list? link f:61:61 list? any ) VAL ( [ nilb [ s61 ] [ ] ] m k[ s78 s79 ] v{ s78 nilb s79 b00 } [ nilb l0155a0e4020106 ] [ N i1 nilb N { s6b [ n ] } ] )",
	"c19.build slice slice i8 SCHEMA list? list int VAL [ n [ i1 ] [ ] [ i200 ] ]",
	"c19.build slice slice i8 SCHEMA list? list int VAL [ n [ i1 ] [ ] ]",
	// repaired (PENDING): one pointer more than needed on a nullable slot (**T), on optional and nullable (***T)
	"c19.bind struct n:78 ptr ptr i64 n:79 ptr ptr ptr u8 n:6c slice ptr ptr string ) SCHEMA struct map fn:78:78 int fon:79:79 int f:6c:6c list? str ) VAL ( & & i-5 & & & i255 [ nilp & & s61 ] )",
	"c19.bind struct n:78 ptr ptr i64 n:79 ptr ptr ptr u8 n:6c slice ptr ptr string ) SCHEMA struct map fn:78:78 int fon:79:79 int f:6c:6c list? str ) VAL ( nilp & nilp [ ] )",
	"c19.bind struct n:78 ptr ptr i64 n:79 ptr ptr ptr u8 n:6c slice ptr ptr string ) SCHEMA struct map fn:78:78 int fon:79:79 int f:6c:6c list? str ) VAL ( nilp nilp nils )",
	"c19.build struct n:78 ptr ptr i64 n:79 ptr ptr ptr u8 ) SCHEMA struct map fn:78:78 int fon:79:79 int ) VAL { s78 i5 s79 i256 }",
	"c19.build struct n:78 ptr ptr i64 n:79 ptr ptr ptr u8 ) SCHEMA struct map fn:78:78 int fon:79:79 int ) VAL { s78 n s79 i255 }",
	// repaired (PENDING): the representation of a value behind the pointer of a slot that is not nullable (int-represented enum,
	// kinded union, tuple struct, map-represented struct with an optional field)
	"c19.bind struct n:65 ptr u8 n:75 ptr struct n:5441 ptr i64 n:5442 ptr string ) n:74 ptr struct n:61 i64 n:62 ptr string ) n:6d ptr struct n:61 ptr string n:62 i8 ) ) SCHEMA struct map f:65:65 enum int e:41:41:7 ) f:75:75 union kinded m:5441:5441:int int m:5442:5442:str str ) f:74:74 struct tuple f:61:61 int fo:62:62 str ) f:6d:6d struct map fo:61:61 str f:62:62 int ) ) VAL ( & i7 & ( nilp & s78 ) & ( i1 & s79 ) & ( nilp i2 ) )",
}

// c19RunCase executes one case line of this section (its correspondence lines are left pending in p).
func c19RunCase(c *core.Ctx, line string, p *c19Pending) error {
	toks := strings.Fields(line)
	if len(toks) == 0 {
		return fmt.Errorf("empty case line")
	}
	g, rest, err := core.ParseGTy(toks[1:])
	if err != nil {
		return err
	}
	if len(rest) == 0 || rest[0] != "SCHEMA" {
		return fmt.Errorf("case line: SCHEMA expected after the go type")
	}
	t, rest, err := core.ParseSType(rest[1:])
	if err != nil {
		return err
	}
	if len(rest) == 0 || rest[0] != "VAL" {
		return fmt.Errorf("case line: VAL expected after the schema")
	}
	b, err := newC19Bind(t, g)
	if err != nil {
		return err
	}
	switch toks[0] {
	case "c19.bind":
		pv := reflect.New(b.RT)
		r2, err := core.ParseGoVal(rest[1:], pv.Elem(), b.G)
		if err != nil {
			return err
		}
		if len(r2) != 0 {
			return fmt.Errorf("case line: trailing tokens after the go value")
		}
		c19CheckGoValue(c, b, pv, nil, p)
	case "c19.build":
		tl, r2, err := core.ParseTerm(rest[1:])
		if err != nil {
			return err
		}
		if len(r2) != 0 {
			return fmt.Errorf("case line: trailing tokens after the typed value")
		}
		c19CheckTypedValue(c, b, tl, nil, p)
	default:
		return fmt.Errorf("unknown case kind %q", toks[0])
	}
	return nil
}

// c19BindReplay re-executes one case line of this section.
func c19BindReplay(c *core.Ctx, line string) error {
	var p c19Pending
	if err := c19RunCase(c, line, &p); err != nil {
		return err
	}
	return p.flush(c)
}

// --- witnesses of the known findings of this section (hand-declared Go types) ---------------------------

type c19WU64 struct{ X uint64 }
type c19WKinded struct{ Int *uint64 }

var c19WitnessTS = schema.MustTypeSystem(
	schema.SpawnInt("Int"), schema.SpawnString("String"),
	schema.SpawnList("LS", "String", false),
	schema.SpawnStruct("WUint", []schema.StructField{schema.SpawnStructField("X", "Int", false, false)}, schema.SpawnStructRepresentationMap(nil)),
	schema.SpawnUnion("WKinded", []schema.TypeName{"Int"}, schema.SpawnUnionRepresentationKinded(map[datamodel.Kind]schema.TypeName{datamodel.Kind_Int: "Int"})),
)

func c19BindWitnesses(c *core.Ctx) {
	// dag-json cannot marshal an unsigned integer above MaxInt64
	{
		v := c19WU64{X: 1 << 63}
		_, err := ipld.Marshal(dagjson.Encode, &v, c19WitnessTS.TypeByName("WUint"))
		c.KnownWitness("C19/dagjson-unsigned-above-int64", err != nil, "ipld.Marshal(dagjson.Encode, &struct{X uint64}{1<<63}, …) fails: "+fmt.Sprint(err))
	}
	// an unsigned integer above MaxInt64 as the member of a kinded union: the representation node is not a UintNode
	{
		x := uint64(1) << 63
		v := c19WKinded{Int: &x}
		_, err := ipld.Marshal(dagcbor.Encode, &v, c19WitnessTS.TypeByName("WKinded"))
		c.KnownWitness("C19/kinded-union-unsigned-above-int64-marshal-fails", err != nil, "ipld.Marshal(dagcbor.Encode, &struct{Int *uint64}{&(1<<63)}, kinded union {Int int}) fails: "+fmt.Sprint(err))
	}
}

// ---------------------------------------------------------------------------------------------
// custom converters (bindnode options): a Go type of the caller's own per scalar kind, in every kind of slot

type cvBool struct{ B bool }
type cvInt struct{ I int64 }
type cvMillis int64 // same Go kind as the schema kind: only the converter tells 21 from 21000
type cvFloat struct{ F float64 }
type cvString struct{ S string }
type cvBytes struct{ B []byte }

// c19Converters: for each scalar kind bound through a Typed…Converter to a Go struct of the caller's own, as a struct
// field, a list element, a typed-map value and a keyed-union member: what is assembled is what Unwrap holds and what
// Wrap shows, and Marshal → Unmarshal through dag-cbor reproduces it.
func c19Converters(c *core.Ctx) {
	r := c.Rand.Fork()
	type kindCase struct {
		kind   string
		scalar schema.Type
		goT    reflect.Type
		opt    bindnode.Option
		gen    func() core.Val
	}
	kinds := []kindCase{
		{"bool", schema.SpawnBool("X"), reflect.TypeOf(cvBool{}), bindnode.TypedBoolConverter((*cvBool)(nil),
			func(b bool) (interface{}, error) { return &cvBool{b}, nil }, func(v interface{}) (bool, error) { return v.(*cvBool).B, nil }),
			func() core.Val { return core.Bool(r.Bool()) }},
		{"int", schema.SpawnInt("X"), reflect.TypeOf(cvInt{}), bindnode.TypedIntConverter((*cvInt)(nil),
			func(i int64) (interface{}, error) { return &cvInt{i}, nil }, func(v interface{}) (int64, error) { return v.(*cvInt).I, nil }),
			func() core.Val { return core.Int(int64(r.Intn(2000)) - 1000) }},
		{"int-scaled", schema.SpawnInt("X"), reflect.TypeOf(cvMillis(0)), bindnode.TypedIntConverter((*cvMillis)(nil),
			func(i int64) (interface{}, error) { m := cvMillis(i * 1000); return &m, nil }, func(v interface{}) (int64, error) { return int64(*v.(*cvMillis)) / 1000, nil }),
			func() core.Val { return core.Int(int64(r.Intn(2000)) - 1000) }},
		{"float", schema.SpawnFloat("X"), reflect.TypeOf(cvFloat{}), bindnode.TypedFloatConverter((*cvFloat)(nil),
			func(f float64) (interface{}, error) { return &cvFloat{f}, nil }, func(v interface{}) (float64, error) { return v.(*cvFloat).F, nil }),
			func() core.Val { return core.Float(float64(r.Intn(1000))/8 + 0.5) }},
		{"string", schema.SpawnString("X"), reflect.TypeOf(cvString{}), bindnode.TypedStringConverter((*cvString)(nil),
			func(s string) (interface{}, error) { return &cvString{s}, nil }, func(v interface{}) (string, error) { return v.(*cvString).S, nil }),
			func() core.Val { return core.Str(string(core.GenStrBytes(r, core.GenCfg{ValidUTF8: true}))) }},
		{"bytes", schema.SpawnBytes("X"), reflect.TypeOf(cvBytes{}), bindnode.TypedBytesConverter((*cvBytes)(nil),
			func(b []byte) (interface{}, error) { return &cvBytes{append([]byte{}, b...)}, nil }, func(v interface{}) ([]byte, error) { return v.(*cvBytes).B, nil }),
			func() core.Val { return core.Bytes(r.Bytes(r.Intn(6))) }},
	}
	for iter := 0; iter < c.Pick(60, 6000); iter++ {
		kc := kinds[r.Intn(len(kinds))]
		slot := []string{"struct-field", "list-element", "map-value", "union-member"}[r.Intn(4)]
		var root schema.Type
		var goT reflect.Type
		var input core.Val
		switch slot {
		case "struct-field":
			root = schema.SpawnStruct("Root", []schema.StructField{schema.SpawnStructField("F", "X", false, false), schema.SpawnStructField("G", "X", false, false)}, schema.SpawnStructRepresentationMap(nil))
			goT = reflect.StructOf([]reflect.StructField{{Name: "F", Type: kc.goT}, {Name: "G", Type: kc.goT}})
			input = core.Map(core.KV{K: []byte("F"), V: kc.gen()}, core.KV{K: []byte("G"), V: kc.gen()})
		case "list-element":
			root = schema.SpawnList("Root", "X", false)
			goT = reflect.SliceOf(kc.goT)
			input = core.List(kc.gen(), kc.gen(), kc.gen())
		case "map-value":
			root = schema.SpawnMap("Root", "String", "X", false)
			goT = reflect.StructOf([]reflect.StructField{{Name: "Keys", Type: reflect.TypeOf([]string{})}, {Name: "Values", Type: reflect.MapOf(reflect.TypeOf(""), kc.goT)}})
			input = core.Map(core.KV{K: []byte("k1"), V: kc.gen()}, core.KV{K: []byte("k2"), V: kc.gen()})
		default:
			root = schema.SpawnUnion("Root", []schema.TypeName{"X"}, schema.SpawnUnionRepresentationKeyed(map[string]schema.TypeName{"x": "X"}))
			goT = reflect.StructOf([]reflect.StructField{{Name: "X", Type: reflect.PointerTo(kc.goT)}})
			input = core.Map(core.KV{K: []byte("X"), V: kc.gen()})
		}
		ts, errs := schema.SpawnTypeSystem(schema.SpawnString("String"), kc.scalar, root)
		if errs != nil {
			continue
		}
		caseID := fmt.Sprintf("c19.converter %s %s INPUT %s", kc.kind, slot, input.Term())
		c.Count(caseID, true)
		c.Dist("converter:" + kc.kind + ":" + slot)
		var got, rewrapped, roundtrip, helper string
		err, panicked, pv := core.Catch(func() error {
			proto := bindnode.Prototype(reflect.New(goT).Interface(), ts.TypeByName("Root"), kc.opt)
			nb := proto.NewBuilder()
			if err := core.Assemble(nb, input, r); err != nil {
				return err
			}
			n := nb.Build()
			got = termOf(n)
			gv := bindnode.Unwrap(n)
			rewrapped = termOf(bindnode.Wrap(gv, ts.TypeByName("Root"), kc.opt))
			var buf bytes.Buffer
			if err := dagcbor.Encode(n.(schema.TypedNode).Representation(), &buf); err != nil {
				return fmt.Errorf("encode: %w", err)
			}
			nb2 := proto.Representation().NewBuilder()
			if err := dagcbor.Decode(nb2, bytes.NewReader(buf.Bytes())); err != nil {
				return fmt.Errorf("decode: %w", err)
			}
			roundtrip = termOf(nb2.Build())
			// the helper entry points with the same options: Marshal of the Go value, Unmarshal into a fresh one; the NODE
			// that Unmarshal returns shows the same value as the Go value it filled, and re-encodes to the same bytes
			hb, err := ipld.Marshal(dagcbor.Encode, gv, ts.TypeByName("Root"), kc.opt)
			if err != nil {
				return fmt.Errorf("ipld.Marshal: %w", err)
			}
			if !bytes.Equal(hb, buf.Bytes()) {
				helper = "ipld.Marshal bytes differ"
				return nil
			}
			out := reflect.New(goT).Interface()
			un, err := ipld.Unmarshal(hb, dagcbor.Decode, out, ts.TypeByName("Root"), kc.opt)
			if err != nil {
				return fmt.Errorf("ipld.Unmarshal: %w", err)
			}
			if t := termOf(un); t != input.Term() {
				helper = "node returned by ipld.Unmarshal shows " + t
			} else if t := termOf(bindnode.Wrap(out, ts.TypeByName("Root"), kc.opt)); t != input.Term() {
				helper = "Go value filled by ipld.Unmarshal shows " + t
			} else {
				var buf2 bytes.Buffer
				if err := dagcbor.Encode(un.(schema.TypedNode).Representation(), &buf2); err != nil || !bytes.Equal(buf2.Bytes(), hb) {
					helper = fmt.Sprintf("node returned by ipld.Unmarshal re-encodes as %x (%v), want %x", buf2.Bytes(), err, hb)
				}
			}
			return nil
		})
		switch {
		case panicked:
			c.Fail("C19/converter-panics", core.Replay{Kind: "oracle", Case: caseID, Impl: fmt.Sprint(pv), Expected: input.Term()})
		case err != nil:
			c.Fail("C19/converter-build-refused", core.Replay{Kind: "oracle", Case: caseID, Impl: err.Error(), Expected: input.Term()})
		case got != input.Term() || rewrapped != input.Term() || roundtrip != input.Term():
			c.Fail("C19/converter-value-differs", core.Replay{Kind: "oracle", Case: caseID, Impl: "built " + got + " | wrap(unwrap) " + rewrapped + " | decode(encode) " + roundtrip, Expected: input.Term(),
				Detail: "a scalar bound through a custom converter: what was assembled is not what the node / the Go value / the round trip shows"})
		case helper != "":
			c.Fail("C19/converter-helper-differs", core.Replay{Kind: "oracle", Case: caseID, Impl: helper, Expected: input.Term(),
				Detail: "ipld.Marshal / ipld.Unmarshal called with the converter options"})
		}
	}
}

type c19RegRec struct {
	Name string
	Tags []string
	Note *string
	N    int64
}

// c19Registry: the bindnode registry helper (node/bindnode/registry) shares the marshal / unmarshal obligation.  One
// registry, one registered type, a history of conversions in which refused inputs (a truncated block, a wrong kind
// late in the document, a node of the wrong shape) alternate with good ones through every entry point: each good
// conversion returns the value that was encoded - whatever the registry was asked before - and each bad one an error.
func c19Registry(c *core.Ctx) {
	r := c.Rand.Fork()
	const schemaText = "type Rec struct {\n Name String\n Tags [String]\n Note optional String\n N Int\n}\n"
	genRec := func() c19RegRec {
		v := c19RegRec{Name: string(core.GenStrBytes(r, core.GenCfg{ValidUTF8: true})), N: int64(r.Intn(1000)) - 500, Tags: []string{}}
		for i := r.Intn(4); i > 0; i-- {
			v.Tags = append(v.Tags, string('a'+rune(r.Intn(26))))
		}
		if r.Bool() {
			s := "note-" + fmt.Sprint(r.Intn(100))
			v.Note = &s
		}
		return v
	}
	show := func(v *c19RegRec) string {
		note := "<none>"
		if v.Note != nil {
			note = *v.Note
		}
		return fmt.Sprintf("{Name:%q Tags:%q Note:%s N:%d}", v.Name, v.Tags, note, v.N)
	}
	v0 := c.Violations()
	for iter := 0; iter < c.Pick(40, 3000); iter++ {
		var hist []string
		reg := registry.NewRegistry()
		if err := reg.RegisterType((*c19RegRec)(nil), schemaText, "Rec"); err != nil {
			c.Fail("C19/registry-register-refused", core.Replay{Kind: "oracle", Case: "c19.registry", Impl: err.Error()})
			return
		}
		fresh := registry.NewRegistry()
		_ = fresh.RegisterType((*c19RegRec)(nil), schemaText, "Rec")
		for step := 0; step < 4+r.Intn(8); step++ {
			v := genRec()
			codecName := []string{"dag-cbor", "dag-json"}[r.Intn(2)]
			enc, dec := codec.Encoder(dagcbor.Encode), codec.Decoder(dagcbor.Decode)
			if codecName == "dag-json" {
				enc, dec = dagjson.Encode, dagjson.Decode
			}
			var good []byte
			var err error
			if r.Bool() {
				good, err = reg.TypeToBytes(&v, enc)
			} else {
				var buf bytes.Buffer
				err = reg.TypeToWriter(&v, &buf, enc)
				good = buf.Bytes()
			}
			ref, rerr := fresh.TypeToBytes(&v, enc)
			if err != nil || rerr != nil || !bytes.Equal(good, ref) {
				c.Fail("C19/registry-encode-differs", core.Replay{Kind: "oracle", Case: "c19.registry " + strings.Join(hist, " ; "), Impl: fmt.Sprintf("%x %v", good, err), Expected: fmt.Sprintf("%x %v", ref, rerr)})
				break
			}
			entry := []string{"TypeFromBytes", "TypeFromReader", "TypeFromNode"}[r.Intn(3)]
			bad := r.Chance(2, 5)
			input := good
			what := "good"
			if bad {
				switch k := r.Intn(3); {
				case k == 0 && len(good) > 2:
					input = good[:1+r.Intn(len(good)-1)]
					what = "truncated"
				case k == 1:
					// the right shape until the last field, which has the wrong kind
					w := struct {
						Name string
						Tags []string
						N    string
					}{v.Name, v.Tags, "not-a-number"}
					n := core.Map(core.KV{K: []byte("Name"), V: core.Str(w.Name)}, core.KV{K: []byte("Tags"), V: func() core.Val {
						var l []core.Val
						for _, t := range w.Tags {
							l = append(l, core.Str(t))
						}
						return core.List(l...)
					}()}, core.KV{K: []byte("Note"), V: core.Str("secret")}, core.KV{K: []byte("N"), V: core.Str(w.N)})
					bn, _ := core.BuildBasic(n, r)
					var buf bytes.Buffer
					_ = enc(bn, &buf)
					input = buf.Bytes()
					what = "wrong-kind-late"
				default:
					input = append(append([]byte{}, good...), good...)[:len(good)+1]
					what = "trailing-byte"
				}
			}
			var got interface{}
			_, panicked, pv := core.Catch(func() error {
				switch entry {
				case "TypeFromBytes":
					got, err = reg.TypeFromBytes(input, (*c19RegRec)(nil), dec)
				case "TypeFromReader":
					got, err = reg.TypeFromReader(bytes.NewReader(input), (*c19RegRec)(nil), dec)
				default:
					nb := basicnode.Prototype.Any.NewBuilder()
					if derr := dec(nb, bytes.NewReader(input)); derr != nil {
						// not even a data-model tree: hand over a node of the wrong shape instead
						got, err = reg.TypeFromNode(basicnode.NewString("x"), (*c19RegRec)(nil))
					} else {
						got, err = reg.TypeFromNode(nb.Build(), (*c19RegRec)(nil))
					}
				}
				return nil
			})
			hist = append(hist, fmt.Sprintf("%s(%s %s %x)", entry, codecName, what, input))
			caseID := "c19.registry " + strings.Join(hist, " ; ")
			c.Count(fmt.Sprintf("c19.registry %d %d", iter, step), bad)
			c.Dist("registry:" + entry + ":" + what)
			switch {
			case panicked:
				c.Fail("C19/registry-panics", core.Replay{Kind: "oracle", Case: caseID, Impl: fmt.Sprint(pv)})
			case bad && err == nil:
				c.Fail("C19/registry-accepts-bad-input", core.Replay{Kind: "oracle", Case: caseID, Impl: show(got.(*c19RegRec)), Expected: "error"})
			case !bad && err != nil:
				c.Fail("C19/registry-refuses-good-input", core.Replay{Kind: "oracle", Case: caseID, Impl: err.Error(), Expected: show(&v)})
			case !bad:
				g := got.(*c19RegRec)
				if show(g) != show(&v) {
					c.Fail("C19/registry-value-differs", core.Replay{Kind: "oracle", Case: caseID, Impl: show(g), Expected: show(&v),
						Detail: "the value a registry conversion returns depends on what the registry was asked before"})
				}
			}
			if c.Violations() > v0 {
				break
			}
		}
		if c.Violations() > v0 {
			return
		}
	}
}
