/-
  C09-5: what the ideal engine accepts, every engine without `nullableUnionPanic` (and without the three
  generated-code flags that refuse or break accepted input: `prefixEmptyDelimSplit`, `kindedNullRejected`,
  `assignNodeSkipsBegin` under `viaNode`) accepts, with the same node.  (So every other quirk flag only
  ever changes the outcome of an input the ideal engine REJECTS.)
-/
import IpldModel.Lemmas.SchemaBasic
namespace Ipld
namespace Schema

/-- An engine without the flags that can change the outcome of an input the ideal engine ACCEPTS:
    `nullableUnionPanic` (reflection binding), `prefixEmptyDelimSplit`, `kindedNullRejected` and
    `assignNodeSkipsBegin` where it can act, i.e. under the driving mode `viaNode` (generated code).
    The other twelve flags, and the driving mode `viaKeys`, are free. -/
structure Engine.MonoFlags (e : Engine) : Prop where
  nup : e.nullableUnionPanic = false
  split : e.prefixEmptyDelimSplit = false
  knull : e.kindedNullRejected = false
  node : (e.viaNode && e.assignNodeSkipsBegin) = false

theorem Engine.ideal_monoFlags : Engine.ideal.MonoFlags := ⟨rfl, rfl, rfl, rfl⟩

/-! ## Scalars -/

mutual
theorem buildScalar_mono (e : Engine) (hn : e.MonoFlags) (lvl : Level) (nul : Bool)
    (d : DM) : (ty : Ty) → (v : TL) → buildScalar Engine.ideal lvl nul d ty = .ok v →
    buildScalar e lvl nul d ty = .ok v
  | .bool, v, h => by simpa [buildScalar] using h
  | .int, v, h => by simpa [buildScalar] using h
  | .float, v, h => by simpa [buildScalar] using h
  | .str, v, h => by simpa [buildScalar] using h
  | .bytes, v, h => by simpa [buildScalar] using h
  | .link, v, h => by simpa [buildScalar] using h
  | .any, v, h => by simpa [buildScalar] using h
  | .list _ _, v, h => by simp [buildScalar] at h
  | .map _ _, v, h => by simp [buildScalar] at h
  | .struct fs r, v, h => by
    cases lvl with
    | type => simp [buildScalar] at h
    | repr =>
      cases r with
      | stringjoin delim =>
        cases d with
        | str s =>
          simp only [buildScalar] at h ⊢
          split at h
          · cases h
          · next hl =>
            simp only [hl]
            split at h
            · next es hes =>
              rw [buildJoin_mono e hn fs _ es hes]
              exact h
            · cases h
            · cases h
        | _ => simp [buildScalar] at h
      | _ => simp [buildScalar] at h
  | .union ms r, v, h => by
    cases lvl with
    | type => simp [buildScalar] at h
    | repr =>
      cases r with
      | keyed => simp [buildScalar] at h
      | kinded =>
        simp only [buildScalar] at h ⊢
        exact buildKinded_mono e hn nul d ms v h
      | stringprefix delim =>
        cases d with
        | str s =>
          rw [buildScalar_union_ideal] at h
          rw [buildScalar_union_off e hn.split]
          simp only [] at h ⊢
          by_cases hd : delim.isEmpty = true
          · simp only [hd, if_true] at h ⊢; exact buildPrefixNoDelim_mono e hn nul s ms v h
          · simp only [hd] at h ⊢
            cases hq : splitFirst delim s with
            | none => simp [hq] at h
            | some pr =>
              obtain ⟨p, rest⟩ := pr
              simp only [hq] at h ⊢
              exact buildPrefix_mono e hn nul p rest ms v h
        | _ => simp [buildScalar] at h
  | .enum ms r, v, h => by
    cases lvl with
    | type =>
      cases d with
      | str s =>
        simp only [buildScalar, ideal_enumTypeAnyString, Bool.false_or] at h ⊢
        split at h
        · next hany => simp only [hany, Bool.or_true, if_true]; exact h
        · cases h
      | _ => simp [buildScalar] at h
    | repr =>
      cases d with
      | str s =>
        cases r with
        | str =>
          simp only [buildScalar] at h ⊢
          cases hm : ms.find? (fun m => m.rstr == s) with
          | some m => simpa [hm] using h
          | none => simp [hm] at h
        | int => simp [buildScalar] at h
      | int i =>
        cases r with
        | int => simpa [buildScalar] using h
        | str => simp [buildScalar] at h
      | _ => simp [buildScalar] at h
theorem buildJoin_mono (e : Engine) (hn : e.MonoFlags) : (fs : Fields) →
    (ps : List Bytes) → (es : List (Bytes × TL)) → buildJoin Engine.ideal fs ps = .ok es →
    buildJoin e fs ps = .ok es
  | .nil, [], es, h => by simpa [buildJoin] using h
  | .nil, _ :: _, es, h => by simp [buildJoin] at h
  | .cons _ _ _ _ _ _, [], es, h => by simp [buildJoin] at h
  | .cons n _ _ _ t rest, p :: ps, es, h => by
    unfold buildJoin at h ⊢
    split at h
    · next v hv =>
      rw [buildScalar_mono e hn .repr false (.str p) t v hv]
      simp only []
      split at h
      · next es' hes' =>
        rw [buildJoin_mono e hn rest ps es' hes']
        exact h
      · cases h
      · cases h
    · cases h
    · cases h
theorem buildKinded_mono (e : Engine) (hn : e.MonoFlags) (nul : Bool) (d : DM) :
    (ms : Members) → (v : TL) → buildKinded Engine.ideal nul d ms = .ok v → buildKinded e nul d ms = .ok v
  | .nil, v, h => by simp [buildKinded] at h
  | .cons n _ k t rest, v, h => by
    unfold buildKinded at h ⊢
    split
    · next hk =>
      simp only [hk, if_true, ideal_nullableUnionPanic, Bool.and_false, Bool.false_eq_true, if_false,
        Outcome.map_eq_ok] at h
      obtain ⟨tv, htv, rfl⟩ := h
      simp only [hn.nup, Bool.and_false, Bool.false_eq_true, if_false,
        buildScalar_mono e hn .repr false d t tv htv, Outcome.map_ok]
    · next hk =>
      simp only [hk] at h
      exact buildKinded_mono e hn nul d rest v h
theorem buildPrefix_mono (e : Engine) (hn : e.MonoFlags) (nul : Bool) (p r : Bytes) :
    (ms : Members) → (v : TL) → buildPrefix Engine.ideal nul p r ms = .ok v →
    buildPrefix e nul p r ms = .ok v
  | .nil, v, h => by simp [buildPrefix] at h
  | .cons n disc _ t rest, v, h => by
    unfold buildPrefix at h ⊢
    split
    · next hk =>
      simp only [hk, if_true, ideal_nullableUnionPanic, Bool.and_false, Bool.false_eq_true, if_false,
        Outcome.map_eq_ok] at h
      obtain ⟨tv, htv, rfl⟩ := h
      simp only [hn.nup, Bool.and_false, Bool.false_eq_true, if_false,
        buildScalar_mono e hn .repr false _ t tv htv, Outcome.map_ok]
    · next hk =>
      simp only [hk] at h
      exact buildPrefix_mono e hn nul p r rest v h
theorem buildPrefixNoDelim_mono (e : Engine) (hn : e.MonoFlags) (nul : Bool) (s : Bytes) :
    (ms : Members) → (v : TL) → buildPrefixNoDelim Engine.ideal nul s ms = .ok v →
    buildPrefixNoDelim e nul s ms = .ok v
  | .nil, v, h => by simp [buildPrefixNoDelim] at h
  | .cons n disc _ t rest, v, h => by
    unfold buildPrefixNoDelim at h ⊢
    split
    · next hk =>
      simp only [hk, if_true, ideal_nullableUnionPanic, Bool.and_false, Bool.false_eq_true, if_false,
        Outcome.map_eq_ok] at h
      obtain ⟨tv, htv, rfl⟩ := h
      simp only [hn.nup, Bool.and_false, Bool.false_eq_true, if_false,
        buildScalar_mono e hn .repr false _ t tv htv, Outcome.map_ok]
    · next hk =>
      simp only [hk] at h
      exact buildPrefixNoDelim_mono e hn nul s rest v h
end

/-! ## Kinded dispatch -/

mutual
theorem resolveKinded_eq (e : Engine) (hn : e.nullableUnionPanic = false) (nul : Bool) (k : Kind) :
    (ty : Ty) → resolveKinded e nul k ty = resolveKinded Engine.ideal nul k ty
  | .union ms .kinded => by
    unfold resolveKinded
    exact resolveMembers_eq e hn nul k ms
  | .union ms .keyed => by simp [resolveKinded]
  | .union ms (.stringprefix _) => by simp [resolveKinded]
  | .bool => by simp [resolveKinded]
  | .int => by simp [resolveKinded]
  | .float => by simp [resolveKinded]
  | .str => by simp [resolveKinded]
  | .bytes => by simp [resolveKinded]
  | .link => by simp [resolveKinded]
  | .any => by simp [resolveKinded]
  | .list _ _ => by simp [resolveKinded]
  | .map _ _ => by simp [resolveKinded]
  | .struct _ _ => by simp [resolveKinded]
  | .enum _ _ => by simp [resolveKinded]
theorem resolveMembers_eq (e : Engine) (hn : e.nullableUnionPanic = false) (nul : Bool) (k : Kind) :
    (ms : Members) → resolveMembers e nul k ms = resolveMembers Engine.ideal nul k ms
  | .nil => by simp [resolveMembers]
  | .cons n _ k' t rest => by
    unfold resolveMembers
    simp only [hn, ideal_nullableUnionPanic, Bool.and_false, Bool.false_eq_true, if_false,
      resolveKinded_eq e hn false k t, resolveMembers_eq e hn nul k rest]
end

/-! ## Struct assembly: a field that was not assigned holds nothing -/

/-- a slot that was not assigned in this assembly is empty (true of every fresh assembly) -/
def SSt.clean (st : SSt) : Prop :=
  st.slots.length = st.done.length ∧ ∀ i, st.isDone i = false → st.slots.getD i none = none

/-- the slots from position `i` on are empty (tuple assembly) -/
def SSt.cleanFrom (st : SSt) (i : Nat) : Prop := ∀ j, i ≤ j → st.slots.getD j none = none

theorem SSt.init_clean (fs : List Field) : (SSt.init fs none).clean := by
  refine ⟨by simp [SSt.init], fun i _ => ?_⟩
  simp only [SSt.init, List.getD_eq_getElem?_getD, List.getElem?_map]
  cases fs[i]? <;> simp

theorem SSt.init_cleanFrom (fs : List Field) : (SSt.init fs none).cleanFrom 0 := by
  intro i _
  simp only [SSt.init, List.getD_eq_getElem?_getD, List.getElem?_map]
  cases fs[i]? <;> simp

theorem SSt.clean_assign (st : SSt) (i : Nat) (v : TL) (h : st.clean) : (st.assign i v).clean := by
  refine ⟨by simp [SSt.assign, h.1], fun j hj => ?_⟩
  simp only [SSt.assign, SSt.isDone, List.getD_eq_getElem?_getD, List.getElem?_set] at hj ⊢
  by_cases hij : i = j
  · subst hij
    simp only [if_true] at hj ⊢
    by_cases hl : i < st.done.length
    · simp [hl] at hj
    · have : ¬ i < st.slots.length := by rw [h.1]; exact hl
      simp [this]
  · simp only [hij, if_false] at hj ⊢
    have := h.2 j (by simpa [SSt.isDone, List.getD_eq_getElem?_getD] using hj)
    simpa [List.getD_eq_getElem?_getD] using this

theorem SSt.cleanFrom_assign (st : SSt) (i : Nat) (v : TL) (h : st.cleanFrom i) :
    (st.assign i v).cleanFrom (i + 1) := by
  intro j hj
  have hij : i ≠ j := by omega
  simp only [SSt.assign, List.getD_eq_getElem?_getD, List.getElem?_set, hij, if_false]
  have := h j (by omega)
  simpa [List.getD_eq_getElem?_getD] using this

theorem SSt.curOf_clean (e : Engine) (st : SSt) (i : Nat) (f : Field) (h : st.clean)
    (hd : st.isDone i = false) : st.curOf e i f = none := by
  unfold SSt.curOf
  split
  · exact h.2 i hd
  · rfl

theorem SSt.curOf_cleanFrom (e : Engine) (st : SSt) (i : Nat) (f : Field) (h : st.cleanFrom i) :
    st.curOf e i f = none := by
  unfold SSt.curOf
  split
  · exact h i (Nat.le_refl i)
  · rfl

/-- `tupleShortAccepted` changes nothing where the ideal `Finish` succeeds: in a clean assembly whose
    required fields were all assigned, no field is left to its zero value. -/
theorem finishFieldsZero_of_finishFields : (fs : List Field) → (ss : List (Option TL)) → (ds : List Bool) →
    (r : List (Bytes × TL)) → (∀ i, ds.getD i false = false → ss.getD i none = none) →
    finishFields fs ss ds = some r → finishFieldsZero fs ss ds = r
  | [], [], [], r, _, h => by simp only [finishFields, Option.some.injEq] at h; subst h; rfl
  | [], [], _ :: _, _, _, h => by simp [finishFields] at h
  | [], _ :: _, _, _, _, h => by simp [finishFields] at h
  | _ :: _, [], _, _, _, h => by simp [finishFields] at h
  | _ :: _, _ :: _, [], _, _, h => by simp [finishFields] at h
  | f :: fs, s :: ss, d :: ds, r, hcl, h => by
    have h0 := hcl 0
    have ht : ∀ i, ds.getD i false = false → ss.getD i none = none := fun i hi => by
      have := hcl (i + 1)
      simpa using this (by simpa using hi)
    simp only [List.getD_cons_zero] at h0
    simp only [finishFields] at h
    split at h
    · cases h
    · next hreq =>
      cases hq : finishFields fs ss ds with
      | none => cases s <;> simp [hq] at h
      | some r' =>
        have ih := finishFieldsZero_of_finishFields fs ss ds r' ht hq
        simp only [finishFieldsZero, ih]
        cases d <;> cases s <;> cases ho : f.opt <;> simp_all

theorem SSt.finishZero_of_finish (fs : List Field) (st : SSt) (v : TL) (hc : st.clean)
    (h : st.finish fs = .ok v) : st.finishZero fs = .ok v := by
  unfold SSt.finish at h
  unfold SSt.finishZero
  split at h
  · next es hes =>
    rw [finishFieldsZero_of_finishFields fs st.slots st.done es (fun i hi => hc.2 i hi) hes]
    exact h
  · cases h

theorem fieldByKey_mono (e : Engine) (lvl : Level) (fs : List Field) (k : Bytes) (r : Nat × Field)
    (h : fieldByKey Engine.ideal lvl fs k = some r) : fieldByKey e lvl fs k = some r := by
  cases lvl
  · exact h
  · simp only [fieldByKey, ideal_renameFallback, Bool.false_eq_true, if_false] at h ⊢
    cases hq : findIdx (fun f => f.rename == k) fs with
    | none => simp [hq] at h
    | some r' => simpa [hq] using h

theorem memberByKey_mono (e : Engine) (lvl : Level) (ms : List Member) (k : Bytes) (m : Member)
    (h : memberByKey Engine.ideal lvl ms k = some m) : memberByKey e lvl ms k = some m := by
  cases lvl
  · exact h
  · simp only [memberByKey, ideal_discFallback, Bool.false_eq_true, if_false] at h ⊢
    cases hq : ms.find? (fun m => m.disc == k) with
    | none => simp [hq] at h
    | some r' => simpa [hq] using h

/-! ## The list / map cases of `build`, named -/

/-- what `build` does with a list once the kinded dispatch has addressed `ty'` -/
def listBody (e : Engine) (lvl : Level) (ty' : Ty) (cur' : Option TL) (xs : DMs) : Outcome TL :=
  match ty' with
  | .list ety enul =>
    (buildList e lvl ety enul (curList cur') xs).map fun ys => .list (TLs.ofList ys)
  | .struct fs sr =>
    match lvl, sr with
    | .repr, .tuple => buildTuple e fs.toList (SSt.init fs.toList cur') 0 xs
    | .repr, .listpairs => buildPairs e fs.toList (SSt.init fs.toList cur') xs
    | _, _ => .reject
  | .any => if (DM.list xs).noDupKeys then .ok (TL.ofDM (.list xs)) else .reject
  | _ => .reject

/-- what `build` does with a map once the kinded dispatch has addressed `ty'` -/
def mapBody (e : Engine) (lvl : Level) (ty' : Ty) (cur' : Option TL) (es : DMKVs) : Outcome TL :=
  match ty' with
  | .map vty vnul =>
    (buildMap e lvl vty vnul (curMap cur') es).map fun ys => .map (TLKVs.ofList ys)
  | .struct fs sr =>
    match lvl, sr with
    | .type, _ => buildStruct e lvl fs.toList (SSt.init fs.toList cur') es
    | .repr, .map => buildStruct e lvl fs.toList (SSt.init fs.toList cur') es
    | .repr, _ => .reject
  | .union ms ur =>
    match lvl, ur with
    | .type, _ => buildUnion e lvl ms.toList cur' 0 es
    | .repr, .keyed => buildUnion e lvl ms.toList cur' 0 es
    | .repr, _ => .reject
  | .any => if (DM.map es).noDupKeys then .ok (TL.ofDM (.map es)) else .reject
  | _ => .reject

theorem build_list_eq (e : Engine) (lvl : Level) (ty : Ty) (nul : Bool) (cur : Option TL) (xs : DMs) :
    build e lvl ty nul cur (.list xs) =
      match (match lvl with
             | .repr => resolveKinded e nul .list ty
             | .type => (.ok (ty, []) : Outcome (Ty × List Bytes))) with
      | .reject => .reject
      | .panic => .panic
      | .ok (ty', path) =>
        (listBody e lvl ty' (if path.isEmpty then cur else none) xs).map (wrapPath path) := by
  unfold build; rfl

theorem build_map_eq (e : Engine) (hoff : (e.viaNode && e.assignNodeSkipsBegin) = false) (lvl : Level)
    (ty : Ty) (nul : Bool) (cur : Option TL) (es : DMKVs) :
    build e lvl ty nul cur (.map es) =
      match (match lvl with
             | .repr => resolveKinded e nul .map ty
             | .type => (.ok (ty, []) : Outcome (Ty × List Bytes))) with
      | .reject => .reject
      | .panic => .panic
      | .ok (ty', path) =>
        (mapBody e lvl ty' (if path.isEmpty then cur else none) es).map (wrapPath path) := by
  rw [build_map_off e hoff]; rfl

theorem build_type_list (e : Engine) (ty : Ty) (nul : Bool) (xs : DMs) :
    build e .type ty nul none (.list xs) = listBody e .type ty none xs := by
  rw [build_list_eq]
  simp only [List.isEmpty_nil, if_true]
  cases listBody e .type ty none xs <;> rfl

theorem build_type_map (e : Engine) (hoff : (e.viaNode && e.assignNodeSkipsBegin) = false) (ty : Ty)
    (nul : Bool) (es : DMKVs) :
    build e .type ty nul none (.map es) = mapBody e .type ty none es := by
  rw [build_map_eq e hoff]
  simp only [List.isEmpty_nil, if_true]
  cases mapBody e .type ty none es <;> rfl

theorem build_repr_list (e : Engine) (ty : Ty) (nul : Bool) (xs : DMs) :
    build e .repr ty nul none (.list xs) =
      match resolveKinded e nul .list ty with
      | .reject => .reject
      | .panic => .panic
      | .ok (ty', path) => (listBody e .repr ty' none xs).map (wrapPath path) := by
  rw [build_list_eq]
  simp only [ite_self]

theorem build_repr_map (e : Engine) (hoff : (e.viaNode && e.assignNodeSkipsBegin) = false) (ty : Ty)
    (nul : Bool) (es : DMKVs) :
    build e .repr ty nul none (.map es) =
      match resolveKinded e nul .map ty with
      | .reject => .reject
      | .panic => .panic
      | .ok (ty', path) => (mapBody e .repr ty' none es).map (wrapPath path) := by
  rw [build_map_eq e hoff]
  simp only [ite_self]

/-! ## The builders -/

mutual
theorem build_mono (e : Engine) (hn : e.MonoFlags) (lvl : Level) : (d : DM) →
    (ty : Ty) → (nul : Bool) → (v : TL) → build Engine.ideal lvl ty nul none d = .ok v →
    build e lvl ty nul none d = .ok v
  | .null, ty, nul, v, h => by
    rw [build_null_ideal] at h
    rw [build_null_off e hn.knull]
    exact h
  | .bool b, ty, nul, v, h => by unfold build at h ⊢; exact buildScalar_mono e hn lvl nul _ ty v h
  | .int b, ty, nul, v, h => by unfold build at h ⊢; exact buildScalar_mono e hn lvl nul _ ty v h
  | .float b, ty, nul, v, h => by unfold build at h ⊢; exact buildScalar_mono e hn lvl nul _ ty v h
  | .str b, ty, nul, v, h => by unfold build at h ⊢; exact buildScalar_mono e hn lvl nul _ ty v h
  | .bytes b, ty, nul, v, h => by unfold build at h ⊢; exact buildScalar_mono e hn lvl nul _ ty v h
  | .link b, ty, nul, v, h => by unfold build at h ⊢; exact buildScalar_mono e hn lvl nul _ ty v h
  | .list xs, ty, nul, v, h => by
    have key : ∀ ty' r, listBody Engine.ideal lvl ty' none xs = .ok r →
        listBody e lvl ty' none xs = .ok r := by
      intro ty' r hr
      unfold listBody at hr ⊢
      split at hr
      · next ety enul =>
        simp only [Outcome.map_eq_ok] at hr ⊢
        obtain ⟨ys, hys, rfl⟩ := hr
        exact ⟨ys, buildList_mono e hn lvl xs ety enul _ ys hys, rfl⟩
      · next fs sr =>
        split at hr
        · exact buildTuple_mono e hn xs fs.toList _ 0 r hr (SSt.init_cleanFrom _) (SSt.init_clean _)
        · exact buildPairs_mono e hn xs fs.toList _ r hr (SSt.init_clean _)
        · cases hr
      · exact hr
      · cases hr
    cases lvl with
    | type =>
      rw [build_type_list] at h ⊢
      exact key ty v h
    | repr =>
      rw [build_repr_list] at h ⊢
      rw [resolveKinded_eq e hn.nup]
      split at h
      · cases h
      · cases h
      · next ty' path hres =>
        simp only [Outcome.map_eq_ok] at h ⊢
        obtain ⟨r, hr, hv⟩ := h
        exact ⟨r, key ty' r hr, hv⟩
  | .map es, ty, nul, v, h => by
    have key : ∀ ty' r, mapBody Engine.ideal lvl ty' none es = .ok r →
        mapBody e lvl ty' none es = .ok r := by
      intro ty' r hr
      unfold mapBody at hr ⊢
      split at hr
      · next vty vnul =>
        simp only [Outcome.map_eq_ok] at hr ⊢
        obtain ⟨ys, hys, rfl⟩ := hr
        exact ⟨ys, buildMap_mono e hn lvl es vty vnul _ ys hys, rfl⟩
      · next fs sr =>
        split at hr
        · exact buildStruct_mono e hn _ es fs.toList _ r hr (SSt.init_clean _)
        · exact buildStruct_mono e hn _ es fs.toList _ r hr (SSt.init_clean _)
        · cases hr
      · next ms ur =>
        split at hr
        · exact buildUnion_mono e hn _ es ms.toList _ _ r hr
        · exact buildUnion_mono e hn _ es ms.toList _ _ r hr
        · cases hr
      · exact hr
      · cases hr
    cases lvl with
    | type =>
      rw [build_type_map _ ideal_nodeOff] at h
      rw [build_type_map e hn.node]
      exact key ty v h
    | repr =>
      rw [build_repr_map _ ideal_nodeOff] at h
      rw [build_repr_map e hn.node]
      rw [resolveKinded_eq e hn.nup]
      split at h
      · cases h
      · cases h
      · next ty' path hres =>
        simp only [Outcome.map_eq_ok] at h ⊢
        obtain ⟨r, hr, hv⟩ := h
        exact ⟨r, key ty' r hr, hv⟩
theorem buildList_mono (e : Engine) (hn : e.MonoFlags) (lvl : Level) : (xs : DMs) →
    (ety : Ty) → (enul : Bool) → (acc ys : List TL) →
    buildList Engine.ideal lvl ety enul acc xs = .ok ys → buildList e lvl ety enul acc xs = .ok ys
  | .nil, _, _, acc, ys, h => by unfold buildList at h ⊢; exact h
  | .cons x xs, ety, enul, acc, ys, h => by
    rw [buildList_cons_ideal] at h
    rw [buildList_cons_off e hn.node]
    split at h
    · next v hv =>
      rw [build_mono e hn lvl x ety enul v hv]
      exact buildList_mono e hn lvl xs ety enul _ ys h
    · cases h
    · cases h
theorem buildMap_mono (e : Engine) (hn : e.MonoFlags) (lvl : Level) : (es : DMKVs) →
    (vty : Ty) → (vnul : Bool) → (acc ys : List (Bytes × TL)) →
    buildMap Engine.ideal lvl vty vnul acc es = .ok ys → buildMap e lvl vty vnul acc es = .ok ys
  | .nil, _, _, acc, ys, h => by unfold buildMap at h ⊢; exact h
  | .cons k x es, vty, vnul, acc, ys, h => by
    rw [buildMap_cons_ideal] at h
    rw [buildMap_cons_nodeOff e hn.node]
    split at h
    · cases h
    · next hfresh =>
      simp only [ideal_dupMapKey, Bool.not_false, Bool.and_true, Bool.not_eq_true] at hfresh
      simp only [hfresh, Bool.false_and, Bool.false_eq_true, if_false]
      split at h
      · next v hv =>
        rw [build_mono e hn lvl x vty vnul v hv]
        simp only [← mapAppend_fresh acc k v hfresh, ite_self]
        exact buildMap_mono e hn lvl es vty vnul _ ys h
      · cases h
      · cases h
theorem buildStruct_mono (e : Engine) (hn : e.MonoFlags) (lvl : Level) : (es : DMKVs) →
    (fs : List Field) → (st : SSt) → (v : TL) →
    buildStruct Engine.ideal lvl fs st es = .ok v → st.clean → buildStruct e lvl fs st es = .ok v
  | .nil, fs, st, v, h, _ => by unfold buildStruct at h ⊢; exact h
  | .cons k x es, fs, st, v, h, hcl => by
    rw [buildStruct_cons_ideal] at h
    rw [buildStruct_cons_off e hn.node]
    split at h
    · cases h
    · next i f hf =>
      rw [fieldByKey_mono e lvl fs k _ hf]
      simp only []
      split at h
      · cases h
      · next hdone =>
        simp only [ideal_dupStructField, Bool.not_false, Bool.and_true, Bool.not_eq_true] at hdone
        simp only [hdone, Bool.false_and, Bool.false_eq_true, if_false]
        rw [SSt.curOf_ideal] at h
        rw [SSt.curOf_clean e st i f hcl hdone]
        split at h
        · next tv htv =>
          rw [build_mono e hn lvl x f.ty f.nullable tv htv]
          exact buildStruct_mono e hn lvl es fs _ v h (SSt.clean_assign st i tv hcl)
        · cases h
        · cases h
theorem buildTuple_mono (e : Engine) (hn : e.MonoFlags) : (xs : DMs) →
    (fs : List Field) → (st : SSt) → (i : Nat) → (v : TL) →
    buildTuple Engine.ideal fs st i xs = .ok v → st.cleanFrom i → st.clean → buildTuple e fs st i xs = .ok v
  | .nil, fs, st, i, v, h, _, hc => by
    rw [buildTuple_nil_ideal] at h
    unfold buildTuple
    split
    · exact SSt.finishZero_of_finish fs st v hc h
    · exact h
  | .cons x xs, fs, st, i, v, h, hcl, hc => by
    rw [buildTuple_cons_ideal] at h
    rw [buildTuple_cons_off e hn.node]
    split at h
    · cases h
    · next f hf =>
      rw [SSt.curOf_ideal] at h
      rw [SSt.curOf_cleanFrom e st i f hcl]
      split at h
      · next tv htv =>
        rw [build_mono e hn .repr x f.ty f.nullable tv htv]
        exact buildTuple_mono e hn xs fs _ (i + 1) v h (SSt.cleanFrom_assign st i tv hcl)
          (SSt.clean_assign st i tv hc)
      · cases h
      · cases h
theorem buildPairs_mono (e : Engine) (hn : e.MonoFlags) : (xs : DMs) →
    (fs : List Field) → (st : SSt) → (v : TL) →
    buildPairs Engine.ideal fs st xs = .ok v → st.clean → buildPairs e fs st xs = .ok v
  | .nil, fs, st, v, h, _ => by unfold buildPairs at h ⊢; exact h
  | .cons (.list (.cons (.str k) (.cons x rest))) ps, fs, st, v, h, hcl => by
    unfold buildPairs at h ⊢
    simp only [] at h ⊢
    split at h
    · simp at h
    · next i f hf =>
      split at h
      · cases h
      · next hdone =>
        simp only [ideal_dupStructField, Bool.not_false, Bool.and_true, Bool.not_eq_true] at hdone
        simp only [hdone, Bool.false_and, Bool.false_eq_true, if_false]
        rw [SSt.curOf_ideal] at h
        rw [SSt.curOf_clean e st i f hcl hdone]
        split at h
        · next tv htv =>
          rw [build_mono e hn .repr x f.ty f.nullable tv htv]
          simp only []
          split at h
          · exact buildPairs_mono e hn ps fs _ v h (SSt.clean_assign st i tv hcl)
          · cases h
        · cases h
        · cases h
  | .cons (.list .nil) ps, _, _, _, h, _ => by simp [buildPairs] at h
  | .cons (.list (.cons (.str _) .nil)) ps, _, _, _, h, _ => by simp [buildPairs] at h
  | .cons .null ps, _, _, _, h, _ => by simp [buildPairs] at h
  | .cons (.bool _) ps, _, _, _, h, _ => by simp [buildPairs] at h
  | .cons (.int _) ps, _, _, _, h, _ => by simp [buildPairs] at h
  | .cons (.float _) ps, _, _, _, h, _ => by simp [buildPairs] at h
  | .cons (.str _) ps, _, _, _, h, _ => by simp [buildPairs] at h
  | .cons (.bytes _) ps, _, _, _, h, _ => by simp [buildPairs] at h
  | .cons (.link _) ps, _, _, _, h, _ => by simp [buildPairs] at h
  | .cons (.map _) ps, _, _, _, h, _ => by simp [buildPairs] at h
  | .cons (.list (.cons .null _)) ps, _, _, _, h, _ => by simp [buildPairs] at h
  | .cons (.list (.cons (.bool _) _)) ps, _, _, _, h, _ => by simp [buildPairs] at h
  | .cons (.list (.cons (.int _) _)) ps, _, _, _, h, _ => by simp [buildPairs] at h
  | .cons (.list (.cons (.float _) _)) ps, _, _, _, h, _ => by simp [buildPairs] at h
  | .cons (.list (.cons (.bytes _) _)) ps, _, _, _, h, _ => by simp [buildPairs] at h
  | .cons (.list (.cons (.link _) _)) ps, _, _, _, h, _ => by simp [buildPairs] at h
  | .cons (.list (.cons (.list _) _)) ps, _, _, _, h, _ => by simp [buildPairs] at h
  | .cons (.list (.cons (.map _) _)) ps, _, _, _, h, _ => by simp [buildPairs] at h
theorem buildUnion_mono (e : Engine) (hn : e.MonoFlags) (lvl : Level) : (es : DMKVs) →
    (ms : List Member) → (cur : Option TL) → (n : Nat) → (v : TL) →
    buildUnion Engine.ideal lvl ms cur n es = .ok v → buildUnion e lvl ms cur n es = .ok v
  | .nil, ms, cur, n, v, h => by unfold buildUnion at h ⊢; exact h
  | .cons k x es, ms, cur, n, v, h => by
    unfold buildUnion at h ⊢
    split at h
    · cases h
    · next hn1 =>
      simp only [ideal_unionMulti, Bool.not_false, Bool.and_true, Bool.not_eq_true] at hn1
      simp only [hn1, Bool.false_and, Bool.false_eq_true, if_false]
      split at h
      · cases h
      · next m hm =>
        rw [memberByKey_mono e lvl ms k m hm]
        simp only []
        split at h
        · next tv htv =>
          rw [build_mono e hn lvl x m.ty false tv htv]
          exact buildUnion_mono e hn lvl es ms _ _ v h
        · cases h
        · cases h
end

end Schema
end Ipld
