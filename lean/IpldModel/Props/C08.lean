/- C08 — placeholder until the schema proofs are merged (not registered in MANIFEST.json). -/
import IpldModel.Model.Schema
namespace Ipld.Props.C08
open Ipld Ipld.Schema

theorem ideal_has_no_quirk : (Engine.ideal.flags.all fun f => !f.2.1) = true := by decide

end Ipld.Props.C08
