package main

import (
	"fmt"
	"go/ast"
	"go/parser"
	"go/token"
	"os"
	"path/filepath"
	"sort"
	"strings"
)

// factGenFiles: fact extractors. Each pattern-matches one AST shape and emits a table.
func factGenFiles() []genFile {
	return []genFile{
		{"AsmFacts", genAsmFacts},
		{"CborConsts", genCborConsts},
		{"FsstoreFacts", genFsstoreFacts},
		{"WalkFacts", genWalkFacts},
		{"GlobalWrites", genGlobalWrites},
	}
}

// ---------------------------------------------------------------------------------------------
// basicnode assembler state tables (C01, C11, C12)

type methodFacts struct {
	recv, name string
	guard      string   // state constant required on entry ("" = none)
	sets       []string // state constants assigned, in source order
	writes     []string // fields of the work-in-progress node written (t, m, x, w = whole header copy)
	nilsBack   bool     // the back-pointer to the parent assembler is nil-ed
	line       int
}

func selectorPath(e ast.Expr) string {
	switch x := e.(type) {
	case *ast.Ident:
		return x.Name
	case *ast.SelectorExpr:
		return selectorPath(x.X) + "." + x.Sel.Name
	case *ast.IndexExpr:
		return selectorPath(x.X) + "[]"
	case *ast.StarExpr:
		return "*" + selectorPath(x.X)
	case *ast.ParenExpr:
		return selectorPath(x.X)
	case *ast.BasicLit:
		return x.Value
	}
	return "?"
}

func extractMethodFacts(s *source, recvTypes map[string]bool) []methodFacts {
	var out []methodFacts
	for _, d := range s.file.Decls {
		fd, ok := d.(*ast.FuncDecl)
		if !ok || fd.Recv == nil || len(fd.Recv.List) != 1 || fd.Body == nil {
			continue
		}
		rt := fd.Recv.List[0].Type
		if st, ok := rt.(*ast.StarExpr); ok {
			rt = st.X
		}
		ri, ok := rt.(*ast.Ident)
		if !ok || !recvTypes[ri.Name] {
			continue
		}
		mf := methodFacts{recv: ri.Name, name: fd.Name.Name, line: s.fset.Position(fd.Pos()).Line}
		// guard: a top-level `if <x>.state != C { panic(...) }`
		for _, st := range fd.Body.List {
			is, ok := st.(*ast.IfStmt)
			if !ok {
				continue
			}
			be, ok := is.Cond.(*ast.BinaryExpr)
			if !ok || be.Op != token.NEQ || !strings.HasSuffix(selectorPath(be.X), ".state") {
				continue
			}
			panics := false
			for _, b := range is.Body.List {
				if es, ok := b.(*ast.ExprStmt); ok {
					if ce, ok := es.X.(*ast.CallExpr); ok {
						if id, ok := ce.Fun.(*ast.Ident); ok && id.Name == "panic" {
							panics = true
						}
					}
				}
			}
			if panics {
				if mf.guard != "" {
					panic(failure{fmt.Sprintf("%s:%d: %s.%s has two state guards", s.path, mf.line, mf.recv, mf.name)})
				}
				mf.guard = selectorPath(be.Y)
			}
		}
		wr := map[string]bool{}
		ast.Inspect(fd.Body, func(n ast.Node) bool {
			as, ok := n.(*ast.AssignStmt)
			if !ok {
				return true
			}
			for i, l := range as.Lhs {
				p := selectorPath(l)
				switch {
				case strings.HasSuffix(p, ".state"):
					if i < len(as.Rhs) {
						mf.sets = append(mf.sets, selectorPath(as.Rhs[i]))
					}
				case strings.Contains(p, ".w.t"):
					wr["t"] = true
				case strings.Contains(p, ".w.m"):
					wr["m"] = true
				case strings.Contains(p, ".w.x"):
					wr["x"] = true
				case strings.HasPrefix(p, "*") && strings.HasSuffix(p, ".w"):
					wr["w"] = true
				case strings.HasSuffix(p, ".ma") || strings.HasSuffix(p, ".la"):
					if i < len(as.Rhs) {
						if id, ok := as.Rhs[i].(*ast.Ident); ok && id.Name == "nil" {
							mf.nilsBack = true
						}
					}
				}
			}
			return true
		})
		for k := range wr {
			mf.writes = append(mf.writes, k)
		}
		sort.Strings(mf.writes)
		if mf.guard != "" || len(mf.sets) > 0 || len(mf.writes) > 0 || mf.nilsBack {
			out = append(out, mf)
		}
	}
	sort.Slice(out, func(i, j int) bool {
		if out[i].recv != out[j].recv {
			return out[i].recv < out[j].recv
		}
		return out[i].name < out[j].name
	})
	return out
}

func leanStrList(xs []string) string {
	q := make([]string, len(xs))
	for i, x := range xs {
		q[i] = fmt.Sprintf("%q", x)
	}
	return "[" + strings.Join(q, ", ") + "]"
}

func genAsmFacts(repo string) string {
	var sb strings.Builder
	sb.WriteString("structure MethodFacts where\n  recv : String\n  name : String\n  guard : String\n  sets : List String\n  writes : List String\n  nilsBack : Bool\n  deriving DecidableEq, Repr\n\n")
	emit := func(leanName, rel string, recv map[string]bool) {
		s := load(repo, rel)
		facts := extractMethodFacts(s, recv)
		if len(facts) == 0 {
			panic(failure{rel + ": no assembler methods found"})
		}
		fmt.Fprintf(&sb, "/-- generated from %s: per method, the state guard (panic otherwise), the states assigned, the fields of the node under construction that are written, whether the back-pointer is dropped -/\ndef %s : List MethodFacts := [\n", rel, leanName)
		for i, f := range facts {
			comma := ","
			if i == len(facts)-1 {
				comma = ""
			}
			fmt.Fprintf(&sb, "  { recv := %q, name := %q, guard := %q, sets := %s, writes := %s, nilsBack := %v }%s  -- %s:%d\n",
				f.recv, f.name, f.guard, leanStrList(f.sets), leanStrList(f.writes), f.nilsBack, comma, rel, f.line)
		}
		sb.WriteString("]\n\n")
	}
	emit("maFacts_src", "node/basicnode/map.go", map[string]bool{"plainMap__Assembler": true, "plainMap__KeyAssembler": true, "plainMap__ValueAssembler": true,
		"plainMap__ValueAssemblerMap": true, "plainMap__ValueAssemblerList": true, "plainMap__Builder": true})
	emit("laFacts_src", "node/basicnode/list.go", map[string]bool{"plainList__Assembler": true, "plainList__ValueAssembler": true,
		"plainList__ValueAssemblerMap": true, "plainList__ValueAssemblerList": true, "plainList__Builder": true})
	return sb.String()
}

// ---------------------------------------------------------------------------------------------
// dag-cbor decoder constants and option wiring (C03, C10)

func genCborConsts(repo string) string {
	s := load(repo, "codec/dagcbor/unmarshal.go")
	consts := s.intConsts()
	var sb strings.Builder
	for _, name := range []string{"mapEntryCost", "listEntryCost", "defaultAllocationBudget", "defaultMaxCollectionPrealloc", "defaultMaxDepth"} {
		v, ok := consts[name]
		if !ok {
			panic(failure{"codec/dagcbor/unmarshal.go: constant " + name + " not found"})
		}
		fmt.Fprintf(&sb, "/-- generated from codec/dagcbor/unmarshal.go const %s -/\ndef %s_src : Int := %s\n\n", name, name, v)
	}
	// refmtDecodeOptions: which tokenizer flags are set unconditionally, which only when !RelaxedDecode
	fd := s.funcDecl("DecodeOptions.refmtDecodeOptions")
	var always, strictOnly []string
	var walk func(list []ast.Stmt, inStrict bool)
	walk = func(list []ast.Stmt, inStrict bool) {
		for _, st := range list {
			switch x := st.(type) {
			case *ast.AssignStmt:
				for i, l := range x.Lhs {
					if cl, ok := x.Rhs[i].(*ast.CompositeLit); ok {
						for _, el := range cl.Elts {
							if kv, ok := el.(*ast.KeyValueExpr); ok {
								if id, ok := kv.Value.(*ast.Ident); ok && id.Name == "true" {
									always = append(always, selectorPath(kv.Key))
								}
							}
						}
						continue
					}
					if id, ok := x.Rhs[i].(*ast.Ident); ok && id.Name == "true" {
						p := selectorPath(l)
						p = p[strings.LastIndex(p, ".")+1:]
						if inStrict {
							strictOnly = append(strictOnly, p)
						} else {
							always = append(always, p)
						}
					}
				}
			case *ast.IfStmt:
				// expect `if !cfg.RelaxedDecode { ... }`
				ue, ok := x.Cond.(*ast.UnaryExpr)
				if !ok || ue.Op != token.NOT || !strings.HasSuffix(selectorPath(ue.X), ".RelaxedDecode") || x.Else != nil {
					panic(failure{"codec/dagcbor/unmarshal.go refmtDecodeOptions: unexpected condition shape"})
				}
				walk(x.Body.List, true)
			case *ast.ReturnStmt:
			default:
				panic(failure{fmt.Sprintf("codec/dagcbor/unmarshal.go refmtDecodeOptions: unexpected statement %T", st)})
			}
		}
	}
	walk(fd.Body.List, false)
	sort.Strings(always)
	sort.Strings(strictOnly)
	fmt.Fprintf(&sb, "/-- generated from `refmtDecodeOptions`: tokenizer flags set in every mode -/\ndef refmtFlagsAlways_src : List String := %s\n\n", leanStrList(always))
	fmt.Fprintf(&sb, "/-- generated from `refmtDecodeOptions`: tokenizer flags set only when RelaxedDecode is false -/\ndef refmtFlagsStrictOnly_src : List String := %s\n\n", leanStrList(strictOnly))
	// registered codec option literals (multicodec.go)
	m := load(repo, "codec/dagcbor/multicodec.go")
	for _, fn := range []string{"Decode", "Encode"} {
		fd := m.funcDecl(fn)
		var opts []string
		ast.Inspect(fd.Body, func(n ast.Node) bool {
			if cl, ok := n.(*ast.CompositeLit); ok {
				for _, el := range cl.Elts {
					if kv, ok := el.(*ast.KeyValueExpr); ok {
						opts = append(opts, selectorPath(kv.Key)+"="+selectorPath(kv.Value))
					}
				}
			}
			return true
		})
		sort.Strings(opts)
		fmt.Fprintf(&sb, "/-- generated from codec/dagcbor/multicodec.go `%s`: option literal of the registered codec -/\ndef registered%sOptions_src : List String := %s\n\n", fn, fn, leanStrList(opts))
	}
	return sb.String()
}

// ---------------------------------------------------------------------------------------------
// fsstore: is the key escaped before it is sharded; the order of filesystem calls of a write (C17, C18)

func callName(e ast.Expr) string {
	ce, ok := e.(*ast.CallExpr)
	if !ok {
		return ""
	}
	return selectorPath(ce.Fun)
}

func genFsstoreFacts(repo string) string {
	s := load(repo, "storage/fsstore/fsstore.go")
	var sb strings.Builder
	// (1) pathForKey: the argument handed to the sharding function
	fd := s.funcDecl("Store.pathForKey")
	escaped := false
	shardCalls := 0
	var keyParam string
	for _, f := range fd.Type.Params.List {
		for _, nm := range f.Names {
			keyParam = nm.Name
		}
	}
	reassigned := false // key = store.escapingFunc(key) seen so far
	ast.Inspect(fd.Body, func(n ast.Node) bool {
		switch x := n.(type) {
		case *ast.AssignStmt:
			if len(x.Lhs) == 1 && len(x.Rhs) == 1 {
				if id, ok := x.Lhs[0].(*ast.Ident); ok && id.Name == keyParam && strings.HasSuffix(callName(x.Rhs[0]), ".escapingFunc") {
					if ce := x.Rhs[0].(*ast.CallExpr); len(ce.Args) == 1 {
						if a, ok := ce.Args[0].(*ast.Ident); ok && a.Name == keyParam {
							reassigned = true
						}
					}
				}
			}
		case *ast.CallExpr:
			if strings.HasSuffix(selectorPath(x.Fun), ".shardingFunc") && len(x.Args) >= 1 {
				shardCalls++
				if a, ok := x.Args[0].(*ast.Ident); ok && a.Name == keyParam && reassigned {
					escaped = true
				}
				if strings.HasSuffix(callName(x.Args[0]), ".escapingFunc") {
					escaped = true
				}
			}
		}
		return true
	})
	if shardCalls != 1 {
		panic(failure{fmt.Sprintf("storage/fsstore/fsstore.go pathForKey: expected exactly one shardingFunc call, found %d", shardCalls)})
	}
	fmt.Fprintf(&sb, "/-- generated from `Store.pathForKey`: the sharding function receives the *escaped* key -/\ndef pathForKey_shards_escaped_src : Bool := %v\n\n", escaped)
	// (2) order of filesystem-relevant calls, per function, in source order
	interesting := map[string]bool{"os.OpenFile": true, "os.Rename": true, "os.Remove": true, "os.Mkdir": true, "f.Close": true, "wr.Write": true,
		"move": true, "haveDir": true, "wrCommitter": true, "store.PutStream": true, "store.pathForKey": true}
	fmt.Fprintf(&sb, "/-- generated: per function of storage/fsstore/fsstore.go, the filesystem-relevant calls in source order -/\ndef fsCalls_src : List (String × List String) := [\n")
	fns := []string{"Store.Put", "Store.PutStream", "move", "haveDir"}
	for i, fn := range fns {
		fd := s.funcDecl(fn)
		var calls []string
		ast.Inspect(fd.Body, func(n ast.Node) bool {
			if ce, ok := n.(*ast.CallExpr); ok {
				nm := selectorPath(ce.Fun)
				if interesting[nm] {
					calls = append(calls, nm)
				}
			}
			return true
		})
		comma := ","
		if i == len(fns)-1 {
			comma = ""
		}
		fmt.Fprintf(&sb, "  (%q, %s)%s\n", fn, leanStrList(calls), comma)
	}
	sb.WriteString("]\n\n")
	// (3) default escaping / sharding of InitDefaults
	idf := s.funcDecl("Store.InitDefaults")
	var args []string
	ast.Inspect(idf.Body, func(n ast.Node) bool {
		if ce, ok := n.(*ast.CallExpr); ok && strings.HasSuffix(selectorPath(ce.Fun), ".Init") {
			for _, a := range ce.Args {
				args = append(args, selectorPath(a))
			}
		}
		return true
	})
	fmt.Fprintf(&sb, "/-- generated from `Store.InitDefaults`: arguments of Init -/\ndef initDefaults_src : List String := %s\n\n", leanStrList(args))
	// (4) the write path in full: every call of Put / PutStream / move / haveDir in source order, except pure helpers.
	// Anything put between the caller's Write and the staging file (a buffer, say), or between close and rename, shows here.
	pure := map[string]bool{"fmt.Errorf": true, "filepath.Join": true, "filepath.Dir": true, "hex.EncodeToString": true, "hook": true,
		"ctx.Err": true, "os.IsExist": true, "os.IsNotExist": true, "errors.Is": true, "errors.As": true, "len": true, "string": true}
	fmt.Fprintf(&sb, "/-- generated: per function on the write path of storage/fsstore/fsstore.go, ALL calls in source order (pure helpers and the verif hook excluded) -/\ndef fsAllCalls_src : List (String × List String) := [\n")
	for i, fn := range fns {
		fd := s.funcDecl(fn)
		var calls []string
		ast.Inspect(fd.Body, func(n ast.Node) bool {
			if ce, ok := n.(*ast.CallExpr); ok {
				nm := selectorPath(ce.Fun)
				if nm == "" {
					nm = "<expr>"
				}
				if !pure[nm] {
					calls = append(calls, nm)
				}
			}
			return true
		})
		comma := ","
		if i == len(fns)-1 {
			comma = ""
		}
		fmt.Fprintf(&sb, "  (%q, %s)%s\n", fn, leanStrList(calls), comma)
	}
	sb.WriteString("]\n\n")
	// (5) how the staging file is opened, and what PutStream hands out as the writer
	ps := s.funcDecl("Store.PutStream")
	var flags []string
	var fileVar string
	opens := 0
	ast.Inspect(ps.Body, func(n ast.Node) bool {
		if as, ok := n.(*ast.AssignStmt); ok && len(as.Rhs) == 1 {
			if ce, ok := as.Rhs[0].(*ast.CallExpr); ok && selectorPath(ce.Fun) == "os.OpenFile" && len(ce.Args) == 3 {
				opens++
				var walk func(e ast.Expr)
				walk = func(e ast.Expr) {
					switch x := e.(type) {
					case *ast.BinaryExpr:
						if x.Op.String() != "|" {
							panic(failure{"storage/fsstore/fsstore.go PutStream: OpenFile flags are not a plain | of constants"})
						}
						walk(x.X)
						walk(x.Y)
					case *ast.ParenExpr:
						walk(x.X)
					default:
						flags = append(flags, selectorPath(e))
					}
				}
				walk(ce.Args[1])
				if id, ok := as.Lhs[0].(*ast.Ident); ok {
					fileVar = id.Name
				}
			}
		}
		return true
	})
	if opens != 1 {
		panic(failure{fmt.Sprintf("storage/fsstore/fsstore.go PutStream: expected exactly one os.OpenFile, found %d", opens)})
	}
	sort.Strings(flags)
	fmt.Fprintf(&sb, "/-- generated from `Store.PutStream`: the flags of the one os.OpenFile (sorted) -/\ndef stagingOpenFlags_src : List String := %s\n\n", leanStrList(flags))
	// the io.Writer results of the return statements that return a non-nil writer, relative to the opened file variable
	var writers []string
	ast.Inspect(ps.Body, func(n ast.Node) bool {
		if fl, ok := n.(*ast.FuncLit); ok {
			_ = fl
			return false // returns of the commit closure are not PutStream's
		}
		if rs, ok := n.(*ast.ReturnStmt); ok && len(rs.Results) == 3 {
			if id, ok := rs.Results[0].(*ast.Ident); ok && id.Name == "nil" {
				return true
			}
			w := selectorPath(rs.Results[0])
			if w == "" {
				w = "<expr>"
			}
			if w == fileVar {
				w = "the-opened-file"
			}
			writers = append(writers, w)
		}
		return true
	})
	fmt.Fprintf(&sb, "/-- generated from `Store.PutStream`: what is returned as the io.Writer (relative to the variable holding the opened staging file) -/\ndef putStreamWriter_src : List String := %s\n\n", leanStrList(writers))
	return sb.String()
}

// ---------------------------------------------------------------------------------------------
// traversal budgets: comparison operator, constant, test-then-decrement order (C15)

func genWalkFacts(repo string) string {
	s := load(repo, "traversal/walk.go")
	var sb strings.Builder
	for _, fn := range []struct{ name, field string }{{"Progress.checkNodeBudget", "NodeBudget"}, {"Progress.checkLinkBudget", "LinkBudget"}} {
		fd := s.funcDecl(fn.name)
		var shape []string
		ast.Inspect(fd.Body, func(n ast.Node) bool {
			switch x := n.(type) {
			case *ast.IfStmt:
				if be, ok := x.Cond.(*ast.BinaryExpr); ok && strings.HasSuffix(selectorPath(be.X), "."+fn.field) {
					shape = append(shape, "test:"+be.Op.String()+":"+selectorPath(be.Y))
					for _, st := range x.Body.List {
						if _, ok := st.(*ast.ReturnStmt); ok {
							shape = append(shape, "return-error")
						}
					}
				}
			case *ast.IncDecStmt:
				if strings.HasSuffix(selectorPath(x.X), "."+fn.field) {
					shape = append(shape, "step:"+x.Tok.String())
				}
			}
			return true
		})
		lean := strings.ReplaceAll(strings.ReplaceAll(fn.name, "Progress.", ""), ".", "_")
		fmt.Fprintf(&sb, "/-- generated from traversal/walk.go `%s`: the budget test and the decrement, in source order -/\ndef %s_src : List String := %s\n\n", fn.name, lean, leanStrList(shape))
	}
	return sb.String()
}

// ---------------------------------------------------------------------------------------------
// package-level variables and the non-init functions that write them (C19, C20)

func rootIdent(e ast.Expr) string {
	switch x := e.(type) {
	case *ast.Ident:
		return x.Name
	case *ast.SelectorExpr:
		return rootIdent(x.X)
	case *ast.IndexExpr:
		return rootIdent(x.X)
	case *ast.StarExpr:
		return rootIdent(x.X)
	case *ast.ParenExpr:
		return rootIdent(x.X)
	}
	return ""
}

func genGlobalWrites(repo string) string {
	pkgs := []string{"node/bindnode", "schema", "multicodec", "traversal", "traversal/selector", "linking", "linking/cid", "node/basicnode", "datamodel", "codec/dagcbor", "codec/dagjson", "storage/memstore"}
	var sb strings.Builder
	sb.WriteString("/-- generated: per anchored package, every package-level variable that some function other than `init` writes\n    (an assignment rooted at it, `&v` taken, or a method called on it whose name suggests mutation), with those functions -/\ndef globalWrites_src : List (String × String × List String) := [\n")
	var rows []string
	for _, pkg := range pkgs {
		dir := filepath.Join(repo, pkg)
		ents, err := os.ReadDir(dir)
		if err != nil {
			panic(failure{"cannot read " + dir})
		}
		fset := token.NewFileSet()
		var files []*ast.File
		for _, e := range ents {
			if e.IsDir() || !strings.HasSuffix(e.Name(), ".go") || strings.HasSuffix(e.Name(), "_test.go") {
				continue
			}
			f, err := parser.ParseFile(fset, filepath.Join(dir, e.Name()), nil, 0)
			if err != nil {
				panic(failure{fmt.Sprintf("cannot parse %s/%s: %v", pkg, e.Name(), err)})
			}
			files = append(files, f)
		}
		globals := map[string]bool{}
		for _, f := range files {
			for _, d := range f.Decls {
				if gd, ok := d.(*ast.GenDecl); ok && gd.Tok == token.VAR {
					for _, sp := range gd.Specs {
						for _, nm := range sp.(*ast.ValueSpec).Names {
							if nm.Name != "_" {
								globals[nm.Name] = true
							}
						}
					}
				}
			}
		}
		writers := map[string]map[string]bool{}
		note := func(g, fn string) {
			if writers[g] == nil {
				writers[g] = map[string]bool{}
			}
			writers[g][fn] = true
		}
		mutators := map[string]bool{"Accumulate": true, "Init": true, "RegisterEncoder": true, "RegisterDecoder": true, "Store": true, "Set": true, "Add": true, "Delete": true, "Reset": true, "Lock": false}
		for _, f := range files {
			for _, d := range f.Decls {
				fd, ok := d.(*ast.FuncDecl)
				if !ok || fd.Body == nil || fd.Name.Name == "init" {
					continue
				}
				fname := fd.Name.Name
				// locals shadowing globals: parameters and := definitions
				shadow := map[string]bool{}
				if fd.Type.Params != nil {
					for _, p := range fd.Type.Params.List {
						for _, nm := range p.Names {
							shadow[nm.Name] = true
						}
					}
				}
				if fd.Recv != nil {
					for _, p := range fd.Recv.List {
						for _, nm := range p.Names {
							shadow[nm.Name] = true
						}
					}
				}
				ast.Inspect(fd.Body, func(n ast.Node) bool {
					switch x := n.(type) {
					case *ast.AssignStmt:
						for _, l := range x.Lhs {
							if x.Tok == token.DEFINE {
								if id, ok := l.(*ast.Ident); ok {
									shadow[id.Name] = true
								}
								continue
							}
							if g := rootIdent(l); globals[g] && !shadow[g] {
								note(g, fname)
							}
						}
					case *ast.IncDecStmt:
						if g := rootIdent(x.X); globals[g] && !shadow[g] {
							note(g, fname)
						}
					case *ast.CallExpr:
						if se, ok := x.Fun.(*ast.SelectorExpr); ok && mutators[se.Sel.Name] {
							if g := rootIdent(se.X); globals[g] && !shadow[g] {
								note(g, fname)
							}
						}
						for _, a := range x.Args {
							if ue, ok := a.(*ast.UnaryExpr); ok && ue.Op == token.AND {
								if g := rootIdent(ue.X); globals[g] && !shadow[g] {
									note(g, fname+"(&)")
								}
							}
						}
					}
					return true
				})
			}
		}
		var gs []string
		for g := range writers {
			gs = append(gs, g)
		}
		sort.Strings(gs)
		for _, g := range gs {
			var fs []string
			for f := range writers[g] {
				fs = append(fs, f)
			}
			sort.Strings(fs)
			rows = append(rows, fmt.Sprintf("  (%q, %q, %s)", pkg, g, leanStrList(fs)))
		}
	}
	sb.WriteString(strings.Join(rows, ",\n"))
	sb.WriteString("\n]\n")
	return sb.String()
}
