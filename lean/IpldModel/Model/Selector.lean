/-
  Model of paths (`datamodel/path.go`, `pathSegment.go`) and selectors (`traversal/selector/*.go`):
  the selector AST, its compilation from a data-model spec (`Parse*`), `Interests`, `Explore`,
  `Match`.  DESIGN §5 C07/C10/C14.  Core Lean only.
-/
import IpldModel.Model.Base
import IpldModel.Model.NodeRead
namespace Ipld
namespace Sel

/-! ## Path segments -/

/-- `datamodel.PathSegment`: a string or a non-negative index.  `PathSegmentOfInt` of a negative number
    stores it in the int field, which reads as "contains a string" (the empty one): `ofInt`. -/
inductive Seg where
  | str (s : Bytes)
  | idx (i : Nat)
  deriving DecidableEq, Repr, Inhabited

def Seg.ofInt (i : Int) : Seg := if i < 0 then .str [] else .idx i.toNat

def natText (n : Nat) : Bytes := (toString n).toUTF8.toList

def Seg.toString : Seg → Bytes
  | .str s => s
  | .idx i => natText i

def digitsVal : Bytes → Option Nat
  | [] => none
  | ds => ds.foldlM (fun acc d => if 48 ≤ d.toNat ∧ d.toNat ≤ 57 then some (acc * 10 + (d.toNat - 48)) else none) 0

/-- `strconv.ParseInt(s, 10, 64)`: optional sign, decimal digits, int64 range. -/
def parseIndex (s : Bytes) : Option Int :=
  let (neg, ds) := match s with
    | 0x2d :: r => (true, r)
    | 0x2b :: r => (false, r)
    | r => (false, r)
  match digitsVal ds with
  | none => none
  | some n =>
    let v : Int := if neg then -(n : Int) else n
    if -9223372036854775808 ≤ v ∧ v ≤ 9223372036854775807 then some v else none

/-- `PathSegment.Index()` -/
def Seg.index : Seg → Option Int
  | .str s => parseIndex s
  | .idx i => some i

/-- `PathSegment.Equals` -/
def Seg.equals (a b : Seg) : Bool :=
  match a, b with
  | .idx i, .idx j => i == j
  | _, _ => a.toString == b.toString

abbrev Path := List Seg

def slashB : UInt8 := 0x2f

/-- `Path.String()` -/
def pathToString : Path → Bytes
  | [] => []
  | [s] => s.toString
  | s :: rest => s.toString ++ [slashB] ++ pathToString rest

/-- `strings.FieldsFunc(s, r == '/')` on bytes ('/' is ASCII, so splitting on the byte is splitting on the rune) -/
def splitSlash (s : Bytes) : List Bytes :=
  let rec go : Bytes → Bytes → List Bytes
    | [], cur => if cur.isEmpty then [] else [cur]
    | b :: r, cur => if b = slashB then (if cur.isEmpty then go r [] else cur :: go r []) else go r (cur ++ [b])
  go s []

/-- `ParsePath` -/
def parsePath (s : Bytes) : Path := (splitSlash s).map .str

/-- `Node.LookupBySegment` on data-model values (`none` = an error is returned) -/
def lookupBySegment (n : DM) (p : Seg) : Option DM :=
  match n with
  | .map es => (es.toList.find? (fun e => e.1 == p.toString)).map (·.2)
  | .list xs =>
    match p.index with
    | none => none
    | some i => if i < 0 then none else xs.toList[i.toNat]?
  | _ => none

/-! ## Selector AST -/

mutual
inductive S where
  | matcher (slice : Option (Int × Int))
  | all (next : S)
  | fields (fs : SFields)
  | index (i : Int) (next : S)
  | range (start stop : Int) (next : S)
  | union (ms : SList)
  | recursive (seq cur : S) (limit : Option Int) (stopAt : Option Bytes)
  | edge
  | interpretAs (adl : Bytes) (next : S)
  deriving Repr, Inhabited
inductive SList where
  | nil
  | cons (s : S) (rest : SList)
  deriving Repr, Inhabited
inductive SFields where
  | nil
  | cons (k : Bytes) (s : S) (rest : SFields)
  deriving Repr, Inhabited
end

def SList.toList : SList → List S
  | .nil => []
  | .cons s r => s :: r.toList
def SList.ofList : List S → SList
  | [] => .nil
  | s :: r => .cons s (SList.ofList r)
def SFields.toList : SFields → List (Bytes × S)
  | .nil => []
  | .cons k s r => (k, s) :: r.toList

def S.isEdge : S → Bool
  | .edge => true
  | _ => false

/-! ## Compilation (`ParseSelector` and friends) -/

def key (s : String) : Bytes := s.toUTF8.toList

def mapGet (es : DMKVs) (k : Bytes) : Option DM := (es.toList.find? (fun e => e.1 == k)).map (·.2)

def asInt64 : DM → Option Int
  | .int i => if i ≤ 9223372036854775807 then some i else none    -- AsInt of a uint above int64 errors
  | _ => none

inductive CErr where | reject | panic
  deriving DecidableEq, Repr

abbrev CR (α : Type) := Except CErr α

/-- `parseLimit` -/
def parseLimit (n : DM) : CR (Option Int) :=
  match n with
  | .map (.cons k v .nil) =>
    if k = key "depth" then (match asInt64 v with | some d => .ok (some d) | none => .error .reject)
    else if k = key "none" then .ok none
    else .error .reject
  | _ => .error .reject

/-- `ParseCondition`: only the link condition exists -/
def parseCondition (n : DM) : CR Bytes :=
  match n with
  | .map (.cons k v .nil) =>
    if k = key "/" then (match v with | .link c => .ok c | _ => .error .reject) else .error .reject
  | _ => .error .reject

/-- does the unit `ExploreRangeSize` fit: the Go code allocates `make([]PathSegment, 0, end-start)` and then
    appends every index: modelled as a cost; `rangeCap` is the repaired code's bound on the precomputed list -/
def rangeCap : Int := 1024

mutual
/-- `inRec` = number of enclosing ExploreRecursive clauses (the parent stack); returns the selector and the
    number of recursive edges found (each edge links to the *nearest* enclosing recursive clause). -/
def compile : Nat → Nat → DM → CR (S × Nat)
  | 0, _, _ => .error .reject
  | fuel + 1, inRec, n =>
    match n with
    | .map (.cons k v .nil) =>
      if k = key "f" then
        match v with
        | .map body =>
          match mapGet body (key "f>") with
          | some (.map fields) => do
            let (fs, e) ← compileFields fuel inRec fields
            pure (.fields fs, e)
          | _ => .error .reject
        | _ => .error .reject
      else if k = key "a" then
        match v with
        | .map body =>
          match mapGet body (key ">") with
          | some nx => do let (s, e) ← compile fuel inRec nx; pure (.all s, e)
          | none => .error .reject
        | _ => .error .reject
      else if k = key "i" then
        match v with
        | .map body =>
          match mapGet body (key "i") with
          | some iv =>
            match asInt64 iv with
            | some i =>
              match mapGet body (key ">") with
              | some nx => do let (s, e) ← compile fuel inRec nx; pure (.index i s, e)
              | none => .error .reject
            | none => .error .reject
          | none => .error .reject
        | _ => .error .reject
      else if k = key "r" then
        match v with
        | .map body =>
          match mapGet body (key "^") with
          | some sv =>
            match asInt64 sv with
            | some st =>
              match mapGet body (key "$") with
              | some ev =>
                match asInt64 ev with
                | some en =>
                  if st ≥ en then .error .reject else
                  match mapGet body (key ">") with
                  | some nx => do let (s, e) ← compile fuel inRec nx; pure (.range st en s, e)
                  | none => .error .reject
                | none => .error .reject
              | none => .error .reject
            | none => .error .reject
          | none => .error .reject
        | _ => .error .reject
      else if k = key "|" then
        match v with
        | .list ms => do
          let (l, e) ← compileList fuel inRec ms
          pure (.union l, e)
        | _ => .error .reject
      else if k = key "R" then
        match v with
        | .map body =>
          match mapGet body (key "l") with
          | none => .error .reject
          | some lv => do
            let limit ← parseLimit lv
            match mapGet body (key ":>") with
            | none => .error .reject
            | some sq => do
              let (s, e) ← compile fuel (inRec + 1) sq
              if e = 0 then .error .reject else
              match mapGet body (key "!") with
              | some cv => do
                let c ← parseCondition cv
                pure (.recursive s s limit (some c), 0)
              | none => pure (.recursive s s limit none, 0)
        | _ => .error .reject
      else if k = key "@" then
        match v with
        | .map _ => if inRec = 0 then .error .reject else .ok (.edge, 1)
        | _ => .error .reject
      else if k = key "~" then
        match v with
        | .map body =>
          match mapGet body (key "as"), mapGet body (key ">") with
          | some a, some nx => do
            let (s, e) ← compile fuel inRec nx
            match a with
            | .str adl => pure (.interpretAs adl s, e)
            | _ => .error .reject
          | _, _ => .error .reject
        | _ => .error .reject
      else if k = key "." then
        match v with
        | .map body =>
          match mapGet body (key "subset") with
          | some (.map sub) =>
            match mapGet sub (key "["), mapGet sub (key "]") with
            | some f, some t =>
              match asInt64 f, asInt64 t with
              | some fi, some ti => if ti ≥ 0 ∧ fi > ti then .error .reject else .ok (.matcher (some (fi, ti)), 0)
              | _, _ => .error .reject
            | _, _ => .error .reject
          | some _ => .error .reject
          | none => .ok (.matcher none, 0)
        | _ => .error .reject
      else .error .reject
    | _ => .error .reject
def compileList : Nat → Nat → DMs → CR (SList × Nat)
  | 0, _, _ => .error .reject
  | _ + 1, _, .nil => .ok (.nil, 0)
  | fuel + 1, inRec, .cons x xs => do
    let (s, e1) ← compile fuel inRec x
    let (r, e2) ← compileList fuel inRec xs
    pure (.cons s r, e1 + e2)
def compileFields : Nat → Nat → DMKVs → CR (SFields × Nat)
  | 0, _, _ => .error .reject
  | _ + 1, _, .nil => .ok (.nil, 0)
  | fuel + 1, inRec, .cons k v es => do
    let (s, e1) ← compile fuel inRec v
    let (r, e2) ← compileFields fuel inRec es
    pure (.cons k s r, e1 + e2)
end

/-- `selector.CompileSelector` -/
def compileSelector (n : DM) : CR S := (compile (2 * n.size + 2) 0 n).map (·.1)

/-! ## Interests / Explore / Match -/

/-- interest list of a range: the unrepaired code materialises every index -/
def rangeInterests (start stop : Int) : Option (List Seg) :=
  let n := stop - start
  if 0 < n ∧ n ≤ rangeCap then some ((List.range n.toNat).map fun (k : Nat) => Seg.ofInt (start + (k : Int))) else none

/-- first occurrence of every segment (compared by text, as `PathSegment.String()`) -/
def dedupSegs (l : List Seg) : List Seg :=
  l.foldl (fun acc s => if acc.any (fun t => t.toString == s.toString) then acc else acc ++ [s]) []

mutual
/-- `Interests()`: `none` = nil (iterate every child), `some l` = look these up, in this order -/
def interests : S → Option (List Seg)
  | .matcher _ => some []
  | .all _ => none
  | .fields fs => some (fieldInterests fs)
  | .index i _ => some [Seg.ofInt i]
  | .range a b _ => rangeInterests a b
  | .union ms => (unionInterests ms).map dedupSegs
  | .recursive _ cur _ _ => interests cur
  | .edge => some []
  | .interpretAs _ nx => interests nx
def fieldInterests : SFields → List Seg
  | .nil => []
  | .cons k _ r => .str k :: fieldInterests r
/-- nil if any member's are nil, else the concatenation -/
def unionInterests : SList → Option (List Seg)
  | .nil => some []
  | .cons s r =>
    match interests s, unionInterests r with
    | some a, some b => some (a ++ b)
    | _, _ => none
end

def fieldLookup : SFields → Bytes → Option S
  | .nil, _ => none
  | .cons k s r, q => match fieldLookup r q with   -- Go map: a later duplicate key would overwrite (specs have none)
      | some s' => some s'
      | none => if k = q then some s else none

mutual
def hasEdge : S → Bool
  | .edge => true
  | .union ms => hasEdgeList ms
  | _ => false
def hasEdgeList : SList → Bool
  | .nil => false
  | .cons s r => hasEdge s || hasEdgeList r
end

mutual
/-- `replaceRecursiveEdge(next, replacement)`; `none` result = nil selector -/
def replaceEdge (rep : Option S) : S → Option S
  | .edge => rep
  | .union ms =>
    match replaceEdgeList rep ms with
    | [] => none
    | [x] => some x
    | l => some (.union (SList.ofList l))
  | s => some s
def replaceEdgeList (rep : Option S) : SList → List S
  | .nil => []
  | .cons s r => match replaceEdge rep s with
    | some x => x :: replaceEdgeList rep r
    | none => replaceEdgeList rep r
end

inductive XErr where | error | panic
  deriving DecidableEq, Repr
abbrev XR (α : Type) := Except XErr α

mutual
/-- `Explore(n, p)`: the selector for the child at segment `p` (`none` = do not explore) -/
def explore : S → DM → Seg → XR (Option S)
  | .matcher _, _, _ => .ok none
  | .all nx, _, _ => .ok (some nx)
  | .fields fs, _, p => .ok (fieldLookup fs p.toString)
  | .index i nx, n, p =>
    match n with
    | .list _ =>
      match p.index, (Seg.ofInt i).index with
      | some a, some b => if a = b then .ok (some nx) else .ok none
      | _, _ => .ok none
    | _ => .ok none
  | .range a b nx, n, p =>
    match n with
    | .list _ =>
      match p.index with
      | some i => if i < a ∨ i ≥ b then .ok none else .ok (some nx)
      | none => .ok none
    | _ => .ok none
  | .union ms, n, p => do
    let rs ← exploreList ms n p
    match rs with
    | [] => pure none
    | [x] => pure (some x)
    | l => pure (some (.union (SList.ofList l)))
  | .recursive sq cur limit stopAt, n, p =>
    let stopped : XR Bool := match stopAt with
      | none => .ok false
      | some c =>
        match lookupBySegment n p with
        | none => .error .error
        | some t => .ok (match t with | .link c' => c' == c | _ => false)
    match stopped with
    | .error e => .error e
    | .ok true => .ok none
    | .ok false =>
      if cur.isEdge then .ok none else
      -- `nextSelector, _ := s.current.Explore(n, p)`: the error is dropped, a panic is not
      match explore cur n p with
      | .error .panic => .error .panic
      | .error .error => .ok none
      | .ok none => .ok none
      | .ok (some nx) =>
        if !hasEdge nx then .ok (some (.recursive sq nx limit stopAt))
        else match limit with
          | some d =>
            if d < 2 then .ok (replaceEdge none nx)
            else .ok ((replaceEdge (some sq) nx).map fun r => .recursive sq r (some (d - 1)) stopAt)
          | none => .ok ((replaceEdge (some sq) nx).map fun r => .recursive sq r none stopAt)
  | .edge, _, _ => .error .panic
  | .interpretAs _ nx, _, _ => .ok (some nx)
def exploreList : SList → DM → Seg → XR (List S)
  | .nil, _, _ => .ok []
  | .cons s r, n, p =>
    -- a bare recursive edge contributes nothing at this node (and its `Explore` is never called)
    if s.isEdge then exploreList r n p else do
    let a ← explore s n p
    let b ← exploreList r n p
    pure (match a with | some x => x :: b | none => b)
end

/-- `sliceBounds` as the model states it (the regenerated `sliceBounds_src` is proved equal to it) -/
def sliceBounds (from_ to length : Int) : Bool × Int × Int :=
  let to := if to < 0 then length + to else if length < to then length else to
  let from_ := if from_ < 0 then (if length + from_ < 0 then 0 else length + from_) else from_
  if from_ > to ∨ from_ ≥ length then (false, 0, 0) else (true, from_, to)

def sliceBytes (b : Bytes) (f t : Int) : Option Bytes :=
  match sliceBounds f t b.length with
  | (true, a, z) => some ((b.drop a.toNat).take (z.toNat - a.toNat))
  | _ => none

mutual
/-- `Match(n)`: the (possibly sliced) node when this selector selects `n` -/
def matchNode : S → DM → Option DM
  | .matcher none, n => some n
  | .matcher (some (f, t)), n =>
    match n with
    | .str s => (sliceBytes s f t).map .str
    | .bytes b => (sliceBytes b f t).map .bytes
    | _ => none
  | .union ms, n => matchList ms n
  | .recursive _ cur _ _, n => matchNode cur n
  | _, _ => none
def matchList : SList → DM → Option DM
  | .nil, _ => none
  | .cons s r, n => match matchNode s n with
    | some m => some m
    | none => matchList r n
end

end Sel
end Ipld
