/-
  Small list facts used by the heap-model proofs (`setAt`, `getD`, `take`).  Core Lean only.
-/
import IpldModel.Model.Heap
set_option linter.unusedSimpArgs false
namespace Ipld
namespace Heap

theorem getD_eq (l : List α) (i : Nat) (d : α) : l.getD i d = (l[i]?).getD d :=
  List.getD_eq_getElem?_getD

@[simp] theorem length_setAt (l : List α) (i : Nat) (x : α) : (setAt l i x).length = l.length := by
  simp [setAt]

theorem getElem?_setAt (l : List α) (i j : Nat) (x : α) :
    (setAt l i x)[j]? = if j = i ∧ i < l.length then some x else l[j]? := by
  simp only [setAt, List.getElem?_mapIdx]
  by_cases h : j = i
  · subst h
    by_cases h2 : j < l.length
    · simp [h2, List.getElem?_eq_getElem h2]
    · have : l[j]? = none := List.getElem?_eq_none (by omega)
      simp [h2, this]
  · simp only [h, false_and, if_false]
    cases l[j]? <;> simp [h]

theorem getD_setAt (l : List α) (i j : Nat) (x d : α) :
    (setAt l i x).getD j d = if j = i ∧ i < l.length then x else l.getD j d := by
  simp only [getD_eq, getElem?_setAt]
  split <;> simp

theorem getD_setAt_ne (l : List α) {i j : Nat} (x d : α) (h : j ≠ i) :
    (setAt l i x).getD j d = l.getD j d := by
  rw [getD_setAt, if_neg (fun hh => h hh.1)]

theorem getD_setAt_self (l : List α) {i : Nat} (x d : α) (h : i < l.length) :
    (setAt l i x).getD i d = x := by
  rw [getD_setAt, if_pos ⟨rfl, h⟩]

theorem setAt_of_le (l : List α) {i : Nat} (x : α) (h : l.length ≤ i) : setAt l i x = l := by
  apply List.ext_getElem?
  intro j
  rw [getElem?_setAt]
  have : ¬ (j = i ∧ i < l.length) := by omega
  simp [this]

theorem take_setAt_le (l : List α) {i n : Nat} (x : α) (h : n ≤ i) :
    (setAt l i x).take n = l.take n := by
  apply List.ext_getElem?
  intro j
  simp only [List.getElem?_take, getElem?_setAt]
  by_cases hj : j < n
  · have : ¬ (j = i ∧ i < l.length) := by omega
    simp [hj, this]
  · simp [hj]

theorem take_succ_setAt (l : List α) {i : Nat} (x : α) (h : i < l.length) :
    (setAt l i x).take (i + 1) = l.take i ++ [x] := by
  apply List.ext_getElem?
  intro j
  simp only [List.getElem?_take, getElem?_setAt, List.getElem?_append, List.length_take]
  have hm : min i l.length = i := by omega
  rw [hm]
  by_cases hj : j < i
  · have h1 : j < i + 1 := by omega
    have h2 : ¬ (j = i ∧ i < l.length) := by omega
    simp [hj, h1, h2]
  · by_cases he : j = i
    · subst he
      simp [h]
    · have h1 : ¬ j < i + 1 := by omega
      have h3 : ¬ j - i = 0 := by omega
      simp only [hj, h1, if_false]
      cases hji : j - i with
      | zero => omega
      | succ n => simp

theorem getD_append_lt (l r : List α) {i : Nat} (d : α) (h : i < l.length) :
    (l ++ r).getD i d = l.getD i d := by
  simp [getD_eq, List.getElem?_append_left h]

theorem getD_append_len (l : List α) (x d : α) : (l ++ [x]).getD l.length d = x := by
  simp [getD_eq]

theorem setAt_append_len (l : List α) (y x : α) : setAt (l ++ [y]) l.length x = l ++ [x] := by
  apply List.ext_getElem?
  intro j
  rw [getElem?_setAt]
  by_cases h : j = l.length
  · subst h; simp
  · simp only [h, false_and, if_false]
    by_cases h2 : j < l.length
    · simp [List.getElem?_append_left h2]
    · have h3 : l.length ≤ j := by omega
      rw [List.getElem?_append_right h3, List.getElem?_append_right h3]
      cases hji : j - l.length with
      | zero => omega
      | succ n => simp

theorem getD_of_le (l : List α) {i : Nat} (d : α) (h : l.length ≤ i) : l.getD i d = d := by
  simp [getD_eq, List.getElem?_eq_none h]

theorem mem_take_getD {l : List Cell} {n : Nat} {c : Cell} (h : c ∈ l.take n) :
    ∃ j, j < n ∧ j < l.length ∧ l.getD j .empty = c := by
  rw [List.mem_take_iff_getElem] at h
  obtain ⟨j, hj, rfl⟩ := h
  refine ⟨j, by omega, by omega, ?_⟩
  have : j < l.length := by omega
  simp [getD_eq, List.getElem?_eq_getElem this]

theorem take_dropLast_last (l : List α) {n : Nat} (d : α) (h1 : 0 < n) (h2 : n ≤ l.length) :
    l.take n = l.take (n - 1) ++ [l.getD (n - 1) d] := by
  apply List.ext_getElem?
  intro j
  have hm : min (n - 1) l.length = n - 1 := by omega
  simp only [List.getElem?_take, List.getElem?_append, List.length_take, hm]
  by_cases hj : j < n - 1
  · have : j < n := by omega
    simp [hj, this]
  · by_cases he : j = n - 1
    · subst he
      have h3 : n - 1 < n := by omega
      have h4 : n - 1 < l.length := by omega
      simp [h3, getD_eq, List.getElem?_eq_getElem h4]
    · have h3 : ¬ j < n := by omega
      simp only [hj, h3, if_false]
      cases hji : j - (n - 1) with
      | zero => omega
      | succ m => simp

theorem filterMap_congr' {f g : α → Option β} {l : List α} (h : ∀ x ∈ l, f x = g x) :
    l.filterMap f = l.filterMap g := by
  induction l with
  | nil => rfl
  | cons a r ih =>
    have h1 := h a (List.mem_cons_self ..)
    have h2 := ih (fun x hx => h x (List.mem_cons_of_mem _ hx))
    simp only [List.filterMap_cons, h1, h2]

theorem flatMap_congr' {f g : α → List β} {l : List α} (h : ∀ x ∈ l, f x = g x) :
    l.flatMap f = l.flatMap g := by
  induction l with
  | nil => rfl
  | cons a r ih =>
    have h1 := h a (List.mem_cons_self ..)
    have h2 := ih (fun x hx => h x (List.mem_cons_of_mem _ hx))
    simp only [List.flatMap_cons, h1, h2]

end Heap
end Ipld
