/-
  Helper lemmas about CBOR heads, big-endian bytes and the key orders.
-/
import IpldModel.Model.Cbor
import IpldModel.Spec.CanonCbor
import IpldModel.Generated.CborMarshal
namespace Ipld
namespace Cbor

theorem beBytes_length (w n : Nat) : (beBytes w n).length = w := by
  induction w with
  | zero => rfl
  | succ w ih => simp [beBytes, ih]

theorem head_length (m n : Nat) : (head m n).length = uintLength n := by
  unfold head uintLength
  split
  · rfl
  · split
    · rfl
    · split
      · simp [beBytes_length]
      · split <;> simp [beBytes_length]

theorem spec_be_eq (w n : Nat) : Spec.be w n = beBytes w n := by
  induction w with
  | zero => rfl
  | succ w ih => simp [Spec.be, beBytes, ih]

/-- The model's head is the Spec's shortest head. -/
theorem head_eq_shortest (m n : Nat) : head m n = Spec.shortestHead m n := by
  unfold head Spec.shortestHead
  simp only [spec_be_eq]
  have e1 : m * 32 = 32 * m := Nat.mul_comm _ _
  simp only [e1]
  split
  · rfl
  · split
    · rename_i h; simp [beBytes, Nat.mod_eq_of_lt h]
    · rfl

end Cbor
end Ipld

namespace Ipld
namespace Cbor
open Generated

/-- The regenerated `uintLength` (from `codec/dagcbor/marshal.go`) is the model's, on all of uint64. -/
theorem uintLength_src_eq (ii : Int) (h0 : 0 ≤ ii) (_h1 : ii < 18446744073709551616) :
    uintLength_src ii = (uintLength ii.toNat : Int) := by
  unfold uintLength_src uintLength
  simp only [decide_eq_true_eq]
  have hc : (ii.toNat : Int) = ii := Int.toNat_of_nonneg h0
  by_cases c1 : ii < 24
  · have : ii.toNat < 24 := by omega
    simp [c1, this]
  · have n1 : ¬ ii.toNat < 24 := by omega
    by_cases c2 : ii < 256
    · have : ii.toNat < 256 := by omega
      simp [c1, c2, n1, this]
    · have n2 : ¬ ii.toNat < 256 := by omega
      by_cases c3 : ii < 65536
      · have : ii.toNat < 65536 := by omega
        simp [c1, c2, c3, n1, n2, this]
      · have n3 : ¬ ii.toNat < 65536 := by omega
        by_cases c4 : ii < 4294967296
        · have : ii.toNat < 4294967296 := by omega
          simp [c1, c2, c3, c4, n1, n2, n3, this]
        · have n4 : ¬ ii.toNat < 4294967296 := by omega
          simp [c1, c2, c3, c4, n1, n2, n3, n4]

/-! ### orders -/

theorem lexLE_refl : (a : Bytes) → lexLE a a = true
  | [] => rfl
  | x :: xs => by simp [lexLE, lexLE_refl xs]

theorem lexLE_total : (a b : Bytes) → (lexLE a b || lexLE b a) = true
  | [], _ => by simp [lexLE]
  | _ :: _, [] => by simp [lexLE]
  | x :: xs, y :: ys => by
    have ih := lexLE_total xs ys
    simp only [lexLE]
    by_cases h1 : x.toNat < y.toNat
    · simp [h1]
    · by_cases h2 : y.toNat < x.toNat
      · simp [h1, h2]
      · simpa [h1, h2] using ih

theorem lexLE_trans : (a b c : Bytes) → lexLE a b = true → lexLE b c = true → lexLE a c = true
  | [], _, _, _, _ => by simp [lexLE]
  | _ :: _, [], _, h, _ => by simp [lexLE] at h
  | _ :: _, _ :: _, [], _, h => by simp [lexLE] at h
  | x :: xs, y :: ys, z :: zs, h1, h2 => by
    simp only [lexLE] at h1 h2 ⊢
    by_cases a1 : x.toNat < y.toNat
    · by_cases b1 : y.toNat < z.toNat
      · have : x.toNat < z.toNat := by omega
        simp [this]
      · by_cases b2 : z.toNat < y.toNat
        · simp [b1, b2] at h2
        · have : x.toNat < z.toNat := by omega
          simp [this]
    · by_cases a2 : y.toNat < x.toNat
      · simp [a1, a2] at h1
      · simp only [a1, a2, if_false] at h1
        by_cases b1 : y.toNat < z.toNat
        · have : x.toNat < z.toNat := by omega
          simp [this]
        · by_cases b2 : z.toNat < y.toNat
          · simp [b1, b2] at h2
          · simp only [b1, b2, if_false] at h2
            have e1 : ¬ x.toNat < z.toNat := by omega
            have e2 : ¬ z.toNat < x.toNat := by omega
            simp only [e1, e2, if_false]
            exact lexLE_trans xs ys zs h1 h2

theorem lexLE_antisymm : (a b : Bytes) → lexLE a b = true → lexLE b a = true → a = b
  | [], [], _, _ => rfl
  | [], _ :: _, _, h => by simp [lexLE] at h
  | _ :: _, [], h, _ => by simp [lexLE] at h
  | x :: xs, y :: ys, h1, h2 => by
    simp only [lexLE] at h1 h2
    by_cases a1 : x.toNat < y.toNat
    · have : ¬ y.toNat < x.toNat := by omega
      simp [a1, this] at h2
    · by_cases a2 : y.toNat < x.toNat
      · simp [a1, a2] at h1
      · simp only [a1, a2, if_false] at h1 h2
        have : x = y := by
          apply UInt8.toNat_inj.mp
          omega
        rw [this, lexLE_antisymm xs ys h1 h2]

theorem cborLE_total (a b : Bytes) : (cborLE a b || cborLE b a) = true := by
  unfold cborLE
  by_cases h1 : a.length < b.length
  · simp [h1]
  · by_cases h2 : b.length < a.length
    · simp [h1, h2]
    · simpa [h1, h2] using lexLE_total a b

theorem cborLE_trans (a b c : Bytes) : cborLE a b = true → cborLE b c = true → cborLE a c = true := by
  unfold cborLE
  intro h1 h2
  by_cases a1 : a.length < b.length
  · by_cases b1 : b.length < c.length
    · have : a.length < c.length := by omega
      simp [this]
    · by_cases b2 : c.length < b.length
      · simp [b1, b2] at h2
      · have : a.length < c.length := by omega
        simp [this]
  · by_cases a2 : b.length < a.length
    · simp [a1, a2] at h1
    · simp only [a1, a2, if_false] at h1
      by_cases b1 : b.length < c.length
      · have : a.length < c.length := by omega
        simp [this]
      · by_cases b2 : c.length < b.length
        · simp [b1, b2] at h2
        · simp only [b1, b2, if_false] at h2
          have e1 : ¬ a.length < c.length := by omega
          have e2 : ¬ c.length < a.length := by omega
          simp only [e1, e2, if_false]
          exact lexLE_trans a b c h1 h2

theorem cborLE_antisymm (a b : Bytes) : cborLE a b = true → cborLE b a = true → a = b := by
  unfold cborLE
  intro h1 h2
  by_cases a1 : a.length < b.length
  · have : ¬ b.length < a.length := by omega
    simp [a1, this] at h2
  · by_cases a2 : b.length < a.length
    · simp [a1, a2] at h1
    · simp only [a1, a2, if_false] at h1 h2
      exact lexLE_antisymm a b h1 h2

/-- Go's string `<` is the strict part of the model's bytewise order. -/
theorem strLt_eq_not_lexLE : (a b : Bytes) → strLt a b = !lexLE b a
  | [], [] => rfl
  | [], _ :: _ => rfl
  | _ :: _, [] => rfl
  | x :: xs, y :: ys => by
    simp only [strLt, lexLE]
    by_cases h1 : x.toNat < y.toNat
    · have : ¬ y.toNat < x.toNat := by omega
      simp [h1, this]
    · by_cases h2 : y.toNat < x.toNat
      · simp [h1, h2]
      · simp [h1, h2, strLt_eq_not_lexLE xs ys]

/-- The regenerated RFC 7049 comparator of `marshalMap` is the strict part of the model's `cborLE`
    (length first, then bytewise). -/
theorem cborLess_src_rfc7049_eq (a b : Bytes) :
    cborLess_src_MapSortMode_RFC7049 a b = !cborLE b a := by
  unfold cborLess_src_MapSortMode_RFC7049 cborLE goLen
  simp only [strLt_eq_not_lexLE]
  by_cases h : (a.length : Int) = b.length
  · have h' : a.length = b.length := by omega
    simp [h']
  · have h' : ¬ a.length = b.length := by omega
    simp only [beq_iff_eq, h, if_false]
    by_cases h1 : b.length < a.length
    · have : ¬ ((a.length : Int) < b.length) := by omega
      simp [h1, this]
    · have : (a.length : Int) < b.length := by omega
      have h2 : a.length < b.length := by omega
      simp [h1, this, h2]

theorem cborLess_src_lexical_eq (a b : Bytes) :
    cborLess_src_MapSortMode_Lexical a b = !lexLE b a := by
  unfold cborLess_src_MapSortMode_Lexical
  exact strLt_eq_not_lexLE a b

theorem spec_bytewiseLE_eq : (a b : Bytes) → Spec.bytewiseLE a b = lexLE a b
  | [], _ => by simp [Spec.bytewiseLE, lexLE]
  | _ :: _, [] => by simp [Spec.bytewiseLE, lexLE]
  | x :: xs, y :: ys => by simp [Spec.bytewiseLE, lexLE, spec_bytewiseLE_eq xs ys]

theorem spec_keyLE_eq (a b : Bytes) : Spec.keyLE a b = cborLE a b := by
  unfold Spec.keyLE cborLE
  rw [spec_bytewiseLE_eq]
  by_cases h1 : a.length < b.length
  · have : a.length ≠ b.length := by omega
    simp [h1, this]
  · by_cases h2 : b.length < a.length
    · have : a.length ≠ b.length := by omega
      simp [h1, h2, this]
    · have : a.length = b.length := by omega
      simp [this]

end Cbor
end Ipld
