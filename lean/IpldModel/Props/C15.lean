/-
  C15 — budgets: the walk with a node budget is a prefix of the walk without one.
  Property theorems only.
-/
import IpldModel.Lemmas.WalkBudget
import IpldModel.Lemmas.WalkBudgetGen
import IpldModel.Lemmas.WalkLinkBudget
import IpldModel.Lemmas.WalkStartAt
import IpldModel.Lemmas.WalkExamples
import IpldModel.Generated.WalkFacts
namespace Ipld.Props.C15
open Ipld Ipld.Sel Ipld.Walk

variable (cfg : Cfg) (fuel : Nat) (N : Int) (lb : Option Int) (root : DM) (s : S)

/-- Without a start-at path, the events of the walk with node budget `N` are a prefix of the events of the
    walk without a node budget; when the budgeted walk stopped on the budget it made exactly `N` visits, and
    the unbudgeted walk's next event (if any) is a visit: the cut is right before the (N+1)-th visit. -/
theorem budget_prefix (hs : cfg.startAt = []) (hN : 0 ≤ N) :
    ∃ rest, (walk cfg fuel none lb root s).events = (walk cfg fuel (some N) lb root s).events ++ rest ∧
      (rest = [] ∨ ((walk cfg fuel (some N) lb root s).outcome = .error .budgetNode ∧
        (visitsOf (walk cfg fuel (some N) lb root s).events).length = N.toNat ∧
        ∃ p m r rest', rest = .visit p m r :: rest')) := by
  obtain ⟨_, h⟩ := walk_budget_cases cfg hs fuel N hN lb root s _ _ rfl rfl
  rcases h with ⟨hr, hlen, rest, he, hx⟩ | ⟨_, he, _, _⟩
  · refine ⟨rest, he, ?_⟩
    rcases hx with ⟨h1, _⟩ | hx
    · exact Or.inl h1
    · exact Or.inr ⟨hr, hlen, hx⟩
  · exact ⟨[], by rw [he]; simp, Or.inl rfl⟩

/-- The visits of the budgeted walk are the first `N` visits of the unbudgeted walk. -/
theorem budget_visits_take (hs : cfg.startAt = []) (hN : 0 ≤ N) :
    visitsOf (walk cfg fuel (some N) lb root s).events
      = (visitsOf (walk cfg fuel none lb root s).events).take N.toNat := by
  obtain ⟨hle, h⟩ := walk_budget_cases cfg hs fuel N hN lb root s _ _ rfl rfl
  rcases h with ⟨_, hlen, rest, he, _⟩ | ⟨_, he, _, _⟩
  · rw [he, visitsOf_append, List.take_append_of_le_length (by omega), List.take_of_length_le (by omega)]
  · rw [← he, List.take_of_length_le hle]

/-- The link loads of the budgeted walk are a prefix of those of the unbudgeted walk. -/
theorem budget_loads_prefix (hs : cfg.startAt = []) (hN : 0 ≤ N) :
    loadsOf (walk cfg fuel (some N) lb root s).events <+: loadsOf (walk cfg fuel none lb root s).events := by
  obtain ⟨rest, he, _⟩ := budget_prefix cfg fuel N lb root s hs hN
  rw [he, loadsOf_append]
  exact List.prefix_append _ _

/-- The budgeted walk fails with "node budget exceeded" exactly when the unbudgeted walk makes more than `N`
    visits, or makes exactly `N` and then fails on an unregistered reifier (the budget is checked first). -/
theorem budget_exceeded_iff (hs : cfg.startAt = []) (hN : 0 ≤ N) :
    (walk cfg fuel (some N) lb root s).outcome = .error .budgetNode ↔
      (N.toNat < (visitsOf (walk cfg fuel none lb root s).events).length ∨
       (N.toNat = (visitsOf (walk cfg fuel none lb root s).events).length ∧
        (walk cfg fuel none lb root s).outcome = .error .reify)) := by
  obtain ⟨hle, h⟩ := walk_budget_cases cfg hs fuel N hN lb root s _ _ rfl rfl
  rcases h with ⟨hr, hlen, rest, he, hx⟩ | ⟨hr, he, ho, hre⟩
  · refine ⟨fun _ => ?_, fun _ => hr⟩
    rcases hx with ⟨h1, h2⟩ | ⟨p, m, r, rest', h1⟩
    · right; subst h1; rw [he]; simp [hlen, h2]
    · left; rw [he, visitsOf_append, h1, visitsOf_cons_visit, List.length_append, List.length_cons]; omega
  · refine ⟨fun h => absurd h hr, ?_⟩
    rintro (h | ⟨h1, h2⟩)
    · rw [← he] at h; omega
    · have := hre h2; omega

/-- When the unbudgeted walk succeeds: the budget is exceeded iff it makes more than `N` visits. -/
theorem budget_exceeded_iff_of_ok (hs : cfg.startAt = []) (hN : 0 ≤ N)
    (hok : (walk cfg fuel none lb root s).outcome = .ok ()) :
    (walk cfg fuel (some N) lb root s).outcome = .error .budgetNode ↔
      N.toNat < (visitsOf (walk cfg fuel none lb root s).events).length := by
  rw [budget_exceeded_iff cfg fuel N lb root s hs hN, hok]
  simp

/-- A budget that covers all visits changes nothing in what is observed… -/
theorem budget_enough_events (hs : cfg.startAt = []) (hN : 0 ≤ N)
    (h : (visitsOf (walk cfg fuel none lb root s).events).length ≤ N.toNat) :
    (walk cfg fuel (some N) lb root s).events = (walk cfg fuel none lb root s).events := by
  obtain ⟨_, h'⟩ := walk_budget_cases cfg hs fuel N hN lb root s _ _ rfl rfl
  rcases h' with ⟨_, hlen, rest, he, hx⟩ | ⟨_, he, _, _⟩
  · rcases hx with ⟨h1, _⟩ | ⟨p, m, r, rest', h1⟩
    · subst h1; rw [he]; simp
    · rw [he, visitsOf_append, h1, visitsOf_cons_visit, List.length_append, List.length_cons] at h; omega
  · exact he

/-- …nor in the outcome, unless the unbudgeted walk fails on a reifier exactly when the budget is used up. -/
theorem budget_enough_outcome (hs : cfg.startAt = []) (hN : 0 ≤ N)
    (h : (visitsOf (walk cfg fuel none lb root s).events).length ≤ N.toNat)
    (hre : (walk cfg fuel none lb root s).outcome ≠ .error .reify ∨
           (visitsOf (walk cfg fuel none lb root s).events).length < N.toNat) :
    (walk cfg fuel (some N) lb root s).outcome = (walk cfg fuel none lb root s).outcome := by
  obtain ⟨_, h'⟩ := walk_budget_cases cfg hs fuel N hN lb root s _ _ rfl rfl
  rcases h' with ⟨hr, _, _⟩ | ⟨_, _, ho, _⟩
  · have := (budget_exceeded_iff cfg fuel N lb root s hs hN).1 hr
    rcases this with h1 | ⟨h1, h2⟩
    · omega
    · rcases hre with h3 | h3
      · exact absurd h2 h3
      · omega
  · exact ho

/-! ### node budget, any configuration (start-at path included) -/

/-- Whatever the configuration: the budgeted walk's events are a prefix of the unbudgeted walk's events, and
    unless it stops on the node budget it ends exactly as the unbudgeted walk does.  The budget spent `k` is
    the number of `walkAdv` calls that passed the budget check (with a start-at path, nodes before the start
    cost budget without being visited, so the visits only bound `k` from below); stopping on the budget
    means all `N` units were spent. -/
theorem budget_prefix_general (hN : 0 ≤ N) :
    ∃ k : Nat, (walk cfg fuel (some N) lb root s).st.nodeBudget = some (N - k) ∧ (k : Int) ≤ N ∧
      (visitsOf (walk cfg fuel (some N) lb root s).events).length ≤ k ∧
      (((walk cfg fuel (some N) lb root s).outcome = .error .budgetNode ∧ (k : Int) = N ∧
          ∃ rest, (walk cfg fuel none lb root s).events = (walk cfg fuel (some N) lb root s).events ++ rest)
       ∨ ((walk cfg fuel (some N) lb root s).outcome ≠ .error .budgetNode ∧
          (walk cfg fuel (some N) lb root s).events = (walk cfg fuel none lb root s).events ∧
          (walk cfg fuel (some N) lb root s).outcome = (walk cfg fuel none lb root s).outcome)) :=
  walk_budget_gen cfg fuel N hN lb root s _ _ rfl rfl

/-! ### link budget (any configuration) -/

variable (nb : Option Int)

/-- The events of the walk with link budget `N` are a prefix of those of the walk without a link budget; when
    it stopped on the budget it made exactly `N` loads and the unbudgeted walk's next event is a load. -/
theorem link_budget_prefix (hN : 0 ≤ N) :
    ∃ rest, (walk cfg fuel nb none root s).events = (walk cfg fuel nb (some N) root s).events ++ rest ∧
      (rest = [] ∨ ((walk cfg fuel nb (some N) root s).outcome = .error .budgetLink ∧
        (loadsOf (walk cfg fuel nb (some N) root s).events).length = N.toNat ∧
        ∃ c rest', rest = .load c :: rest')) := by
  obtain ⟨_, h⟩ := walk_linkBudget_cases cfg fuel N hN nb root s _ _ rfl rfl
  rcases h with ⟨hr, hlen, c, rest, he⟩ | ⟨_, he, _⟩
  · exact ⟨_, he, Or.inr ⟨hr, hlen, c, rest, rfl⟩⟩
  · exact ⟨[], by rw [he]; simp, Or.inl rfl⟩

/-- The loads of the link-budgeted walk are the first `N` loads of the unbudgeted walk. -/
theorem link_budget_loads_take (hN : 0 ≤ N) :
    loadsOf (walk cfg fuel nb (some N) root s).events
      = (loadsOf (walk cfg fuel nb none root s).events).take N.toNat := by
  obtain ⟨hle, h⟩ := walk_linkBudget_cases cfg fuel N hN nb root s _ _ rfl rfl
  rcases h with ⟨_, hlen, c, rest, he⟩ | ⟨_, he, _⟩
  · rw [he, loadsOf_append, List.take_append_of_le_length (by omega), List.take_of_length_le (by omega)]
  · rw [← he, List.take_of_length_le hle]

/-- The link-budgeted walk fails with "link budget exceeded" exactly when the unbudgeted walk makes more than
    `N` loads; otherwise both walks are the same. -/
theorem link_budget_exceeded_iff (hN : 0 ≤ N) :
    (walk cfg fuel nb (some N) root s).outcome = .error .budgetLink ↔
      N.toNat < (loadsOf (walk cfg fuel nb none root s).events).length := by
  obtain ⟨hle, h⟩ := walk_linkBudget_cases cfg fuel N hN nb root s _ _ rfl rfl
  rcases h with ⟨hr, hlen, c, rest, he⟩ | ⟨hr, he, _⟩
  · refine ⟨fun _ => ?_, fun _ => hr⟩
    rw [he, loadsOf_append, loadsOf_cons_load, List.length_append, List.length_cons]; omega
  · refine ⟨fun h => absurd h hr, fun h => ?_⟩
    rw [← he] at h; omega

theorem link_budget_enough (hN : 0 ≤ N)
    (h : (loadsOf (walk cfg fuel nb none root s).events).length ≤ N.toNat) :
    (walk cfg fuel nb (some N) root s).events = (walk cfg fuel nb none root s).events ∧
    (walk cfg fuel nb (some N) root s).outcome = (walk cfg fuel nb none root s).outcome := by
  obtain ⟨_, h'⟩ := walk_linkBudget_cases cfg fuel N hN nb root s _ _ rfl rfl
  rcases h' with ⟨hr, _, _⟩ | ⟨_, he, ho⟩
  · have := (link_budget_exceeded_iff cfg fuel N root s nb hN).1 hr
    omega
  · exact ⟨he, ho⟩

/-! ### visit-once, skipped links -/

/-- With `LinkVisitOnlyOnce`, no link is loaded twice in one walk. -/
theorem once_each_link_at_most_once (hl : cfg.linkOnce = true) :
    (loadsOf (walk cfg fuel nb lb root s).events).Nodup :=
  walk_loads_nodup cfg hl fuel nb lb root s

/-- For a link the loader answers `SkipMe` to, exploring the child logs at most the load and no visit, and
    never fails on the store. -/
theorem skip_no_visit_under (past : Bool) (path : Path) (n : DM) (ps : Seg) (c : Bytes) (st : St)
    (hk : cfg.skip.contains c = true) :
    ((exploreChild cfg fuel past path n s ps (.link c) st).1.events = st.events ∨
     (exploreChild cfg fuel past path n s ps (.link c) st).1.events = .load c :: st.events) ∧
    (exploreChild cfg fuel past path n s ps (.link c) st).2 ≠ .error .load :=
  exploreChild_skip cfg fuel past path n s ps c st hk

/-- The store is never consulted for skipped links: changing what it holds for them changes nothing. -/
theorem skip_store_not_consulted (store' : List (Bytes × DM))
    (h : ∀ c, cfg.skip.contains c = false → storeGet store' c = storeGet cfg.store c) :
    walk { cfg with store := store' } fuel nb lb root s = walk cfg fuel nb lb root s :=
  walk_store_indep cfg store' h fuel nb lb root s

/-! ### start-at path -/

/-- Resuming at a start path (no budgets, no visit-once): if the full walk succeeds, so does the resumed one;
    its events are a sub-sequence of the full walk's events and its visits are a suffix of the full walk's
    visits.  (The events themselves are not a suffix: the link on the start path is logged as loaded although
    the block it loads is not visited.) -/
theorem startAt_resume (hl : cfg.linkOnce = false)
    (hok : (walk { cfg with startAt := [] } fuel none none root s).outcome = .ok ()) :
    (walk cfg fuel none none root s).outcome = .ok () ∧
    (walk cfg fuel none none root s).events.Sublist (walk { cfg with startAt := [] } fuel none none root s).events ∧
    visitsOf (walk cfg fuel none none root s).events <:+
      visitsOf (walk { cfg with startAt := [] } fuel none none root s).events :=
  walk_startAt cfg hl fuel root s hok

/-! ### the hypotheses are satisfiable: the example graph, explore-everything selector -/

section Examples
open Ipld.Walk.Ex

example : Ex.cfg.startAt = [] := rfl
example : (walk Ex.cfg 20 none none Ex.root selAll).outcome = .ok () := by decide +kernel
example : (visitsOf (walk Ex.cfg 20 none none Ex.root selAll).events).length = 6 := by decide +kernel
example : loadsOf (walk Ex.cfg 20 none none Ex.root selAll).events = [Ex.cid] := by decide +kernel
example : (walk Ex.cfg 20 (some 3) none Ex.root selAll).outcome = .error .budgetNode := by decide +kernel
example : (visitsOf (walk Ex.cfg 20 (some 3) none Ex.root selAll).events).map (·.1) =
    [[], [.str [0x61]], [.str [0x61], .idx 0]] := by decide +kernel
example : (walk Ex.cfg 20 (some 6) none Ex.root selAll).outcome = .ok () := by decide +kernel
/-- the reifier corner: the unbudgeted walk makes one visit and fails on the reifier; with budget 1 the
    budgeted walk reports the budget instead -/
example : (walk {} 5 none none Ex.root (.all (.interpretAs [] (.matcher none)))).outcome = .error .reify := by
  decide +kernel
example : (walk {} 5 (some 1) none Ex.root (.all (.interpretAs [] (.matcher none)))).outcome = .error .budgetNode := by
  decide +kernel

/-- link budget 0: the walk stops at the link, having visited everything before it -/
example : (walk Ex.cfg 20 none (some 0) Ex.root selAll).outcome = .error .budgetLink := by decide +kernel
example : (visitsOf (walk Ex.cfg 20 none (some 0) Ex.root selAll).events).length = 4 := by decide +kernel
/-- skipping the link: it is logged as loaded, its block is not visited, and an empty store does as well -/
example : (walk { Ex.cfg with skip := [Ex.cid] } 20 none none Ex.root selAll).outcome = .ok () := by decide +kernel
example : (visitsOf (walk { skip := [Ex.cid] } 20 none none Ex.root selAll).events).length = 4 := by decide +kernel
/-- visit-once: a root with the same link twice loads it once -/
example : loadsOf (walk { Ex.cfg with linkOnce := true } 20 none none
    (.list (.cons (.link Ex.cid) (.cons (.link Ex.cid) .nil))) selAll).events = [Ex.cid] := by decide +kernel
example : loadsOf (walk Ex.cfg 20 none none
    (.list (.cons (.link Ex.cid) (.cons (.link Ex.cid) .nil))) selAll).events = [Ex.cid, Ex.cid] := by decide +kernel
/-- with a start-at path, nodes before it cost budget without being visited: start at `l/x`, budget 2 is spent
    on the root and `l`, nothing is visited (the unbudgeted walk visits `l/x`) -/
example : (walk { Ex.cfg with startAt := [.str [0x6c], .str [0x78]] } 20 (some 2) none Ex.root selAll).outcome
    = .error .budgetNode := by decide +kernel
example : (visitsOf (walk { Ex.cfg with startAt := [.str [0x6c], .str [0x78]] } 20 (some 2) none Ex.root selAll).events).length
    = 0 := by decide +kernel
example : (visitsOf (walk { Ex.cfg with startAt := [.str [0x6c], .str [0x78]] } 20 none none Ex.root selAll).events).length
    = 1 := by decide +kernel
/-- resuming at `a/1`: the visits are the last three of the full walk's six -/
example : (visitsOf (walk { Ex.cfg with startAt := [.str [0x61], .idx 1] } 20 none none Ex.root selAll).events).map (·.1)
    = [[.str [0x61], .idx 1], [.str [0x6c]], [.str [0x6c], .str [0x78]]] := by decide +kernel
/-- resuming at `l/x`: the load of `l` is logged, the visit of the block is not (so events are a sub-sequence,
    not a suffix, of the full walk's) -/
example : (walk { Ex.cfg with startAt := [.str [0x6c], .str [0x78]] } 20 none none Ex.root selAll).events
    = [.load Ex.cid, .visit [.str [0x6c], .str [0x78]] (.str [0x68, 0x69]) .matched] := by decide +kernel
/-- `startAt_resume` needs "no visit-once": resumed at index 1 the link is loaded there, in the full walk at
    index 0 and not again -/
example : (visitsOf (walk { Ex.cfg with linkOnce := true, startAt := [.idx 1] } 20 none none
      (.list (.cons (.link Ex.cid) (.cons (.link Ex.cid) .nil))) selAll).events).map (·.1)
    = [[.idx 1], [.idx 1, .str [0x78]]] := by decide +kernel
example : (visitsOf (walk { Ex.cfg with linkOnce := true } 20 none none
      (.list (.cons (.link Ex.cid) (.cons (.link Ex.cid) .nil))) selAll).events).map (·.1)
    = [[], [.idx 0], [.idx 0, .str [0x78]]] := by decide +kernel

end Examples

end Ipld.Props.C15

namespace Ipld.Props.C15
open Ipld.Generated

/-- (T) The shape of the two budget checks re-extracted from `traversal/walk.go` on this run — test `<= 0`,
    return the budget error, otherwise decrement — is the one the model's `checkNode` / `checkLink` implement
    (test, then decrement: a budget of N admits exactly N visits / loads). -/
theorem budget_checks_src :
    checkNodeBudget_src = ["test:<=:0", "return-error", "step:--"] ∧
    checkLinkBudget_src = ["test:<=:0", "return-error", "step:--"] := by decide

end Ipld.Props.C15
