package checks

import (
	"errors"
	"fmt"
	"math"
	"strconv"
	"strings"
	"sync/atomic"

	"github.com/ipld/go-ipld-prime/datamodel"
	"github.com/ipld/go-ipld-prime/node/basicnode"
	"github.com/ipld/go-ipld-prime/schema"

	"verif/internal/core"
)

// C01 — what is built through the builder API is exactly what the node API reads back.
//
//   impl observation : node built by a random legal plan; full read; accessor class row; DeepEqual; Copy
//   (D) correspondence: plan outcome/built value vs `asm.run`; accessor row vs `node.row`; DeepEqual vs `node.eq`
//   (O) oracle        : read-back == intended tree; Length == iterator count; every lookup form on every present
//                       key/index returns the iterated child; absent probes report not-exists; inappropriate accessors
//                       return ErrWrongKind and never panic; DeepEqual == equality of abstract values; Copy reproduces.

func init() {
	core.Register(&core.Check{ID: "C01", Run: runC01, Replay: replayC01})
}

const absentKey = "\x00absent"

func clsOf(err error, isNil bool) string {
	if err == nil {
		if isNil {
			return "nil-without-error"
		}
		return "ok"
	}
	var wk datamodel.ErrWrongKind
	if errors.As(err, &wk) {
		return "wk"
	}
	var ne datamodel.ErrNotExists
	if errors.As(err, &ne) {
		return "ne"
	}
	return "other"
}

// accessorRow probes every accessor of n (absent key / index = length) and classifies the answer.
func accessorRow(n datamodel.Node) (row string) {
	var parts []string
	add := func(name string, f func() string) {
		var cls string
		func() {
			defer func() {
				if r := recover(); r != nil {
					cls = "panic"
				}
			}()
			cls = f()
		}()
		parts = append(parts, name+"="+cls)
	}
	ln := n.Length()
	idx := ln
	if idx < 0 {
		idx = 0
	}
	add("AsBool", func() string { _, err := n.AsBool(); return clsOf(err, false) })
	add("AsInt", func() string { _, err := n.AsInt(); return clsOf(err, false) })
	add("AsFloat", func() string { _, err := n.AsFloat(); return clsOf(err, false) })
	add("AsString", func() string { _, err := n.AsString(); return clsOf(err, false) })
	add("AsBytes", func() string { _, err := n.AsBytes(); return clsOf(err, false) })
	add("AsLink", func() string { _, err := n.AsLink(); return clsOf(err, false) })
	add("LookupByString", func() string { v, err := n.LookupByString(absentKey); return clsOf(err, v == nil) })
	add("LookupByIndex", func() string { v, err := n.LookupByIndex(idx); return clsOf(err, v == nil) })
	add("LookupByNode(str)", func() string { v, err := n.LookupByNode(basicnode.NewString(absentKey)); return clsOf(err, v == nil) })
	add("LookupByNode(int)", func() string { v, err := n.LookupByNode(basicnode.NewInt(idx)); return clsOf(err, v == nil) })
	add("LookupBySegment", func() string {
		seg := datamodel.PathSegmentOfString(absentKey)
		if n.Kind() == datamodel.Kind_List {
			seg = datamodel.PathSegmentOfInt(idx)
		}
		v, err := n.LookupBySegment(seg)
		return clsOf(err, v == nil)
	})
	add("MapIterator", func() string {
		if n.MapIterator() == nil {
			return "nil"
		}
		return "ok"
	})
	add("ListIterator", func() string {
		if n.ListIterator() == nil {
			return "nil"
		}
		return "ok"
	})
	add("Length", func() string {
		if ln == -1 {
			return "-1"
		}
		if ln < 0 {
			return fmt.Sprint(ln)
		}
		return "ok"
	})
	return strings.Join(parts, " ")
}

func termOf(n datamodel.Node) string {
	v, err := core.ReadNode(n)
	if err != nil {
		return "read-error:" + err.Error()
	}
	return v.Term()
}

// consistency walks the node: Length vs iterators vs every lookup form, recursively.
func consistency(n datamodel.Node, path string) string { return consistencyAt(n, path, 0) }

func consistencyAt(n datamodel.Node, path string, depth int) (problem string) {
	defer func() {
		if r := recover(); r != nil {
			problem = fmt.Sprintf("panic at %s: %v", path, r)
		}
	}()
	if depth > 5000 {
		// deeper than any tree a check builds: a node that has come to contain itself
		return "nested beyond any generated tree (cyclic?) below " + truncateStr(path, 60)
	}
	switch n.Kind() {
	case datamodel.Kind_Map:
		cnt := int64(0)
		it := n.MapIterator()
		for !it.Done() {
			k, v, err := it.Next()
			if err != nil {
				return "iterator error at " + path
			}
			cnt++
			ks, err := k.AsString()
			if err != nil {
				return "non-string key at " + path
			}
			want := termOf(v)
			for name, f := range map[string]func() (datamodel.Node, error){
				"LookupByString":                    func() (datamodel.Node, error) { return n.LookupByString(ks) },
				"LookupByNode":                      func() (datamodel.Node, error) { return n.LookupByNode(k) },
				"LookupByNode2":                     func() (datamodel.Node, error) { return n.LookupByNode(basicnode.NewString(ks)) },
				"LookupBySegment":                   func() (datamodel.Node, error) { return n.LookupBySegment(datamodel.PathSegmentOfString(ks)) },
				"LookupBySegment(ParsePathSegment)": func() (datamodel.Node, error) { return n.LookupBySegment(datamodel.ParsePathSegment(ks)) },
				"LookupBySegment(ParsePath)": func() (datamodel.Node, error) {
					if ks == "" || strings.Contains(ks, "/") {
						return n.LookupByString(ks) // not expressible as one segment of a path text
					}
					return n.LookupBySegment(datamodel.ParsePath(ks).Segments()[0])
				},
			} {
				got, err := f()
				if err != nil {
					return fmt.Sprintf("%s(%q) at %s: %v", name, ks, path, err)
				}
				if termOf(got) != want {
					return fmt.Sprintf("%s(%q) at %s returns %s, iterator yields %s", name, ks, path, termOf(got), want)
				}
			}
			if p := consistencyAt(v, path+"/"+strconv.Quote(ks), depth+1); p != "" {
				return p
			}
		}
		if _, _, err := it.Next(); err == nil {
			return "map iterator over-read returned no error at " + path
		}
		if cnt != n.Length() {
			return fmt.Sprintf("Length %d but iterator yields %d entries at %s", n.Length(), cnt, path)
		}
	case datamodel.Kind_List:
		cnt := int64(0)
		it := n.ListIterator()
		for !it.Done() {
			i, v, err := it.Next()
			if err != nil {
				return "iterator error at " + path
			}
			if i != cnt {
				return fmt.Sprintf("list iterator index %d at position %d at %s", i, cnt, path)
			}
			cnt++
			want := termOf(v)
			for name, f := range map[string]func() (datamodel.Node, error){
				"LookupByIndex":        func() (datamodel.Node, error) { return n.LookupByIndex(i) },
				"LookupBySegment(int)": func() (datamodel.Node, error) { return n.LookupBySegment(datamodel.PathSegmentOfInt(i)) },
				"LookupBySegment(str)": func() (datamodel.Node, error) {
					return n.LookupBySegment(datamodel.PathSegmentOfString(strconv.FormatInt(i, 10)))
				},
			} {
				got, err := f()
				if err != nil {
					return fmt.Sprintf("%s(%d) at %s: %v", name, i, path, err)
				}
				if termOf(got) != want {
					return fmt.Sprintf("%s(%d) at %s returns %s, iterator yields %s", name, i, path, termOf(got), want)
				}
			}
			if p := consistencyAt(v, fmt.Sprintf("%s/%d", path, i), depth+1); p != "" {
				return p
			}
		}
		if cnt != n.Length() {
			return fmt.Sprintf("Length %d but iterator yields %d entries at %s", n.Length(), cnt, path)
		}
		if _, err := n.LookupByIndex(-1); err == nil {
			return "LookupByIndex(-1) succeeded at " + path
		}
	}
	return ""
}

// valEq: equality of abstract values with Go float == (the Spec side of DeepEqual).
func valEq(a, b core.Val) bool {
	if a.K != b.K {
		// booleans are 't'/'f'
		return false
	}
	switch a.K {
	case 'n', 't', 'f':
		return true
	case 'i':
		return a.Neg == b.Neg && a.Mag == b.Mag
	case 'd':
		return math.Float64frombits(a.F) == math.Float64frombits(b.F)
	case 's', 'b', 'l':
		return string(a.S) == string(b.S)
	case '[':
		if len(a.L) != len(b.L) {
			return false
		}
		for i := range a.L {
			if !valEq(a.L[i], b.L[i]) {
				return false
			}
		}
		return true
	case '{':
		if len(a.M) != len(b.M) {
			return false
		}
		for i := range a.M {
			if string(a.M[i].K) != string(b.M[i].K) || !valEq(a.M[i].V, b.M[i].V) {
				return false
			}
		}
		return true
	}
	return false
}

// mutateVal returns a value that differs from v in one place (or v itself).
func mutateVal(v core.Val, r *core.Rand) core.Val {
	switch v.K {
	case '[':
		out := core.Val{K: '[', L: append([]core.Val{}, v.L...)}
		if len(out.L) == 0 || r.Chance(1, 4) {
			if r.Bool() {
				out.L = append(out.L, core.Null())
			} else if len(out.L) > 0 {
				out.L = out.L[:len(out.L)-1]
			}
			return out
		}
		i := r.Intn(len(out.L))
		out.L[i] = mutateVal(out.L[i], r)
		return out
	case '{':
		out := core.Val{K: '{', M: append([]core.KV{}, v.M...)}
		if len(out.M) == 0 {
			out.M = append(out.M, core.KV{K: []byte("zz"), V: core.Null()})
			return out
		}
		i := r.Intn(len(out.M))
		switch r.Intn(4) {
		case 0:
			if len(out.M) >= 2 { // same entries, different order
				j := (i + 1) % len(out.M)
				out.M[i], out.M[j] = out.M[j], out.M[i]
				return out
			}
			fallthrough
		case 1:
			nk := append(append([]byte{}, out.M[i].K...), 'q')
			for clash := true; clash; {
				clash = false
				for _, e := range out.M {
					if string(e.K) == string(nk) {
						clash = true
						nk = append(nk, 'q')
					}
				}
			}
			out.M[i] = core.KV{K: nk, V: out.M[i].V}
		default:
			out.M[i] = core.KV{K: out.M[i].K, V: mutateVal(out.M[i].V, r)}
		}
		return out
	case 'd':
		switch r.Intn(3) {
		case 0:
			return core.FloatBits(v.F ^ (1 << 63)) // sign flip: +0/-0 are == in Go
		case 1:
			return core.Int(1)
		}
		return core.FloatBits(v.F ^ 1)
	case 'i':
		if r.Bool() {
			m := core.Val{K: 'i', Neg: v.Neg, Mag: v.Mag ^ 1}
			if m.Neg && (m.Mag == 0 || m.Mag > 1<<63) {
				m.Neg = false
			}
			return m
		}
		return core.Float(1)
	case 's':
		if r.Bool() {
			return core.Bytes(v.S)
		}
		return core.Val{K: 's', S: append(append([]byte{}, v.S...), 0)}
	case 'b':
		return core.Val{K: 's', S: v.S}
	case 't':
		return core.Bool(false)
	case 'f':
		return core.Bool(true)
	case 'n':
		return core.Bool(false)
	}
	return core.Null()
}

func c01Batch(c *core.Ctx, vals []core.Val) error {
	// lines: plan run (the history used), accessor rows for the root and one random subnode, eq pair
	type cse struct {
		v, w core.Val
		ops  []core.AsmOp
		sub  core.Val
		r    *core.Rand
		line string
	}
	cases := make([]cse, len(vals))
	var lines []string
	for i, v := range vals {
		r := c.Rand.Fork()
		ops := core.GenHistory(v, r, false, true)
		w := v
		if r.Chance(2, 3) {
			w = mutateVal(v, r)
		}
		sub := v
		for sub.K == '[' && len(sub.L) > 0 || sub.K == '{' && len(sub.M) > 0 {
			if r.Chance(1, 3) {
				break
			}
			if sub.K == '[' {
				sub = sub.L[r.Intn(len(sub.L))]
			} else {
				sub = sub.M[r.Intn(len(sub.M))].V
			}
		}
		cases[i] = cse{v: v, w: w, ops: ops, sub: sub, r: r, line: "asm.run any " + core.OpsLine(ops)}
		lines = append(lines, cases[i].line, "node.row "+v.Term(), "node.row "+sub.Term(), "node.eq "+v.Term()+" "+w.Term())
	}
	outs, err := core.RunDriver(lines)
	if err != nil {
		return err
	}
	for i, cs := range cases {
		mRun, mRow, mSubRow, mEq := outs[4*i], outs[4*i+1], outs[4*i+2], outs[4*i+3]
		c.Count(cs.line, cs.v.Size() >= 3)
		c.Trace(1)
		c.Dist(fmt.Sprintf("size<=%d", bucket(cs.v.Size())))
		if i < 2 {
			c.Sample(map[string]string{"case": cs.line, "model": mRun})
		}
		rr := cs.r
		io, final := core.RunOps(basicnode.Prototype.Any.NewBuilder(), cs.ops, func(v core.Val) (datamodel.Node, error) { return buildVariant(v, rr) })
		impl := strings.Join(io, " ") + " | " + final
		want := "built " + cs.v.Term()
		if final != want {
			c.Fail("C01/readback-differs", core.Replay{Kind: "oracle", Case: cs.line, Impl: impl, Expected: want})
			continue
		}
		if impl != mRun {
			c.Fail("C01/corr-plan", core.Replay{Kind: "correspondence", Case: cs.line, Impl: impl, Model: mRun})
		}
		// rebuild to get the node itself (RunOps reads it into a term)
		n, err := buildVariant(cs.v, rr)
		if err != nil {
			return err
		}
		if p := consistency(n, ""); p != "" {
			c.Fail("C01/accessors-disagree", core.Replay{Kind: "oracle", Case: "node.row " + cs.v.Term(), Impl: p, Detail: "Length / iterators / lookup forms disagree"})
		}
		if row := accessorRow(n); row != mRow {
			sig := "C01/corr-accessor-row"
			if strings.Contains(row, "panic") {
				sig = "C01/accessor-panics"
			}
			c.Fail(sig, core.Replay{Kind: "correspondence", Case: "node.row " + cs.v.Term(), Impl: row, Model: mRow})
		}
		if sn, err := buildVariant(cs.sub, rr); err == nil {
			if row := accessorRow(sn); row != mSubRow {
				sig := "C01/corr-accessor-row"
				if strings.Contains(row, "panic") {
					sig = "C01/accessor-panics"
				}
				c.Fail(sig, core.Replay{Kind: "correspondence", Case: "node.row " + cs.sub.Term(), Impl: row, Model: mSubRow})
			}
		}
		// DeepEqual across plans / prototypes
		m, err := buildVariant(cs.w, rr)
		if err != nil {
			return err
		}
		eqCase := "node.eq " + cs.v.Term() + " " + cs.w.Term()
		var got string
		func() {
			defer func() {
				if r := recover(); r != nil {
					got = fmt.Sprintf("panic %v", r)
				}
			}()
			got = fmt.Sprint(datamodel.DeepEqual(n, m))
		}()
		wantEq := fmt.Sprint(valEq(cs.v, cs.w))
		if got != wantEq {
			sig := "C01/deepequal-wrong"
			if strings.HasPrefix(got, "panic") && (containsBigUint(cs.v) || containsBigUint(cs.w)) {
				sig = "C01/deepequal-uint-above-int64"
			}
			c.Fail(sig, core.Replay{Kind: "oracle", Case: eqCase, Impl: got, Expected: wantEq})
		} else if got != mEq {
			c.Fail("C01/corr-deepequal", core.Replay{Kind: "correspondence", Case: eqCase, Impl: got, Model: mEq})
		}
		// Copy into a fresh builder of another prototype family
		nb := basicnode.Prototype.Any.NewBuilder()
		var cp string
		func() {
			defer func() {
				if r := recover(); r != nil {
					cp = fmt.Sprintf("panic %v", r)
				}
			}()
			if err := datamodel.Copy(n, nb); err != nil {
				cp = "err " + err.Error()
				return
			}
			cp = termOf(nb.Build())
		}()
		if cp != cs.v.Term() {
			sig := "C01/copy-differs"
			if containsBigUint(cs.v) && strings.HasPrefix(cp, "err") {
				sig = "C01/copy-uint-above-int64"
			}
			c.Fail(sig, core.Replay{Kind: "oracle", Case: "node.copy " + cs.v.Term(), Impl: cp, Expected: cs.v.Term()})
		}
	}
	return nil
}

// buildVariant builds v with a random generic prototype able to hold it (Any, or Map/List/scalar prototype at
// the root) and a random plan.
func buildVariant(v core.Val, r *core.Rand) (datamodel.Node, error) {
	var nb datamodel.NodeBuilder
	if r == nil || r.Chance(1, 2) {
		nb = basicnode.Prototype.Any.NewBuilder()
	} else {
		p := kindToken(v)
		if v.K == 'i' {
			if _, ok := v.Int64(); !ok {
				p = "any"
			}
		}
		nb = protoBuilder(p)
		if nb == nil {
			nb = basicnode.Prototype.Any.NewBuilder()
		}
	}
	if err := core.Assemble(nb, v, r); err != nil {
		return nil, err
	}
	if r != nil && r.Chance(1, 4) {
		// the same data as a node of another implementation: AssignNode of it takes every builder's generic path
		return core.Foreign(nb.Build()), nil
	}
	return nb.Build(), nil
}

func runC01(c *core.Ctx) error {
	c.Rule = "generated trees over all nine kinds (boundary ints incl. uint64 above int64, arbitrary-byte strings/keys, empty and nested containers), built by a random legal plan with basicnode Any/Map/List/scalar prototypes; non-trivial = tree of at least 3 nodes; distinct by history"
	c.Explanation = "theorems: plan_builds (+ variants), lookup_agree, read-side wrong-kind totality, deepEqual_iff; oracle: full read, lookup/iterator/length consistency, DeepEqual vs abstract equality, Copy"
	c.Assumptions = []string{"typed implementations (bindnode, generated code) are exercised within their schema's value space by C08/C13", "node/mixins error values classified with errors.As on exported types"}
	// known-finding witnesses
	func() {
		defer func() {
			r := recover()
			c.KnownWitness("C01/deepequal-uint-above-int64", r != nil, "DeepEqual(NewUint(1<<63), NewUint(1<<63)) panics")
		}()
		datamodel.DeepEqual(basicnode.NewUint(1<<63), basicnode.NewUint(1<<63))
	}()
	{
		nb := basicnode.Prototype.Any.NewBuilder()
		err := datamodel.Copy(basicnode.NewUint(1<<63), nb)
		c.KnownWitness("C01/copy-uint-above-int64", err != nil, "Copy(NewUint(1<<63), builder) errors")
	}
	n := c.Pick(4000, 300000)
	cfg := core.DefaultGen
	cfg.NonFinite = true
	for done := 0; done < n; {
		k := min(10000, n-done)
		vals := make([]core.Val, k)
		for i := range vals {
			vals[i] = core.GenVal(c.Rand, cfg, 0)
		}
		if err := c01Batch(c, vals); err != nil {
			return err
		}
		done += k
	}
	c01Typed(c, c.Rand.Fork(), c.Pick(1500, 100000))
	// every integer of small magnitude assigned as a list element, a map value and a top-level value reads back as itself
	// (exhaustive over a range where an implementation might keep a table of preallocated values)
	{
		lim, bad := int64(c.Pick(70000, 1<<21)), 0
		for i := -lim; i <= lim && bad < 5; i++ {
			nbl := basicnode.Prototype.List.NewBuilder()
			la, _ := nbl.BeginList(1)
			la.AssembleValue().AssignInt(i)
			la.Finish()
			nbm := basicnode.Prototype.Map.NewBuilder()
			ma, _ := nbm.BeginMap(1)
			va, _ := ma.AssembleEntry("k")
			va.AssignInt(i)
			ma.Finish()
			nba := basicnode.Prototype.Any.NewBuilder()
			nba.AssignInt(i)
			e1, _ := nbl.Build().LookupByIndex(0)
			e2, _ := nbm.Build().LookupByString("k")
			for shape, n := range map[string]datamodel.Node{"list element": e1, "map value": e2, "top": nba.Build(), "NewInt": basicnode.NewInt(i)} {
				if got, err := n.AsInt(); err != nil || got != i {
					c.Fail("C01/read-differs-from-assembled", core.Replay{Kind: "oracle", Case: fmt.Sprintf("c01.small-int %d as %s", i, shape), Impl: fmt.Sprint(got, err), Expected: fmt.Sprint(i)})
					bad++
				}
			}
		}
		c.Dist("small-ints-exhaustive")
	}
	return nil
}

func replayC01(c *core.Ctx, rp core.Replay) error {
	f := strings.Fields(rp.Case)
	if len(f) < 2 {
		return fmt.Errorf("bad case")
	}
	switch f[0] {
	case "node.row", "node.copy":
		v, err := core.ParseTermString(strings.Join(f[1:], " "))
		if err != nil {
			return err
		}
		return c01Batch(c, []core.Val{v})
	case "node.eq":
		a, rest, err := core.ParseTerm(f[1:])
		if err != nil {
			return err
		}
		b, _, err := core.ParseTerm(rest)
		if err != nil {
			return err
		}
		n, _ := core.BuildBasic(a, nil)
		m, _ := core.BuildBasic(b, nil)
		var got string
		func() {
			defer func() {
				if r := recover(); r != nil {
					got = fmt.Sprintf("panic %v", r)
				}
			}()
			got = fmt.Sprint(datamodel.DeepEqual(n, m))
		}()
		if got != fmt.Sprint(valEq(a, b)) {
			c.Fail("C01/deepequal-wrong", core.Replay{Kind: "oracle", Case: rp.Case, Impl: got, Expected: fmt.Sprint(valEq(a, b))})
		}
		return nil
	case "asm.run":
		return replayC12(c, rp)
	}
	return fmt.Errorf("unknown case")
}

// c01Typed: the read side of the node API over typed nodes (reflection binding; inferred and caller-supplied Go types),
// within their schema's value space, at the type-level view and at the representation view: length, both iterators and
// every lookup form agree; kind-inappropriate accessors answer errors, never panics; Copy into a generic builder and
// DeepEqual against that copy agree with equality of the abstract values.
func c01Typed(c *core.Ctx, r *core.Rand, n int) {
	cfg := core.DefaultSchemaCfg
	cfg.NullableDispatchUnion, cfg.KindedIntEnum, cfg.UnionAnyMember, cfg.EnumEmptyRename = 8, 8, 4, 0
	cfg.TupleLooseOptional = 0 // known finding C08/bindnode-tuple-absent-before-present-field
	for i := 0; i < n; i++ {
		sc, err := genSchemaCase(r, cfg)
		if i%40 == 7 {
			// a wide struct, beyond one machine word of per-field bookkeeping (required fields up to the last one)
			w := &core.SType{K: "struct", Name: fmt.Sprintf("C01W%d", atomic.AddUint64(&c12WideCounter, 1)), SRepr: "map"}
			for f := 0; f < []int{63, 64, 65, 70, 129}[r.Intn(5)]; f++ {
				fn := fmt.Sprintf("f%d", f)
				w.Fields = append(w.Fields, core.SField{Name: fn, Rename: fn, T: &core.SType{K: []string{"int", "str", "bool"}[r.Intn(3)], Name: fmt.Sprintf("C01W%d", atomic.AddUint64(&c12WideCounter, 1))}})
			}
			sc, err = newSchemaCase(w)
			c.Dist("typed:wide-struct")
		}
		if err != nil {
			continue
		}
		tv := core.GenInhabitant(sc.T, r, cfg, false)
		ob := feed(sc, "type", "direct", core.TypeInput(tv), nil)
		if ob.Outcome != "accepted" {
			if len(sc.T.Fields) > 60 {
				c.Fail("C01/typed-value-not-built", core.Replay{Kind: "oracle", Case: "c01.typed type " + sc.Eng.Name() + " " + truncateStr(sc.Ty, 300) + " VAL " + truncateStr(tv.Term(), 300), Impl: ob.Outcome + " " + ob.Detail, Expected: "built",
					Detail: "an inhabitant of a wide struct (every field supplied, by a legal call sequence) is refused"})
			}
			continue // acceptance is C09's business
		}
		tn, ok := ob.Node.(schema.TypedNode)
		if !ok {
			continue
		}
		for _, view := range []struct {
			name string
			n    datamodel.Node
		}{{"type", tn}, {"repr", tn.Representation()}} {
			caseID := "c01.typed " + view.name + " " + sc.Eng.Name() + " " + sc.Ty + " VAL " + tv.Term()
			fail := func(sig, impl, want, detail string) {
				c.Fail(sig, core.Replay{Kind: "oracle", Case: caseID, Impl: impl, Expected: want, Detail: detail})
			}
			v, rerr := readNodeSafe(view.n)
			if rerr != nil {
				fail("C01/typed-node-unreadable", rerr.Error(), "", "full read of the "+view.name+" view fails")
				continue
			}
			c.Count(caseID, v.Size() >= 3)
			c.Dist("typed-view:" + view.name)
			if p := consistency(view.n, ""); p != "" {
				fail("C01/lookup-iterator-length-disagree", p, "", "typed node, "+view.name+" view")
			}
			if row := accessorRow(view.n); strings.Contains(row, "panic") {
				fail("C01/accessor-panics", row, "wrong-kind errors", "typed node, "+view.name+" view")
			}
			if strings.Contains(" "+v.Term()+" ", " a ") {
				continue // absent entries have no generic counterpart to copy to
			}
			nb := basicnode.Prototype.Any.NewBuilder()
			var cerr error
			func() {
				defer func() {
					if x := recover(); x != nil {
						cerr = fmt.Errorf("panic %v", x)
					}
				}()
				cerr = datamodel.Copy(view.n, nb)
			}()
			if cerr != nil {
				fail("C01/copy-differs", cerr.Error(), v.Term(), "Copy of the "+view.name+" view into a generic builder fails")
				continue
			}
			cp := nb.Build()
			if got := termOf(cp); got != v.Term() {
				fail("C01/copy-differs", got, v.Term(), "Copy of the "+view.name+" view")
			}
			eq := func(a, b datamodel.Node) (res string) {
				defer func() {
					if x := recover(); x != nil {
						res = fmt.Sprintf("panic %v", x)
					}
				}()
				return fmt.Sprint(datamodel.DeepEqual(a, b))
			}
			if e1, e2 := eq(view.n, cp), eq(cp, view.n); e1 != "true" || e2 != "true" {
				fail("C01/deepequal-wrong", e1+"/"+e2, "true", "DeepEqual(typed "+view.name+" view, generic copy)")
			}
			if mv := mutateVal(v, r); !valEq(mv, v) {
				if mn, err := core.BuildBasic(mv, nil); err == nil {
					if e1, e2 := eq(view.n, mn), eq(mn, view.n); e1 != "false" || e2 != "false" {
						fail("C01/deepequal-wrong", e1+"/"+e2, "false", "DeepEqual(typed "+view.name+" view, "+mv.Term()+")")
					}
				}
			}
		}
	}
}
